/-
Helper lemmas for C12 (field ranges).
-/
import SkimModel.Spec.Field
namespace SkimModel.Field
open Spec

set_option linter.unusedSimpArgs false

theorem filter_range'_interval (k a b : Nat) (p : Nat → Bool) (hab : a ≤ b) (hbk : b ≤ k)
    (hp : ∀ i, 1 ≤ i → i ≤ k → (p i = true ↔ a + 1 ≤ i ∧ i ≤ b)) :
    (List.range' 1 k).filter p = List.range' (a + 1) (b - a) := by
  have h1 : List.range' 1 k = List.range' 1 a ++ (List.range' (a + 1) (b - a) ++ List.range' (b + 1) (k - b)) := by
    have e1 : b + 1 = (a + 1) + (b - a) := by omega
    have e2 : a + 1 = 1 + a := by omega
    rw [e1, List.range'_append_1, e2, List.range'_append_1]
    congr 1; omega
  rw [h1, List.filter_append, List.filter_append]
  have e1 : (List.range' 1 a).filter p = [] := by
    rw [List.filter_eq_nil_iff]
    intro i hi
    simp [List.mem_range'_1] at hi
    have := hp i (by omega) (by omega)
    intro hpi; have := this.mp hpi; omega
  have e3 : (List.range' (b + 1) (k - b)).filter p = [] := by
    rw [List.filter_eq_nil_iff]
    intro i hi
    simp [List.mem_range'_1] at hi
    have := hp i (by omega) (by omega)
    intro hpi; have := this.mp hpi; omega
  have e2 : (List.range' (a + 1) (b - a)).filter p = List.range' (a + 1) (b - a) := by
    rw [List.filter_eq_self]
    intro i hi
    simp [List.mem_range'_1] at hi
    exact (hp i (by omega) (by omega)).mpr (by omega)
  rw [e1, e2, e3]; simp

theorem translateNeg_eq (n : Int) (k : Nat) : ((translateNeg n k : Nat) : Int) = max 0 (tr n k) := by
  unfold translateNeg tr
  simp only []
  omega

theorem index_pair_spec (r : FieldRange) (k : Nat) :
    match toIndexPair r k with
    | none => sel r k = []
    | some (a, b) => a < b ∧ b ≤ k ∧ sel r k = List.range' (a + 1) (b - a) := by
  cases r with
  | single n =>
    have ht := translateNeg_eq n k
    simp only [toIndexPair]
    generalize translateNeg n k = t at *
    unfold sel
    by_cases hc : (t == 0 || t > k) = true
    · rw [if_pos hc]
      simp only [Bool.or_eq_true, beq_iff_eq, decide_eq_true_eq] at hc
      simp only []
      rw [filter_range'_interval k 0 0 _ (by omega) (by omega)]
      · simp
      · intro i h1 h2
        simp only [inRange, decide_eq_true_eq]
        omega
    · rw [if_neg hc]
      simp only [Bool.or_eq_true, beq_iff_eq, decide_eq_true_eq] at hc
      simp only []
      refine ⟨by omega, by omega, ?_⟩
      rw [filter_range'_interval k (t-1) t _ (by omega) (by omega)]
      · intro i h1 h2
        simp only [inRange, decide_eq_true_eq]
        omega
  | leftInf n =>
    have ht := translateNeg_eq n k
    simp only [toIndexPair]
    generalize translateNeg n k = t at *
    unfold sel
    by_cases hc : (k == 0 || t == 0) = true
    · rw [if_pos hc]
      simp only [Bool.or_eq_true, beq_iff_eq, decide_eq_true_eq] at hc
      simp only []
      rw [filter_range'_interval k 0 0 _ (by omega) (by omega)]
      · simp
      · intro i h1 h2
        simp only [inRange, decide_eq_true_eq]
        omega
    · rw [if_neg hc]
      simp only [Bool.or_eq_true, beq_iff_eq, decide_eq_true_eq] at hc
      simp only []
      refine ⟨by omega, by omega, ?_⟩
      rw [filter_range'_interval k 0 (min t k) _ (by omega) (by omega)]
      · intro i h1 h2
        simp only [inRange, decide_eq_true_eq]
        omega
  | rightInf n =>
    have ht := translateNeg_eq n k
    simp only [toIndexPair]
    generalize translateNeg n k = t at *
    unfold sel
    by_cases hc : (k == 0 || decide (t > k)) = true
    · rw [if_pos hc]
      simp only [Bool.or_eq_true, beq_iff_eq, decide_eq_true_eq] at hc
      simp only []
      rw [filter_range'_interval k 0 0 _ (by omega) (by omega)]
      · simp
      · intro i h1 h2
        simp only [inRange, decide_eq_true_eq]
        omega
    · rw [if_neg hc]
      simp only [Bool.or_eq_true, beq_iff_eq, decide_eq_true_eq] at hc
      simp only []
      refine ⟨by omega, by omega, ?_⟩
      rw [filter_range'_interval k (max t 1 - 1) k _ (by omega) (by omega)]
      · intro i h1 h2
        simp only [inRange, decide_eq_true_eq]
        omega
  | both l r =>
    have hl := translateNeg_eq l k
    have hr := translateNeg_eq r k
    simp only [toIndexPair]
    generalize translateNeg l k = tl at *
    generalize translateNeg r k = tr' at *
    unfold sel
    by_cases hc : (k == 0 || tr' == 0 || decide (tl > tr') || decide (tl > k)) = true
    · rw [if_pos hc]
      simp only [Bool.or_eq_true, beq_iff_eq, decide_eq_true_eq] at hc
      simp only []
      rw [filter_range'_interval k 0 0 _ (by omega) (by omega)]
      · simp
      · intro i h1 h2
        simp only [inRange, decide_eq_true_eq]
        omega
    · rw [if_neg hc]
      simp only [Bool.or_eq_true, beq_iff_eq, decide_eq_true_eq] at hc
      simp only []
      refine ⟨by omega, by omega, ?_⟩
      rw [filter_range'_interval k (max tl 1 - 1) (min tr' k) _ (by omega) (by omega)]
      · intro i h1 h2
        simp only [inRange, decide_eq_true_eq]
        omega
/-- 0-based helpers: start of field j (with the scan variable `last`), its end, end of its delimiter -/
def S (last : Nat) (ms : List (Nat × Nat)) : Nat → Nat
  | 0 => last
  | j + 1 => (ms[j]?.map (·.2)).getD 0
def E (ms : List (Nat × Nat)) (len : Nat) (j : Nat) : Nat := (ms[j]?.map (·.1)).getD len
def D (ms : List (Nat × Nat)) (len : Nat) (j : Nat) : Nat := (ms[j]?.map (·.2)).getD len

theorem fieldStart_succ (ms : List (Nat × Nat)) (j : Nat) : fieldStart ms (j + 1) = S 0 ms j := by
  cases j with
  | zero => simp [fieldStart, S]
  | succ j => simp [fieldStart, S]
theorem fieldEnd_succ (ms : List (Nat × Nat)) (len j : Nat) : fieldEnd ms len (j + 1) = E ms len j := by
  simp [fieldEnd, E]
theorem delimEnd_succ (ms : List (Nat × Nat)) (len j : Nat) : delimEnd ms len (j + 1) = D ms len j := by
  simp [delimEnd, D]

theorem S_succ_eq_D (last : Nat) (ms : List (Nat × Nat)) (len j : Nat) (h : j < ms.length) :
    S last ms (j + 1) = D ms len j := by
  simp [S, D, List.getElem?_eq_getElem h]

theorem D_last (ms : List (Nat × Nat)) (len j : Nat) (h : ms.length ≤ j) : D ms len j = len := by
  simp [D, List.getElem?_eq_none h]
theorem E_last (ms : List (Nat × Nat)) (len j : Nat) (h : ms.length ≤ j) : E ms len j = len := by
  simp [E, List.getElem?_eq_none h]

theorem rangesGo_length (last len : Nat) (ms : List (Nat × Nat)) :
    (rangesGo last len ms).length = ms.length + 1 := by
  induction ms generalizing last with
  | nil => simp [rangesGo]
  | cons m t ih => obtain ⟨s, e⟩ := m; simp [rangesGo, ih]

theorem rangesGo_getElem? (len : Nat) (ms : List (Nat × Nat)) (last j : Nat) :
    (rangesGo last len ms)[j]? = if j ≤ ms.length then some (S last ms j, E ms len j) else none := by
  induction ms generalizing last j with
  | nil =>
    cases j with
    | zero => simp [rangesGo, S, E]
    | succ j => simp [rangesGo]
  | cons m t ih =>
    obtain ⟨s, e⟩ := m
    cases j with
    | zero => simp [rangesGo, S, E]
    | succ j =>
      simp only [rangesGo, List.getElem?_cons_succ, ih, List.length_cons, Nat.add_le_add_iff_right]
      split
      · congr 2
        · cases j <;> simp [S]
      · rfl

theorem isBoundary_len (x : Bytes) : isBoundary x x.length = true := by simp [isBoundary]
theorem isBoundary_zero (x : Bytes) : isBoundary x 0 = true := by simp [isBoundary]

theorem ok_facts (x : Bytes) (ms : List (Nat × Nat)) (last : Nat) (h : okFrom x last ms = true)
    (j : Nat) (hj : j ≤ ms.length) :
    S last ms j ≤ E ms x.length j ∧ E ms x.length j ≤ D ms x.length j ∧ D ms x.length j ≤ x.length ∧
    isBoundary x (E ms x.length j) = true ∧ isBoundary x (D ms x.length j) = true := by
  induction ms generalizing last j with
  | nil =>
    simp [okFrom] at h
    cases j with
    | zero => simp [S, E, D, h, isBoundary_len]
    | succ j => simp at hj
  | cons m t ih =>
    obtain ⟨s, e⟩ := m
    simp only [okFrom, Bool.and_eq_true, decide_eq_true_eq] at h
    obtain ⟨⟨⟨⟨⟨h1, h2⟩, h3⟩, h4⟩, h5⟩, h6⟩ := h
    cases j with
    | zero => simp [S, E, D, *]
    | succ j =>
      have := ih e h6 j (by simpa using hj)
      have hs : S last ((s, e) :: t) (j + 1) = S e t j := by cases j <;> simp [S]
      simp only [hs]
      simpa [E, D] using this
theorem sub_append (x : Bytes) (p q r : Nat) (h1 : p ≤ q) (h2 : q ≤ r) :
    sub x p q ++ sub x q r = sub x p r := by
  unfold sub
  have e1 : r - p = (q - p) + (r - q) := by omega
  have e2 : List.drop q x = List.drop (q - p) (List.drop p x) := by
    rw [List.drop_drop]; congr 1; omega
  rw [e1, List.take_add, e2]

theorem sub_self (x : Bytes) (p : Nat) : sub x p p = [] := by simp [sub]
theorem sub_all (x : Bytes) : sub x 0 x.length = x := by simp [sub]

/-- the local facts about field `i` (1-based) under the delimiter contract -/
theorem field_facts (x : Bytes) (ms : List (Nat × Nat)) (h : okMatches x ms = true) (i : Nat)
    (h1 : 1 ≤ i) (h2 : i ≤ ms.length + 1) :
    fieldStart ms i ≤ fieldEnd ms x.length i ∧ fieldEnd ms x.length i ≤ delimEnd ms x.length i ∧
    delimEnd ms x.length i ≤ x.length ∧
    isBoundary x (fieldEnd ms x.length i) = true ∧ isBoundary x (delimEnd ms x.length i) = true := by
  obtain ⟨j, rfl⟩ : ∃ j, i = j + 1 := ⟨i - 1, by omega⟩
  rw [fieldStart_succ, fieldEnd_succ, delimEnd_succ]
  exact ok_facts x ms 0 h j (by omega)

theorem fieldStart_next (ms : List (Nat × Nat)) (len i : Nat) (h1 : 1 ≤ i) (h2 : i ≤ ms.length) :
    fieldStart ms (i + 1) = delimEnd ms len i := by
  obtain ⟨j, rfl⟩ : ∃ j, i = j + 1 := ⟨i - 1, by omega⟩
  rw [fieldStart_succ, delimEnd_succ]
  exact S_succ_eq_D 0 ms len j (by omega)

theorem delimEnd_last (ms : List (Nat × Nat)) (len : Nat) : delimEnd ms len (ms.length + 1) = len := by
  rw [delimEnd_succ]; exact D_last ms len _ (Nat.le_refl _)

theorem fieldStart_one (ms : List (Nat × Nat)) : fieldStart ms 1 = 0 := by simp [fieldStart]

theorem fieldStart_boundary (x : Bytes) (ms : List (Nat × Nat)) (h : okMatches x ms = true) (i : Nat)
    (h1 : 1 ≤ i) (h2 : i ≤ ms.length + 1) : isBoundary x (fieldStart ms i) = true := by
  by_cases hi : i = 1
  · subst hi; simp [fieldStart_one, isBoundary_zero]
  · obtain ⟨j, rfl⟩ : ∃ j, i = j + 1 := ⟨i - 1, by omega⟩
    rw [fieldStart_next ms x.length j (by omega) (by omega)]
    exact (field_facts x ms h j (by omega) (by omega)).2.2.2.2

/-- fields a..a+n (with their delimiters) are one contiguous piece of the line -/
theorem contiguous (x : Bytes) (ms : List (Nat × Nat)) (h : okMatches x ms = true) (n a : Nat)
    (h1 : 1 ≤ a) (h2 : a + n ≤ ms.length + 1) :
    fieldStart ms a ≤ delimEnd ms x.length (a + n) ∧
    sub x (fieldStart ms a) (delimEnd ms x.length (a + n)) = (List.range' a (n + 1)).flatMap (fieldD x ms) := by
  induction n with
  | zero =>
    have f := field_facts x ms h a h1 (by omega)
    refine ⟨by simp; omega, ?_⟩
    simp [fieldD, field, delim]
    rw [sub_append _ _ _ _ f.1 f.2.1]
  | succ n ih =>
    have ih := ih (by omega)
    have f := field_facts x ms h (a + (n + 1)) (by omega) h2
    have e : fieldStart ms (a + (n + 1)) = delimEnd ms x.length (a + n) := by
      rw [← Nat.add_assoc]; exact fieldStart_next ms x.length (a + n) (by omega) (by omega)
    refine ⟨by omega, ?_⟩
    rw [show n + 1 + 1 = (n + 1) + 1 from rfl, List.range'_1_concat, List.flatMap_append, ← ih.2]
    simp only [List.flatMap_cons, List.flatMap_nil, List.append_nil, fieldD, field, delim]
    rw [e] at f ⊢
    rw [sub_append _ _ _ _ f.1 f.2.1, sub_append _ _ _ _ ih.1 (by omega)]
theorem range'_head? (s n : Nat) (h : 0 < n) : (List.range' s n).head? = some s := by
  cases n with
  | zero => omega
  | succ n => simp [List.range'_succ]

theorem range'_getLast? (s n : Nat) (h : 0 < n) : (List.range' s n).getLast? = some (s + n - 1) := by
  cases n with
  | zero => omega
  | succ n => rw [List.range'_1_concat]; simp

theorem range'_dropLast (s n : Nat) : (List.range' s (n + 1)).dropLast = List.range' s n := by
  rw [List.range'_1_concat]; simp

theorem ranges_length (ms : List (Nat × Nat)) (len : Nat) :
    (rangesByDelimiter ms len).length = ms.length + 1 := rangesGo_length 0 len ms

theorem ranges_getElem? (ms : List (Nat × Nat)) (len j : Nat) :
    (rangesByDelimiter ms len)[j]? =
      if j ≤ ms.length then some (fieldStart ms (j + 1), fieldEnd ms len (j + 1)) else none := by
  rw [fieldStart_succ, fieldEnd_succ]; exact rangesGo_getElem? len ms 0 j

theorem fieldSpan_eq (ms : List (Nat × Nat)) (len : Nat) (r : FieldRange) :
    fieldSpan (rangesByDelimiter ms len) len r = some (spanOf ms len r) := by
  unfold fieldSpan spanOf
  rw [ranges_length]
  have ips := index_pair_spec r (ms.length + 1)
  cases h : toIndexPair r (ms.length + 1) with
  | none =>
    rw [h] at ips; simp only [] at ips
    simp [ips]
  | some ab =>
    obtain ⟨a, b⟩ := ab
    rw [h] at ips; simp only [] at ips
    obtain ⟨hab, hbk, hsel⟩ := ips
    simp only [hsel, ranges_getElem?]
    rw [if_pos (by omega), range'_head? _ _ (by omega), range'_getLast? _ _ (by omega)]
    simp only []
    have hb : a + 1 + (b - a) - 1 = b := by omega
    rw [hb]
    by_cases hb2 : b ≤ ms.length
    · rw [if_pos hb2]; simp only []
      rw [fieldStart_next ms len b (by omega) hb2]
    · rw [if_neg hb2]; simp only []
      have : b = ms.length + 1 := by omega
      rw [this, delimEnd_last]
theorem pmf_go (x : Bytes) (ms : List (Nat × Nat)) (fs : List FieldRange) (ret : List (Nat × Nat)) :
    parseMatchingFields.go x (rangesByDelimiter ms x.length) fs ret =
      some (ret ++ fs.filterMap (spanOf ms x.length)) := by
  induction fs generalizing ret with
  | nil => simp [parseMatchingFields.go]
  | cons f fs ih =>
    simp only [parseMatchingFields.go, fieldSpan_eq, List.filterMap_cons]
    cases hs : spanOf ms x.length f with
    | none => simp [ih]
    | some be => simp [ih]

theorem parseMatchingFields_eq (x : Bytes) (ms : List (Nat × Nat)) (fs : List FieldRange) :
    parseMatchingFields x ms fs = some (specNth x ms fs) := by
  simp [parseMatchingFields, pmf_go, specNth]

/-- what `spanOf` returns, in terms of `sel` -/
theorem spanOf_cases (ms : List (Nat × Nat)) (len : Nat) (r : FieldRange) :
    (sel r (ms.length + 1) = [] ∧ spanOf ms len r = none) ∨
    (∃ a n, 1 ≤ a ∧ a + n ≤ ms.length + 1 ∧ sel r (ms.length + 1) = List.range' a (n + 1) ∧
      spanOf ms len r = some (fieldStart ms a, delimEnd ms len (a + n))) := by
  have ips := index_pair_spec r (ms.length + 1)
  cases h : toIndexPair r (ms.length + 1) with
  | none =>
    rw [h] at ips; simp only [] at ips
    left; simp [spanOf, ips]
  | some ab =>
    obtain ⟨a, b⟩ := ab
    rw [h] at ips; simp only [] at ips
    obtain ⟨hab, hbk, hsel⟩ := ips
    right
    refine ⟨a + 1, b - a - 1, by omega, by omega, ?_, ?_⟩
    · rw [hsel]; congr 1; omega
    · unfold spanOf
      simp only [hsel]
      rw [range'_head? _ _ (by omega), range'_getLast? _ _ (by omega)]
      simp only []
      congr 3; omega

theorem slice_ok (x : Bytes) (b e : Nat) (h1 : b ≤ e) (h2 : e ≤ x.length) (h3 : isBoundary x b = true)
    (h4 : isBoundary x e = true) : slice x b e = some (sub x b e) := by
  simp [slice, *]

theorem ptf_go (x : Bytes) (ms : List (Nat × Nat)) (h : okMatches x ms = true) (fs : List FieldRange) (ret : Bytes) :
    parseTransformFields.go x (rangesByDelimiter ms x.length) fs ret =
      some (ret ++ specWithNth x ms fs) := by
  induction fs generalizing ret with
  | nil => simp [parseTransformFields.go, specWithNth]
  | cons f fs ih =>
    simp only [parseTransformFields.go, fieldSpan_eq]
    rcases spanOf_cases ms x.length f with ⟨hs, hn⟩ | ⟨a, n, ha, hn, hs, hsp⟩
    · rw [hn]; simp only []
      rw [ih]; simp [specWithNth, hs]
    · rw [hsp]; simp only []
      have c := contiguous x ms h n a ha hn
      have fb := fieldStart_boundary x ms h a ha (by omega)
      have ff := field_facts x ms h (a + n) (by omega) hn
      rw [slice_ok x _ _ c.1 ff.2.2.1 fb ff.2.2.2.2]
      simp only []
      rw [ih, c.2]
      simp [specWithNth, hs]

theorem parseTransformFields_eq (x : Bytes) (ms : List (Nat × Nat)) (h : okMatches x ms = true)
    (fs : List FieldRange) : parseTransformFields x ms fs = some (specWithNth x ms fs) := by
  simp [parseTransformFields, ptf_go x ms h]
theorem getStringByField_eq (x : Bytes) (ms : List (Nat × Nat)) (h : okMatches x ms = true) (r : FieldRange) :
    getStringByField x ms r = some (specPlaceholder x ms r) := by
  unfold getStringByField specPlaceholder
  simp only [ranges_length]
  have ips := index_pair_spec r (ms.length + 1)
  cases hh : toIndexPair r (ms.length + 1) with
  | none =>
    rw [hh] at ips; simp only [] at ips
    simp [ips]
  | some ab =>
    obtain ⟨a, b⟩ := ab
    rw [hh] at ips; simp only [] at ips
    obtain ⟨hab, hbk, hsel⟩ := ips
    simp only [hsel, ranges_getElem?]
    rw [if_pos (by omega), if_pos (by omega)]
    simp only []
    have hb0 : (b == 0) = false := by simp; omega
    rw [hb0]
    simp only [Bool.false_eq_true, if_false]
    have hb1 : b - 1 + 1 = b := by omega
    rw [hb1, range'_getLast? _ _ (by omega)]
    have hb : a + 1 + (b - a) - 1 = b := by omega
    simp only [hb]
    obtain ⟨m, hm⟩ : ∃ m, b - a = m + 1 := ⟨b - a - 1, by omega⟩
    rw [hm, range'_dropLast]
    have fb := field_facts x ms h b (by omega) hbk
    have sb := fieldStart_boundary x ms h (a + 1) (by omega) (by omega)
    cases m with
    | zero =>
      have : a + 1 = b := by omega
      subst this
      rw [slice_ok x _ _ fb.1 (by omega) sb fb.2.2.2.1]
      simp [field]
    | succ m =>
      have c := contiguous x ms h m (a + 1) (by omega) (by omega)
      have e : fieldStart ms b = delimEnd ms x.length (a + 1 + m) := by
        have := fieldStart_next ms x.length (a + 1 + m) (by omega) (by omega)
        rw [← this]; congr 1; omega
      rw [slice_ok x _ _ (by omega) (by omega) sb fb.2.2.2.1]
      simp only [Option.map_some, field]
      rw [← c.2, ← e, sub_append _ _ _ _ (by omega) fb.1]
theorem matchBytes_go (find : Bytes → Option (Nat × Nat)) (inverse : Bool) (text : Bytes)
    (spans : List (Nat × Nat)) (hv : ValidSpans text spans) :
    matchBytes.go find false inverse text spans = some (specMatch find inverse text spans) := by
  induction spans with
  | nil => simp [matchBytes.go, specMatch]
  | cons p rest ih =>
    obtain ⟨s, e⟩ := p
    have hp := hv (s, e) (by simp)
    simp only [] at hp
    have hrest : ValidSpans text rest := fun q hq => hv q (by simp [hq])
    have ih := ih hrest
    simp only [matchBytes.go, Bool.false_eq_true, if_false]
    rw [Nat.min_eq_left (by omega), Nat.min_eq_left hp.2.1, slice_ok text s e hp.1 hp.2.1 hp.2.2.1 hp.2.2.2]
    simp only []
    unfold specMatch
    rw [List.find?_cons]
    cases hf : find (sub text s e) with
    | none =>
      cases inverse with
      | true => simp
      | false => simp [ih, specMatch]
    | some m =>
      cases inverse with
      | true => simp [ih, specMatch]
      | false => simp [hf]

theorem matchChars_go (fz : Bytes → Option (List Nat)) (text : Bytes)
    (spans : List (Nat × Nat)) (hv : ValidSpans text spans) :
    matchChars.go fz text spans = some (specMatchChars fz text spans) := by
  induction spans with
  | nil => simp [matchChars.go, specMatchChars]
  | cons p rest ih =>
    obtain ⟨s, e⟩ := p
    have hp := hv (s, e) (by simp)
    simp only [] at hp
    have hrest : ValidSpans text rest := fun q hq => hv q (by simp [hq])
    have ih := ih hrest
    simp only [matchChars.go]
    rw [Nat.min_eq_left (by omega), Nat.min_eq_left hp.2.1, slice_ok text s e hp.1 hp.2.1 hp.2.2.1 hp.2.2.2]
    simp only []
    unfold specMatchChars
    rw [List.find?_cons]
    cases hf : fz (sub text s e) with
    | none => simp [ih, specMatchChars]
    | some v =>
      simp only [Option.isSome_some, hf, Option.map_some]
      by_cases h0 : s = 0
      · subst h0; simp [sub, charCount]
      · have : (s != 0) = true := by simp [h0]
        rw [this, slice_ok text 0 s (by omega) (by omega) (isBoundary_zero _) hp.2.2.1]
        simp

theorem sub_sub (x : Bytes) (s t b e : Nat) (h : e ≤ t - s) :
    sub (sub x s t) b e = sub x (b + s) (e + s) := by
  unfold sub
  rw [List.drop_take, List.take_take, List.drop_drop]
  congr 1
  · omega
  · congr 1; omega
theorem charStarts_append (off : Nat) (a b : Bytes) :
    charStarts off (a ++ b) = charStarts off a ++ charStarts (off + a.length) b := by
  induction a generalizing off with
  | nil => simp [charStarts]
  | cons c a ih =>
    simp only [List.cons_append, charStarts, ih, List.length_cons]
    have : off + 1 + a.length = off + (a.length + 1) := by omega
    split <;> simp [this]

theorem charStarts_length (off : Nat) (a : Bytes) : (charStarts off a).length = charCount a := by
  induction a generalizing off with
  | nil => simp [charStarts, charCount]
  | cons c a ih =>
    simp only [charStarts, charCount, List.filter_cons]
    have := ih (off + 1)
    unfold charCount at this
    cases hc : isCont c <;> simp [this]

theorem charStarts_shift (off : Nat) (a : Bytes) : charStarts off a = (charStarts 0 a).map (· + off) := by
  induction a generalizing off with
  | nil => simp [charStarts]
  | cons c a ih =>
    simp only [charStarts]
    rw [ih (off + 1), ih (0 + 1)]
    split <;> simp [List.map_map, Function.comp_def, Nat.add_comm, Nat.add_left_comm]

/-- the n-th character of the slice `[s, t)` is character number `n + chars before s` of the whole
    line, and it starts at the same byte (offset by `s`) -/
theorem char_offset (text : Bytes) (s t n : Nat) (h1 : s ≤ t) (h2 : t ≤ text.length)
    (hn : n < charCount (sub text s t)) :
    (charStarts 0 text)[n + charCount (sub text 0 s)]? = ((charStarts 0 (sub text s t))[n]?).map (· + s) := by
  have e : text = sub text 0 s ++ (sub text s t ++ sub text t text.length) := by
    rw [sub_append _ _ _ _ h1 h2, sub_append _ _ _ _ (by omega) (by omega), sub_all]
  have hl : (sub text 0 s).length = s := by simp [sub]; omega
  have e2 : charStarts 0 text = charStarts 0 (sub text 0 s) ++ (charStarts s (sub text s t) ++
      charStarts (s + (sub text s t).length) (sub text t text.length)) := by
    conv => lhs; rw [e]
    rw [charStarts_append, charStarts_append, hl, Nat.zero_add]
  rw [e2]
  rw [List.getElem?_append_right (by rw [charStarts_length]; omega), charStarts_length]
  rw [show n + charCount (sub text 0 s) - charCount (sub text 0 s) = n by omega]
  rw [List.getElem?_append_left (by rw [charStarts_length]; exact hn)]
  rw [charStarts_shift s]
  simp
theorem takeWhile_all_append (p : Char → Bool) (a rest : List Char) (ha : a.all p = true)
    (hr : rest = [] ∨ ∃ c t, rest = c :: t ∧ p c = false) :
    (a ++ rest).takeWhile p = a ∧ (a ++ rest).dropWhile p = rest := by
  induction a with
  | nil =>
    rcases hr with rfl | ⟨c, t, rfl, hc⟩
    · simp
    · simp [List.takeWhile_cons, List.dropWhile_cons, hc]
  | cons c a ih =>
    simp only [List.all_cons, Bool.and_eq_true] at ha
    have := ih ha.2
    simp [List.takeWhile_cons, List.dropWhile_cons, ha.1, this]

theorem digitsVal_eq_foldl (ds : List Char) (acc : Nat) :
    digitsVal acc ds = ds.foldl (fun a c => a * 10 + (c.toNat - 48)) acc := rfl

theorem splitSign_minus (t : List Char) : splitSign ('-' :: t) = (true, t) := rfl
theorem splitSign_nil : splitSign [] = (false, []) := rfl
theorem splitSign_other (c : Char) (t : List Char) (h : c ≠ '-') : splitSign (c :: t) = (false, c :: t) := by
  unfold splitSign
  split
  · rename_i h'; cases h'; exact absurd rfl h
  · rfl

/-- `splitSign` only removes a leading `-` -/
theorem splitSign_recon (l : List Char) :
    l = (if (splitSign l).1 then '-' :: (splitSign l).2 else (splitSign l).2) := by
  cases l with
  | nil => simp [splitSign_nil]
  | cons c t =>
    by_cases hc : c = '-'
    · subst hc; simp [splitSign_minus]
    · simp [splitSign_other c t hc]

theorem splitSign_append (l rest : List Char) (h : l ≠ []) :
    splitSign (l ++ rest) = ((splitSign l).1, (splitSign l).2 ++ rest) := by
  cases l with
  | nil => exact absurd rfl h
  | cons c t =>
    by_cases hc : c = '-'
    · subst hc; simp [splitSign_minus]
    · simp [splitSign_other c _ hc]

theorem parseI32_of_intLit (l : List Char) (a : Int) (h : intLit l = some a) : parseI32 l = some a := by
  unfold intLit at h
  unfold parseI32
  generalize splitSign l = p at *
  obtain ⟨neg, ds⟩ := p
  simp only [] at h ⊢
  split at h
  · cases h
  · rename_i hb
    rw [if_neg hb]
    cases neg with
    | true =>
      simp only [if_true, Bool.and_eq_true, decide_eq_true_eq] at h ⊢
      split at h
      · cases h; split
        · omega
        · rfl
      · cases h
    | false =>
      simp only [Bool.false_eq_true, if_false, Bool.and_eq_true, decide_eq_true_eq] at h ⊢
      split at h
      · cases h; split
        · omega
        · rfl
      · cases h

/-- a numeral in the sense of the spec is captured whole by the group `(-?\d+)?` -/
theorem optNum_intLit (isD : Char → Bool) (hd : ∀ c, isAsciiDigit c = true → isD c = true)
    (l rest : List Char) (a : Int) (hl : intLit l = some a)
    (hr : rest = [] ∨ ∃ c t, rest = c :: t ∧ isD c = false) :
    optNum isD (l ++ rest) = (some l, rest) := by
  have hne : l ≠ [] := by
    intro e; subst e; simp [intLit, splitSign_nil] at hl
  have rcn := splitSign_recon l
  unfold intLit at hl
  unfold optNum
  rw [splitSign_append l rest hne]
  generalize splitSign l = p at *
  obtain ⟨neg, ds⟩ := p
  simp only [] at hl rcn ⊢
  split at hl
  · cases hl
  · rename_i hb
    simp only [Bool.or_eq_true, List.isEmpty_iff, Bool.not_eq_true', not_or, Bool.not_eq_false] at hb
    have allD : ds.all isD = true := by
      have := hb.2; simp only [List.all_eq_true] at this ⊢; exact fun c hc => hd c (this c hc)
    have tw := takeWhile_all_append isD ds rest allD hr
    rw [tw.1, tw.2]
    have : ds.isEmpty = false := by simpa using hb.1
    rw [this]
    simp only [Bool.false_eq_true, if_false]
    rw [← rcn]

theorem optNum_nil (isD : Char → Bool) : optNum isD [] = (none, []) := by
  simp [optNum, splitSign_nil]

theorem optNum_dot (isD : Char → Bool) (hdot : isD '.' = false) (t : List Char) :
    optNum isD ('.' :: t) = (none, '.' :: t) := by
  have : splitSign ('.' :: t) = (false, '.' :: t) := splitSign_other '.' t (by decide)
  simp [optNum, this, List.takeWhile_cons, hdot]

theorem splitDots_eq (s l r : List Char) (h : splitDots s = some (l, r)) : s = l ++ '.' :: '.' :: r := by
  induction s generalizing l with
  | nil => simp [splitDots] at h
  | cons c t ih =>
    unfold splitDots at h
    split at h
    · cases h
    · rename_i heq; cases heq; cases h; rfl
    · rename_i c' t' hno heq
      cases heq
      cases hs : splitDots t with
      | none => simp [hs] at h
      | some p =>
        obtain ⟨l', r'⟩ := p
        simp [hs] at h
        obtain ⟨rfl, rfl⟩ := h
        rw [ih l' hs]; rfl

theorem intLit_nil : intLit [] = none := by simp [intLit, splitSign_nil]

/-- every string in one of the four written forms parses to the range it denotes -/
theorem fromStr_of_specParse (isD : Char → Bool) (hd : ∀ c, isAsciiDigit c = true → isD c = true)
    (hdot : isD '.' = false) (s : List Char) (r : FieldRange) (h : specParse s = some r) :
    fromStr isD s = some r := by
  have hdotr : ∀ t : List Char, ('.' :: t = [] ∨ ∃ c t', '.' :: t = c :: t' ∧ isD c = false) :=
    fun t => Or.inr ⟨'.', t, rfl, hdot⟩
  unfold specParse at h
  split at h
  · -- no `..`: a single number
    cases hl : intLit s with
    | none => simp [hl] at h
    | some a =>
      simp [hl] at h; subst h
      have o := optNum_intLit isD hd s [] a hl (Or.inl rfl)
      simp only [List.append_nil] at o
      simp [fromStr, o, optSep, optNum_nil, parseI32_of_intLit s a hl]
  · cases h
  · -- `N..`
    rename_i l hne hsd
    have e := splitDots_eq _ _ _ hsd
    cases hl : intLit l with
    | none => simp [hl] at h
    | some a =>
      simp [hl] at h; subst h
      have o := optNum_intLit isD hd l ['.', '.'] a hl (hdotr _)
      subst e
      simp [fromStr, o, optSep, optNum_nil, parseI32_of_intLit l a hl]
  · -- `..M`
    rename_i rr hne hsd
    have e := splitDots_eq _ _ _ hsd
    cases hl : intLit rr with
    | none => simp [hl] at h
    | some b =>
      simp [hl] at h; subst h
      have o := optNum_intLit isD hd rr [] b hl (Or.inl rfl)
      simp only [List.append_nil] at o
      subst e
      simp [fromStr, optNum_dot isD hdot, optSep, o, parseI32_of_intLit rr b hl]
  · -- `N..M`
    rename_i l rr hne1 hne2 hne3 hsd
    have e := splitDots_eq _ _ _ hsd
    cases hl : intLit l with
    | none => simp [hl] at h
    | some a =>
      cases hr : intLit rr with
      | none => simp [hl, hr] at h
      | some b =>
        simp [hl, hr] at h; subst h
        have o1 := optNum_intLit isD hd l ('.' :: '.' :: rr) a hl (hdotr _)
        have o2 := optNum_intLit isD hd rr [] b hr (Or.inl rfl)
        simp only [List.append_nil] at o2
        subst e
        simp [fromStr, o1, optSep, o2, parseI32_of_intLit l a hl, parseI32_of_intLit rr b hr]
theorem all_takeWhile (p : Char → Bool) (l : List Char) : (l.takeWhile p).all p = true := by
  induction l with
  | nil => simp
  | cons c t ih =>
    rw [List.takeWhile_cons]
    split
    · rename_i h; simp only [List.all_cons, h, ih, Bool.and_self]
    · simp

theorem optNum_shape (isD : Char → Bool) (s : List Char) :
    s = ((optNum isD s).1.getD []) ++ (optNum isD s).2 ∧ Cap isD ((optNum isD s).1.getD []) := by
  have rcn := splitSign_recon s
  unfold optNum
  generalize splitSign s = p at *
  obtain ⟨neg, t⟩ := p
  simp only [] at rcn ⊢
  by_cases he : (List.takeWhile isD t).isEmpty = true
  · rw [if_pos he]; simp [Cap]
  · rw [if_neg he]
    have hall : (List.takeWhile isD t).all isD = true := all_takeWhile isD t
    have hne : List.takeWhile isD t ≠ [] := by simpa using he
    have hsplit : t = List.takeWhile isD t ++ List.dropWhile isD t := (List.takeWhile_append_dropWhile).symm
    cases neg with
    | true =>
      simp only [if_true, Option.getD_some] at rcn ⊢
      refine ⟨?_, Or.inr ⟨_, hne, hall, Or.inr rfl⟩⟩
      rw [rcn]; simp only [List.cons_append, List.cons.injEq, true_and]; 
      rw [List.takeWhile_append_dropWhile]
    | false =>
      simp only [Bool.false_eq_true, if_false, Option.getD_some] at rcn ⊢
      refine ⟨?_, Or.inr ⟨_, hne, hall, Or.inl rfl⟩⟩
      rw [rcn]; rw [List.takeWhile_append_dropWhile]

theorem optSep_shape (s : List Char) :
    s = (if (optSep s).1 then ['.', '.'] else []) ++ (optSep s).2 := by
  unfold optSep
  split <;> simp

/-- junk yields `None`: whatever `from_str` accepts has the shape `(-?\d+)?(\.\.)?(-?\d+)?` -/
theorem fromStr_shape (isD : Char → Bool) (s : List Char) (h : (fromStr isD s).isSome = true) :
    ∃ l sep r, s = l ++ sep ++ r ∧ Cap isD l ∧ (sep = [] ∨ sep = ['.', '.']) ∧ Cap isD r := by
  have h1 := optNum_shape isD s
  have h2 := optSep_shape (optNum isD s).2
  have h3 := optNum_shape isD (optSep (optNum isD s).2).2
  unfold fromStr at h
  simp only [] at h
  by_cases he : (optNum isD (optSep (optNum isD s).2).2).2.isEmpty = true
  · have he' : (optNum isD (optSep (optNum isD s).2).2).2 = [] := by simpa using he
    rw [he', List.append_nil] at h3
    refine ⟨(optNum isD s).1.getD [], (if (optSep (optNum isD s).2).1 then ['.', '.'] else []),
      (optNum isD (optSep (optNum isD s).2).2).1.getD [], ?_, h1.2, ?_, h3.2⟩
    · conv => lhs; rw [h1.1, h2, h3.1]
      simp [List.append_assoc]
    · cases (optSep (optNum isD s).2).1 <;> simp
  · simp [he] at h
end SkimModel.Field
