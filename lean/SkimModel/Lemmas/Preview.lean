import SkimModel.Model.Preview
/-
Invariant of the preview protocol and its preservation by every label (Lemmas for C20).
-/
namespace SkimModel.Preview

/-- the newest request that is still "in the pipeline": last queued, else the one the worker
    holds, else the one the last loop iteration dispatched -/
def newestOf (s : St) : Option Ev :=
  match s.chan.getLast? with
  | some e => some e
  | none =>
    match s.phase.held with
    | some e => some e
    | none => s.last

structure Inv (s : St) : Prop where
  next_eq : s.nextId = s.sent.length + 1
  writes_head : s.content = s.writes.headD 0
  writes_sorted : s.writes.Pairwise (· > ·)
  content_lt : s.content < s.nextId
  child_id : ∀ c, s.child = some c → s.content ≤ c.id ∧ c.id < s.nextId
  child_live : ∀ c, s.child = some c → c.waiter ≠ .done → s.content < c.id
  held_id : ∀ e, s.phase.held = some e → s.content < e.id ∧ e.id < s.nextId
  held_child : ∀ e c, s.phase.held = some e → s.child = some c → c.id < e.id
  chan_sorted : s.chan.Pairwise (fun a b => a.id < b.id)
  chan_id : ∀ e ∈ s.chan, s.content < e.id ∧ e.id < s.nextId
  chan_child : ∀ e ∈ s.chan, ∀ c, s.child = some c → c.id < e.id
  chan_held : ∀ e ∈ s.chan, ∀ h, s.phase.held = some h → h.id < e.id
  drain_nochild : ∀ e, s.phase = .draining e → s.child = none
  kill_child : ∀ e, s.phase = .killing e ∨ s.phase = .joining e → s.child.isSome = true
  stopped_late : ∀ c, s.child = some c → c.stopped = true → c.waiter = .stopping ∨ c.waiter = .done
  waiter_proc : ∀ c, s.child = some c → c.waiter ≠ .waiting → ∃ r, c.proc = .exited r
  shown_proc : ∀ c, s.child = some c → (c.waiter = .stopping ∨ ∃ r, c.waiter = .reaped r) →
      ∃ r, c.proc = .exited r ∧ r.shown = true
  done_shown : ∀ c r, s.child = some c → c.waiter = .done → c.proc = .exited r → r.shown = true →
      s.content = c.id
  scroll_ok : 1 ≤ s.vscroll ∧ s.vscroll ≤ max 1 (s.len - 1)
  newest : newestOf s = s.sent.head?
  last_idle : ∀ e, s.last = some e → s.phase = .idle
  last_text : ∀ e, s.last = some e → e.kind = .text → s.content = e.id ∧ s.child = none
  last_cmd : ∀ e, s.last = some e → e.kind = .cmd →
      (∃ c, s.child = some c ∧ c.id = e.id) ∨ (s.child = none ∧ s.content = e.id)
  last_id : ∀ e, s.last = some e → s.content ≤ e.id
  last_child : ∀ e c, s.last = some e → s.child = some c → c.id ≤ e.id

theorem clampScroll_range (v len : Nat) : 1 ≤ clampScroll v len ∧ clampScroll v len ≤ max 1 (len - 1) := by
  unfold clampScroll; omega

theorem inv_init : Inv init := by
  constructor <;> simp [init, newestOf, Phase.held, Generated.Preview.initialVScroll]


theorem lt_of_head {l : List Nat} (hs : l.Pairwise (· > ·)) {x : Nat} (h : l.head?.getD 0 < x) :
    ∀ a ∈ l, a < x := by
  cases l with
  | nil => simp
  | cons b t =>
    simp at hs h
    intro a ha
    simp at ha
    rcases ha with rfl | ha
    · exact h
    · have := hs.1 a ha; omega


macro "inv_auto" hi:ident : tactic => `(tactic| (
  obtain ⟨h1,h2,h3,h4,h5,h6,h7,h8,h9,h10,h11,h12,h13,h14,h15,h16,h17,h18,h19,h20,h21,h22,h23,h24,h25⟩ := $hi
  constructor <;> simp_all [newestOf, Phase.held] <;> try grind))

theorem inv_send {s s' : St} (k vs vo) (hi : Inv s) (h : step s (.send k vs vo) = some s') : Inv s' := by
  simp only [step, Option.some.injEq] at h
  subst h
  have := hi
  obtain ⟨h1,h2,h3,h4,h5,h6,h7,h8,h9,h10,h11,h12,h13,h14,h15,h16,h17,h18,h19,h20,h21,h22,h23,h24,h25⟩ := hi
  constructor <;> simp_all [newestOf] <;> try grind


theorem inv_recv {s s' : St} (hi : Inv s) (h : step s .recv = some s') : Inv s' := by
  simp only [step] at h
  split at h <;> simp at h
  subst h
  rename_i e rest hp hc
  cases hch : s.child <;> inv_auto hi


theorem inv_killCheck {s s' : St} (saw) (hi : Inv s) (h : step s (.killCheck saw) = some s') : Inv s' := by
  simp only [step] at h
  split at h <;> try simp at h
  rename_i e c hp hc
  split at h
  · split at h <;> simp at h
    subst h
    inv_auto hi
  · simp at h
    subst h
    inv_auto hi

theorem inv_join {s s' : St} (hi : Inv s) (h : step s .join = some s') : Inv s' := by
  simp only [step] at h
  split at h <;> try simp at h
  rename_i e c hp hc
  obtain ⟨hw, h⟩ := h
  subst h
  inv_auto hi

theorem inv_tryRecv {s s' : St} (hi : Inv s) (h : step s .tryRecv = some s') : Inv s' := by
  simp only [step] at h
  split at h <;> simp at h
  subst h
  inv_auto hi



theorem inv_exit {s s' : St} (r) (hi : Inv s) (h : step s (.exit r) = some s') : Inv s' := by
  simp only [step] at h
  split at h <;> try simp at h
  obtain ⟨hw, h⟩ := h
  subst h
  inv_auto hi

theorem inv_reap {s s' : St} (hi : Inv s) (h : step s .reap = some s') : Inv s' := by
  simp only [step] at h
  split at h <;> try simp at h
  split at h <;> simp at h
  subst h
  rename_i c hc r hw hp
  cases hs : r.shown <;> inv_auto hi

theorem inv_setStopped {s s' : St} (hi : Inv s) (h : step s .setStopped = some s') : Inv s' := by
  simp only [step] at h
  split at h <;> try simp at h
  split at h <;> simp at h
  subst h
  inv_auto hi


theorem inv_scroll {s s' : St} (d) (hi : Inv s) (h : step s (.scroll d) = some s') : Inv s' := by
  simp only [step] at h
  simp at h
  subst h
  have hcr := clampScroll_range (scrollBy s.vscroll d) s.len
  inv_auto hi

theorem inv_draw {s s' : St} (w hh) (hi : Inv s) (h : step s (.draw w hh) = some s') : Inv s' := by
  simp only [step] at h
  split at h <;> simp at h <;> subst h
  · exact hi
  · inv_auto hi


set_option maxHeartbeats 800000 in
theorem inv_dispatch {s s' : St} (ok len) (hi : Inv s) (h : step s (.dispatch ok len) = some s') : Inv s' := by
  simp only [step] at h
  split at h <;> try simp at h
  rename_i e hp
  have hcr := clampScroll_range (initialOffset e.vs e.vo s.height) len
  have hlt : ∀ a ∈ s.writes, a < e.id := by
    apply lt_of_head hi.writes_sorted
    have := (hi.held_id e (by simp [hp, Phase.held])).1
    rw [hi.writes_head] at this
    simpa using this
  split at h
  · split at h
    · clear hcr hlt; simp at h; subst h; inv_auto hi
    · simp only [St.show, Option.some.injEq] at h; subst h; inv_auto hi
  · clear hcr hlt; simp at h; subst h; inv_auto hi
  · simp only [St.show, Option.some.injEq] at h; subst h; inv_auto hi
  · clear hcr hlt; simp at h; subst h; inv_auto hi

theorem inv_write {s s' : St} (len) (hi : Inv s) (h : step s (.write len) = some s') : Inv s' := by
  simp only [step] at h
  split at h <;> try simp at h
  split at h <;> simp [St.show] at h
  subst h
  rename_i x c hc w hw
  have hcr := clampScroll_range (initialOffset c.vs c.vo s.height) len
  have hlt : ∀ a ∈ s.writes, a < c.id := by
    apply lt_of_head hi.writes_sorted
    have := hi.child_live c hc (by simp [hw])
    rw [hi.writes_head] at this
    simpa using this
  inv_auto hi


/-- every label preserves the invariant -/
theorem inv_step {s s' : St} (l : Label) (hi : Inv s) (h : step s l = some s') : Inv s' := by
  cases l with
  | send k vs vo => exact inv_send k vs vo hi h
  | recv => exact inv_recv hi h
  | killCheck saw => exact inv_killCheck saw hi h
  | join => exact inv_join hi h
  | tryRecv => exact inv_tryRecv hi h
  | dispatch ok len => exact inv_dispatch ok len hi h
  | exit r => exact inv_exit r hi h
  | reap => exact inv_reap hi h
  | setStopped => exact inv_setStopped hi h
  | write len => exact inv_write len hi h
  | scroll d => exact inv_scroll d hi h
  | draw w hh => exact inv_draw w hh hi h

/-- the invariant holds in every reachable state -/
theorem inv_reachable {s : St} (hr : Reachable s) : Inv s := by
  induction hr with
  | init => exact inv_init
  | step l _ h ih => exact inv_step l ih h

end SkimModel.Preview
