import SkimModel.Model.Session
import SkimModel.Lemmas.Pool
namespace SkimModel.Session
open SkimModel.Pool
variable {α κ : Type}

theorem hitsFrom_nil (m : κ → α → Bool) (q : κ) (s : Nat) : hitsFrom m q s [] = [] := rfl

theorem hitsFrom_append (m : κ → α → Bool) (q : κ) (s : Nat) (xs ys : List α) :
    hitsFrom m q s (xs ++ ys) = hitsFrom m q s xs ++ hitsFrom m q (s + xs.length) ys := by
  unfold hitsFrom
  rw [List.zipIdx_append, List.filter_append, List.map_append]

/-- every reported entry is an item of the slice at its index -/
theorem hitsFrom_mem (m : κ → α → Bool) (q : κ) (s : Nat) (xs : List α) (i : Nat) (x : α)
    (h : (i, x) ∈ hitsFrom m q s xs) : s ≤ i ∧ xs[i - s]? = some x ∧ m q x = true := by
  unfold hitsFrom at h
  simp only [List.mem_map, List.mem_filter] at h
  obtain ⟨⟨a, j⟩, ⟨hmem, hm⟩, heq⟩ := h
  simp only [Prod.mk.injEq] at heq
  obtain ⟨rfl, rfl⟩ := heq
  have := List.mem_zipIdx hmem
  refine ⟨this.1, ?_, hm⟩
  rw [this.2.2]; simp

/-- conversely every matching item of the slice is reported with its index -/
theorem mem_hitsFrom (m : κ → α → Bool) (q : κ) (s : Nat) (xs : List α) (k : Nat) (x : α)
    (hx : xs[k]? = some x) (hm : m q x = true) : (s + k, x) ∈ hitsFrom m q s xs := by
  unfold hitsFrom
  simp only [List.mem_map, List.mem_filter]
  refine ⟨(x, s + k), ⟨?_, hm⟩, rfl⟩
  rw [List.mem_zipIdx_iff_le_and_getElem?_sub]
  simp [hx]

/-- indices in a report are distinct -/
theorem hitsFrom_nodup (m : κ → α → Bool) (q : κ) (s : Nat) (xs : List α) :
    ((hitsFrom m q s xs).map (·.1)).Nodup := by
  unfold hitsFrom
  rw [List.map_map]
  have h1 : ((xs.zipIdx s).map (·.2)).Nodup := by
    rw [List.zipIdx_map_snd]; exact List.nodup_range'
  have h2 : ((fun p : Nat × α => p.1) ∘ fun p : α × Nat => (p.2, p.1)) = (·.2) := rfl
  rw [h2]
  exact (List.filter_sublist.map _).nodup h1

/-- what the candidate list is worth: nothing while a clear is pending -/
def eff (s : St α κ) : List (Nat × α) := if s.clear = .dont then s.list else []

/-- the part of the invariant that does not talk about the matcher run -/
structure Core (s : St α κ) : Prop where
  pinv : Pool.Inv s.pool
  nopt : s.numOptions = (eff s).length
  src  : s.pool.reserved ++ s.pool.pool ++ s.buf ++ s.unread = s.source
  dead : s.live = false → s.unread = []

/-- accounting: the (effective) list together with what the live run still owes equals the hits among
    the items taken so far -/
def Acc (m : κ → α → Bool) (s : St α κ) : Prop :=
  match s.mc with
  | none => (eff s).Perm (hitsFrom m s.q 0 (s.pool.pool.take s.pool.taken))
  | some r =>
    r.q = s.q ∧
    match r.phase with
    | .spawned => (eff s).Perm (hitsFrom m s.q 0 (s.pool.pool.take s.pool.taken))
    | .matching =>
        s.pool.taken = s.pool.pool.length ∧ r.start ≤ s.pool.pool.length ∧
        r.slice = s.pool.pool.drop r.start ∧ (eff s).Perm (hitsFrom m s.q 0 (s.pool.pool.take r.start))
    | _ =>
        s.pool.taken = s.pool.pool.length ∧ r.start ≤ s.pool.pool.length ∧
        r.slice = s.pool.pool.drop r.start ∧ (eff s).Perm (hitsFrom m s.q 0 (s.pool.pool.take r.start)) ∧
        r.result = hitsFrom m s.q r.start r.slice

/-- a pending clear is always followed by a harvest (unless --no-clear-if-empty) -/
def Pend (s : St α κ) : Prop := s.noClearIfEmpty = false → s.clear ≠ .dont → s.mc ≠ none

structure Inv (m : κ → α → Bool) (s : St α κ) : Prop where
  core : Core s
  acc  : Acc m s
  pend : Pend s
  /-- between handlers, no outstanding run means everything in the pool has been taken -/
  idle : s.mc = none → s.pool.taken = s.pool.pool.length

theorem eff_dont (s : St α κ) (h : s.clear = .dont) : eff s = s.list := by simp [eff, h]
theorem eff_pending (s : St α κ) (h : s.clear ≠ .dont) : eff s = [] := by simp [eff, h]

/-- `restart_matcher` from a state without a matcher run -/
theorem inv_restart (m : κ → α → Bool) (s : St α κ) (hc : Core s) (hmc : s.mc = none)
    (hacc : (eff s).Perm (hitsFrom m s.q 0 (s.pool.pool.take s.pool.taken))) : Inv m (restart s) := by
  unfold restart
  by_cases hd : readerDone s = true
  · simp only [hd, if_true]
    exact ⟨⟨hc.pinv, hc.nopt, hc.src, hc.dead⟩, ⟨rfl, hacc⟩, fun _ _ h => by simp at h, fun h => by simp at h⟩
  · simp only [hd, Bool.false_eq_true, if_false]
    obtain ⟨ys, hys⟩ := append_pool_prefix s.pool s.buf
    refine ⟨⟨append_inv _ _ hc.pinv, hc.nopt, ?_, hc.dead⟩, ⟨rfl, ?_⟩, fun _ _ h => by simp at h, fun h => by simp at h⟩
    · show (s.pool.append s.buf).1.reserved ++ (s.pool.append s.buf).1.pool ++ [] ++ s.unread = s.source
      rw [append_all _ _ hc.pinv, List.append_nil]; exact hc.src
    · show (eff s).Perm (hitsFrom m s.q 0 ((s.pool.append s.buf).1.pool.take (s.pool.append s.buf).1.taken))
      rw [append_taken, hys, List.take_append_of_le_length hc.pinv.taken_le]; exact hacc

/-- facts about a stopped run extracted from `Acc` -/
theorem acc_stopped (m : κ → α → Bool) (s : St α κ) (r : MRun α κ) (h : Acc m s) (hmc : s.mc = some r)
    (hp : r.phase = .stopped) :
    r.q = s.q ∧ s.pool.taken = s.pool.pool.length ∧ r.start ≤ s.pool.pool.length ∧
    r.slice = s.pool.pool.drop r.start ∧ (eff s).Perm (hitsFrom m s.q 0 (s.pool.pool.take r.start)) ∧
    r.result = hitsFrom m s.q r.start r.slice := by
  unfold Acc at h; rw [hmc] at h; simp only [hp] at h; exact ⟨h.1, h.2⟩

/-- the harvest block: afterwards the (effective) list accounts for everything taken -/
theorem harvest_acc (m : κ → α → Bool) (s : St α κ) (r : MRun α κ) (rs : Bool) (h : Inv m s)
    (hmc : s.mc = some r) (hp : r.phase = .stopped) :
    Core (harvest s r rs) ∧
    (eff (harvest s r rs)).Perm
      (hitsFrom m (harvest s r rs).q 0 ((harvest s r rs).pool.pool.take (harvest s r rs).pool.taken)) ∧
    (s.noClearIfEmpty = false → (harvest s r rs).clear ≠ .dont → rs = false) ∧
    (harvest s r rs).pool.taken = (harvest s r rs).pool.pool.length := by
  obtain ⟨hq, htk, hst, hsl, hperm, hres⟩ := acc_stopped m s r h.acc hmc hp
  refine (fun (x : _ ∧ _ ∧ _) => ⟨x.1, x.2.1, x.2.2, htk⟩) ?_
  have hall : hitsFrom m s.q 0 (s.pool.pool.take s.pool.taken) =
      hitsFrom m s.q 0 (s.pool.pool.take r.start) ++ r.result := by
    rw [hres, hsl, htk, List.take_length]
    conv => lhs; rw [← List.take_append_drop r.start s.pool.pool]
    rw [hitsFrom_append]; simp [List.length_take, Nat.min_eq_left hst]
  have hcore := h.core
  cases hcl : s.clear with
  | dont =>
    have he : eff s = s.list := eff_dont s hcl
    refine ⟨⟨hcore.pinv, ?_, hcore.src, hcore.dead⟩, ?_, ?_⟩
    · show s.numOptions + r.result.length = (eff (harvest s r rs)).length
      simp [harvest, hcl, eff, hcore.nopt, he]
    · show (eff (harvest s r rs)).Perm (hitsFrom m s.q 0 (s.pool.pool.take s.pool.taken))
      rw [hall]
      simp only [harvest, hcl, eff, if_true, Bool.false_eq_true, if_false]
      rw [he] at hperm
      exact hperm.append_right _
    · intro _ hne; simp [harvest, hcl] at hne
  | clear =>
    have he : eff s = [] := eff_pending s (by simp [hcl])
    rw [he] at hperm
    have hnil : hitsFrom m s.q 0 (s.pool.pool.take r.start) = [] := hperm.symm.eq_nil
    refine ⟨⟨hcore.pinv, ?_, hcore.src, hcore.dead⟩, ?_, ?_⟩
    · show s.numOptions + r.result.length = (eff (harvest s r rs)).length
      simp [harvest, hcl, eff, hcore.nopt, he]
    · show (eff (harvest s r rs)).Perm (hitsFrom m s.q 0 (s.pool.pool.take s.pool.taken))
      rw [hall, hnil]
      simp [harvest, hcl, eff]
    · intro _ hne; simp [harvest, hcl] at hne
  | ifNotNull =>
    have he : eff s = [] := eff_pending s (by simp [hcl])
    rw [he] at hperm
    have hnil : hitsFrom m s.q 0 (s.pool.pool.take r.start) = [] := hperm.symm.eq_nil
    by_cases hdo : ((!s.noClearIfEmpty && rs) || !r.result.isEmpty) = true
    · refine ⟨⟨hcore.pinv, ?_, hcore.src, hcore.dead⟩, ?_, ?_⟩
      · show s.numOptions + r.result.length = (eff (harvest s r rs)).length
        simp [harvest, hcl, eff, hcore.nopt, he, hdo]
      · show (eff (harvest s r rs)).Perm (hitsFrom m s.q 0 (s.pool.pool.take s.pool.taken))
        rw [hall, hnil]
        simp [harvest, hcl, eff, hdo]
      · intro _ hne; simp [harvest, hcl, hdo] at hne
    · have hdo' : ((!s.noClearIfEmpty && rs) || !r.result.isEmpty) = false := by simpa using hdo
      have hre : r.result = [] := by
        simp only [Bool.or_eq_false_iff, Bool.not_eq_false', List.isEmpty_iff] at hdo'
        exact hdo'.2
      have hh : harvest s r rs = { s with mc := none, numOptions := s.numOptions + 0, list := s.list ++ [] } := by
        have hdo2 := hdo'
        rw [hre] at hdo2
        simp only [harvest, hcl, hre, hdo2, Bool.false_eq_true, if_false, List.length_nil]
      rw [hh]
      refine ⟨⟨hcore.pinv, ?_, hcore.src, hcore.dead⟩, ?_, ?_⟩
      · show s.numOptions + 0 = (eff _).length
        have : eff ({ s with mc := none, numOptions := s.numOptions + 0, list := s.list ++ [] } : St α κ) = [] := by
          simp [eff, hcl]
        rw [this, hcore.nopt, he]; rfl
      · show (eff _).Perm (hitsFrom m s.q 0 (s.pool.pool.take s.pool.taken))
        have : eff ({ s with mc := none, numOptions := s.numOptions + 0, list := s.list ++ [] } : St α κ) = [] := by
          simp [eff, hcl]
        rw [this, hall, hnil, hre]; exact List.Perm.refl _
      · intro hn _
        simp only [Bool.or_eq_false_iff, Bool.and_eq_false_iff, Bool.not_eq_false'] at hdo'
        rcases hdo'.1 with h1 | h1
        · rw [hn] at h1; simp at h1
        · exact h1

theorem inv_transfer (m : κ → α → Bool) (s s' : St α κ) (h : Inv m s)
    (e1 : s'.pool = s.pool) (e2 : s'.mc = s.mc) (e3 : s'.q = s.q) (e4 : s'.clear = s.clear)
    (e5 : s'.list = s.list) (e6 : s'.numOptions = s.numOptions) (e7 : s'.buf = s.buf)
    (e8 : s'.unread = s.unread) (e9 : s'.live = s.live) (e10 : s'.source = s.source)
    (e11 : s'.noClearIfEmpty = s.noClearIfEmpty) : Inv m s' := by
  have he : eff s' = eff s := by simp [eff, e4, e5]
  refine ⟨⟨?_, ?_, ?_, ?_⟩, ?_, ?_, ?_⟩
  · rw [e1]; exact h.core.pinv
  · rw [e6, he]; exact h.core.nopt
  · rw [e1, e7, e8, e10]; exact h.core.src
  · rw [e9, e8]; exact h.core.dead
  · have := h.acc; unfold Acc at *; rw [e2, e3, e1, he]; exact this
  · have := h.pend; unfold Pend at *; rw [e11, e4, e2]; exact this
  · rw [e2, e1]; exact h.idle

theorem inv_decide1 (m : κ → α → Bool) (s : St α κ) (h : Inv m s) : Inv m (decide1 s) := by
  unfold decide1
  simp only []
  split
  · exact inv_transfer m s _ h rfl rfl rfl rfl rfl rfl rfl rfl rfl rfl rfl
  · split
    · exact inv_transfer m s _ h rfl rfl rfl rfl rfl rfl rfl rfl rfl rfl rfl
    · exact inv_transfer m s _ h rfl rfl rfl rfl rfl rfl rfl rfl rfl rfl rfl

theorem inv_hbSelect (m : κ → α → Bool) (s : St α κ) (rd : Reads) (h : Inv m s) : Inv m (hbSelect s rd) := by
  unfold hbSelect
  split
  · exact h
  · simp only []; split
    · exact inv_decide1 m s h
    · exact h

theorem matcherStopped_spec (s : St α κ) (h : matcherStopped s = true) :
    ∃ r, s.mc = some r ∧ r.phase = .stopped := by
  unfold matcherStopped at h
  cases hmc : s.mc with
  | none => simp [hmc] at h
  | some r => simp [hmc] at h; exact ⟨r, rfl, h⟩

theorem inv_hbMain (m : κ → α → Bool) (s : St α κ) (rd : Reads) (h : Inv m s) : Inv m (hbMain s rd) := by
  unfold hbMain
  simp only []
  generalize hrs : (rd.rs && readerDone s) = rs
  generalize hms : (rd.ms && matcherStopped s) = ms
  -- facts about the state after the harvest step
  have key : Core (hbHarvest s rs ms) ∧
      ((hbHarvest s rs ms).mc = none →
        (eff (hbHarvest s rs ms)).Perm (hitsFrom m (hbHarvest s rs ms).q 0
          ((hbHarvest s rs ms).pool.pool.take (hbHarvest s rs ms).pool.taken)) ∧
        ((hbHarvest s rs ms).noClearIfEmpty = false → (hbHarvest s rs ms).clear ≠ .dont → rs = false) ∧
        (hbHarvest s rs ms).pool.taken = (hbHarvest s rs ms).pool.pool.length) ∧
      ((hbHarvest s rs ms).mc ≠ none → Inv m (hbHarvest s rs ms)) := by
    cases hmsv : ms with
    | false =>
      have e : hbHarvest s rs false = s := by unfold hbHarvest; split <;> simp_all
      rw [e]
      refine ⟨h.core, ?_, fun _ => h⟩
      intro hn
      refine ⟨?_, ?_, h.idle hn⟩
      · have := h.acc; unfold Acc at this; rw [hn] at this; exact this
      · intro hnce hcl; exact absurd hn (h.pend hnce hcl)
    | true =>
      have hst : matcherStopped s = true := by
        rw [hmsv] at hms; simp only [Bool.and_eq_true] at hms; exact hms.2
      obtain ⟨r, hmc, hp⟩ := matcherStopped_spec s hst
      have e : hbHarvest s rs true = harvest s r rs := by unfold hbHarvest; rw [hmc]
      rw [e]
      obtain ⟨hc, hacc, hpend, htk⟩ := harvest_acc m s r rs h hmc hp
      refine ⟨hc, fun _ => ⟨hacc, hpend, htk⟩, ?_⟩
      intro hne; exact absurd rfl hne
  generalize hbHarvest s rs ms = s1 at key
  obtain ⟨hc1, hnone, hsome⟩ := key
  generalize hic : (rd.ic && itemsConsumed s1) = ic
  have inv2 : Inv m (if (!(rs && ic) && s1.mc.isNone) = true then restart s1 else s1) := by
    by_cases hmc1 : s1.mc = none
    · obtain ⟨hacc, hpend, htk1⟩ := hnone hmc1
      by_cases hproc : (rs && ic) = true
      · simp only [hproc, Bool.not_true, Bool.false_and, Bool.false_eq_true, if_false]
        refine ⟨hc1, ?_, ?_, fun _ => htk1⟩
        · unfold Acc; rw [hmc1]; exact hacc
        · intro hnce hcl
          have := hpend hnce hcl
          simp only [Bool.and_eq_true] at hproc
          rw [this] at hproc; simp at hproc
      · have : (rs && ic) = false := by simpa using hproc
        simp only [this, Bool.not_false, Bool.true_and, hmc1, Option.isNone_none, if_true]
        exact inv_restart m s1 hc1 hmc1 hacc
    · have : s1.mc.isNone = false := by
        cases hh : s1.mc with
        | none => exact absurd hh hmc1
        | some r => rfl
      simp only [this, Bool.and_false, Bool.false_eq_true, if_false]
      exact hsome hmc1
  generalize (if (!(rs && ic) && s1.mc.isNone) = true then restart s1 else s1) = s2 at inv2
  split
  · exact inv_transfer m s2 _ inv2 rfl rfl rfl rfl rfl rfl rfl rfl rfl rfl rfl
  · exact inv2

theorem inv_handleHB (m : κ → α → Bool) (s : St α κ) (rd : Reads) (h : Inv m s) : Inv m (handleHB s rd) :=
  inv_hbSelect m _ rd (inv_hbMain m s rd h)

theorem killMatcher_fields (s : St α κ) :
    (killMatcher s).mc = none ∧ (killMatcher s).pool = s.pool ∧ (killMatcher s).q = s.q ∧
    (killMatcher s).clear = s.clear ∧ (killMatcher s).list = s.list ∧
    (killMatcher s).numOptions = s.numOptions ∧ (killMatcher s).buf = s.buf ∧
    (killMatcher s).unread = s.unread ∧ (killMatcher s).live = s.live ∧
    (killMatcher s).source = s.source ∧ (killMatcher s).noClearIfEmpty = s.noClearIfEmpty ∧
    (killMatcher s).run = s.run ∧ (killMatcher s).selected = s.selected := by
  unfold killMatcher
  cases h : s.mc with
  | none => simp [h]
  | some r => simp

/-- selection-only events change nothing but the selected set -/
def UserEv.selOnly : UserEv α κ → Bool
  | .toggle _ | .selectAll | .toggleAll | .deselectAll | .other => true
  | _ => false

theorem handleUser_selOnly (s : St α κ) (e : UserEv α κ) (h : e.selOnly = true) :
    ∃ sel, handleUser s e = { s with selected := sel } := by
  cases e with
  | toggle idx => simp only [handleUser]; split
                  · exact ⟨_, rfl⟩
                  · exact ⟨s.selected, rfl⟩
  | selectAll => simp only [handleUser]; split
                 · exact ⟨_, rfl⟩
                 · exact ⟨s.selected, rfl⟩
  | toggleAll => simp only [handleUser]; split
                 · exact ⟨_, rfl⟩
                 · exact ⟨s.selected, rfl⟩
  | deselectAll => exact ⟨[], rfl⟩
  | other => exact ⟨s.selected, rfl⟩
  | setQuery q => simp [UserEv.selOnly] at h
  | setCmd r src => simp [UserEv.selOnly] at h
  | accept => simp [UserEv.selOnly] at h
  | abort => simp [UserEv.selOnly] at h

theorem inv_handleUser (m : κ → α → Bool) (s : St α κ) (e : UserEv α κ) (h : Inv m s) :
    Inv m (handleUser s e) := by
  obtain ⟨k1, k2, k3, k4, k5, k6, k7, k8, k9, k10, k11, _, _⟩ := killMatcher_fields s
  cases e with
  | setQuery q' =>
    simp only [handleUser]
    apply inv_restart
    · refine ⟨?_, ?_, ?_, ?_⟩
      · show Pool.Inv (killMatcher s).pool.reset
        rw [k2]; exact step_inv s.pool .reset h.core.pinv
      · show 0 = (eff _).length
        simp [eff]
      · show (killMatcher s).pool.reset.reserved ++ (killMatcher s).pool.reset.pool ++ (killMatcher s).buf ++
            (killMatcher s).unread = (killMatcher s).source
        rw [k2, k7, k8, k10]; exact h.core.src
      · show (killMatcher s).live = false → (killMatcher s).unread = []
        rw [k9, k8]; exact h.core.dead
    · exact k1
    · simp [eff, Pool.reset, hitsFrom_nil]
  | setCmd rn src =>
    simp only [handleUser]
    apply inv_restart
    · refine ⟨?_, ?_, ?_, ?_⟩
      · show Pool.Inv (killMatcher s).pool.clear
        rw [k2]; exact step_inv s.pool .clear h.core.pinv
      · show 0 = (eff _).length
        simp [eff]
      · simp [Pool.clear]
      · intro hl; cases hl
    · exact k1
    · simp [eff, Pool.clear, hitsFrom_nil]
  | accept => exact inv_transfer m s _ h rfl rfl rfl rfl rfl rfl rfl rfl rfl rfl rfl
  | abort => exact inv_transfer m s _ h rfl rfl rfl rfl rfl rfl rfl rfl rfl rfl rfl
  | toggle idx => obtain ⟨sel, he⟩ := handleUser_selOnly s (.toggle idx) rfl
                  rw [he]; exact inv_transfer m s _ h rfl rfl rfl rfl rfl rfl rfl rfl rfl rfl rfl
  | selectAll => obtain ⟨sel, he⟩ := handleUser_selOnly s .selectAll rfl
                 rw [he]; exact inv_transfer m s _ h rfl rfl rfl rfl rfl rfl rfl rfl rfl rfl rfl
  | toggleAll => obtain ⟨sel, he⟩ := handleUser_selOnly s .toggleAll rfl
                 rw [he]; exact inv_transfer m s _ h rfl rfl rfl rfl rfl rfl rfl rfl rfl rfl rfl
  | deselectAll => obtain ⟨sel, he⟩ := handleUser_selOnly s .deselectAll rfl
                   rw [he]; exact inv_transfer m s _ h rfl rfl rfl rfl rfl rfl rfl rfl rfl rfl rfl
  | other => obtain ⟨sel, he⟩ := handleUser_selOnly s .other rfl
             rw [he]; exact inv_transfer m s _ h rfl rfl rfl rfl rfl rfl rfl rfl rfl rfl rfl

theorem inv_step (m : κ → α → Bool) (s s' : St α κ) (l : Label α κ) (h : Inv m s)
    (hs : step m s l = some s') : Inv m s' := by
  cases l with
  | rPush =>
    simp only [step, stepWith] at hs
    split at hs
    · cases hs
    · split at hs
      · rename_i x u hl hu
        cases hs
        refine ⟨⟨h.core.pinv, h.core.nopt, ?_, ?_⟩, h.acc, h.pend, h.idle⟩
        · show s.pool.reserved ++ s.pool.pool ++ (s.buf ++ [x]) ++ u = s.source
          rw [← h.core.src, hu]; simp
        · intro hl'; rw [hl] at hl'; cases hl'
      · cases hs
  | rEnd =>
    simp only [step, stepWith] at hs
    split at hs
    · cases hs
    · split at hs
      · rename_i hl hu
        cases hs
        exact ⟨⟨h.core.pinv, h.core.nopt, h.core.src, fun _ => hu⟩, h.acc, h.pend, h.idle⟩
      · cases hs
  | tTake =>
    simp only [step, stepWith] at hs
    split at hs
    · rename_i r hmc
      split at hs
      · rename_i hp
        have hp' : r.phase = .spawned := by simpa using hp
        cases hs
        have hacc := h.acc
        unfold Acc at hacc; rw [hmc] at hacc; simp only [hp'] at hacc
        refine ⟨⟨step_inv s.pool .take h.core.pinv, h.core.nopt, h.core.src, h.core.dead⟩, ?_, ?_, fun hn => by cases hn⟩
        · unfold Acc
          exact ⟨hacc.1, rfl, h.core.pinv.taken_le, rfl, hacc.2⟩
        · intro _ _ hn; cases hn
      · cases hs
    · cases hs
  | tPublish =>
    simp only [step, stepWith] at hs
    split at hs
    · rename_i r hmc
      split at hs
      · rename_i hp
        have hp' : r.phase = .matching := by simpa using hp
        cases hs
        have hacc := h.acc
        unfold Acc at hacc; rw [hmc] at hacc; simp only [hp'] at hacc
        refine ⟨⟨h.core.pinv, h.core.nopt, h.core.src, h.core.dead⟩, ?_, ?_, fun hn => by cases hn⟩
        · unfold Acc
          refine ⟨hacc.1, hacc.2.1, hacc.2.2.1, hacc.2.2.2.1, hacc.2.2.2.2, ?_⟩
          show hitsFrom m r.q r.start r.slice = hitsFrom m s.q r.start r.slice
          rw [hacc.1]
        · intro _ _ hn; cases hn
      · cases hs
    · cases hs
  | tStop =>
    simp only [step, stepWith] at hs
    split at hs
    · rename_i r hmc
      split at hs
      · rename_i hp
        have hp' : r.phase = .published := by simpa using hp
        cases hs
        have hacc := h.acc
        unfold Acc at hacc; rw [hmc] at hacc; simp only [hp'] at hacc
        refine ⟨⟨h.core.pinv, h.core.nopt, h.core.src, h.core.dead⟩, ?_, ?_, fun hn => by cases hn⟩
        · unfold Acc; exact hacc
        · intro _ _ hn; cases hn
      · cases hs
    · cases hs
  | timer =>
    simp only [step, stepWith] at hs
    split at hs
    · cases hs; exact inv_transfer m s _ h rfl rfl rfl rfl rfl rfl rfl rfl rfl rfl rfl
    · cases hs
  | user e =>
    simp only [step, stepWith] at hs
    split at hs
    · cases hs
    · cases hs; exact inv_transfer m s _ h rfl rfl rfl rfl rfl rfl rfl rfl rfl rfl rfl
  | loop rd =>
    simp only [step, stepWith] at hs
    split at hs
    · cases hs
    · split at hs
      · cases hs
      · cases hs
        exact inv_handleHB m _ rd (inv_transfer m s _ h rfl rfl rfl rfl rfl rfl rfl rfl rfl rfl rfl)
      · cases hs
        exact inv_handleUser m _ _ (inv_transfer m s _ h rfl rfl rfl rfl rfl rfl rfl rfl rfl rfl rfl)

theorem inv_initWith (m : κ → α → Bool) (o : Opts) (q : κ) (src : List α) : Inv m (initWith o q src) := by
  refine ⟨⟨Pool.inv_init _, rfl, by simp [initWith], fun h => by simp [initWith] at h⟩, ?_,
    fun _ h => by simp [initWith] at h, fun _ => rfl⟩
  unfold Acc; simp [initWith, eff, hitsFrom_nil]

theorem inv_runL (m : κ → α → Bool) (s : St α κ) (ls : List (Label α κ)) (h : Inv m s) :
    Inv m (runL m s ls) := by
  unfold runL
  induction ls generalizing s with
  | nil => exact h
  | cons l ls ih =>
    simp only [List.foldl_cons]
    apply ih
    cases hs : step m s l with
    | none => exact h
    | some s' => exact inv_step m s s' l h hs

def hbQueued (s : St α κ) : Bool := s.queue.any Ev.isHB
def tActive (s : St α κ) : Bool :=
  match s.mc with
  | some r => r.phase == .spawned || r.phase == .matching
  | none => false
def allDone (s : St α κ) : Bool := readerDone s && itemsConsumed s

/-- a wake-up is always pending while there is work left -/
def Wake (s : St α κ) : Prop :=
  (s.mc.isSome = true ∨ allDone s = false) → (hbQueued s = true ∨ s.timer = true ∨ tActive s = true)

theorem hbQueued_append_hb (qu : List (Ev α κ)) : (qu ++ [Ev.hb]).any Ev.isHB = true := by
  simp [Ev.isHB]

theorem wake_restart (s : St α κ) : Wake (restart s) := by
  intro _; left
  unfold restart hbQueued
  simp [Ev.isHB]

theorem decide1_fields (s : St α κ) :
    (decide1 s).mc = s.mc ∧ (decide1 s).timer = s.timer ∧ (decide1 s).pool = s.pool ∧
    (decide1 s).buf = s.buf ∧ (decide1 s).live = s.live ∧
    (hbQueued s = true → hbQueued (decide1 s) = true) := by
  unfold decide1; simp only []
  split
  · refine ⟨rfl, rfl, rfl, rfl, rfl, ?_⟩
    intro h; unfold hbQueued at *; simp [List.any_append, h]
  · split
    · refine ⟨rfl, rfl, rfl, rfl, rfl, ?_⟩
      intro h; unfold hbQueued at *; simp [List.any_append, h]
    · exact ⟨rfl, rfl, rfl, rfl, rfl, fun h => h⟩

theorem wake_transfer (s s' : St α κ) (h : Wake s) (e1 : s'.mc = s.mc) (e2 : s'.timer = s.timer)
    (e3 : s'.pool = s.pool) (e4 : s'.buf = s.buf) (e5 : s'.live = s.live)
    (e6 : hbQueued s = true → hbQueued s' = true) : Wake s' := by
  intro hp
  have hp' : s.mc.isSome = true ∨ allDone s = false := by
    simpa [allDone, readerDone, itemsConsumed, e1, e3, e4, e5] using hp
  rcases h hp' with h1 | h1 | h1
  · left; exact e6 h1
  · right; left; rw [e2]; exact h1
  · right; right; simpa [tActive, e1] using h1

theorem hbHarvest_reader (s : St α κ) (rs ms : Bool) :
    (hbHarvest s rs ms).buf = s.buf ∧ (hbHarvest s rs ms).live = s.live := by
  unfold hbHarvest
  split
  · exact ⟨rfl, rfl⟩
  · exact ⟨rfl, rfl⟩

theorem wake_hbMain (s : St α κ) (rd : Reads) : Wake (hbMain s rd) := by
  unfold hbMain
  simp only []
  generalize hrs : (rd.rs && readerDone s) = rs
  generalize (rd.ms && matcherStopped s) = ms
  have hrd := hbHarvest_reader s rs ms
  generalize hbHarvest s rs ms = s1 at hrd
  by_cases hproc : (rs && (rd.ic && itemsConsumed s1)) = true
  · -- processed: no restart
    simp only [hproc, Bool.not_true, Bool.false_and, Bool.false_eq_true, if_false, Bool.or_false]
    split
    · intro _; right; left; rfl
    · rename_i hmc
      intro hp
      simp only [Bool.and_eq_true] at hproc
      obtain ⟨hrs1, _, hic⟩ := hproc
      rcases hp with hp | hp
      · exact absurd hp hmc
      · exfalso
        have h1 : readerDone s = true := by
          rw [← hrs] at hrs1; simp only [Bool.and_eq_true] at hrs1; exact hrs1.2
        have h2 : readerDone s1 = true := by
          simpa [readerDone, hrd.1, hrd.2] using h1
        simp [allDone, h2, hic] at hp
  · have hp : (rs && (rd.ic && itemsConsumed s1)) = false := by simpa using hproc
    simp only [hp, Bool.not_false, Bool.true_and, Bool.or_true, if_true]
    intro _; right; left; rfl

theorem wake_hbSelect (s : St α κ) (rd : Reads) (h : Wake s) : Wake (hbSelect s rd) := by
  unfold hbSelect
  split
  · exact h
  · simp only []; split
    · obtain ⟨e1, e2, e3, e4, e5, e6⟩ := decide1_fields s
      exact wake_transfer s _ h e1 e2 e3 e4 e5 e6
    · exact h

theorem wake_handleHB (s : St α κ) (rd : Reads) : Wake (handleHB s rd) :=
  wake_hbSelect _ rd (wake_hbMain s rd)

theorem any_tail_user (e : UserEv α κ) (rest : List (Ev α κ)) :
    (Ev.user e :: rest).any Ev.isHB = rest.any Ev.isHB := by simp [Ev.isHB]

/-- `Wake` is preserved by every step (while the session is running) -/
theorem wake_step (m : κ → α → Bool) (s s' : St α κ) (l : Label α κ) (h : Wake s)
    (hs : step m s l = some s') (hfin : s'.finished = none) : Wake s' := by
  cases l with
  | rPush =>
    simp only [step, stepWith] at hs
    split at hs
    · cases hs
    · split at hs
      · rename_i x u hl hu
        cases hs
        intro _
        have : allDone s = false := by simp [allDone, readerDone, hl]
        rcases h (Or.inr this) with h1 | h1 | h1
        · left; exact h1
        · right; left; exact h1
        · right; right; exact h1
      · cases hs
  | rEnd =>
    simp only [step, stepWith] at hs
    split at hs
    · cases hs
    · split at hs
      · rename_i hl hu
        cases hs
        intro _
        have : allDone s = false := by simp [allDone, readerDone, hl]
        rcases h (Or.inr this) with h1 | h1 | h1
        · left; exact h1
        · right; left; exact h1
        · right; right; exact h1
      · cases hs
  | tTake =>
    simp only [step, stepWith] at hs
    split at hs
    · split at hs
      · cases hs; intro _; right; right; simp [tActive]
      · cases hs
    · cases hs
  | tPublish =>
    simp only [step, stepWith] at hs
    split at hs
    · split at hs
      · cases hs; intro _; left; simp [hbQueued, Ev.isHB]
      · cases hs
    · cases hs
  | tStop =>
    simp only [step, stepWith] at hs
    split at hs
    · rename_i r hmc
      split at hs
      · rename_i hp
        have hp' : r.phase = .published := by simpa using hp
        cases hs
        intro _
        have : s.mc.isSome = true := by simp [hmc]
        rcases h (Or.inl this) with h1 | h1 | h1
        · left; exact h1
        · right; left; exact h1
        · simp [tActive, hmc, hp'] at h1
      · cases hs
    · cases hs
  | timer =>
    simp only [step, stepWith] at hs
    split at hs
    · cases hs; intro _; left; simp [hbQueued, Ev.isHB]
    · cases hs
  | user e =>
    simp only [step, stepWith] at hs
    split at hs
    · cases hs
    · cases hs
      refine wake_transfer s _ h rfl rfl rfl rfl rfl ?_
      intro hq; unfold hbQueued at *; simp [List.any_append, hq]
  | loop rd =>
    simp only [step, stepWith] at hs
    split at hs
    · cases hs
    · split at hs
      · cases hs
      · cases hs; exact wake_handleHB _ rd
      · rename_i e rest hq
        cases hs
        by_cases hso : e.selOnly = true
        · have hw : Wake ({ s with queue := rest } : St α κ) := by
            refine wake_transfer s _ h rfl rfl rfl rfl rfl ?_
            intro hq'; unfold hbQueued at *; rw [hq, any_tail_user] at hq'; exact hq'
          obtain ⟨sel, he⟩ := handleUser_selOnly ({ s with queue := rest } : St α κ) e hso
          rw [he]
          exact wake_transfer _ _ hw rfl rfl rfl rfl rfl (fun x => x)
        · cases e with
          | setQuery q' => exact wake_restart _
          | setCmd rn src => exact wake_restart _
          | accept => simp [handleUser] at hfin
          | abort => simp [handleUser] at hfin
          | toggle _ => simp [UserEv.selOnly] at hso
          | selectAll => simp [UserEv.selOnly] at hso
          | toggleAll => simp [UserEv.selOnly] at hso
          | deselectAll => simp [UserEv.selOnly] at hso
          | other => simp [UserEv.selOnly] at hso

theorem wake_initWith (o : Opts) (q : κ) (src : List α) : Wake (initWith o q src : St α κ) := by
  intro _; left; simp [hbQueued, initWith, Ev.isHB]

theorem restart_opts (s : St α κ) :
    (restart s).decision = s.decision ∧ (restart s).select1 = s.select1 ∧ (restart s).exit0 = s.exit0 ∧
    (restart s).noClearIfEmpty = s.noClearIfEmpty ∧ (restart s).finished = s.finished ∧
    (restart s).selected = s.selected ∧ (restart s).run = s.run := by
  unfold restart; simp only []; split <;> exact ⟨rfl, rfl, rfl, rfl, rfl, rfl, rfl⟩

theorem killMatcher_opts (s : St α κ) :
    (killMatcher s).decision = s.decision ∧ (killMatcher s).select1 = s.select1 ∧
    (killMatcher s).exit0 = s.exit0 ∧ (killMatcher s).finished = s.finished := by
  unfold killMatcher; split <;> exact ⟨rfl, rfl, rfl, rfl⟩

theorem hbHarvest_opts (s : St α κ) (rs ms : Bool) :
    (hbHarvest s rs ms).decision = s.decision ∧ (hbHarvest s rs ms).select1 = s.select1 ∧
    (hbHarvest s rs ms).exit0 = s.exit0 ∧ (hbHarvest s rs ms).noClearIfEmpty = s.noClearIfEmpty ∧
    (hbHarvest s rs ms).finished = s.finished ∧ (hbHarvest s rs ms).selected = s.selected ∧
    (hbHarvest s rs ms).run = s.run := by
  unfold hbHarvest; split <;> exact ⟨rfl, rfl, rfl, rfl, rfl, rfl, rfl⟩

theorem hbMain_opts (s : St α κ) (rd : Reads) :
    (hbMain s rd).decision = s.decision ∧ (hbMain s rd).select1 = s.select1 ∧
    (hbMain s rd).exit0 = s.exit0 ∧ (hbMain s rd).noClearIfEmpty = s.noClearIfEmpty ∧
    (hbMain s rd).finished = s.finished ∧ (hbMain s rd).selected = s.selected ∧
    (hbMain s rd).run = s.run := by
  unfold hbMain; simp only []
  obtain ⟨a1, a2, a3, a4, a5, a6, a7⟩ := hbHarvest_opts s (rd.rs && readerDone s) (rd.ms && matcherStopped s)
  generalize hbHarvest s (rd.rs && readerDone s) (rd.ms && matcherStopped s) = s1 at *
  obtain ⟨b1, b2, b3, b4, b5, b6, b7⟩ := restart_opts s1
  split <;> split <;> simp_all

theorem handleUser_opts (s : St α κ) (e : UserEv α κ) :
    (handleUser s e).decision = s.decision ∧ (handleUser s e).select1 = s.select1 ∧
    (handleUser s e).exit0 = s.exit0 ∧ (handleUser s e).noClearIfEmpty = s.noClearIfEmpty := by
  obtain ⟨k1, k2, k3, _⟩ := killMatcher_opts s
  have k4 : (killMatcher s).noClearIfEmpty = s.noClearIfEmpty := (killMatcher_fields s).2.2.2.2.2.2.2.2.2.2.1
  by_cases hso : e.selOnly = true
  · obtain ⟨sel, he⟩ := handleUser_selOnly s e hso
    rw [he]; exact ⟨rfl, rfl, rfl, rfl⟩
  · cases e with
    | setQuery q' =>
      simp only [handleUser]
      exact ⟨(restart_opts _).1.trans k1, (restart_opts _).2.1.trans k2, (restart_opts _).2.2.1.trans k3,
        (restart_opts _).2.2.2.1.trans k4⟩
    | setCmd rn src =>
      simp only [handleUser]
      exact ⟨(restart_opts _).1.trans k1, (restart_opts _).2.1.trans k2, (restart_opts _).2.2.1.trans k3,
        (restart_opts _).2.2.2.1.trans k4⟩
    | accept => exact ⟨rfl, rfl, rfl, rfl⟩
    | abort => exact ⟨rfl, rfl, rfl, rfl⟩
    | toggle _ => simp [UserEv.selOnly] at hso
    | selectAll => simp [UserEv.selOnly] at hso
    | toggleAll => simp [UserEv.selOnly] at hso
    | deselectAll => simp [UserEv.selOnly] at hso
    | other => simp [UserEv.selOnly] at hso

/-- the facts under which `handle_select1_or_exit0` takes its decision -/
structure AtDecision (m : κ → α → Bool) (s3 : St α κ) : Prop where
  inv : Inv m s3
  rdone : readerDone s3 = true
  consumed : itemsConsumed s3 = true
  harvested : s3.mc = none
  armed : s3.select1 = true ∨ s3.exit0 = true

/-- a step either leaves decision and options alone or is `decide1` applied in an `AtDecision` state -/
theorem decision_step (m : κ → α → Bool) (s s' : St α κ) (l : Label α κ) (hinv : Inv m s)
    (hs : step m s l = some s') :
    (s'.decision = s.decision ∧ s'.select1 = s.select1 ∧ s'.exit0 = s.exit0 ∧
      s'.noClearIfEmpty = s.noClearIfEmpty) ∨
    (∃ s3, AtDecision m s3 ∧ s3.decision = s.decision ∧ s3.select1 = s.select1 ∧ s3.exit0 = s.exit0 ∧
      s3.noClearIfEmpty = s.noClearIfEmpty ∧ s' = decide1 s3) := by
  cases l with
  | rPush =>
    left; simp only [step, stepWith] at hs
    split at hs
    · cases hs
    · split at hs
      · cases hs; exact ⟨rfl, rfl, rfl, rfl⟩
      · cases hs
  | rEnd =>
    left; simp only [step, stepWith] at hs
    split at hs
    · cases hs
    · split at hs
      · cases hs; exact ⟨rfl, rfl, rfl, rfl⟩
      · cases hs
  | tTake =>
    left; simp only [step, stepWith] at hs
    split at hs
    · split at hs
      · cases hs; exact ⟨rfl, rfl, rfl, rfl⟩
      · cases hs
    · cases hs
  | tPublish =>
    left; simp only [step, stepWith] at hs
    split at hs
    · split at hs
      · cases hs; exact ⟨rfl, rfl, rfl, rfl⟩
      · cases hs
    · cases hs
  | tStop =>
    left; simp only [step, stepWith] at hs
    split at hs
    · split at hs
      · cases hs; exact ⟨rfl, rfl, rfl, rfl⟩
      · cases hs
    · cases hs
  | timer =>
    left; simp only [step, stepWith] at hs
    split at hs
    · cases hs; exact ⟨rfl, rfl, rfl, rfl⟩
    · cases hs
  | user e =>
    left; simp only [step, stepWith] at hs
    split at hs
    · cases hs
    · cases hs; exact ⟨rfl, rfl, rfl, rfl⟩
  | loop rd =>
    simp only [step, stepWith] at hs
    split at hs
    · cases hs
    · split at hs
      · cases hs
      · rename_i rest hq
        cases hs
        have hinv0 : Inv m ({ s with queue := rest.dropWhile Ev.isHB } : St α κ) :=
          inv_transfer m s _ hinv rfl rfl rfl rfl rfl rfl rfl rfl rfl rfl rfl
        have hinv3 := inv_hbMain m _ rd hinv0
        obtain ⟨o1, o2, o3, o4, _⟩ := hbMain_opts ({ s with queue := rest.dropWhile Ev.isHB } : St α κ) rd
        unfold handleHB
        generalize hbMain ({ s with queue := rest.dropWhile Ev.isHB } : St α κ) rd = s3 at *
        unfold hbSelect
        split
        · left; exact ⟨o1, o2, o3, o4⟩
        · rename_i harm
          simp only []
          split
          · rename_i hcond
            right
            simp only [Bool.and_eq_true] at hcond
            obtain ⟨⟨hr, hi⟩, hm⟩ := hcond
            refine ⟨s3, ⟨hinv3, hr.2, hi.2, ?_, ?_⟩, o1, o2, o3, o4, rfl⟩
            · cases hh : s3.mc with
              | none => rfl
              | some r => simp [hh] at hm
            · cases h1 : s3.select1 with
              | true => left; rfl
              | false =>
                cases h2 : s3.exit0 with
                | true => right; rfl
                | false => simp [h1, h2] at harm
          · left; exact ⟨o1, o2, o3, o4⟩
      · rename_i e rest hq
        cases hs
        left
        exact handleUser_opts _ e

theorem decide1_nce (s : St α κ) : (decide1 s).noClearIfEmpty = s.noClearIfEmpty := by
  unfold decide1; simp only []; split
  · rfl
  · split <;> rfl

theorem handleHB_nce (s : St α κ) (rd : Reads) : (handleHB s rd).noClearIfEmpty = s.noClearIfEmpty := by
  unfold handleHB hbSelect
  have := (hbMain_opts s rd).2.2.2.1
  split
  · exact this
  · simp only []; split
    · rw [decide1_nce]; exact this
    · exact this

/-- no step changes the `--no-clear-if-empty` option -/
theorem nce_step (m : κ → α → Bool) (s s' : St α κ) (l : Label α κ) (hs : step m s l = some s') :
    s'.noClearIfEmpty = s.noClearIfEmpty := by
  cases l with
  | rPush => simp only [step, stepWith] at hs; split at hs <;> try cases hs
             split at hs <;> cases hs; rfl
  | rEnd => simp only [step, stepWith] at hs; split at hs <;> try cases hs
            split at hs <;> cases hs; rfl
  | tTake => simp only [step, stepWith] at hs; split at hs <;> try cases hs
             split at hs <;> cases hs; rfl
  | tPublish => simp only [step, stepWith] at hs; split at hs <;> try cases hs
                split at hs <;> cases hs; rfl
  | tStop => simp only [step, stepWith] at hs; split at hs <;> try cases hs
             split at hs <;> cases hs; rfl
  | timer => simp only [step, stepWith] at hs; split at hs <;> cases hs; rfl
  | user e => simp only [step, stepWith] at hs; split at hs <;> cases hs; rfl
  | loop rd =>
    simp only [step, stepWith] at hs
    split at hs
    · cases hs
    · split at hs
      · cases hs
      · cases hs; rw [handleHB_nce]
      · cases hs; exact (handleUser_opts _ _).2.2.2

theorem nce_runL (m : κ → α → Bool) (s : St α κ) (ls : List (Label α κ)) :
    (runL m s ls).noClearIfEmpty = s.noClearIfEmpty := by
  unfold runL
  induction ls generalizing s with
  | nil => rfl
  | cons l ls ih =>
    simp only [List.foldl_cons]; rw [ih]
    cases hs : step m s l with
    | none => rfl
    | some s' => exact nce_step m s s' l hs

/-- a finished session stays finished: a step into an unfinished state starts from one -/
theorem finished_step (m : κ → α → Bool) (s s' : St α κ) (l : Label α κ) (hs : step m s l = some s')
    (hf : s'.finished = none) : s.finished = none := by
  cases l with
  | rPush => simp only [step, stepWith] at hs; split at hs
             · cases hs
             · rename_i h0; simpa using h0
  | rEnd => simp only [step, stepWith] at hs; split at hs
            · cases hs
            · rename_i h0; simpa using h0
  | tTake => simp only [step, stepWith] at hs; split at hs <;> try cases hs
             split at hs <;> cases hs; exact hf
  | tPublish => simp only [step, stepWith] at hs; split at hs <;> try cases hs
                split at hs <;> cases hs; exact hf
  | tStop => simp only [step, stepWith] at hs; split at hs <;> try cases hs
             split at hs <;> cases hs; exact hf
  | timer => simp only [step, stepWith] at hs; split at hs <;> cases hs; exact hf
  | user e => simp only [step, stepWith] at hs; split at hs
              · cases hs
              · rename_i h0; simpa using h0
  | loop rd => simp only [step, stepWith] at hs; split at hs
               · cases hs
               · rename_i h0; simpa using h0

/-- induction over histories: a predicate preserved by every step (in states satisfying the invariant)
    holds after any label sequence -/
theorem runL_induct (m : κ → α → Bool) (P : St α κ → Prop)
    (hstep : ∀ (s s' : St α κ) (l : Label α κ), Inv m s → P s → step m s l = some s' → P s')
    (ls : List (Label α κ)) (s0 : St α κ) (hi : Inv m s0) (h0 : P s0) : P (runL m s0 ls) := by
  unfold runL
  induction ls generalizing s0 with
  | nil => exact h0
  | cons l ls ih =>
    simp only [List.foldl_cons]
    cases hs : step m s0 l with
    | none => exact ih s0 hi h0
    | some s' => exact ih s' (inv_step m s0 s' l hi hs) (hstep s0 s' l hi h0 hs)

theorem runL_append (m : κ → α → Bool) (s : St α κ) (l1 l2 : List (Label α κ)) :
    runL m s (l1 ++ l2) = runL m (runL m s l1) l2 := by
  simp [runL, List.foldl_append]

end SkimModel.Session
