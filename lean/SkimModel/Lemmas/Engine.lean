/-
Helper lemmas for the engine model (C03, C04).
-/
import SkimModel.Spec.Term
namespace SkimModel.Engine

theorem charEq_iff (cs : Bool) (a b : Char) :
    charEq cs a b = true ↔ (fold cs [a]) = (fold cs [b]) := by
  cases cs <;> simp [charEq, fold, asciiLower]

theorem fold_nil (cs : Bool) : fold cs [] = [] := by cases cs <;> rfl

theorem fold_cons (cs : Bool) (a : Char) (l : List Char) : fold cs (a :: l) = fold cs [a] ++ fold cs l := by
  cases cs <;> simp [fold]

theorem fold_single (cs : Bool) (a : Char) : ∃ a', fold cs [a] = [a'] := by
  cases cs <;> simp [fold]

theorem fold_eq_nil {cs : Bool} {l : List Char} : fold cs l = [] ↔ l = [] := by
  cases cs <;> simp [fold]

theorem fold_length (cs : Bool) (l : List Char) : (fold cs l).length = l.length := by
  cases cs <;> simp [fold]

/-- per-character folding -/
def foldc (cs : Bool) (c : Char) : Char := if cs then c else c.toLower

theorem fold_eq_map (cs : Bool) (l : List Char) : fold cs l = l.map (foldc cs) := by
  cases cs
  · simp [fold, foldc]
  · have : foldc true = id := by funext c; simp [foldc]
    simp [fold, this]

theorem charEq_iff' (cs : Bool) (a b : Char) : charEq cs a b = true ↔ foldc cs a = foldc cs b := by
  cases cs <;> simp [charEq, foldc, asciiLower]

/-- the greedy scan is exactly the sublist relation on the folded lists -/
theorem greedy_iff (cs : Bool) (p x : List Char) :
    greedy cs p x = true ↔ (p.map (foldc cs)).Sublist (x.map (foldc cs)) := by
  induction x generalizing p with
  | nil =>
    cases p with
    | nil => simp [greedy]
    | cons a t => simp [greedy]
  | cons c xs ih =>
    cases p with
    | nil => simp [greedy]
    | cons a t =>
      simp only [greedy, List.map_cons]
      by_cases h : charEq cs c a = true
      · rw [if_pos h, ih t]
        have h' := (charEq_iff' cs c a).1 h
        rw [h', List.cons_sublist_cons]
      · rw [if_neg h, ih (a :: t), List.map_cons]
        have h' : ¬ foldc cs c = foldc cs a := fun e => h ((charEq_iff' cs c a).2 e)
        rw [List.sublist_cons_iff (a := foldc cs c)]
        constructor
        · exact Or.inl
        · rintro (h1 | ⟨r, hr, _⟩)
          · exact h1
          · simp only [List.cons.injEq] at hr
            exact absurd hr.1.symm h'

theorem litPrefix_iff (cs : Bool) (b x : List Char) :
    litPrefix cs b x = true ↔ b.map (foldc cs) <+: x.map (foldc cs) := by
  induction b generalizing x with
  | nil => simp [litPrefix]
  | cons a t ih =>
    cases x with
    | nil => simp [litPrefix]
    | cons c xs =>
      simp only [litPrefix, List.map_cons, Bool.and_eq_true, List.cons_prefix_cons, ih, charEq_iff']
      constructor
      · rintro ⟨h1, h2⟩; exact ⟨h1.symm, h2⟩
      · rintro ⟨h1, h2⟩; exact ⟨h1.symm, h2⟩

theorem litWhole_iff (cs : Bool) (b x : List Char) :
    litWhole cs b x = true ↔ b.map (foldc cs) = x.map (foldc cs) := by
  induction b generalizing x with
  | nil => cases x <;> simp [litWhole]
  | cons a t ih =>
    cases x with
    | nil => simp [litWhole]
    | cons c xs =>
      simp only [litWhole, List.map_cons, Bool.and_eq_true, List.cons.injEq, ih, charEq_iff']
      constructor
      · rintro ⟨h1, h2⟩; exact ⟨h1.symm, h2⟩
      · rintro ⟨h1, h2⟩; exact ⟨h1.symm, h2⟩

/-- the anchored literal search is infix / prefix / suffix / equality on the folded lists -/
theorem litFind_iff (cs pre post : Bool) (b x : List Char) :
    litFind cs pre post b x = true ↔ anchored pre post (b.map (foldc cs)) (x.map (foldc cs)) := by
  cases pre <;> cases post
  · -- infix
    induction x with
    | nil => simp [litFind, anchored, litPrefix_iff]
    | cons c xs ih =>
      simp only [anchored] at ih
      simp [litFind, anchored, litPrefix_iff, ih, List.infix_cons_iff]
  · -- suffix
    induction x with
    | nil => simp [litFind, anchored, litWhole_iff]
    | cons c xs ih =>
      simp only [anchored] at ih
      simp [litFind, anchored, litWhole_iff, ih, List.suffix_cons_iff]
  · cases x <;> simp [litFind, anchored, litPrefix_iff]
  · cases x <;> simp [litFind, anchored, litWhole_iff]

def toEngine (d : Stripped) : TermEngine :=
  if d.fuzzy then .fuzzy d.body else .exact d.body d.pre d.post d.inverse

theorem decodeAnchors_eq (em exact inv : Bool) (q : List Char) :
    decodeAnchors em exact inv q =
      (let pre := q.head? == some '^'
       let t3 := if pre then q.tail else q
       let post := t3.getLast? == some '$'
       let body := if post then t3.dropLast else t3
       if exact || pre || post || em then .exact body pre post inv else .fuzzy body) := by
  unfold decodeAnchors
  split
  · simp [endsWithDollar]
  · rename_i h
    have : (q.head? == some '^') = false := by
      cases q with
      | nil => simp
      | cons c r =>
        simp only [List.head?_cons, beq_eq_false_iff_ne, ne_eq, Option.some.injEq]
        intro hc; exact h r (by rw [hc])
    simp [this, endsWithDollar]

theorem decodeRest_eq (em exact : Bool) (q : List Char) :
    decodeRest em exact q =
      (let inv := q.head? == some '!'
       let t2 := if inv then q.tail else q
       if t2.isEmpty then .all else decodeAnchors em (exact || inv) inv t2) := by
  unfold decodeRest
  split
  · simp
  · rename_i h
    have : (q.head? == some '!') = false := by
      cases q with
      | nil => simp
      | cons c r =>
        simp only [List.head?_cons, beq_eq_false_iff_ne, ne_eq, Option.some.injEq]
        intro hc; exact h r (by rw [hc])
    simp [this]

theorem decodeTerm_eq (em : Bool) (t : List Char) :
    decodeTerm em t =
      (let q := t.head? == some '\''
       if em && q then .fuzzy t.tail else decodeRest em q (if q then t.tail else t)) := by
  unfold decodeTerm
  split
  · cases em <;> simp
  · rename_i h
    have : (t.head? == some '\'') = false := by
      cases t with
      | nil => simp
      | cons c r =>
        simp only [List.head?_cons, beq_eq_false_iff_ne, ne_eq, Option.some.injEq]
        intro hc; exact h r (by rw [hc])
    simp [this]

def stripAnch (em e inv : Bool) (t2 : List Char) : Stripped :=
  let pre := t2.head? == some '^'
  let t3 := if pre then t2.tail else t2
  let post := t3.getLast? == some '$'
  let body := if post then t3.dropLast else t3
  ⟨!(e || pre || post || em), inv, pre, post, body⟩

def stripRest (em q : Bool) (t1 : List Char) : Stripped :=
  let inv := t1.head? == some '!'
  let t2 := if inv then t1.tail else t1
  stripAnch em (q || inv) inv t2

theorem strip_eq (em : Bool) (t : List Char) :
    strip em t = if em && t.head? == some '\'' then ⟨true, false, false, false, t.tail⟩
      else stripRest em (t.head? == some '\'') (if (t.head? == some '\'') then t.tail else t) := rfl

theorem ite_not_swap {α : Type} (b : Bool) (x y : α) :
    (if b = true then x else y) = if (!b) = true then y else x := by cases b <;> rfl

theorem decodeAnchors_toEngine (em e inv : Bool) (t2 : List Char) :
    decodeAnchors em e inv t2 = toEngine (stripAnch em e inv t2) := by
  rw [decodeAnchors_eq]
  simp only [toEngine, stripAnch]
  exact ite_not_swap _ _ _

theorem decodeRest_strip (em q : Bool) (t1 : List Char) :
    (decodeRest em q t1 = .all ∧ (stripRest em q t1).body = []) ∨
      decodeRest em q t1 = toEngine (stripRest em q t1) := by
  rw [decodeRest_eq]
  simp only [stripRest]
  by_cases h : (if (t1.head? == some '!') = true then t1.tail else t1) = []
  · left; rw [h]; simp [stripAnch]
  · right
    have : (if (t1.head? == some '!') = true then t1.tail else t1).isEmpty = false := by
      simpa using h
    rw [this]; simp [decodeAnchors_toEngine]

theorem decode_strip (em : Bool) (t : List Char) :
    (decodeTerm em t = .all ∧ (strip em t).body = []) ∨ decodeTerm em t = toEngine (strip em t) := by
  rw [decodeTerm_eq, strip_eq]
  simp only []
  split
  · right; rfl
  · exact decodeRest_strip em _ _


theorem caseSensitive_eq (cm : CaseMode) (b : List Char) : caseSensitive cm b = specCaseSensitive cm b := by
  cases cm <;> rfl

theorem isInfixB_iff (b x : List Char) : isInfixB b x = true ↔ b <:+: x := by
  induction x with
  | nil => simp [isInfixB, List.isPrefixOf_iff_prefix]
  | cons c xs ih => simp [isInfixB, List.isPrefixOf_iff_prefix, ih, List.infix_cons_iff]

theorem anchoredB_iff (pre post : Bool) (b x : List Char) :
    anchoredB pre post b x = true ↔ anchored pre post b x := by
  cases pre <;> cases post <;>
    simp [anchoredB, anchored, isInfixB_iff, List.isPrefixOf_iff_prefix, List.isSuffixOf_iff_suffix]

theorem strippedSpecB_iff (cm : CaseMode) (d : Stripped) (x : List Char) :
    strippedSpecB cm d x = true ↔ strippedSpec cm d x := by
  unfold strippedSpecB strippedSpec
  by_cases hb : d.body = []
  · simp [hb]
  · have hb' : d.body.isEmpty = false := by cases h : d.body <;> simp_all
    simp only [hb', hb, Bool.false_eq_true, if_false]
    cases d.fuzzy
    · cases d.inverse
      · simp [anchoredB_iff]
      · simp [← anchoredB_iff]
    · simp [List.isSublist_iff_sublist]

/-- fuzzy engine with a non-empty body: the `choice.is_empty()` shortcut changes nothing -/
theorem fuzzy_core (cs : Bool) (b x : List Char) (hb : b ≠ []) :
    (if x.isEmpty then false else greedy cs b x) = true ↔ (fold cs b).Sublist (fold cs x) := by
  rw [fold_eq_map, fold_eq_map, ← greedy_iff]
  cases x with
  | nil => cases b with
    | nil => exact absurd rfl hb
    | cons a t => simp [greedy]
  | cons c xs => simp

theorem exact_core (cm : CaseMode) (b : List Char) (pre post inv : Bool) (x : List Char) (hb : b ≠ []) :
    exactVerdict cm b pre post inv x = true ↔
      (if inv then ¬ anchored pre post (fold (specCaseSensitive cm b) b) (fold (specCaseSensitive cm b) x)
       else anchored pre post (fold (specCaseSensitive cm b) b) (fold (specCaseSensitive cm b) x)) := by
  have hb' : b.isEmpty = false := by cases b <;> simp_all
  simp only [exactVerdict, hb', Bool.false_eq_true, if_false, caseSensitive_eq]
  rw [fold_eq_map, fold_eq_map]
  cases inv
  · simp [litFind_iff]
  · simp [← litFind_iff]

theorem termVerdict_toEngine_exact (cfg : Cfg) (d : Stripped) (x : List Char) (hf : d.fuzzy = false) :
    termVerdict cfg (toEngine d) x = true ↔ strippedSpec cfg.case d x := by
  unfold toEngine strippedSpec
  simp only [hf, Bool.false_eq_true, if_false, termVerdict]
  by_cases hb : d.body = []
  · simp [hb, exactVerdict]
  · simp only [hb, if_false]
    rw [exact_core _ _ _ _ _ _ hb]

theorem termVerdict_toEngine_fuzzy (cfg : Cfg) (d : Stripped) (x : List Char) (hf : d.fuzzy = true) (cm : CaseMode)
    (hcs : fuzzyCaseSensitive cfg d.body = specCaseSensitive cm d.body) :
    termVerdict cfg (toEngine d) x = true ↔ strippedSpec cm d x := by
  unfold toEngine strippedSpec
  simp only [hf, if_true, termVerdict, fuzzyVerdict]
  by_cases hb : d.body = []
  · simp [hb]
  · have hb' : d.body.isEmpty = false := by cases h : d.body <;> simp_all
    simp only [hb, hb', Bool.false_eq_true, if_false, hcs]
    exact fuzzy_core _ _ _ hb

theorem termVerdict_toEngine (cfg : Cfg) (d : Stripped) (x : List Char) (h : cfg.algo ≠ .skimV1) :
    termVerdict cfg (toEngine d) x = true ↔ strippedSpec cfg.case d x := by
  cases hf : d.fuzzy
  · exact termVerdict_toEngine_exact cfg d x hf
  · apply termVerdict_toEngine_fuzzy cfg d x hf
    unfold fuzzyCaseSensitive
    cases ha : cfg.algo
    · exact absurd ha h
    · exact caseSensitive_eq _ _
    · exact caseSensitive_eq _ _

theorem termVerdict_toEngine_v1 (cfg : Cfg) (d : Stripped) (x : List Char) (h : cfg.algo = .skimV1)
    (hf : d.fuzzy = true) :
    termVerdict cfg (toEngine d) x = true ↔ strippedSpec .ignore d x := by
  apply termVerdict_toEngine_fuzzy cfg d x hf
  simp [fuzzyCaseSensitive, h, specCaseSensitive]


theorem getLast?_snoc (b : List Char) (c : Char) : (b ++ [c]).getLast? = some c := by simp
theorem dropLast_snoc (b : List Char) (c : Char) : (b ++ [c]).dropLast = b := by simp

theorem termVerdict_toEngine_nil (cfg : Cfg) (d : Stripped) (x : List Char) (hb : d.body = []) :
    termVerdict cfg (toEngine d) x = true := by
  unfold toEngine
  cases d.fuzzy <;> simp [termVerdict, fuzzyVerdict, exactVerdict, hb]

end SkimModel.Engine
