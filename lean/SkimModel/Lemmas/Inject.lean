/-
Helper lemmas for C07 (property theorems are in Props/C07.lean).
-/
import SkimModel.Spec.Inject
namespace SkimModel.Inject
open SkimModel.Sh SkimModel.Generated.Inject

set_option linter.unusedSimpArgs false

theorem run_append (s : Lex) (a b : List Char) : run s (a ++ b) = run (run s a) b := by
  simp [run, List.foldl_append]

theorem run_cons (s : Lex) (c : Char) (r : List Char) : run s (c :: r) = run (step s c) r := rfl
theorem run_nil (s : Lex) : run s [] = s := rfl

theorem unqAct_sq (p : Prev) (i : Bool) (h : p ≠ .dollar) : unqAct p i '\'' = .openSq := by simp [unqAct, h]
theorem unqAct_bs (p : Prev) (i : Bool) : unqAct p i '\\' = .backslash := by simp [unqAct]
theorem unqAct_blank (p : Prev) (i : Bool) : unqAct p i ' ' = .blank := by simp [unqAct]

theorem escapeOne_quote : escapeOne '\'' = ['\'', '\\', '\'', '\''] := by decide
theorem escapeOne_nul : escapeOne '\x00' = ['\\', '0'] := by decide
theorem escapeOne_other (c : Char) (h1 : c ≠ '\'') (h2 : c ≠ '\x00') : escapeOne c = [c] := by
  simp [escapeOne, escapeClass, h1, h2]

theorem run_sq (v : List Char) (s : Lex) (hm : s.mode = .sq) (hw : s.inWord = true) (hp : s.prev = .none) :
    run s (escapeSQ v) = { s with word := s.word ++ nul0 v } := by
  induction v generalizing s with
  | nil => simp [escapeSQ, run, nul0]
  | cons c t ih =>
    obtain ⟨mode, word, inWord, prev, exp, toks⟩ := s
    simp only at hm hw hp
    subst hm hw hp
    simp only [escapeSQ, List.flatMap_cons] at ih ⊢
    rw [run_append]
    by_cases h1 : c = '\''
    · subst h1
      rw [escapeOne_quote]
      simp only [run_cons, run_nil, step]
      simp [unqAct_bs, unqAct_sq]
      rw [ih] <;> simp [nul0]
    · by_cases h2 : c = '\x00'
      · subst h2
        rw [escapeOne_nul]
        simp only [run_cons, run_nil, step]
        simp
        rw [ih] <;> simp [nul0]
      · rw [escapeOne_other c h1 h2]
        simp only [run_cons, run_nil, step]
        simp [h1]
        rw [ih] <;> simp [nul0, h2]

theorem pushVal_mode (s : Lex) (v : List Char) : (pushVal s v).mode = s.mode := rfl

theorem quote_run (v : List Char) (s : Lex) (hu : s.mode = .unq) (hd : s.prev ≠ .dollar) :
    run s (quote v) = pushVal s v := by
  obtain ⟨mode, word, inWord, prev, exp, toks⟩ := s
  simp only at hu hd
  subst hu
  simp only [quote, quoteOpen, quoteClose, List.cons_append, List.nil_append, run_cons]
  rw [run_append, run_sq] <;> simp [step, run_cons, run_nil, pushVal, unqAct_sq _ _ hd]

theorem step_blank_prev (s : Lex) (hu : s.mode = .unq) : (step s ' ').prev = .none := by
  simp [step, hu, flush, unqAct_blank]

theorem step_blank_mode (s : Lex) (hu : s.mode = .unq) : (step s ' ').mode = .unq := by
  simp [step, hu, flush, unqAct_blank]

theorem joinVals_run (vs : List (List Char)) (s : Lex) (hu : s.mode = .unq) (hd : s.prev ≠ .dollar) :
    run s (joinVals (vs.map quote)) = pushVals s vs := by
  induction vs generalizing s with
  | nil => rfl
  | cons v t ih =>
    cases t with
    | nil => simp [joinVals, pushVals, quote_run v s hu hd]
    | cons w t' =>
      simp only [List.map_cons, joinVals, pushVals, joinSep] at ih ⊢
      rw [run_append, quote_run v s hu hd]
      simp only [List.cons_append, List.nil_append, run_cons]
      have hm : (pushVal s v).mode = .unq := by simp [pushVal_mode, hu]
      exact ih _ (step_blank_mode _ hm) (by rw [step_blank_prev _ hm]; decide)

theorem template_run (ctx : Ctx) (segs : List Seg) (s : Lex) (hu : phUnquoted ctx s segs = true) :
    run s (segs.flatMap (renderSeg ctx)) = specRun ctx s segs := by
  induction segs generalizing s with
  | nil => rfl
  | cons seg rest ih =>
    simp only [phUnquoted, Bool.and_eq_true] at hu
    simp only [List.flatMap_cons, run_append, specRun, List.foldl_cons]
    have h := ih (specSeg ctx s seg) hu.2
    simp only [specRun] at h
    rw [← h]
    congr 1
    cases seg with
    | chr c => rfl
    | esc r => rfl
    | ph r rg =>
      have hm : s.mode = .unq ∧ s.prev ≠ .dollar := by simpa using hu.1
      simp only [renderSeg, specSeg]
      exact joinVals_run _ s hm.1 hm.2

theorem stripDash_append (l : List Char) : (stripDash l).1 ++ (stripDash l).2 = l := by
  unfold stripDash; split <;> simp

theorem matchBrace_split {s rg m rest} (h : matchBrace s = some (rg, m, rest)) : m ++ rest = s := by
  unfold matchBrace at h
  split at h
  · rename_i r0
    simp only at h
    split at h
    · rename_i rest' heq
      simp only [Option.some.injEq, Prod.mk.injEq] at h
      obtain ⟨_, rfl, rfl⟩ := h
      simp only [List.cons_append, List.append_assoc, List.nil_append]
      rw [← heq, List.takeWhile_append_dropWhile, List.takeWhile_append_dropWhile, stripDash_append,
        List.takeWhile_append_dropWhile]
    · simp at h
  · simp at h

theorem scan_raw (t : List Char) : (scan t).flatMap Seg.raw = t := by
  fun_induction scan t with
  | case1 => rfl
  | case2 r rg m rest h ih =>
    simp only [List.flatMap_cons, Seg.raw, ih, List.cons_append]
    rw [matchBrace_split h]
  | case3 r h ih => simp [Seg.raw, ih]
  | case4 c r hc rg m rest h ih =>
    simp only [List.flatMap_cons, Seg.raw, ih]
    rw [matchBrace_split h]
  | case5 c r hc h ih => simp [Seg.raw, ih]

theorem scan_escaped {r rg m rest} (h : matchBrace r = some (rg, m, rest)) :
    scan ('\\' :: r) = .esc ('\\' :: m) :: scan rest := by
  rw [scan]; simp only [if_true]; split
  · rename_i h2; rw [h] at h2; simp only [Option.some.injEq, Prod.mk.injEq] at h2
    obtain ⟨_, rfl, rfl⟩ := h2; rfl
  · rename_i h2; rw [h] at h2; simp at h2

/-- `b` is `a` with finished tokens `T` in front (the `exp` flag is not compared) -/
def Frame (T : List Tok) (a b : Lex) : Prop :=
  b.mode = a.mode ∧ b.word = a.word ∧ b.inWord = a.inWord ∧ b.prev = a.prev ∧ b.toks = T ++ a.toks

theorem step_frame {T : List Tok} {a b : Lex} (h : Frame T a b) (c : Char) : Frame T (step a c) (step b c) := by
  obtain ⟨m, w, i, p, e, t⟩ := a
  obtain ⟨m', w', i', p', e', t'⟩ := b
  obtain ⟨h1, h2, h3, h4, h5⟩ := h
  simp only at h1 h2 h3 h4 h5
  subst h1 h2 h3 h4 h5
  cases m'
  · simp only [step]
    cases unqAct p' i' c <;> simp [Frame, flush] <;> split <;> simp
  all_goals simp only [step, flush, Frame] <;> (repeat' split) <;> simp_all

theorem run_frame {T : List Tok} (cs : List Char) {a b : Lex} (h : Frame T a b) : Frame T (run a cs) (run b cs) := by
  induction cs generalizing a b with
  | nil => exact h
  | cons c r ih => exact ih (step_frame h c)

theorem finish_frame {T : List Tok} {a b : Lex} (h : Frame T a b) : finish b = (finish a).map (T ++ ·) := by
  obtain ⟨m, w, i, p, e, t⟩ := a
  obtain ⟨m', w', i', p', e', t'⟩ := b
  obtain ⟨h1, h2, h3, h4, h5⟩ := h
  simp only at h1 h2 h3 h4 h5
  subst h1 h2 h3 h4 h5
  cases m' <;> simp [finish, flush] <;> split <;> simp

/-- a word-boundary state: unquoted, no word started -/
def Clean (s : Lex) : Prop := s.mode = .unq ∧ s.inWord = false ∧ s.word = [] ∧ s.prev = .none

theorem clean_frame {s : Lex} (h : Clean s) : Frame s.toks {} s := by
  obtain ⟨h1, h2, h3, h4⟩ := h
  simp [Frame, h1, h2, h3, h4]

theorem step_blank_clean (s : Lex) (hu : s.mode = .unq) :
    Clean (step s ' ') ∧ (step s ' ').toks = (flush s).toks := by
  simp [step, hu, flush, Clean, unqAct_blank]

theorem pushVals_mode (vs : List (List Char)) (s : Lex) (hu : s.mode = .unq) : (pushVals s vs).mode = .unq := by
  induction vs generalizing s with
  | nil => exact hu
  | cons v t ih =>
    cases t with
    | nil => simpa [pushVals, pushVal] using hu
    | cons w t' =>
      simp only [pushVals]
      exact ih _ (step_blank_mode _ (by simp [pushVal_mode, hu]))

def wordsOf (vs : List (List Char)) : List Tok := vs.map fun v => Tok.word (nul0 v)

theorem pushVals_flush (vs : List (List Char)) (hne : vs ≠ []) (s : Lex) (hc : Clean s) :
    (flush (pushVals s vs)).toks = s.toks ++ wordsOf vs := by
  induction vs generalizing s with
  | nil => exact absurd rfl hne
  | cons v t ih =>
    obtain ⟨h1, h2, h3, h4⟩ := hc
    cases t with
    | nil => simp [pushVals, pushVal, flush, wordsOf, h3]
    | cons w t' =>
      simp only [pushVals]
      have hm : (pushVal s v).mode = .unq := by simp [pushVal_mode, h1]
      obtain ⟨hcl, ht⟩ := step_blank_clean (pushVal s v) hm
      rw [ih (by simp) _ hcl, ht]
      simp [pushVal, flush, wordsOf, h3]

theorem lex_values_framed (pre post : List Char) (vs : List (List Char)) (hne : vs ≠ [])
    (hpre : (run {} pre).mode = .unq) :
    lex (pre ++ ' ' :: (joinVals (vs.map quote) ++ ' ' :: post)) =
      (lex pre).bind fun a => (lex post).map fun b => a ++ (wordsOf vs ++ b) := by
  have hlp : lex pre = some (flush (run {} pre)).toks := by simp [lex, finish, hpre]
  obtain ⟨hc1, ht1⟩ := step_blank_clean (run {} pre) hpre
  have hm2 := pushVals_mode vs _ hc1.1
  obtain ⟨hc2, ht2⟩ := step_blank_clean _ hm2
  rw [pushVals_flush vs hne _ hc1, ht1] at ht2
  have hf := run_frame post (clean_frame hc2)
  rw [ht2] at hf
  have := finish_frame hf
  simp only [lex, run_append, run_cons, joinVals_run vs _ hc1.1 (by rw [hc1.2.2.2]; decide)] at hlp ⊢
  rw [this, hlp]
  simp [Option.map]

theorem plus_len (ctx : Ctx) (hl : ctx.idxs.length = ctx.sels.length) :
    (plusItems ctx).length = (plusIdxs ctx).length := by
  unfold plusItems plusIdxs
  cases hs : ctx.sels <;> cases hi : ctx.idxs <;> simp_all

theorem flatMap_congr_mem {f g : Seg → List Char} (l : List Seg) (h : ∀ x ∈ l, f x = g x) :
    l.flatMap f = l.flatMap g := by
  induction l with
  | nil => rfl
  | cons a t ih =>
    simp only [List.flatMap_cons]
    rw [h a (by simp), ih (fun x hx => h x (by simp [hx]))]

theorem matchBrace_head {c : Char} {r rg m rest : List Char} (h : matchBrace (c :: r) = some (rg, m, rest)) : c = '{' := by
  unfold matchBrace at h
  split at h
  · rename_i heq; simp only [List.cons.injEq] at heq; exact heq.1
  · simp at h

theorem isBlank_iff (c : Char) : isBlank c = true ↔ c = ' ' := by simp [isBlank]

theorem mem_takeWhile_imp' {p : Char → Bool} {l : List Char} {c : Char} (h : c ∈ l.takeWhile p) : p c = true := by
  induction l with
  | nil => simp at h
  | cons a t ih =>
    simp only [List.takeWhile] at h
    split at h
    · rename_i hp
      simp only [List.mem_cons] at h
      rcases h with rfl | h
      · exact hp
      · exact ih h
    · simp at h

theorem stripDash_fst (l : List Char) : (stripDash l).1 = [] ∨ (stripDash l).1 = ['-'] := by
  unfold stripDash; split <;> simp

theorem matchBrace_sound {s rg m rest : List Char} (h : matchBrace s = some (rg, m, rest)) :
    s = m ++ rest ∧ IsBrace m rg := by
  refine ⟨(matchBrace_split h).symm, ?_⟩
  unfold matchBrace at h
  split at h
  · rename_i r0
    simp only at h
    split at h
    · rename_i rest' heq
      simp only [Option.some.injEq, Prod.mk.injEq] at h
      obtain ⟨rfl, rfl, rfl⟩ := h
      exact ⟨_, _, _, _, rfl, rfl, fun c hc => (isBlank_iff c).1 (mem_takeWhile_imp' hc), stripDash_fst _,
        fun c hc => mem_takeWhile_imp' hc, fun c hc => (isBlank_iff c).1 (mem_takeWhile_imp' hc)⟩
    · simp at h
  · simp at h

theorem tw_append {p : Char → Bool} (a b : List Char) (ha : ∀ c ∈ a, p c = true) :
    (a ++ b).takeWhile p = a ++ b.takeWhile p := by
  induction a with
  | nil => rfl
  | cons x t ih =>
    have hx : p x = true := ha x (by simp)
    simp [List.takeWhile, hx, ih (fun c hc => ha c (by simp [hc]))]

theorem dw_append {p : Char → Bool} (a b : List Char) (ha : ∀ c ∈ a, p c = true) :
    (a ++ b).dropWhile p = b.dropWhile p := by
  induction a with
  | nil => rfl
  | cons x t ih =>
    have hx : p x = true := ha x (by simp)
    simp [List.dropWhile, hx, ih (fun c hc => ha c (by simp [hc]))]

theorem inClass_not_blank {c : Char} (h : inClass c = true) : isBlank c = false ∧ c ≠ '-' := by
  constructor
  · cases hb : isBlank c with
    | false => rfl
    | true =>
      have := (isBlank_iff c).1 hb
      subst this
      exact absurd h (by decide)
  · intro hc; subst hc; exact absurd h (by decide)

theorem matchBrace_complete (b1 dash cls b2 rest : List Char)
    (hb1 : ∀ c ∈ b1, c = ' ') (hd : dash = [] ∨ dash = ['-']) (hc : ∀ c ∈ cls, inClass c = true)
    (hb2 : ∀ c ∈ b2, c = ' ') :
    matchBrace ('{' :: (b1 ++ (dash ++ (cls ++ (b2 ++ '}' :: rest))))) =
      some (dash ++ cls, '{' :: (b1 ++ (dash ++ (cls ++ (b2 ++ ['}'])))), rest) := by
  have hB1 : ∀ c ∈ b1, isBlank c = true := fun c h => (isBlank_iff c).2 (hb1 c h)
  have hB2 : ∀ c ∈ b2, isBlank c = true := fun c h => (isBlank_iff c).2 (hb2 c h)
  have hbr : isBlank '}' = false := by decide
  have hcr : inClass '}' = false := by decide
  -- Y = b2 ++ '}' :: rest
  have hY1 : (b2 ++ '}' :: rest).dropWhile isBlank = '}' :: rest := by
    rw [dw_append _ _ hB2]; simp [List.dropWhile, hbr]
  have hY1' : (b2 ++ '}' :: rest).takeWhile isBlank = b2 := by
    rw [tw_append _ _ hB2]; simp [List.takeWhile, hbr]
  have hY2 : (b2 ++ '}' :: rest).takeWhile inClass = [] ∧ (b2 ++ '}' :: rest).dropWhile inClass = b2 ++ '}' :: rest := by
    cases b2 with
    | nil => simp [List.takeWhile, List.dropWhile, hcr]
    | cons x t =>
      have hx : x = ' ' := hb2 x (by simp)
      subst hx
      have : inClass ' ' = false := by decide
      simp [List.takeWhile, List.dropWhile, this]
  have hZ1 : (cls ++ (b2 ++ '}' :: rest)).takeWhile inClass = cls := by
    rw [tw_append _ _ hc, hY2.1]; simp
  have hZ2 : (cls ++ (b2 ++ '}' :: rest)).dropWhile inClass = b2 ++ '}' :: rest := by
    rw [dw_append _ _ hc, hY2.2]
  rcases hd with rfl | rfl
  · -- no dash
    cases cls with
    | nil =>
      simp only [List.nil_append] at *
      simp only [matchBrace, dw_append _ _ hB1, tw_append _ _ hB1, hY1, hY1']
      simp [stripDash, List.takeWhile, List.dropWhile, hcr, hbr]
    | cons x t =>
      have hx := inClass_not_blank (hc x (by simp))
      have hdw : (x :: t ++ (b2 ++ '}' :: rest)).dropWhile isBlank = x :: t ++ (b2 ++ '}' :: rest) := by
        simp [List.dropWhile, hx.1]
      have htw : (x :: t ++ (b2 ++ '}' :: rest)).takeWhile isBlank = [] := by
        simp [List.takeWhile, hx.1]
      have hsd : stripDash (x :: t ++ (b2 ++ '}' :: rest)) = ([], x :: t ++ (b2 ++ '}' :: rest)) := by
        unfold stripDash
        split
        · rename_i heq; simp only [List.cons_append, List.cons.injEq] at heq; exact absurd heq.1 hx.2
        · rfl
      simp only [List.nil_append]
      simp only [matchBrace, dw_append _ _ hB1, tw_append _ _ hB1, hdw, htw, hsd, hZ1, hZ2, hY1, hY1']
      simp
  · -- dash
    have hdw : ('-' :: (cls ++ (b2 ++ '}' :: rest))).dropWhile isBlank = '-' :: (cls ++ (b2 ++ '}' :: rest)) := by
      simp [List.dropWhile, show isBlank '-' = false by decide]
    have htw : ('-' :: (cls ++ (b2 ++ '}' :: rest))).takeWhile isBlank = [] := by
      simp [List.takeWhile, show isBlank '-' = false by decide]
    simp only [List.cons_append, List.nil_append]
    simp only [matchBrace, dw_append _ _ hB1, tw_append _ _ hB1, hdw, htw, stripDash, hZ1, hZ2, hY1, hY1']
    simp

theorem step_shape {a b : Lex} (h : shape a = shape b) (c : Char) : shape (step a c) = shape (step b c) := by
  obtain ⟨m, w, i, p, e, t⟩ := a
  obtain ⟨m', w', i', p', e', t'⟩ := b
  simp only [shape, Prod.mk.injEq] at h
  obtain ⟨h1, h2, h3, h4, h5⟩ := h
  subst h1 h2 h3 h4
  cases m
  · simp only [step]
    cases unqAct p i c <;> simp [shape, flush, tokShape, h5] <;> split <;> simp [tokShape, h5]
  all_goals simp only [step, flush, shape] <;> (repeat' split) <;> simp_all [tokShape]

theorem run_shape (cs : List Char) {a b : Lex} (h : shape a = shape b) : shape (run a cs) = shape (run b cs) := by
  induction cs generalizing a b with
  | nil => exact h
  | cons c r ih => exact ih (step_shape h c)

theorem pushVal_shape {a b : Lex} (h : shape a = shape b) (v w : List Char) :
    shape (pushVal a v) = shape (pushVal b w) := by
  simp only [shape, Prod.mk.injEq, pushVal] at h ⊢
  obtain ⟨h1, h2, h3, h4, h5⟩ := h
  exact ⟨h1, trivial, trivial, h4, h5⟩

theorem pushVals_shape (vs ws : List (List Char)) (hl : vs.length = ws.length) {a b : Lex} (h : shape a = shape b) :
    shape (pushVals a vs) = shape (pushVals b ws) := by
  induction vs generalizing ws a b with
  | nil => cases ws with
    | nil => exact h
    | cons _ _ => simp at hl
  | cons v t ih =>
    cases ws with
    | nil => simp at hl
    | cons w u =>
      cases t with
      | nil =>
        cases u with
        | nil => exact pushVal_shape h v w
        | cons _ _ => simp at hl
      | cons v2 t2 =>
        cases u with
        | nil => simp at hl
        | cons w2 u2 =>
          simp only [pushVals]
          exact ih (w2 :: u2) (by simpa using hl) (step_shape (pushVal_shape h v w) ' ')

theorem specRun_shape (ctx ctx' : Ctx) (hl : ∀ rg, (designate ctx rg).length = (designate ctx' rg).length)
    (segs : List Seg) {a b : Lex} (h : shape a = shape b) :
    shape (specRun ctx a segs) = shape (specRun ctx' b segs) ∧
    phUnquoted ctx a segs = phUnquoted ctx' b segs := by
  induction segs generalizing a b with
  | nil => exact ⟨h, rfl⟩
  | cons seg rest ih =>
    have hseg : shape (specSeg ctx a seg) = shape (specSeg ctx' b seg) := by
      cases seg with
      | chr c => exact step_shape h c
      | esc r => exact run_shape r h
      | ph r rg => exact pushVals_shape _ _ (hl rg) h
    have hm : a.mode = b.mode ∧ a.prev = b.prev := by
      simp only [shape, Prod.mk.injEq] at h; exact ⟨h.1, h.2.2.1⟩
    obtain ⟨h1, h2⟩ := ih hseg
    refine ⟨by simpa [specRun] using h1, ?_⟩
    simp only [phUnquoted, h2, hm.1, hm.2]

theorem designate_length (ctx ctx' : Ctx) (h1 : ctx.sels.length = ctx'.sels.length)
    (h2 : ctx.idxs.length = ctx'.idxs.length) (rg : List Char) :
    (designate ctx rg).length = (designate ctx' rg).length := by
  have e1 : (if ctx.sels.isEmpty then [ctx.cur] else ctx.sels).length =
      (if ctx'.sels.isEmpty then [ctx'.cur] else ctx'.sels).length := by
    cases hs : ctx.sels <;> cases hs' : ctx'.sels <;> simp_all
  have e2 : (if ctx.idxs.isEmpty then [ctx.curIdx] else ctx.idxs).length =
      (if ctx'.idxs.isEmpty then [ctx'.curIdx] else ctx'.idxs).length := by
    cases hs : ctx.idxs <;> cases hs' : ctx'.idxs <;> simp_all
  unfold designate
  split <;> simp only [List.length_map, List.length_zip, List.length_cons, List.length_nil, e1, e2]

end SkimModel.Inject
