/-
Liveness under weak fairness (coarse Session system): the helpful-class rule of `Lemmas/Fair.lean`
instantiated.  Classes of labels = threads: R (reader collector), T (matcher thread), K (timer), M (event loop).
Measure: while the collector lives, its remaining work; afterwards (work class, matcher phase) and, lowest,
"nobody is on the way to wake the event loop although it has to act".
-/
import SkimModel.Lemmas.SessionLive
import SkimModel.Lemmas.Fair
namespace SkimModel.Session
open SkimModel.Pool SkimModel.Fair
variable {α κ : Type}

inductive Cls | R | T | K | M
  deriving DecidableEq, Repr

def clsOf : Cls → Label α κ → Bool
  | .R, .rPush => true
  | .R, .rEnd => true
  | .T, .tTake => true
  | .T, .tPublish => true
  | .T, .tStop => true
  | .K, .timer => true
  | .M, .loop _ => true
  | _, _ => false

/-- the matcher thread still has a step to take -/
def tLive (s : St α κ) : Bool :=
  match s.mc with
  | some r => r.phase != .stopped
  | none => false

def helpful (s : St α κ) : Cls :=
  if s.live then .R else if tLive s then .T else if hbQueued s then .M else .K

def tf (s : St α κ) : Nat := if tLive s || hbQueued s then 0 else 1

def nu (s : St α κ) : Nat :=
  if s.live then 128 * readerWork s else 2 * (cls s * 16 + phaseRank s * 4) + tf s

theorem tf_le (s : St α κ) : tf s ≤ 1 := by unfold tf; split <;> omega

theorem nu_dead_le (s : St α κ) (h : s.live = false) : nu s ≤ 121 := by
  have a := cls_le s; have b := phaseRank_le s; have c := tf_le s
  simp only [nu, h]; simp; omega

theorem hbMain_reader (s : St α κ) (rd : Reads) :
    (hbMain s rd).live = s.live ∧ (hbMain s rd).unread = s.unread := by
  unfold hbMain; simp only []
  have a : ∀ rs ms, (hbHarvest s rs ms).live = s.live ∧ (hbHarvest s rs ms).unread = s.unread := by
    intro rs ms; unfold hbHarvest; split <;> exact ⟨rfl, rfl⟩
  obtain ⟨a1, a2⟩ := a (rd.rs && readerDone s) (rd.ms && matcherStopped s)
  generalize hbHarvest s (rd.rs && readerDone s) (rd.ms && matcherStopped s) = s1 at *
  have b : (restart s1).live = s1.live ∧ (restart s1).unread = s1.unread := by
    unfold restart; simp only []; split <;> exact ⟨rfl, rfl⟩
  split <;> split <;> simp_all

theorem hbMain_queue (s : St α κ) (rd : Reads) (h : s.queue.all Ev.isHB = true) :
    (hbMain s rd).queue.all Ev.isHB = true := by
  unfold hbMain; simp only []
  have a : ∀ rs ms, (hbHarvest s rs ms).queue = s.queue := by
    intro rs ms; unfold hbHarvest; split <;> rfl
  have a1 := a (rd.rs && readerDone s) (rd.ms && matcherStopped s)
  generalize hbHarvest s (rd.rs && readerDone s) (rd.ms && matcherStopped s) = s1 at *
  have b : (restart s1).queue = s1.queue ++ [.hb] := by
    unfold restart; simp only []; split <;> rfl
  split <;> split <;> simp_all [List.all_append, Ev.isHB]

/-- accurate heart beat while a matcher run is not stopped: only the timer is armed -/
theorem hbMain_active (s : St α κ) (r : MRun α κ) (hmc : s.mc = some r) (hp : r.phase ≠ .stopped) :
    hbMain s {} = { s with timer := true } := by
  have hms : matcherStopped s = false := by simp [matcherStopped, hmc, hp]
  have hh : ∀ rs, hbHarvest s rs false = s := by intro rs; unfold hbHarvest; split <;> simp_all
  unfold hbMain
  simp only [hms, Bool.and_false, hh, hmc, Option.isNone_some, Bool.and_false, Bool.false_eq_true, if_false,
    Option.isSome_some, Bool.true_or, if_true]

/-- accurate heart beat in a quiet state: nothing happens -/
theorem hbMain_quiet (s : St α κ) (hq : Quiet s) : hbMain s {} = s := by
  obtain ⟨⟨_, hb, hl⟩, hmc, htk⟩ := hq
  have hms : matcherStopped s = false := by simp [matcherStopped, hmc]
  have hh : ∀ rs, hbHarvest s rs false = s := by intro rs; unfold hbHarvest; split <;> simp_all
  have hrd : readerDone s = true := by simp [readerDone, hb, hl]
  have hic : itemsConsumed s = true := by simp [itemsConsumed, htk]
  unfold hbMain
  simp only [hms, hrd, Bool.and_false, Bool.and_true, hh, hic, Bool.not_true, Bool.false_and, Bool.false_eq_true,
    if_false, hmc, Option.isSome_none, Bool.or_false]

theorem quiet_congr (s s' : St α κ) (e1 : s'.unread = s.unread) (e2 : s'.buf = s.buf) (e3 : s'.live = s.live)
    (e4 : s'.mc = s.mc) (e5 : s'.pool = s.pool) : Quiet s' ↔ Quiet s := by
  simp only [Quiet, e1, e2, e3, e4, e5]

/-- the loop step on a queue of heart beats only -/
theorem step_loop_inv (m : κ → α → Bool) (s s' : St α κ) (h : Ready m s)
    (hs : step m s (.loop {}) = some s') : s' = hbMain { s with queue := [] } {} ∧ hbQueued s = true := by
  have hfin' : s.finished.isSome = false := by simp [h.fin]
  cases hq : s.queue with
  | nil => simp [step, stepWith, hfin', hq] at hs
  | cons e rest =>
    have hall := h.onlyHB
    rw [hq] at hall
    have hhb : hbQueued s = true := by
      cases e with
      | hb => simp [hbQueued, hq, Ev.isHB]
      | user u => simp [Ev.isHB] at hall
    obtain ⟨rest', hq', _, hd⟩ := all_hb_head s.queue h.onlyHB hhb
    have := step_loop_hb m s rest' h.fin hq' hd h.noSel
    rw [this] at hs
    exact ⟨(Option.some.inj hs).symm, hhb⟩


theorem ready_internal (m : κ → α → Bool) (s s' : St α κ) (l : Label α κ) (h : Ready m s)
    (hc : l.canon = true) (hs : step m s l = some s') : Ready m s' := by
  cases l with
  | user e => simp [Label.canon] at hc
  | rPush =>
    have hfq : s'.finished = s.finished ∧ s'.queue = s.queue ∧ s'.select1 = s.select1 ∧ s'.exit0 = s.exit0 := by
      simp only [step, stepWith] at hs
      split at hs
      · cases hs
      · split at hs
        · cases hs; exact ⟨rfl, rfl, rfl, rfl⟩
        · cases hs
    exact ready_of_step m s s' _ h hs (hfq.1.trans h.fin) (by rw [hfq.2.1]; exact h.onlyHB)
      ⟨hfq.2.2.1.trans h.noSel.1, hfq.2.2.2.trans h.noSel.2⟩
  | rEnd =>
    have hfq : s'.finished = s.finished ∧ s'.queue = s.queue ∧ s'.select1 = s.select1 ∧ s'.exit0 = s.exit0 := by
      simp only [step, stepWith] at hs
      split at hs
      · cases hs
      · split at hs
        · cases hs; exact ⟨rfl, rfl, rfl, rfl⟩
        · cases hs
    exact ready_of_step m s s' _ h hs (hfq.1.trans h.fin) (by rw [hfq.2.1]; exact h.onlyHB)
      ⟨hfq.2.2.1.trans h.noSel.1, hfq.2.2.2.trans h.noSel.2⟩
  | tTake =>
    have hfq : s'.finished = s.finished ∧ s'.queue = s.queue ∧ s'.select1 = s.select1 ∧ s'.exit0 = s.exit0 := by
      simp only [step, stepWith] at hs
      split at hs
      · split at hs
        · cases hs; exact ⟨rfl, rfl, rfl, rfl⟩
        · cases hs
      · cases hs
    exact ready_of_step m s s' _ h hs (hfq.1.trans h.fin) (by rw [hfq.2.1]; exact h.onlyHB)
      ⟨hfq.2.2.1.trans h.noSel.1, hfq.2.2.2.trans h.noSel.2⟩
  | tPublish =>
    have hfq : s'.finished = s.finished ∧ s'.queue = s.queue ++ [.hb] ∧ s'.select1 = s.select1 ∧ s'.exit0 = s.exit0 := by
      simp only [step, stepWith] at hs
      split at hs
      · split at hs
        · cases hs; exact ⟨rfl, rfl, rfl, rfl⟩
        · cases hs
      · cases hs
    exact ready_of_step m s s' _ h hs (hfq.1.trans h.fin)
      (by rw [hfq.2.1]; simp [List.all_append, h.onlyHB, Ev.isHB])
      ⟨hfq.2.2.1.trans h.noSel.1, hfq.2.2.2.trans h.noSel.2⟩
  | tStop =>
    have hfq : s'.finished = s.finished ∧ s'.queue = s.queue ∧ s'.select1 = s.select1 ∧ s'.exit0 = s.exit0 := by
      simp only [step, stepWith] at hs
      split at hs
      · split at hs
        · cases hs; exact ⟨rfl, rfl, rfl, rfl⟩
        · cases hs
      · cases hs
    exact ready_of_step m s s' _ h hs (hfq.1.trans h.fin) (by rw [hfq.2.1]; exact h.onlyHB)
      ⟨hfq.2.2.1.trans h.noSel.1, hfq.2.2.2.trans h.noSel.2⟩
  | timer =>
    have hfq : s'.finished = s.finished ∧ s'.queue = s.queue ++ [.hb] ∧ s'.select1 = s.select1 ∧ s'.exit0 = s.exit0 := by
      simp only [step, stepWith] at hs
      split at hs
      · cases hs; exact ⟨rfl, rfl, rfl, rfl⟩
      · cases hs
    exact ready_of_step m s s' _ h hs (hfq.1.trans h.fin)
      (by rw [hfq.2.1]; simp [List.all_append, h.onlyHB, Ev.isHB])
      ⟨hfq.2.2.1.trans h.noSel.1, hfq.2.2.2.trans h.noSel.2⟩
  | loop rd =>
    have hrd : rd = {} := by simpa [Label.canon] using hc
    subst hrd
    obtain ⟨e, _⟩ := step_loop_inv m s s' h hs
    have o := hbMain_opts ({ s with queue := [] } : St α κ) {}
    have hq : s'.queue.all Ev.isHB = true := by
      rw [e]; exact hbMain_queue _ _ rfl
    exact ready_of_step m s s' _ h hs (by rw [e, o.2.2.2.2.1]; exact h.fin) hq
      ⟨by rw [e, o.2.1]; exact h.noSel.1, by rw [e, o.2.2.1]; exact h.noSel.2⟩


def afterTimer (s : St α κ) : St α κ := { s with timer := false, queue := s.queue ++ [.hb] }

theorem nu_live (s : St α κ) (h : s.live = true) : nu s = 128 * readerWork s := by simp [nu, h]
theorem nu_dead (s : St α κ) (h : s.live = false) : nu s = 2 * (cls s * 16 + phaseRank s * 4) + tf s := by
  simp [nu, h]

/-- steps of T, K and M do not touch the collector's side -/
theorem step_reader_other (m : κ → α → Bool) (s s' : St α κ) (l : Label α κ) (h : Ready m s)
    (hc : l.canon = true) (hR : clsOf Cls.R l = false) (hs : step m s l = some s') :
    s'.live = s.live ∧ s'.unread = s.unread := by
  cases l with
  | user e => simp [Label.canon] at hc
  | rPush => simp [clsOf] at hR
  | rEnd => simp [clsOf] at hR
  | tTake =>
    simp only [step, stepWith] at hs
    split at hs
    · split at hs
      · cases hs; exact ⟨rfl, rfl⟩
      · cases hs
    · cases hs
  | tPublish =>
    simp only [step, stepWith] at hs
    split at hs
    · split at hs
      · cases hs; exact ⟨rfl, rfl⟩
      · cases hs
    · cases hs
  | tStop =>
    simp only [step, stepWith] at hs
    split at hs
    · split at hs
      · cases hs; exact ⟨rfl, rfl⟩
      · cases hs
    · cases hs
  | timer =>
    simp only [step, stepWith] at hs
    split at hs
    · cases hs; exact ⟨rfl, rfl⟩
    · cases hs
  | loop rd =>
    have hrd : rd = {} := by simpa [Label.canon] using hc
    subst hrd
    obtain ⟨e, _⟩ := step_loop_inv m s s' h hs
    rw [e]; exact hbMain_reader _ _

theorem helpful_live (s : St α κ) (h : s.live = true) : helpful s = .R := by simp [helpful, h]

/-- every step of a keystroke-free execution with accurate reads, from a state that is not quiet: the measure
    decreases, or the state becomes quiet, or the step is not one of the helpful thread and changes neither the
    measure nor the helpful thread -/
theorem fair_step (m : κ → α → Bool) (s s' : St α κ) (l : Label α κ) (h : Ready m s) (hnq : ¬ Quiet s)
    (hc : l.canon = true) (hs : step m s l = some s') :
    nu s' < nu s ∨ Quiet s' ∨ (clsOf (helpful s) l = false ∧ helpful s' = helpful s ∧ nu s' = nu s) := by
  have hfin' : s.finished.isSome = false := by simp [h.fin]
  by_cases hlive : s.live = true
  · -- the collector is alive: it is the helpful thread, nobody else changes the measure
    by_cases hR : clsOf Cls.R l = true
    · left
      cases l with
      | rPush =>
        cases hu : s.unread with
        | nil => simp [step, stepWith, hfin', hlive, hu] at hs
        | cons x u =>
          have hs' : step m s .rPush = some { s with unread := u, buf := s.buf ++ [x] } := by
            simp [step, stepWith, hfin', hlive, hu]
          rw [hs'] at hs
          have e := (Option.some.inj hs).symm; subst e
          have l1 : ({ s with unread := u, buf := s.buf ++ [x] } : St α κ).live = true := hlive
          rw [nu_live _ hlive, nu_live _ l1]
          simp [readerWork, hu, hlive]
      | rEnd =>
        cases hu : s.unread with
        | cons x u => simp [step, stepWith, hfin', hlive, hu] at hs
        | nil =>
          have hs' : step m s .rEnd = some { s with live := false } := by
            simp [step, stepWith, hfin', hlive, hu]
          rw [hs'] at hs
          have e := (Option.some.inj hs).symm; subst e
          have := nu_dead_le ({ s with live := false } : St α κ) rfl
          have rw1 : readerWork s = 1 := by simp [readerWork, hu, hlive]
          rw [nu_live _ hlive, rw1]; omega
      | _ => simp [clsOf] at hR
    · have hR' : clsOf Cls.R l = false := by simpa using hR
      obtain ⟨e1, e2⟩ := step_reader_other m s s' l h hc hR' hs
      have hl' : s'.live = true := e1.trans hlive
      right; right
      refine ⟨by rw [helpful_live s hlive]; exact hR', by rw [helpful_live s hlive, helpful_live s' hl'], ?_⟩
      rw [nu_live _ hlive, nu_live _ hl']; simp [readerWork, e1, e2]
  · have hlive' : s.live = false := by simpa using hlive
    have hun : s.unread = [] := h.inv.core.dead hlive'
    cases l with
    | user e => simp [Label.canon] at hc
    | rPush => simp [step, stepWith, hfin', hlive'] at hs
    | rEnd => simp [step, stepWith, hfin', hlive'] at hs
    | tTake =>
      left
      cases hmc : s.mc with
      | none => simp [step, stepWith, hmc] at hs
      | some r =>
        by_cases hp : r.phase = .spawned
        · rw [step_tTake m s r hmc hp] at hs
          have e := (Option.some.inj hs).symm; subst e
          have l1 : (afterTake s r).live = false := hlive'
          rw [nu_dead _ hlive', nu_dead _ l1]
          have p0 : phaseRank s = 3 := by simp [phaseRank, hmc, hp]
          have p1 : phaseRank (afterTake s r) = 2 := rfl
          have t0 : tf s = 0 := by simp [tf, tLive, hmc, hp]
          have t1 : tf (afterTake s r) = 0 := by simp [tf, tLive, afterTake]
          have c : cls (afterTake s r) ≤ cls s := by
            by_cases hb : s.buf.isEmpty = false
            · simp [cls, hb, afterTake]
            · have hb' : s.buf.isEmpty = true := by simpa using hb
              have a : cls (afterTake s r) = 1 := by simp [cls, hb', afterTake, Pool.take]
              rw [a]; simp only [cls, hb', Bool.true_eq_false, if_false, hmc, Option.isSome_some, if_true]
              split <;> omega
          omega
        · simp [step, stepWith, hmc, hp] at hs
    | tPublish =>
      left
      cases hmc : s.mc with
      | none => simp [step, stepWith, hmc] at hs
      | some r =>
        by_cases hp : r.phase = .matching
        · rw [step_tPublish m s r hmc hp] at hs
          have e := (Option.some.inj hs).symm; subst e
          have l1 : (afterPublish m s r).live = false := hlive'
          rw [nu_dead _ hlive', nu_dead _ l1]
          have p0 : phaseRank s = 2 := by simp [phaseRank, hmc, hp]
          have p1 : phaseRank (afterPublish m s r) = 1 := rfl
          have t0 : tf s = 0 := by simp [tf, tLive, hmc, hp]
          have t1 : tf (afterPublish m s r) = 0 := by simp [tf, tLive, afterPublish]
          have c : cls (afterPublish m s r) = cls s := by simp [cls, afterPublish, hmc]
          omega
        · simp [step, stepWith, hmc, hp] at hs
    | tStop =>
      left
      cases hmc : s.mc with
      | none => simp [step, stepWith, hmc] at hs
      | some r =>
        by_cases hp : r.phase = .published
        · rw [step_tStop m s r hmc hp] at hs
          have e := (Option.some.inj hs).symm; subst e
          have l1 : (afterStop s r).live = false := hlive'
          rw [nu_dead _ hlive', nu_dead _ l1]
          have p0 : phaseRank s = 1 := by simp [phaseRank, hmc, hp]
          have p1 : phaseRank (afterStop s r) = 0 := rfl
          have t1 := tf_le (afterStop s r)
          have c : cls (afterStop s r) = cls s := by simp [cls, afterStop, hmc]
          omega
        · simp [step, stepWith, hmc, hp] at hs
    | timer =>
      by_cases ht : s.timer = true
      · rw [step_timer m s ht] at hs
        have e : s' = afterTimer s := (Option.some.inj hs).symm
        subst e
        have l1 : (afterTimer s).live = false := hlive'
        have c : cls (afterTimer s) = cls s := rfl
        have p : phaseRank (afterTimer s) = phaseRank s := rfl
        have tl : tLive (afterTimer s) = tLive s := rfl
        have hq1 : hbQueued (afterTimer s) = true := by simp [hbQueued, afterTimer, Ev.isHB]
        have t1 : tf (afterTimer s) = 0 := by simp [tf, hq1]
        by_cases t0 : tf s = 0
        · right; right
          have hor : (tLive s || hbQueued s) = true := by
            unfold tf at t0; split at t0
            · assumption
            · omega
          have hh : helpful s = if tLive s then .T else .M := by
            unfold helpful; rw [hlive']; simp only [Bool.false_eq_true, if_false]
            by_cases a : tLive s = true
            · simp [a]
            · have a' : tLive s = false := by simpa using a
              have b : hbQueued s = true := by simpa [a'] using hor
              simp [a', b]
          have hh' : helpful (afterTimer s) = if tLive s then .T else .M := by
            unfold helpful; rw [l1, tl, hq1]; simp
          refine ⟨?_, by rw [hh, hh'], ?_⟩
          · rw [hh]; split <;> rfl
          · rw [nu_dead _ hlive', nu_dead _ l1, c, p, t1, t0]
        · left
          have := tf_le s
          rw [nu_dead _ hlive', nu_dead _ l1, c, p, t1]; omega
      · simp [step, stepWith, ht] at hs
    | loop rd =>
      have hrd : rd = {} := by simpa [Label.canon] using hc
      subst hrd
      obtain ⟨e, hhb⟩ := step_loop_inv m s s' h hs
      have l1 : s'.live = false := by rw [e, (hbMain_reader _ _).1]; exact hlive'
      have t0 : tf s = 0 := by simp [tf, hhb]
      cases hmc : s.mc with
      | some r =>
        have hmc0 : ({ s with queue := [] } : St α κ).mc = some r := hmc
        by_cases hp : r.phase = .stopped
        · left
          obtain ⟨_, htk, _, _, _, _⟩ := acc_stopped m s r h.inv.acc hmc hp
          have p0 : phaseRank s = 0 := by simp [phaseRank, hmc, hp]
          by_cases hrd : readerDone s = true
          · have hrd0 : readerDone ({ s with queue := [] } : St α κ) = true := hrd
            rw [hbMain_stopped_done ({ s with queue := [] } : St α κ) r hmc0 hp hrd0 htk] at e
            have hb : s.buf.isEmpty = true := by
              simp only [readerDone, Bool.and_eq_true] at hrd; exact hrd.2
            have c1 : cls s = 1 := by simp [cls, hb, htk, hmc]
            have c0 : cls s' = 0 := by rw [e]; simp [cls, harvest, hb, htk]
            have p1 : phaseRank s' = 0 := by rw [e]; simp [phaseRank, harvest]
            have := tf_le s'
            rw [nu_dead _ hlive', nu_dead _ l1, c1, c0, p0, p1, t0]; omega
          · have hrd' : readerDone s = false := by simpa using hrd
            have hrd0 : readerDone ({ s with queue := [] } : St α κ) = false := hrd'
            rw [hbMain_stopped_more ({ s with queue := [] } : St α κ) r hmc0 hp hrd0] at e
            have hrdh : readerDone (harvest ({ s with queue := [] } : St α κ) r false) = false := hrd'
            have hb : s.buf.isEmpty = false := by
              simp only [readerDone, hlive', Bool.not_false, Bool.true_and] at hrd'; exact hrd'
            have c3 : cls s = 3 := by simp [cls, hb]
            have c2 : cls s' ≤ 2 := by rw [e]; exact cls_restart_le _ hrdh true
            have := tf_le s'; have := phaseRank_le s'
            rw [nu_dead _ hlive', nu_dead _ l1, c3, p0, t0]; omega
        · right; right
          rw [hbMain_active ({ s with queue := [] } : St α κ) r hmc0 hp] at e
          have tl : tLive s = true := by simp [tLive, hmc, hp]
          have tl' : tLive s' = true := by rw [e]; simp [tLive, hmc, hp]
          refine ⟨by simp [helpful, hlive', tl, clsOf], by simp [helpful, hlive', l1, tl, tl'], ?_⟩
          have c : cls s' = cls s := by rw [e]; rfl
          have p : phaseRank s' = phaseRank s := by rw [e]; rfl
          have t1 : tf s' = 0 := by simp [tf, tl']
          rw [nu_dead _ hlive', nu_dead _ l1, c, p, t0, t1]
      | none =>
        left
        have htk := h.inv.idle hmc
        have hb : s.buf.isEmpty = false := by
          cases hbb : s.buf with
          | nil => exact absurd ⟨⟨hun, hbb, hlive'⟩, hmc, htk⟩ hnq
          | cons x xs => rfl
        have hrd' : readerDone s = false := by simp [readerDone, hb]
        have hmc0 : ({ s with queue := [] } : St α κ).mc = none := hmc
        have hrd0 : readerDone ({ s with queue := [] } : St α κ) = false := hrd'
        rw [hbMain_none_more ({ s with queue := [] } : St α κ) hmc0 hrd0] at e
        have c3 : cls s = 3 := by simp [cls, hb]
        have c2 : cls s' ≤ 2 := by rw [e]; exact cls_restart_le _ hrd0 true
        have p0 : phaseRank s = 0 := by simp [phaseRank, hmc]
        have := tf_le s'; have := phaseRank_le s'
        rw [nu_dead _ hlive', nu_dead _ l1, c3, p0, t0]; omega


/-- outside quiescence the helpful thread has an enabled step -/
theorem helpful_enabled (m : κ → α → Bool) (s : St α κ) (h : Ready m s) (hnq : ¬ Quiet s) :
    ¬ Disabled (step m) (clsOf (helpful s)) s := by
  intro hdis
  have hfin' : s.finished.isSome = false := by simp [h.fin]
  by_cases hlive : s.live = true
  · rw [helpful_live s hlive] at hdis
    cases hu : s.unread with
    | cons x u =>
      have := hdis .rPush rfl
      simp [step, stepWith, hfin', hlive, hu] at this
    | nil =>
      have := hdis .rEnd rfl
      simp [step, stepWith, hfin', hlive, hu] at this
  · have hlive' : s.live = false := by simpa using hlive
    have hun : s.unread = [] := h.inv.core.dead hlive'
    by_cases htl : tLive s = true
    · have hh : helpful s = .T := by simp [helpful, hlive', htl]
      rw [hh] at hdis
      cases hmc : s.mc with
      | none => simp [tLive, hmc] at htl
      | some r =>
        cases hp : r.phase with
        | spawned => have := hdis .tTake rfl; rw [step_tTake m s r hmc hp] at this; cases this
        | matching => have := hdis .tPublish rfl; rw [step_tPublish m s r hmc hp] at this; cases this
        | published => have := hdis .tStop rfl; rw [step_tStop m s r hmc hp] at this; cases this
        | stopped => simp [tLive, hmc, hp] at htl
    · have htl' : tLive s = false := by simpa using htl
      by_cases hhb : hbQueued s = true
      · have hh : helpful s = .M := by simp [helpful, hlive', htl', hhb]
        rw [hh] at hdis
        obtain ⟨rest, hq, _, hd⟩ := all_hb_head s.queue h.onlyHB hhb
        have := hdis (.loop {}) rfl
        rw [step_loop_hb m s rest h.fin hq hd h.noSel] at this; cases this
      · have hhb' : hbQueued s = false := by simpa using hhb
        have hh : helpful s = .K := by simp [helpful, hlive', htl', hhb']
        rw [hh] at hdis
        have hta : tActive s = false := by
          cases hmc : s.mc with
          | none => simp [tActive, hmc]
          | some r =>
            have : r.phase = .stopped := by simpa [tLive, hmc] using htl'
            simp [tActive, hmc, this]
        have hwork : s.mc.isSome = true ∨ allDone s = false := by
          cases hmc : s.mc with
          | some r => left; rfl
          | none =>
            right
            have htk := h.inv.idle hmc
            cases hbb : s.buf with
            | nil => exact absurd ⟨⟨hun, hbb, hlive'⟩, hmc, htk⟩ hnq
            | cons x xs => simp [allDone, readerDone, hbb]
        have ht : s.timer = true := by
          rcases h.wake hwork with h1 | h1 | h1
          · rw [hhb'] at h1; cases h1
          · exact h1
          · rw [hta] at h1; cases h1
        have := hdis .timer rfl
        rw [step_timer m s ht] at this; cases this

/-- quiescence is stable: no keystroke, no change -/
theorem quiet_stable (m : κ → α → Bool) (s s' : St α κ) (l : Label α κ) (h : Ready m s) (hq : Quiet s)
    (hc : l.canon = true) (hs : step m s l = some s') :
    Quiet s' ∧ s'.list = s.list ∧ s'.q = s.q ∧ s'.source = s.source ∧ s'.clear = s.clear := by
  have hfin' : s.finished.isSome = false := by simp [h.fin]
  obtain ⟨⟨hun, hb, hl⟩, hmc, htk⟩ := hq
  cases l with
  | user e => simp [Label.canon] at hc
  | rPush => simp [step, stepWith, hfin', hl] at hs
  | rEnd => simp [step, stepWith, hfin', hl] at hs
  | tTake => simp [step, stepWith, hmc] at hs
  | tPublish => simp [step, stepWith, hmc] at hs
  | tStop => simp [step, stepWith, hmc] at hs
  | timer =>
    by_cases ht : s.timer = true
    · rw [step_timer m s ht] at hs
      have e : s' = afterTimer s := (Option.some.inj hs).symm
      subst e
      exact ⟨⟨⟨hun, hb, hl⟩, hmc, htk⟩, rfl, rfl, rfl, rfl⟩
    · simp [step, stepWith, ht] at hs
  | loop rd =>
    have hrd : rd = {} := by simpa [Label.canon] using hc
    subst hrd
    obtain ⟨e, _⟩ := step_loop_inv m s s' h hs
    have hq0 : Quiet ({ s with queue := [] } : St α κ) := ⟨⟨hun, hb, hl⟩, hmc, htk⟩
    rw [hbMain_quiet _ hq0] at e
    subst e
    exact ⟨hq0, rfl, rfl, rfl, rfl⟩

/-- the schedules considered: one class per thread, each weakly fair -/
def FairExec (m : κ → α → Bool) (e : Exec (step m)) : Prop :=
  ∀ c : Cls, WeakFair (clsOf c) e

/-- every keystroke-free execution with accurate reads in which each thread is weakly fair reaches quiescence -/
theorem fair_quiet (m : κ → α → Bool) (e : Exec (step m)) (h0 : Ready m (e.st 0))
    (hcanon : ∀ n, (e.lab n).canon = true) (hfair : FairExec m e) :
    ∃ n, Quiet (e.st n) ∧ Ready m (e.st n) := by
  -- Ready is kept along the whole execution
  have hready : ∀ n, Ready m (e.st n) := by
    intro n
    induction n with
    | zero => exact h0
    | succ n ih =>
      rw [e.next n]
      cases hs : step m (e.st n) (e.lab n) with
      | none => exact ih
      | some s' => exact ready_internal m _ s' _ ih (hcanon n) hs
  obtain ⟨n, _, hq⟩ := fair_reaches (step := step m) clsOf Label.canon (Ready m) Quiet nu helpful
    (fun s l s' hP hnq hok hs => by
      rcases fair_step m s s' l hP hnq hok hs with h | h | h
      · exact Or.inr ⟨ready_internal m s s' l hP hok hs, Or.inl h⟩
      · exact Or.inl h
      · exact Or.inr ⟨ready_internal m s s' l hP hok hs, Or.inr h⟩)
    (fun s hP hnq => helpful_enabled m s hP hnq) e hcanon hfair (nu (e.st 0)) 0 h0 (Nat.le_refl _)
  exact ⟨n, hq, hready n⟩

/-- ... and stays there, with the same list -/
theorem fair_quiet_forever (m : κ → α → Bool) (e : Exec (step m)) (hr : ∀ n, Ready m (e.st n))
    (hcanon : ∀ n, (e.lab n).canon = true) (n : Nat) (hq : Quiet (e.st n)) :
    ∀ d, Quiet (e.st (n + d)) ∧ (e.st (n + d)).list = (e.st n).list ∧ (e.st (n + d)).q = (e.st n).q ∧
      (e.st (n + d)).source = (e.st n).source ∧ (e.st (n + d)).clear = (e.st n).clear := by
  intro d
  induction d with
  | zero => exact ⟨hq, rfl, rfl, rfl, rfl⟩
  | succ d ih =>
    have hnx := e.next (n + d)
    cases hs : step m (e.st (n + d)) (e.lab (n + d)) with
    | none =>
      have : e.st (n + (d + 1)) = e.st (n + d) := by show e.st (n + d + 1) = _; rw [hnx, hs]; rfl
      rw [this]; exact ih
    | some s' =>
      have hst : e.st (n + (d + 1)) = s' := by show e.st (n + d + 1) = _; rw [hnx, hs]; rfl
      obtain ⟨a, b, c, d', f⟩ := quiet_stable m _ s' _ (hr _) ih.1 (hcanon _) hs
      rw [hst]
      exact ⟨a, b.trans ih.2.1, c.trans ih.2.2.1, d'.trans ih.2.2.2.1, f.trans ih.2.2.2.2⟩

/-! round robin is weakly fair for every thread (non-vacuity of the fairness hypothesis) -/

def rrTable : List (Label α κ) := [.rPush, .rEnd, .tTake, .tPublish, .tStop, .timer, .loop {}]

def rrLab (n : Nat) : Label α κ :=
  match n % 7 with
  | 0 => .rPush | 1 => .rEnd | 2 => .tTake | 3 => .tPublish | 4 => .tStop | 5 => .timer | _ => .loop {}

def rrSt (m : κ → α → Bool) (s : St α κ) : Nat → St α κ
  | 0 => s
  | n + 1 => (step m (rrSt m s n) (rrLab n)).getD (rrSt m s n)

def roundRobin (m : κ → α → Bool) (s : St α κ) : Exec (step (α := α) m) :=
  { st := rrSt m s, lab := rrLab, next := fun _ => rfl }

theorem rr_canon (n : Nat) : (rrLab (α := α) (κ := κ) n).canon = true := by
  unfold rrLab; split <;> rfl

/-- enabledness of an event-loop iteration does not depend on what it will read -/
theorem loop_enabled_indep (m : κ → α → Bool) (s : St α κ) (rd rd' : Reads) :
    step m s (.loop rd) = none → step m s (.loop rd') = none := by
  simp only [step, stepWith]
  split
  · intro _; rfl
  · split
    · intro _; rfl
    · intro h; cases h
    · intro h; cases h

/-- a block of consecutive positions offering the labels `ls`: a label of the block is executed, or the state does
    not change through the block and none of the labels is enabled -/
theorem block_scan (m : κ → α → Bool) (e : Exec (step (α := α) m)) (cl : Label α κ → Bool) :
    ∀ (ls : List (Label α κ)) (k : Nat), (∀ l ∈ ls, cl l = true) → (∀ i (h : i < ls.length), e.lab (k + i) = ls[i]) →
      (∃ j, k ≤ j ∧ Taken cl e j) ∨ (e.st (k + ls.length) = e.st k ∧ ∀ l ∈ ls, step m (e.st k) l = none) := by
  intro ls
  induction ls with
  | nil => intro k _ _; exact Or.inr ⟨rfl, fun _ h => by cases h⟩
  | cons a t ih =>
    intro k hcl hlab
    have ha : e.lab k = a := by
      have := hlab 0 (by simp)
      simpa using this
    cases hs : step m (e.st k) (e.lab k) with
    | some s' =>
      exact Or.inl ⟨k, Nat.le_refl _, by rw [ha]; exact hcl a (by simp), by rw [hs]; rfl⟩
    | none =>
      have hst : e.st (k + 1) = e.st k := by rw [e.next k, hs]; rfl
      have hlab' : ∀ i (h : i < t.length), e.lab (k + 1 + i) = t[i] := by
        intro i h
        have := hlab (i + 1) (by simp; omega)
        simpa [Nat.add_assoc, Nat.add_comm 1 i] using this
      rcases ih (k + 1) (fun l hl => hcl l (by simp [hl])) hlab' with ⟨j, hj, htk⟩ | ⟨h1, h2⟩
      · exact Or.inl ⟨j, by omega, htk⟩
      · refine Or.inr ⟨?_, ?_⟩
        · have : k + (a :: t).length = k + 1 + t.length := by simp; omega
          rw [this, h1, hst]
        · intro l hl
          rcases List.mem_cons.1 hl with rfl | hl
          · rw [← ha]; exact hs
          · rw [← hst]; exact h2 l hl

theorem rr_fair (m : κ → α → Bool) (s : St α κ) : FairExec m (roundRobin m s) := by
  intro c n
  -- the block of class `c` in the round that starts at 7 * n
  have hlab : ∀ r, (roundRobin m s).lab (7 * n + r) = rrLab (α := α) (κ := κ) r := by
    intro r; show rrLab (7 * n + r) = rrLab r
    unfold rrLab; rw [Nat.mul_add_mod]
  cases c with
  | R =>
    rcases block_scan m (roundRobin m s) (clsOf .R) [.rPush, .rEnd] (7 * n + 0)
      (by intro l hl; simp at hl; rcases hl with rfl | rfl <;> rfl)
      (by intro i h; simp at h
          match i, h with
          | 0, _ => exact hlab 0
          | 1, _ => exact hlab 1) with ⟨j, hj, ht⟩ | ⟨_, hd⟩
    · exact ⟨j, by omega, Or.inl ht⟩
    · refine ⟨7 * n + 0, by omega, Or.inr ?_⟩
      intro l hl
      cases l <;> simp [clsOf] at hl
      · exact hd _ (by simp)
      · exact hd _ (by simp)
  | T =>
    rcases block_scan m (roundRobin m s) (clsOf .T) [.tTake, .tPublish, .tStop] (7 * n + 2)
      (by intro l hl; simp at hl; rcases hl with rfl | rfl | rfl <;> rfl)
      (by intro i h; simp at h
          match i, h with
          | 0, _ => exact hlab 2
          | 1, _ => exact hlab 3
          | 2, _ => exact hlab 4) with ⟨j, hj, ht⟩ | ⟨_, hd⟩
    · exact ⟨j, by omega, Or.inl ht⟩
    · refine ⟨7 * n + 2, by omega, Or.inr ?_⟩
      intro l hl
      cases l <;> simp [clsOf] at hl
      · exact hd _ (by simp)
      · exact hd _ (by simp)
      · exact hd _ (by simp)
  | K =>
    rcases block_scan m (roundRobin m s) (clsOf .K) [.timer] (7 * n + 5)
      (by intro l hl; simp at hl; rcases hl with rfl; rfl)
      (by intro i h; simp at h
          match i, h with
          | 0, _ => exact hlab 5) with ⟨j, hj, ht⟩ | ⟨_, hd⟩
    · exact ⟨j, by omega, Or.inl ht⟩
    · refine ⟨7 * n + 5, by omega, Or.inr ?_⟩
      intro l hl
      cases l <;> simp [clsOf] at hl
      exact hd _ (by simp)
  | M =>
    rcases block_scan m (roundRobin m s) (clsOf .M) [.loop {}] (7 * n + 6)
      (by intro l hl; simp at hl; rcases hl with rfl; rfl)
      (by intro i h; simp at h
          match i, h with
          | 0, _ => exact hlab 6) with ⟨j, hj, ht⟩ | ⟨_, hd⟩
    · exact ⟨j, by omega, Or.inl ht⟩
    · refine ⟨7 * n + 6, by omega, Or.inr ?_⟩
      intro l hl
      cases l <;> simp [clsOf] at hl
      rename_i rd
      exact loop_enabled_indep m _ {} rd (hd _ (by simp))

end SkimModel.Session
