/-
Fair termination, generically: infinite executions of a labelled transition system (a label that is not
enabled stutters), weak fairness of a class of labels, and the "helpful class" proof rule
(Lehmann–Pnueli–Stavi / Manna–Pnueli): if every step from a state outside the goal either reaches the goal, decreases a natural
measure, or is a step outside the helpful class that keeps both the measure and the helpful
class (the invariant being kept in the last two cases), and the helpful class is enabled outside the goal, then every weakly fair execution reaches the goal.
Core Lean only.
-/
namespace SkimModel.Fair

/-- an infinite execution: `lab n` is offered in `st n`; if it is not enabled nothing happens -/
structure Exec {S L : Type} (step : S → L → Option S) where
  st : Nat → S
  lab : Nat → L
  next : ∀ n, st (n + 1) = (step (st n) (lab n)).getD (st n)

variable {S L : Type} {step : S → L → Option S}

/-- position `k` executes a label of the class -/
def Taken (cls : L → Bool) (e : Exec step) (k : Nat) : Prop :=
  cls (e.lab k) = true ∧ (step (e.st k) (e.lab k)).isSome = true

/-- no label of the class is enabled in `s` -/
def Disabled (step : S → L → Option S) (cls : L → Bool) (s : S) : Prop :=
  ∀ l, cls l = true → step s l = none

/-- weak fairness: a class that is enabled from some point on for ever is executed again and again
    (equivalently: again and again the class is executed or is not enabled) -/
def WeakFair (cls : L → Bool) (e : Exec step) : Prop :=
  ∀ n, ∃ k, n ≤ k ∧ (Taken cls e k ∨ Disabled step cls (e.st k))

/-- the helpful-class rule -/
theorem fair_reaches {ι : Type} (cls : ι → L → Bool) (ok : L → Bool)
    (P Q : S → Prop) (mu : S → Nat) (H : S → ι)
    (hstep : ∀ s l s', P s → ¬ Q s → ok l = true → step s l = some s' →
      Q s' ∨ (P s' ∧ (mu s' < mu s ∨ (cls (H s) l = false ∧ H s' = H s ∧ mu s' = mu s))))
    (hen : ∀ s, P s → ¬ Q s → ¬ Disabled step (cls (H s)) s)
    (e : Exec step) (hok : ∀ n, ok (e.lab n) = true) (hfair : ∀ c, WeakFair (cls c) e) :
    ∀ (N n : Nat), P (e.st n) → mu (e.st n) ≤ N → ∃ n', n ≤ n' ∧ Q (e.st n') := by
  intro N
  induction N using Nat.strongRecOn with
  | _ N ih =>
    intro n hP hmu
    by_cases hq : Q (e.st n)
    · exact ⟨n, Nat.le_refl _, hq⟩
    · obtain ⟨k, hnk, hk⟩ := hfair (H (e.st n)) n
      -- one executed step from a state that still has the measure and helpful class of `st n`
      have one : ∀ j s', n ≤ j → P (e.st j) → ¬ Q (e.st j) → mu (e.st j) = mu (e.st n) →
          step (e.st j) (e.lab j) = some s' →
          (∃ n', n ≤ n' ∧ Q (e.st n')) ∨
          (P s' ∧ ¬ Q s' ∧ cls (H (e.st j)) (e.lab j) = false ∧ H s' = H (e.st j) ∧ mu s' = mu (e.st n)) := by
        intro j s' hj hPj hqj hmj hs
        have hst : e.st (j + 1) = s' := by rw [e.next j, hs]; rfl
        by_cases hQs : Q s'
        · exact Or.inl ⟨j + 1, by omega, by rw [hst]; exact hQs⟩
        · rcases hstep _ _ _ hPj hqj (hok _) hs with hQ' | ⟨hP', hlt | ⟨hcl, hH', hm'⟩⟩
          · exact absurd hQ' hQs
          · have hlt' : mu (e.st (j + 1)) < N := by rw [hst]; omega
            obtain ⟨n', hn', hQn⟩ := ih _ hlt' (j + 1) (by rw [hst]; exact hP') (Nat.le_refl _)
            exact Or.inl ⟨n', by omega, hQn⟩
          · exact Or.inr ⟨hP', hQs, hcl, hH', by rw [hm', hmj]⟩
      -- walk from n to k
      have walk : ∀ d, n + d ≤ k → (∃ n', n ≤ n' ∧ Q (e.st n')) ∨
          (P (e.st (n + d)) ∧ ¬ Q (e.st (n + d)) ∧ H (e.st (n + d)) = H (e.st n) ∧
            mu (e.st (n + d)) = mu (e.st n)) := by
        intro d
        induction d with
        | zero => intro _; exact Or.inr ⟨hP, hq, rfl, rfl⟩
        | succ d ihd =>
          intro hd
          rcases ihd (by omega) with hdone | ⟨hPd, hqd, hHd, hmd⟩
          · exact Or.inl hdone
          · cases hs : step (e.st (n + d)) (e.lab (n + d)) with
            | none =>
              have : e.st (n + (d + 1)) = e.st (n + d) := by
                show e.st (n + d + 1) = _; rw [e.next (n + d), hs]; rfl
              rw [this]; exact Or.inr ⟨hPd, hqd, hHd, hmd⟩
            | some s' =>
              have hst : e.st (n + (d + 1)) = s' := by
                show e.st (n + d + 1) = _; rw [e.next (n + d), hs]; rfl
              rcases one (n + d) s' (by omega) hPd hqd hmd hs with hdone | ⟨hP', hQs, _, hH', hm'⟩
              · exact Or.inl hdone
              · rw [hst]; exact Or.inr ⟨hP', hQs, by rw [hH', hHd], hm'⟩
      obtain ⟨d, rfl⟩ : ∃ d, k = n + d := ⟨k - n, by omega⟩
      rcases walk d (Nat.le_refl _) with hdone | ⟨hPk, hqk, hHk, hmk⟩
      · exact hdone
      · rcases hk with ⟨hcl, hsome⟩ | hdis
        · cases hs : step (e.st (n + d)) (e.lab (n + d)) with
          | none => rw [hs] at hsome; cases hsome
          | some s' =>
            rcases one (n + d) s' (by omega) hPk hqk hmk hs with hdone | ⟨_, _, hcl', _, _⟩
            · exact hdone
            · rw [hHk] at hcl'; rw [hcl] at hcl'; cases hcl'
        · rw [← hHk] at hdis
          exact absurd hdis (hen _ hPk hqk)

end SkimModel.Fair
