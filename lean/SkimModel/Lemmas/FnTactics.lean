/-
Tactics for the `*_is_model` theorems about definitions TRANSLATED from the source (`Generated/*Fns.lean`): split every
`if` on both sides, then close each case by reflexivity or linear arithmetic — after reducing tuple projections, which the
translation of an `if` statement that assigns several variables introduces (`let t_ := if .. then (a, b) else ..; t_.1`).
Written to survive behaviour-preserving rewrites of the source (renamed locals, `min`/`max` spelled as `if`, merged or split
`let`s, inverted branches): nothing here depends on the shape of the generated term.
-/
namespace SkimModel

/-- close one case -/
macro "fn_close" : tactic => `(tactic| first
  | rfl
  | omega
  | (simp only [Prod.mk.injEq]; omega)
  | ((try dsimp only at *); (try simp only [Prod.mk.injEq] at *); omega)
  | (simp_all; done)
  | (simp_all; omega))

/-- split all conditionals, close every case -/
macro "fn_eq" : tactic => `(tactic| ((repeat' split) <;> fn_close))

end SkimModel
