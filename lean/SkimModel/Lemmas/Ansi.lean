import SkimModel.Model.Ansi
import SkimModel.Spec.Sgr
/-! Helper definitions and lemmas for C16 (bridges between the generated table syntax, the model and the spec). -/
namespace SkimModel.Ansi
open Spec

/-- meaning of a table row's body for a given code -/
def Act.denote (act : Act) (code : Nat) : SemAct :=
  match act with
  | .reset => .reset
  | .orEffect e => .orFlags e.eval
  | .setAnsiSub l k => .setColor l (.ansi (u8 (code - k)))
  | .setDefault l => .setColor l .default
  | .ext l => .ext l
  | .ignore => .nop

def patBound : Pat → Nat
  | .lit n => n
  | .range _ hi => hi
  | .wild => 0

def tblBound : List (Pat × Act) → Nat
  | [] => 0
  | (p, _) :: r => max (patBound p) (tblBound r)

/-- every `num - k` in the table is applied to codes `>= k` only -/
def tblSubOk : List (Pat × Act) → Bool
  | [] => true
  | (.range lo _, .setAnsiSub _ k) :: r => decide (k ≤ lo) && tblSubOk r
  | (.lit n, .setAnsiSub _ k) :: r => decide (k ≤ n) && tblSubOk r
  | (.wild, .setAnsiSub _ _) :: _ => false
  | _ :: r => tblSubOk r

theorem lookup_big (t : List (Pat × Act)) (c1 c2 : Nat) (h1 : tblBound t < c1) (h2 : tblBound t < c2) :
    lookup t c1 = lookup t c2 := by
  induction t with
  | nil => rfl
  | cons row r ih =>
    obtain ⟨p, a⟩ := row
    simp only [tblBound] at h1 h2
    have ih' := ih (by omega) (by omega)
    cases p with
    | lit n =>
      simp only [patBound] at h1 h2
      have e1 : (c1 == n) = false := by simp; omega
      have e2 : (c2 == n) = false := by simp; omega
      simp [lookup, Pat.matches, e1, e2, ih']
    | range lo hi =>
      simp only [patBound] at h1 h2
      have e1 : ¬ c1 ≤ hi := by omega
      have e2 : ¬ c2 ≤ hi := by omega
      simp [lookup, Pat.matches, e1, e2, ih']
    | wild => simp [lookup, Pat.matches]

theorem sgr1_big (code : Nat) (h : 108 ≤ code) : sgr1 code = .nop := by
  unfold sgr1
  repeat rw [if_neg (by omega)]

/-! ### the SGR fold equals the spec interpreter -/

theorem setLayer_eq (a : Attr) (l : Layer) (c : Color) : a.setLayer l c = Spec.setLayer a l c := by
  cases l <;> rfl

theorem applySimple_eq (act : Act) (code : Nat) (a : Attr) :
    applySimple act code a = (act.denote code).apply a := by
  cases act <;> simp [applySimple, Act.denote, SemAct.apply, setLayer_eq, Attr.dflt]

theorem extStep_eq (l : Layer) (a : Attr) (ps : List Param) : extStep l a ps = operands l a ps := by
  rcases ps with _ | ⟨sel, rest⟩
  · rfl
  · simp only [extStep, operands]
    by_cases h2 : sel = (2, [])
    · subst h2
      rcases rest with _ | ⟨r, _ | ⟨g, _ | ⟨b, rest'⟩⟩⟩ <;> simp [setLayer_eq, u8]
    · by_cases h5 : sel = (5, [])
      · subst h5
        rcases rest with _ | ⟨c, rest'⟩ <;> simp [setLayer_eq, u8]
      · simp [h2, h5]

theorem sgrLoop_eq_spec (t : List (Pat × Act)) (ht : ∀ code, (lookup t code).denote code = sgr1 code)
    (a : Attr) (ps : List Param) : sgrLoop t a ps = Spec.sgr a ps := by
  fun_induction sgrLoop t a ps with
  | case1 a => simp [Spec.sgr]
  | case2 a code rest l h r ih =>
    have h1 : sgr1 code.1 = .ext l := by rw [← ht, h]; rfl
    rw [Spec.sgr, h1]
    simp only []
    rw [← extStep_eq]
    exact ih
  | case3 a code rest hne ih =>
    have h1 : sgr1 code.1 = (lookup t code.1).denote code.1 := by rw [← ht]
    rw [Spec.sgr, h1, applySimple_eq] at *
    generalize lookup t code.1 = act at *
    cases act <;> simp_all [Act.denote]



/-! ### tokenizer on the segment grammar -/

theorem optCons_append (t : Option Tok) (a b : List Tok) : optCons t (a ++ b) = optCons t a ++ b := by
  cases t <;> rfl

theorem tokGo_append (v : Vt) (xs ys : List Char) : tokGo v (xs ++ ys) = tokGo v xs ++ tokGo (vtRun v xs) ys := by
  induction xs generalizing v with
  | nil => rfl
  | cons c cs ih => simp [tokGo, vtRun, ih, optCons_append]

/-- callback for a character of a text run -/
def textTok (c : Char) : Tok := if c = '\t' then .execute 9 else .print c

theorem feed_text (v : Vt) (hv : v.state = .ground) (c : Char) (hc : c = '\t' ∨ 0x20 ≤ c.toNat) :
    vtFeed v c = (v, some (textTok c)) := by
  rcases hc with rfl | hc
  · simp [vtFeed, hv, textTok]
  · have h1 : c ≠ '\t' := by
      intro h; subst h; revert hc; decide
    simp [vtFeed, hv, textTok, h1, show ¬(c.toNat = 24 ∨ c.toNat = 26) by omega, show c.toNat ≠ 27 by omega,
      show ¬ c.toNat < 32 by omega]

theorem tok_text (v : Vt) (hv : v.state = .ground) (cs rest : List Char)
    (hc : ∀ c ∈ cs, c = '\t' ∨ 0x20 ≤ c.toNat) : tokGo v (cs ++ rest) = cs.map textTok ++ tokGo v rest := by
  induction cs with
  | nil => rfl
  | cons c cs ih =>
    have := feed_text v hv c (hc c (by simp))
    simp [tokGo, this, optCons, ih (fun c h => hc c (by simp [h]))]



theorem esc_toNat : Spec.ESC.toNat = 27 := by decide

theorem feed_esc (v : Vt) (hv : v.state = .ground) : vtFeed v Spec.ESC = (⟨.escape, {}⟩, none) := by
  simp [vtFeed, esc_toNat, hv, Vt.clear]

theorem feed_bracket (b : PBuf) : vtFeed ⟨.escape, b⟩ '[' = (⟨.csiEntry, {}⟩, none) := by
  simp [vtFeed, Vt.clear]

theorem paramChar_range (c : Char) (h : isParamChar c = true) : 48 ≤ c.toNat ∧ c.toNat ≤ 59 := by
  simp [isParamChar] at h
  rcases h with (h | h) | h
  · omega
  · subst h; decide
  · subst h; decide

theorem feed_param (v : Vt) (hv : v.state = .csiEntry ∨ v.state = .csiParam) (c : Char)
    (h : 48 ≤ c.toNat ∧ c.toNat ≤ 59) : vtFeed v c = (⟨.csiParam, v.buf.paramAction c⟩, none) := by
  rcases hv with hv | hv <;>
  simp [vtFeed, hv, show ¬(c.toNat = 24 ∨ c.toNat = 26) by omega, show c.toNat ≠ 27 by omega,
      show ¬ c.toNat < 32 by omega, show ¬ 127 ≤ c.toNat by omega, show ¬ c.toNat < 48 by omega, show c.toNat < 60 by omega]

theorem tok_sgr_body (body rest : List Char) (hb : ∀ c ∈ body, isParamChar c = true) :
    ∀ v : Vt, (v.state = .csiEntry ∨ v.state = .csiParam) →
      ∃ v' : Vt, v'.state = .ground ∧
        tokGo v (body ++ 'm' :: rest) = .csi (body.foldl PBuf.paramAction v.buf).dispatchParams 'm' :: tokGo v' rest := by
  induction body with
  | nil =>
    intro v hv
    refine ⟨{ v with state := .ground }, rfl, ?_⟩
    rcases hv with hv | hv <;> simp [tokGo, vtFeed, hv, optCons]
  | cons c cs ih =>
    intro v hv
    have hf := feed_param v hv c (paramChar_range c (hb c (by simp)))
    obtain ⟨v', h1, h2⟩ := ih (fun c h => hb c (by simp [h])) ⟨.csiParam, v.buf.paramAction c⟩ (Or.inr rfl)
    exact ⟨v', h1, by simp [tokGo, hf, optCons] at h2 ⊢; exact h2⟩

theorem tok_sgr (v : Vt) (hv : v.state = .ground) (body rest : List Char) (hb : ∀ c ∈ body, isParamChar c = true) :
    ∃ v' : Vt, v'.state = .ground ∧
      tokGo v ((Seg.sgr body).render ++ rest) = .csi (csiParams body) 'm' :: tokGo v' rest := by
  obtain ⟨v', h1, h2⟩ := tok_sgr_body body rest hb ⟨.csiEntry, {}⟩ (Or.inl rfl)
  refine ⟨v', h1, ?_⟩
  simp [Seg.render, tokGo, feed_esc v hv, feed_bracket, optCons, csiParams] at h2 ⊢
  exact h2


def InCsi (v : Vt) : Prop := v.state = .csiEntry ∨ v.state = .csiParam ∨ v.state = .csiInt ∨ v.state = .csiIgnore

theorem feed_csi_body (v : Vt) (hv : InCsi v) (c : Char) (h : 0x20 ≤ c.toNat ∧ c.toNat ≤ 0x3f) :
    (vtFeed v c).2 = none ∧ InCsi (vtFeed v c).1 := by
  have e1 : ¬(c.toNat = 24 ∨ c.toNat = 26) := by omega
  have e2 : c.toNat ≠ 27 := by omega
  have e3 : ¬ c.toNat < 32 := by omega
  have e4 : ¬ 127 ≤ c.toNat := by omega
  have e5 : c.toNat < 64 := by omega
  rcases hv with hv | hv | hv | hv <;> simp only [vtFeed, hv, e1, e2, e3, e4, e5, if_false, if_true] <;>
    (repeat' split) <;> simp [InCsi, hv]

theorem feed_csi_final (v : Vt) (hv : InCsi v) (c : Char) (h : 0x40 ≤ c.toNat ∧ c.toNat ≤ 0x7e) :
    (vtFeed v c).1.state = .ground ∧ ((vtFeed v c).2 = none ∨ ∃ ps, (vtFeed v c).2 = some (.csi ps c)) := by
  have e1 : ¬(c.toNat = 24 ∨ c.toNat = 26) := by omega
  have e2 : c.toNat ≠ 27 := by omega
  have e3 : ¬ c.toNat < 32 := by omega
  have e4 : ¬ 127 ≤ c.toNat := by omega
  have e5 : ¬ c.toNat < 48 := by omega
  have e6 : ¬ c.toNat < 60 := by omega
  have e7 : ¬ c.toNat < 64 := by omega
  rcases hv with hv | hv | hv | hv <;> simp [vtFeed, hv, e1, e2, e3, e4, e5, e6, e7]

theorem tok_csi_body (body : List Char) (f : Char) (rest : List Char)
    (hb : ∀ c ∈ body, 0x20 ≤ c.toNat ∧ c.toNat ≤ 0x3f) (hf : 0x40 ≤ f.toNat ∧ f.toNat ≤ 0x7e) :
    ∀ v : Vt, InCsi v → ∃ (v' : Vt) (toks : List Tok), v'.state = .ground ∧
      (toks = [] ∨ ∃ ps, toks = [.csi ps f]) ∧ tokGo v (body ++ f :: rest) = toks ++ tokGo v' rest := by
  induction body with
  | nil =>
    intro v hv
    obtain ⟨h1, h2⟩ := feed_csi_final v hv f hf
    refine ⟨(vtFeed v f).1, optCons (vtFeed v f).2 [], h1, ?_, ?_⟩
    · rcases h2 with h2 | ⟨ps, h2⟩
      · left; simp [h2, optCons]
      · right; exact ⟨ps, by simp [h2, optCons]⟩
    · simp only [List.nil_append, tokGo]
      cases (vtFeed v f).2 <;> rfl
  | cons c cs ih =>
    intro v hv
    obtain ⟨h1, h2⟩ := feed_csi_body v hv c (hb c (by simp))
    obtain ⟨v', toks, g1, g2, g3⟩ := ih (fun c h => hb c (by simp [h])) _ h2
    exact ⟨v', toks, g1, g2, by simp [tokGo, h1, optCons] at g3 ⊢; exact g3⟩

theorem tok_csi (v : Vt) (hv : v.state = .ground) (body : List Char) (f : Char) (rest : List Char)
    (hb : ∀ c ∈ body, 0x20 ≤ c.toNat ∧ c.toNat ≤ 0x3f) (hf : 0x40 ≤ f.toNat ∧ f.toNat ≤ 0x7e) :
    ∃ (v' : Vt) (toks : List Tok), v'.state = .ground ∧
      (toks = [] ∨ ∃ ps, toks = [.csi ps f]) ∧ tokGo v ((Seg.csi body f).render ++ rest) = toks ++ tokGo v' rest := by
  obtain ⟨v', toks, h1, h2, h3⟩ := tok_csi_body body f rest hb hf ⟨.csiEntry, {}⟩ (Or.inl rfl)
  refine ⟨v', toks, h1, h2, ?_⟩
  simp [Seg.render, tokGo, feed_esc v hv, feed_bracket, optCons] at h3 ⊢
  exact h3



/-! ### from tokens to segments -/

/-- effect of one segment on the parser -/
def stepSeg (p : Parser) : Seg → Parser
  | .text cs => cs.foldl (fun p c => perform p (textTok c)) p
  | .sgr body => p.csiDispatch (csiParams body) 'm'
  | .csi _ _ => p

theorem render_cons (s : Seg) (segs : List Seg) : render (s :: segs) = s.render ++ render segs := by
  simp [render]

theorem fold_segs (segs : List Seg) (hwf : ∀ s ∈ segs, s.wf) :
    ∀ (v : Vt), v.state = .ground → ∀ p : Parser,
      (tokGo v (render segs)).foldl perform p = segs.foldl stepSeg p := by
  induction segs with
  | nil => intro v _ p; rfl
  | cons s segs ih =>
    intro v hv p
    have hs : s.wf := hwf s (by simp)
    have ih' := ih (fun s h => hwf s (by simp [h]))
    rw [render_cons]
    cases s with
    | text cs =>
      rw [show (Seg.text cs).render = cs from rfl, tok_text v hv cs _ hs]
      simp [List.foldl_append, List.foldl_map, stepSeg, ih' v hv]
    | sgr body =>
      obtain ⟨v', h1, h2⟩ := tok_sgr v hv body (render segs) hs
      rw [h2]
      simp [stepSeg, perform, ih' v' h1]
    | csi body f =>
      obtain ⟨hb, hf1, hf2, hm⟩ := hs
      obtain ⟨v', toks, h1, h2, h3⟩ := tok_csi v hv body f (render segs) hb ⟨hf1, hf2⟩
      rw [h3, List.foldl_append]
      have : toks.foldl perform p = p := by
        rcases h2 with rfl | ⟨ps, rfl⟩
        · rfl
        · simp [perform, Parser.csiDispatch, hm]
      rw [this]
      simp [stepSeg, ih' v' h1]


/-! ### parser invariant: fragments tile the stripped text -/

/-- attributes spelled out per character -/
def expand (fr : List Frag) : List Attr := fr.flatMap (fun f => List.replicate (f.stop - f.start) f.attr)

/-- the fragments are non-empty, adjacent, and cover `[s, e)` -/
def Contig : Nat → List Frag → Nat → Prop
  | s, [], e => s = e
  | s, f :: r, e => f.start = s ∧ f.start < f.stop ∧ Contig f.stop r e

/-- `p` holds text `cs` (saved + pending) whose characters carry `as`, and its running attribute is `a` -/
structure Abs (p : Parser) (cs : List Char) (as : List Attr) (a : Attr) : Prop where
  count : p.strippedCount = p.stripped.length
  contig : Contig 0 p.fragments p.strippedCount
  chars : p.stripped ++ p.partialStr = cs
  attrs : expand p.fragments ++ List.replicate p.partialStr.length p.lastAttr = as
  last : p.lastAttr = a

theorem contig_snoc (fr : List Frag) (s e n : Nat) (a : Attr) (h : Contig s fr e) (hn : 0 < n) :
    Contig s (fr ++ [⟨a, e, e + n⟩]) (e + n) := by
  induction fr generalizing s with
  | nil => simp [Contig] at h ⊢; omega
  | cons f r ih => simp [Contig] at h ⊢; exact ⟨h.1, h.2.1, ih _ h.2.2⟩

theorem expand_snoc (fr : List Frag) (f : Frag) :
    expand (fr ++ [f]) = expand fr ++ List.replicate (f.stop - f.start) f.attr := by
  simp [expand]

theorem abs_save {p cs as a} (h : Abs p cs as a) : Abs p.saveStr cs as a ∧ p.saveStr.partialStr = [] := by
  unfold Parser.saveStr
  by_cases he : p.partialStr = []
  · simp [he]; exact h
  · have hl : 0 < p.partialStr.length := List.length_pos_iff.mpr he
    simp [he]
    obtain ⟨h1, h2, h3, h4, h5⟩ := h
    refine ⟨?_, ?_, ?_, ?_, ?_⟩
    · simp [h1]
    · exact contig_snoc _ _ _ _ _ h2 hl
    · simpa using h3
    · simp [expand_snoc]; simpa using h4
    · exact h5

theorem abs_text1 {p cs as a} (h : Abs p cs as a) (c : Char) :
    Abs (perform p (textTok c)) (cs ++ [c]) (as ++ [a]) a := by
  obtain ⟨h1, h2, h3, h4, h5⟩ := h
  have key : perform p (textTok c) = { p with partialStr := p.partialStr ++ [c] } := by
    unfold textTok
    by_cases hc : c = '\t'
    · subst hc; simp [perform, Parser.execute]
    · simp [hc, perform, Parser.print]
  rw [key]
  refine ⟨h1, h2, ?_, ?_, h5⟩
  · simp [← h3]
  · simp [← h4, ← h5, List.replicate_succ']

theorem abs_text {p cs as a} (h : Abs p cs as a) (t : List Char) :
    Abs (t.foldl (fun p c => perform p (textTok c)) p) (cs ++ t) (as ++ List.replicate t.length a) a := by
  induction t generalizing p cs as with
  | nil => simpa using h
  | cons c t ih =>
    have := ih (abs_text1 h c)
    simpa [List.replicate_succ, List.append_assoc] using this

theorem abs_attrChange {p cs as a} (h : Abs p cs as a) (new : Attr) : Abs (p.attrChange new) cs as new := by
  unfold Parser.attrChange
  by_cases e : new = p.lastAttr
  · simp [e]; exact ⟨h.1, h.2, h.3, h.4, rfl⟩
  · simp [e]
    obtain ⟨⟨g1, g2, g3, g4, g5⟩, g6⟩ := abs_save h
    refine ⟨g1, g2, g3, ?_, rfl⟩
    simp [g6] at g4 ⊢
    exact g4


theorem dispatch_attr (ht : ∀ code, (lookup Generated.sgrTable code).denote code = sgr1 code) (a : Attr) (ps : List Param) :
    sgrLoop Generated.sgrTable (if ps.isEmpty then Attr.dflt else a) ps = sgrSeq a ps := by
  unfold sgrSeq
  cases ps with
  | nil => simp [sgrLoop, Attr.dflt]
  | cons x xs => simp [sgrLoop_eq_spec _ ht]

theorem abs_step (ht : ∀ code, (lookup Generated.sgrTable code).denote code = sgr1 code)
    {p cs as a} (h : Abs p cs as a) (s : Seg) :
    Abs (stepSeg p s) (cs ++ s.text?) (as ++ attrsWith csiParams a [s]) (finalWith csiParams a [s]) := by
  cases s with
  | text t => simpa [stepSeg, Seg.text?, attrsWith, finalWith] using abs_text h t
  | sgr body =>
    have e : stepSeg p (.sgr body) = p.attrChange (sgrSeq a (csiParams body)) := by
      simp only [stepSeg, Parser.csiDispatch, ne_eq, not_true_eq_false, if_false]
      rw [h.last, dispatch_attr ht]
    rw [e]
    simpa [Seg.text?, attrsWith, finalWith] using abs_attrChange h (sgrSeq a (csiParams body))
  | csi b f => simpa [stepSeg, Seg.text?, attrsWith, finalWith] using h

theorem attrsWith_cons (par) (a : Attr) (s : Seg) (segs : List Seg) :
    attrsWith par a (s :: segs) = attrsWith par a [s] ++ attrsWith par (finalWith par a [s]) segs := by
  cases s <;> simp [attrsWith, finalWith]

theorem finalWith_cons (par) (a : Attr) (s : Seg) (segs : List Seg) :
    finalWith par a (s :: segs) = finalWith par (finalWith par a [s]) segs := by
  cases s <;> simp [finalWith]

theorem abs_fold (ht : ∀ code, (lookup Generated.sgrTable code).denote code = sgr1 code) (segs : List Seg) :
    ∀ {p cs as a}, Abs p cs as a →
      Abs (segs.foldl stepSeg p) (cs ++ text segs) (as ++ attrsWith csiParams a segs) (finalWith csiParams a segs) := by
  induction segs with
  | nil => intro p cs as a h; simpa [text, attrsWith, finalWith] using h
  | cons s segs ih =>
    intro p cs as a h
    have := ih (abs_step ht h s)
    rw [attrsWith_cons _ a s segs, finalWith_cons _ a s segs]
    simpa [text, List.append_assoc] using this


/-! ### the iterator on tiling fragments -/

theorem contig_le (fr : List Frag) (s e : Nat) (h : Contig s fr e) : s ≤ e := by
  induction fr generalizing s with
  | nil => simp [Contig] at h; omega
  | cons f r ih => simp [Contig] at h; have := ih _ h.2.2; omega

theorem expand_cons (f : Frag) (r : List Frag) :
    expand (f :: r) = List.replicate (f.stop - f.start) f.attr ++ expand r := by simp [expand]

theorem iterGo_contig (chars : List Char) : ∀ (f : Frag) (frags : List Frag) (k e : Nat),
    f.start ≤ k → k ≤ f.stop → Contig f.stop frags e → chars.length = e - k →
    iterGo (f :: frags) k chars = chars.zip (List.replicate (f.stop - k) f.attr ++ expand frags) := by
  induction chars with
  | nil => intros; simp [iterGo]
  | cons c cs ih =>
    intro f frags k e h1 h2 hc hl
    by_cases hk : k < f.stop
    · have hr : f.stop - k = (f.stop - (k + 1)) + 1 := by omega
      rw [hr, List.replicate_succ]
      simp only [iterGo, advance, hk, if_true, h1, and_self, List.cons_append, List.zip_cons_cons]
      rw [ih f frags (k + 1) e (by omega) (by omega) hc (by simp at hl; omega)]
    · have hk' : k = f.stop := by omega
      cases frags with
      | nil => simp [Contig] at hc; simp at hl; omega
      | cons g r =>
        simp [Contig] at hc
        obtain ⟨g1, g2, g3⟩ := hc
        have hg : k < g.stop := by omega
        have hr : g.stop - g.start = (g.stop - (k + 1)) + 1 := by omega
        have h0 : f.stop - k = 0 := by omega
        rw [h0, expand_cons, hr, List.replicate_succ]
        simp only [iterGo, advance, hk, if_false, hg, if_true, List.replicate_zero, List.nil_append,
          List.cons_append, List.zip_cons_cons]
        have : g.start ≤ k := by omega
        simp only [this, and_self, if_true]
        rw [ih g r (k + 1) e (by omega) (by omega) g3 (by simp at hl; omega)]

theorem iter_contig (frags : List Frag) (chars : List Char) (h : Contig 0 frags chars.length) :
    iterGo frags 0 chars = chars.zip (expand frags) := by
  cases frags with
  | nil =>
    simp [Contig] at h
    have : chars = [] := List.length_eq_zero_iff.mp h.symm
    subst this; simp [iterGo]
  | cons f r =>
    simp [Contig] at h
    obtain ⟨g1, g2, g3⟩ := h
    have := iterGo_contig chars f r 0 chars.length (by omega) (by omega) g3 (by omega)
    rw [this, expand_cons, g1]


/-! ### parse_ansi on a rendered segment list -/


/-- a parser between two `parse_ansi` calls: nothing pending, only the running attribute -/
def Parser.fresh (a : Attr) : Parser := { lastAttr := a }

theorem zip_replicate_length {α β} (l : List α) (x : β) :
    l.zip (List.replicate l.length x) = l.map (fun c => (c, x)) := by
  induction l with
  | nil => rfl
  | cons c cs ih => simp [List.replicate_succ, ih]

theorem newString_iter (stripped : List Char) (frags : List Frag) (h : Contig 0 frags stripped.length) :
    (AnsiString.newString stripped frags).iter = stripped.zip (expand frags) := by
  unfold AnsiString.newString AnsiString.iter
  match frags, h with
  | [], h =>
    simp [Contig] at h
    have : stripped = [] := List.length_eq_zero_iff.mp h.symm
    subst this; simp [expand]
  | [f], h =>
    simp [Contig] at h
    obtain ⟨g1, g2, g3⟩ := h
    by_cases hd : f.attr = Attr.dflt
    · simp [hd, expand, g1, g3, zip_replicate_length]
    · simp [hd]
      exact iter_contig [f] stripped (by simp [Contig]; exact ⟨g1, g2, g3⟩)
  | f :: g :: r, h =>
    simp
    exact iter_contig _ stripped h

theorem parse_spec (ht : ∀ code, (lookup Generated.sgrTable code).denote code = sgr1 code)
    (a0 : Attr) (segs : List Seg) (hwf : ∀ s ∈ segs, s.wf) :
    ((Parser.fresh a0).parseAnsi (render segs)).1.stripped = text segs ∧
    ((Parser.fresh a0).parseAnsi (render segs)).1.iter = (text segs).zip (attrsWith csiParams a0 segs) ∧
    ((Parser.fresh a0).parseAnsi (render segs)).2 = Parser.fresh (finalWith csiParams a0 segs) := by
  have h0 : Abs (Parser.fresh a0) [] [] a0 := ⟨rfl, rfl, rfl, rfl, rfl⟩
  have hf := fold_segs segs hwf {} rfl (Parser.fresh a0)
  have h1 := abs_fold ht segs h0
  obtain ⟨⟨c1, c2, c3, c4, c5⟩, h3⟩ := abs_save h1
  simp only [Parser.parseAnsi, tokenize, hf]
  generalize (List.foldl stepSeg (Parser.fresh a0) segs).saveStr = p1 at *
  simp [h3] at c3 c4
  refine ⟨?_, ?_, ?_⟩
  · simp [AnsiString.newString, c3]
  · rw [newString_iter _ _ (by rw [← c1]; exact c2), c3, c4]
  · cases p1
    simp_all [Parser.fresh]


/-! ### vte's parameter accumulator is decimal parsing inside its limits -/


theorem flat_append (a b : List Param) : flat (a ++ b) = flat a ++ flat b := by simp [flat]

theorem flat_mk (cur : List Nat) (v : Nat) : flat [mkParam cur v] = cur ++ [v] := by
  cases cur <;> simp [mkParam, flat]

theorem closeGroup_eq (cur : List Nat) (v : Nat) : closeGroup cur v = mkParam cur v := by
  cases cur <;> rfl

theorem go_len (body : List Char) : ∀ (done : List Param) (cur : List Nat) (v : Nat),
    (flat done).length + cur.length + 1 ≤ (flat (paramsGo done cur v body)).length := by
  induction body with
  | nil => intro done cur v; simp [paramsGo, flat_append, flat_mk]; omega
  | cons c r ih =>
    intro done cur v
    unfold paramsGo
    split
    · have := ih (done ++ [mkParam cur v]) [] 0
      simp [flat_append, flat_mk] at this; omega
    · split
      · have := ih done (cur ++ [v]) 0
        simp at this; omega
      · exact ih done cur _

theorem go_mem (body : List Char) : ∀ (done : List Param) (cur : List Nat) (v : Nat),
    (∀ x ∈ flat done, x ∈ flat (paramsGo done cur v body)) ∧ (∀ x ∈ cur, x ∈ flat (paramsGo done cur v body)) ∧
    (∃ x ∈ flat (paramsGo done cur v body), v ≤ x) := by
  induction body with
  | nil =>
    intro done cur v
    simp only [paramsGo, flat_append, flat_mk]
    refine ⟨fun x hx => ?_, fun x hx => ?_, v, ?_, Nat.le_refl _⟩ <;> simp [*]
  | cons c r ih =>
    intro done cur v
    unfold paramsGo
    split
    · obtain ⟨h1, _, _⟩ := ih (done ++ [mkParam cur v]) [] 0
      simp only [flat_append, flat_mk] at h1
      refine ⟨fun x hx => h1 x (by simp [hx]), fun x hx => h1 x (by simp [hx]), v, h1 v (by simp), Nat.le_refl _⟩
    · split
      · obtain ⟨h1, h2, _⟩ := ih done (cur ++ [v]) 0
        refine ⟨h1, fun x hx => h2 x (by simp [hx]), v, h2 v (by simp), Nat.le_refl _⟩
      · obtain ⟨h1, h2, x, hx, hv⟩ := ih done cur (v * 10 + (c.toNat - 48))
        exact ⟨h1, h2, x, hx, by omega⟩

theorem params_go (body : List Char) (hb : ∀ c ∈ body, isParamChar c = true) :
    ∀ (b : PBuf), b.len = (flat b.groups).length + b.cur.length → b.param ≤ 65535 →
      (flat (paramsGo b.groups b.cur b.param body)).length ≤ 32 →
      (∀ x ∈ flat (paramsGo b.groups b.cur b.param body), x ≤ 65535) →
      (body.foldl PBuf.paramAction b).dispatchParams = paramsGo b.groups b.cur b.param body := by
  induction body with
  | nil =>
    intro b hlen _ hcount _
    simp [paramsGo, flat_append, flat_mk] at hcount
    have : b.len ≠ MAX_PARAMS := by simp [MAX_PARAMS]; omega
    simp [PBuf.dispatchParams, this, paramsGo, closeGroup_eq]
  | cons c r ih =>
    intro b hlen hp hcount hmax
    have hl := go_len (c :: r) b.groups b.cur b.param
    have hne : b.len ≠ MAX_PARAMS := by simp [MAX_PARAMS]; omega
    have ih' := ih (fun c h => hb c (by simp [h]))
    simp only [List.foldl_cons]
    unfold paramsGo at hcount hmax ⊢
    by_cases h1 : c = ';'
    · simp only [h1, if_true] at hcount hmax ⊢
      have e : b.paramAction ';' = { b with groups := b.groups ++ [mkParam b.cur b.param], cur := [], param := 0, len := b.len + 1 } := by
        simp [PBuf.paramAction, hne, closeGroup_eq]
      rw [e]
      exact ih' _ (by simp [flat_append, flat_mk]; omega) (by simp) hcount hmax
    · by_cases h2 : c = ':'
      · have h2' : (':' : Char) ≠ ';' := by decide
        simp only [h2, h2', if_true, if_false] at hcount hmax ⊢
        have e : b.paramAction ':' = { b with cur := b.cur ++ [b.param], param := 0, len := b.len + 1 } := by
          simp [PBuf.paramAction, hne, h2']
        rw [e]
        exact ih' _ (by simp; omega) (by simp) hcount hmax
      · simp only [h1, h2, if_false] at hcount hmax ⊢
        obtain ⟨_, _, x, hx, hv⟩ := go_mem r b.groups b.cur (b.param * 10 + (c.toNat - 48))
        have hx' := hmax x hx
        have e : b.paramAction c = { b with param := b.param * 10 + (c.toNat - 48) } := by
          simp only [PBuf.paramAction, hne, h1, h2, if_false]
          congr 1
          omega
        rw [e]
        exact ih' _ hlen (by simp; omega) hcount hmax



theorem attrsWith_congr (par1 par2 : List Char → List Param) (segs : List Seg)
    (h : ∀ body, Seg.sgr body ∈ segs → par1 body = par2 body) :
    ∀ a, attrsWith par1 a segs = attrsWith par2 a segs ∧ finalWith par1 a segs = finalWith par2 a segs := by
  induction segs with
  | nil => intro a; simp [attrsWith, finalWith]
  | cons s segs ih =>
    intro a
    have ih' := ih (fun body hb => h body (by simp [hb]))
    cases s with
    | text cs => simp [attrsWith, finalWith, ih' a]
    | sgr body => simp [attrsWith, finalWith, h body (by simp), ih']
    | csi b f => simp [attrsWith, finalWith, ih' a]

theorem linesWith_congr (par1 par2 : List Char → List Param) (ls : List (List Seg))
    (h : ∀ l ∈ ls, ∀ body, Seg.sgr body ∈ l → par1 body = par2 body) :
    ∀ a, linesWith par1 a ls = linesWith par2 a ls := by
  induction ls with
  | nil => intro a; rfl
  | cons l ls ih =>
    intro a
    have hl := attrsWith_congr par1 par2 l (h l (by simp)) a
    simp [linesWith, hl.1, hl.2, ih (fun l' h' => h l' (by simp [h']))]


/-! ### `str_lines` on a header joined by newlines -/


/-- lines joined by `\n` (how a multi-line `--header` arrives) -/
def joinNl : List (List Char) → List Char
  | [] => []
  | [l] => l
  | l :: l' :: ls => l ++ '\n' :: joinNl (l' :: ls)

theorem splitNl_ne_nil (s : List Char) : splitNl s ≠ [] := by
  induction s with
  | nil => simp [splitNl]
  | cons c cs ih =>
    unfold splitNl
    split
    · simp
    · split <;> simp

theorem splitNl_noNl (l : List Char) (h : '\n' ∉ l) : splitNl l = [l] := by
  induction l with
  | nil => rfl
  | cons c cs ih =>
    have hc : c ≠ '\n' := fun e => h (by simp [e])
    have := ih (fun m => h (by simp [m]))
    simp [splitNl, this, hc]

theorem splitNl_append (l rest : List Char) (h : '\n' ∉ l) : splitNl (l ++ '\n' :: rest) = l :: splitNl rest := by
  induction l with
  | nil =>
    have := splitNl_ne_nil rest
    simp only [List.nil_append, splitNl]
    split
    · contradiction
    · simp [*]
  | cons c cs ih =>
    have hc : c ≠ '\n' := fun e => h (by simp [e])
    have := ih (fun m => h (by simp [m]))
    simp [splitNl, this, hc]

theorem splitNl_join (ls : List (List Char)) (hne : ls ≠ []) (h : ∀ l ∈ ls, '\n' ∉ l) : splitNl (joinNl ls) = ls := by
  induction ls with
  | nil => contradiction
  | cons l ls ih =>
    cases ls with
    | nil => simpa [joinNl] using splitNl_noNl l (h l (by simp))
    | cons l' ls' =>
      rw [joinNl, splitNl_append _ _ (h l (by simp)), ih (by simp) (fun x hx => h x (by simp [hx]))]

theorem joinNl_snoc (xs : List (List Char)) (l : List Char) : ∃ pre, joinNl (xs ++ [l]) = pre ++ l := by
  induction xs with
  | nil => exact ⟨[], rfl⟩
  | cons x xs ih =>
    obtain ⟨pre, hp⟩ := ih
    cases xs with
    | nil => exact ⟨x ++ ['\n'], by simp [joinNl]⟩
    | cons y ys => exact ⟨x ++ '\n' :: pre, by simp [joinNl] at hp ⊢; exact hp⟩

theorem trimEnd_id (pre init : List Char) (c : Char) (hc : isWhitespace c = false) :
    trimEnd (pre ++ (init ++ [c])) = pre ++ (init ++ [c]) := by
  simp [trimEnd, hc]

theorem mem_csi (c f : Char) (body : List Char) :
    c ∈ ESC :: '[' :: (body ++ [f]) ↔ c = ESC ∨ c = '[' ∨ c ∈ body ∨ c = f := by simp

theorem seg_render_no_nl (s : Seg) (h : s.wf) : '\n' ∉ s.render := by
  have hesc : ('\n' : Char) ≠ ESC := by decide
  cases s with
  | text cs =>
    intro hm
    rcases h _ hm with e | e
    · exact absurd e (by decide)
    · revert e; decide
  | sgr body =>
    intro hm
    rw [Seg.render, mem_csi] at hm
    rcases hm with e | e | e | e
    · exact hesc e
    · revert e; decide
    · have := paramChar_range _ (h _ e); revert this; decide
    · revert e; decide
  | csi body f =>
    obtain ⟨hb, hf, _, _⟩ := h
    intro hm
    rw [Seg.render, mem_csi] at hm
    rcases hm with e | e | e | e
    · exact hesc e
    · revert e; decide
    · have := (hb _ e).1; revert this; decide
    · rw [← e] at hf; revert hf; decide

theorem render_no_nl (segs : List Seg) (h : ∀ s ∈ segs, s.wf) : '\n' ∉ render segs := by
  intro hm
  simp only [render, List.mem_flatten, List.mem_map] at hm
  obtain ⟨l, ⟨s, hs, rfl⟩, hm⟩ := hm
  exact seg_render_no_nl s (h s hs) hm


end SkimModel.Ansi
