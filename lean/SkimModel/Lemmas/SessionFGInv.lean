import SkimModel.Lemmas.SessionFG
import SkimModel.Props.C01
/-!
The invariant of the fine-grained system: at every program point of the heart-beat handler, the accounting
invariant `Inv` (or, between the harvest and the end of act_heart_beat, the intermediate `Mid`) holds of the shared
state, and every value M has read so far that is `true` is still true of the shared state (the flags are monotone
under the other threads' steps).  Preserved by every micro-step of M and by every step of every other thread
taken at ANY program point.
-/
namespace SkimModel.Session
open SkimModel.Pool
variable {α κ : Type}

def FInv (m : κ → α → Bool) (f : FSt α κ) : Prop :=
  match f.pc with
  | .idle => Inv m f.s
  | .hb1 => Inv m f.s
  | .s1 => Inv m f.s
  | .hb2 _ => Inv m f.s
  | .hb3 _ ms => Inv m f.s ∧ (ms = true → matcherStopped f.s = true)
  | .hb4 rs => Mid m rs f.s
  | .hb5 rs _ => Mid m rs f.s
  | .s2 ic' => Inv m f.s ∧ (ic' = true → itemsConsumed f.s = true)
  | .s3 ic' rs' => Inv m f.s ∧ (ic' = true → itemsConsumed f.s = true) ∧ (rs' = true → readerDone f.s = true)

theorem foreign_iff (l : Label α κ) : l.foreign = true ↔ l.isLoop = false := by
  cases l <;> simp [Label.foreign, Label.isLoop]

/-- steps of the other threads, at any program point of M -/
theorem finv_foreign (m : κ → α → Bool) (f : FSt α κ) (l : Label α κ) (s' : St α κ) (hl : l.isLoop = false)
    (hs : step m f.s l = some s') (h : FInv m f) : FInv m { f with s := s' } := by
  have hf : l.foreign = true := (foreign_iff l).mpr hl
  obtain ⟨mono_ms, mono_rd, _⟩ := c01_flags_monotone m f.s s' l hf hs
  have mono_ic := foreign_consumed m f.s s' l hl hs
  unfold FInv at *
  cases hpc : f.pc with
  | idle => simp only [hpc] at h ⊢; exact inv_step m f.s s' l h hs
  | hb1 => simp only [hpc] at h ⊢; exact inv_step m f.s s' l h hs
  | s1 => simp only [hpc] at h ⊢; exact inv_step m f.s s' l h hs
  | hb2 rs => simp only [hpc] at h ⊢; exact inv_step m f.s s' l h hs
  | hb3 rs ms => simp only [hpc] at h ⊢; exact ⟨inv_step m f.s s' l h.1 hs, fun e => mono_ms (h.2 e)⟩
  | hb4 rs => simp only [hpc] at h ⊢; exact foreign_mid m rs f.s s' l hl hs h
  | hb5 rs ic => simp only [hpc] at h ⊢; exact foreign_mid m rs f.s s' l hl hs h
  | s2 ic' => simp only [hpc] at h ⊢; exact ⟨inv_step m f.s s' l h.1 hs, fun e => mono_ic (h.2 e)⟩
  | s3 ic' rs' =>
    simp only [hpc] at h ⊢
    exact ⟨inv_step m f.s s' l h.1 hs, fun e => mono_ic (h.2.1 e), fun e => mono_rd (h.2.2 e)⟩

/-- M's micro-steps -/
theorem finv_mstep (m : κ → α → Bool) (f f' : FSt α κ) (rd : Bool) (hs : mstep f rd = some f') (h : FInv m f) :
    FInv m f' := by
  have and_r : ∀ x : Bool, (rd && x) = true → x = true := by intro x hx; simp at hx; exact hx.2
  unfold mstep at hs
  split at hs
  · cases hs
  · cases hpc : f.pc with
    | idle =>
      simp only [hpc] at hs
      unfold FInv at h; simp only [hpc] at h
      split at hs
      · cases hs
      · cases hs
        show Inv m _
        exact inv_transfer m f.s _ h rfl rfl rfl rfl rfl rfl rfl rfl rfl rfl rfl
      · rename_i e rest hq
        cases hs
        show Inv m _
        exact inv_handleUser m _ e (inv_transfer m f.s _ h rfl rfl rfl rfl rfl rfl rfl rfl rfl rfl rfl)
    | hb1 =>
      simp only [hpc] at hs; cases hs
      unfold FInv at h ⊢; simp only [hpc] at h; exact h
    | hb2 rs =>
      simp only [hpc] at hs; cases hs
      unfold FInv at h ⊢; simp only [hpc] at h
      exact ⟨h, and_r _⟩
    | hb3 rs ms =>
      simp only [hpc] at hs; cases hs
      unfold FInv at h ⊢; simp only [hpc] at h
      exact mid_of_harvest m f.s rs ms h.1 h.2
    | hb4 rs =>
      simp only [hpc] at hs; cases hs
      unfold FInv at h ⊢; simp only [hpc] at h; exact h
    | hb5 rs ic =>
      simp only [hpc] at hs; cases hs
      unfold FInv at h; simp only [hpc] at h
      have hi := inv_of_finish m f.s rs ic h
      by_cases hc : (!(hbFinish f.s rs ic).select1 && !(hbFinish f.s rs ic).exit0) = true
      · unfold FInv; simp only [hc, if_true]; exact hi
      · unfold FInv; simp only [hc, if_false]; exact hi
    | s1 =>
      simp only [hpc] at hs; cases hs
      unfold FInv at h ⊢; simp only [hpc] at h
      exact ⟨h, and_r _⟩
    | s2 ic' =>
      simp only [hpc] at hs; cases hs
      unfold FInv at h ⊢; simp only [hpc] at h
      exact ⟨h.1, h.2, and_r _⟩
    | s3 ic' rs' =>
      simp only [hpc] at hs; cases hs
      unfold FInv at h ⊢; simp only [hpc] at h
      show Inv m _
      split
      · exact inv_decide1 m f.s h.1
      · exact h.1

theorem finv_fstep (m : κ → α → Bool) (f f' : FSt α κ) (l : FLabel α κ) (hs : fstep m f l = some f')
    (h : FInv m f) : FInv m f' := by
  cases l with
  | m rd => exact finv_mstep m f f' rd hs h
  | foreign l =>
    cases hl : l.isLoop with
    | true => cases l <;> simp_all [Label.isLoop, fstep]
    | false =>
      have : fstep m f (.foreign l) = (step m f.s l).map (fun s' => { f with s := s' }) := by
        cases l <;> simp_all [Label.isLoop, fstep]
      rw [this] at hs
      cases hst : step m f.s l with
      | none => rw [hst] at hs; cases hs
      | some s' =>
        rw [hst] at hs; cases hs
        exact finv_foreign m f l s' hl hst h

theorem finv_init (m : κ → α → Bool) (o : Opts) (q : κ) (src : List α) : FInv m (finit o q src) := by
  unfold FInv finit; exact inv_initWith m o q src

theorem finv_frun (m : κ → α → Bool) (f : FSt α κ) (ls : List (FLabel α κ)) (h : FInv m f) :
    FInv m (frun m f ls) := by
  induction ls generalizing f with
  | nil => exact h
  | cons l ls ih =>
    unfold frun; simp only [List.foldl_cons]
    apply ih
    cases hs : fstep m f l with
    | none => exact h
    | some f' => exact finv_fstep m f f' l hs h


/-- `k` consecutive micro-steps of M with no step of another thread in between -/
def mrun (f : FSt α κ) : Nat → Option (FSt α κ)
  | 0 => some f
  | n + 1 => (mstep f).bind (fun f' => mrun f' n)

theorem hbFinish_finished (s : St α κ) (rs ic : Bool) : (hbFinish s rs ic).finished = s.finished := by
  unfold hbFinish; simp only []
  split <;> split <;> first | rfl | exact (restart_opts _).2.2.2.2.1

theorem mstep_idle_hb (s : St α κ) (rest : List (Ev α κ)) (hf : s.finished = none) (hq : s.queue = .hb :: rest) :
    mstep ({ s := s, pc := .idle } : FSt α κ) = some { s := { s with queue := rest.dropWhile Ev.isHB }, pc := .hb1 } := by
  simp [mstep, hf, hq]
theorem mstep_hb1 (s : St α κ) (hf : s.finished = none) :
    mstep ({ s := s, pc := .hb1 } : FSt α κ) = some { s := s, pc := .hb2 (readerDone s) } := by simp [mstep, hf]
theorem mstep_hb2 (s : St α κ) (rs : Bool) (hf : s.finished = none) :
    mstep ({ s := s, pc := .hb2 rs } : FSt α κ) = some { s := s, pc := .hb3 rs (matcherStopped s) } := by simp [mstep, hf]
theorem mstep_hb3 (s : St α κ) (rs ms : Bool) (hf : s.finished = none) :
    mstep ({ s := s, pc := .hb3 rs ms } : FSt α κ) = some { s := hbHarvest s rs ms, pc := .hb4 rs } := by simp [mstep, hf]
theorem mstep_hb4 (s : St α κ) (rs : Bool) (hf : s.finished = none) :
    mstep ({ s := s, pc := .hb4 rs } : FSt α κ) = some { s := s, pc := .hb5 rs (itemsConsumed s) } := by simp [mstep, hf]
theorem mstep_hb5 (s : St α κ) (rs ic : Bool) (hf : s.finished = none) :
    mstep ({ s := s, pc := .hb5 rs ic } : FSt α κ) =
      some { s := hbFinish s rs ic, pc := if !(hbFinish s rs ic).select1 && !(hbFinish s rs ic).exit0 then .idle else .s1 } := by
  simp [mstep, hf]
theorem mstep_s1 (s : St α κ) (hf : s.finished = none) :
    mstep ({ s := s, pc := .s1 } : FSt α κ) = some { s := s, pc := .s2 (itemsConsumed s) } := by simp [mstep, hf]
theorem mstep_s2 (s : St α κ) (ic : Bool) (hf : s.finished = none) :
    mstep ({ s := s, pc := .s2 ic } : FSt α κ) = some { s := s, pc := .s3 ic (readerDone s) } := by simp [mstep, hf]
theorem mstep_s3 (s : St α κ) (ic rs : Bool) (hf : s.finished = none) :
    mstep ({ s := s, pc := .s3 ic rs } : FSt α κ) =
      some { s := if rs && ic && s.mc.isNone then decide1 s else s, pc := .idle } := by simp [mstep, hf]

end SkimModel.Session
