/-
Liveness helper: from every reachable state with no pending user event there is a finite continuation
of INTERNAL labels (reader, matcher, timer, event loop with accurate reads) that reaches quiescence.
A lexicographic measure (reader work, work class, matcher phase, "no heart beat queued") decreases
along a canonical schedule.
-/
import SkimModel.Lemmas.Session
namespace SkimModel.Session
open SkimModel.Pool
variable {α κ : Type}

def phaseRank (s : St α κ) : Nat :=
  match s.mc with
  | some r => (match r.phase with | .spawned => 3 | .matching => 2 | .published => 1 | .stopped => 0)
  | none => 0

def readerWork (s : St α κ) : Nat := s.unread.length + (if s.live then 1 else 0)

/-- 3: items wait in the reader buffer; 2: pool items not yet taken; 1: a run still to be harvested; 0: nothing -/
def cls (s : St α κ) : Nat :=
  if s.buf.isEmpty = false then 3
  else if s.pool.taken ≠ s.pool.pool.length then 2
  else if s.mc.isSome then 1 else 0

def tflag (s : St α κ) : Nat := if hbQueued s then 0 else 1

def mu (s : St α κ) : Nat := readerWork s * 64 + cls s * 16 + phaseRank s * 4 + tflag s

theorem cls_le (s : St α κ) : cls s ≤ 3 := by unfold cls; split <;> (try split) <;> (try split) <;> omega
theorem phaseRank_le (s : St α κ) : phaseRank s ≤ 3 := by
  unfold phaseRank; split
  · split <;> omega
  · omega
theorem tflag_le (s : St α κ) : tflag s ≤ 1 := by unfold tflag; split <;> omega

/-- the bundle carried along the schedule -/
structure Ready (m : κ → α → Bool) (s : St α κ) : Prop where
  inv : Inv m s
  wake : Wake s
  fin : s.finished = none
  onlyHB : s.queue.all Ev.isHB = true
  noSel : s.select1 = false ∧ s.exit0 = false

def Quiet (s : St α κ) : Prop :=
  (s.unread = [] ∧ s.buf = [] ∧ s.live = false) ∧ (s.mc = none ∧ s.pool.taken = s.pool.pool.length)

def Label.internal : Label α κ → Bool
  | .user _ => false
  | _ => true

/-- the labels of the canonical schedule: no keystroke, and event-loop iterations whose reads are all accurate -/
def Label.canon : Label α κ → Bool
  | .user _ => false
  | .loop rd => rd == {}
  | _ => true

theorem Label.internal_of_canon (l : Label α κ) (h : l.canon = true) : l.internal = true := by
  cases l <;> simp_all [Label.canon, Label.internal]

/-! exact results of the heart-beat handler with accurate reads -/

theorem hbSelect_off (s : St α κ) (rd : Reads) (h1 : s.select1 = false) (h2 : s.exit0 = false) :
    hbSelect s rd = s := by
  unfold hbSelect; simp [h1, h2]

theorem hbMain_stopped_done (s : St α κ) (r : MRun α κ) (hmc : s.mc = some r) (hp : r.phase = .stopped)
    (hrd : readerDone s = true) (htk : s.pool.taken = s.pool.pool.length) :
    hbMain s {} = harvest s r true := by
  have hms : matcherStopped s = true := by simp [matcherStopped, hmc, hp]
  have hh : hbHarvest s true true = harvest s r true := by unfold hbHarvest; rw [hmc]
  have hic : itemsConsumed (harvest s r true) = true := by
    simp [itemsConsumed, harvest, htk]
  have hmcn : (harvest s r true).mc = none := rfl
  unfold hbMain
  simp only [hrd, hms, Bool.and_true, hh, hic, Bool.not_true, Bool.false_and, Bool.false_eq_true,
    if_false, hmcn, Option.isSome_none, Bool.or_false]

theorem hbMain_stopped_more (s : St α κ) (r : MRun α κ) (hmc : s.mc = some r) (hp : r.phase = .stopped)
    (hrd : readerDone s = false) :
    hbMain s {} = { restart (harvest s r false) with timer := true } := by
  have hms : matcherStopped s = true := by simp [matcherStopped, hmc, hp]
  have hh : hbHarvest s false true = harvest s r false := by unfold hbHarvest; rw [hmc]
  have hmcn : (harvest s r false).mc = none := rfl
  have hrs : (restart (harvest s r false)).mc.isSome = true := by unfold restart; simp
  unfold hbMain
  simp only [hrd, hms, Bool.and_true, Bool.and_false, hh, Bool.false_and, Bool.not_false, hmcn,
    Option.isNone_none, Bool.true_and, if_true, hrs, Bool.true_or]

theorem hbMain_none_more (s : St α κ) (hmc : s.mc = none) (hrd : readerDone s = false) :
    hbMain s {} = { restart s with timer := true } := by
  have hms : matcherStopped s = false := by simp [matcherStopped, hmc]
  have hh : hbHarvest s false false = s := by unfold hbHarvest; split <;> simp_all
  have hrs : (restart s).mc.isSome = true := by unfold restart; simp
  unfold hbMain
  simp only [hrd, hms, Bool.and_false, hh, Bool.false_and, Bool.not_false, hmc,
    Option.isNone_none, Bool.true_and, if_true, hrs, Bool.true_or]

/-- after a restart from a state whose reader is not done the buffer is empty and a run is spawned -/
theorem restart_not_done (s : St α κ) (hrd : readerDone s = false) :
    (restart s).buf = [] ∧ (restart s).mc = some { q := s.q } ∧ (restart s).live = s.live ∧
    (restart s).unread = s.unread ∧ (restart s).queue = s.queue ++ [.hb] ∧
    (restart s).finished = s.finished ∧ (restart s).select1 = s.select1 ∧ (restart s).exit0 = s.exit0 := by
  unfold restart; simp [hrd]

theorem mu_lt_of (s s' : St α κ)
    (h : readerWork s' < readerWork s ∨
      (readerWork s' = readerWork s ∧ (cls s' < cls s ∨
        (cls s' = cls s ∧ (phaseRank s' < phaseRank s ∨
          (phaseRank s' = phaseRank s ∧ tflag s' < tflag s)))))) : mu s' < mu s := by
  have a1 := cls_le s; have a2 := cls_le s'
  have b1 := phaseRank_le s; have b2 := phaseRank_le s'
  have c1 := tflag_le s; have c2 := tflag_le s'
  unfold mu
  rcases h with h | ⟨h0, h | ⟨h1, h | ⟨h2, h3⟩⟩⟩ <;> omega

/-- -16 on the class pays for +12 on the phase and +1 on the flag -/
theorem mu_lt_cls (s s' : St α κ) (h0 : readerWork s' = readerWork s) (h1 : cls s' < cls s) : mu s' < mu s :=
  mu_lt_of s s' (Or.inr ⟨h0, Or.inl h1⟩)

theorem all_hb_head (qu : List (Ev α κ)) (hall : qu.all Ev.isHB = true) (hq : qu.any Ev.isHB = true) :
    ∃ rest, qu = .hb :: rest ∧ rest.all Ev.isHB = true ∧ rest.dropWhile Ev.isHB = [] := by
  cases qu with
  | nil => simp at hq
  | cons e rest =>
    simp only [List.all_cons, Bool.and_eq_true] at hall
    cases e with
    | hb =>
      refine ⟨rest, rfl, hall.2, ?_⟩
      have : ∀ (l : List (Ev α κ)), l.all Ev.isHB = true → l.dropWhile Ev.isHB = [] := by
        intro l; induction l with
        | nil => intro _; rfl
        | cons a t ih =>
          intro h; simp only [List.all_cons, Bool.and_eq_true] at h
          simp [List.dropWhile_cons, h.1, ih h.2]
      exact this rest hall.2
    | user u => simp [Ev.isHB] at hall

def afterTake (s : St α κ) (r : MRun α κ) : St α κ :=
  { s with pool := s.pool.take.1,
           mc := some { r with phase := .matching, start := s.pool.take.2.1, slice := s.pool.take.2.2 } }

def afterPublish (m : κ → α → Bool) (s : St α κ) (r : MRun α κ) : St α κ :=
  { s with mc := some { r with phase := .published, result := hitsFrom m r.q r.start r.slice },
           queue := s.queue ++ [.hb] }

def afterStop (s : St α κ) (r : MRun α κ) : St α κ := { s with mc := some { r with phase := .stopped } }

theorem step_tTake (m : κ → α → Bool) (s : St α κ) (r : MRun α κ) (hmc : s.mc = some r) (hp : r.phase = .spawned) :
    step m s .tTake = some (afterTake s r) := by simp [step, stepWith, hmc, hp, afterTake]
theorem step_tPublish (m : κ → α → Bool) (s : St α κ) (r : MRun α κ) (hmc : s.mc = some r) (hp : r.phase = .matching) :
    step m s .tPublish = some (afterPublish m s r) := by simp [step, stepWith, hmc, hp, afterPublish]
theorem step_tStop (m : κ → α → Bool) (s : St α κ) (r : MRun α κ) (hmc : s.mc = some r) (hp : r.phase = .published) :
    step m s .tStop = some (afterStop s r) := by simp [step, stepWith, hmc, hp, afterStop]

theorem ready_of_step (m : κ → α → Bool) (s s' : St α κ) (l : Label α κ) (h : Ready m s)
    (hs : step m s l = some s') (hf : s'.finished = none) (hq : s'.queue.all Ev.isHB = true)
    (hsel : s'.select1 = false ∧ s'.exit0 = false) : Ready m s' :=
  ⟨inv_step m s s' l h.inv hs, wake_step m s s' l h.wake hs hf, hf, hq, hsel⟩

theorem cls_restart_le (t : St α κ) (hrd : readerDone t = false) (b : Bool) :
    cls ({ restart t with timer := b } : St α κ) ≤ 2 := by
  have hb : (restart t).buf = [] := (restart_not_done t hrd).1
  unfold cls
  simp only [hb, List.isEmpty_nil]
  simp only [Bool.true_eq_false, if_false]
  split <;> (try split) <;> omega

theorem readerWork_restart (t : St α κ) (hrd : readerDone t = false) (b : Bool) :
    readerWork ({ restart t with timer := b } : St α κ) = readerWork t := by
  obtain ⟨_, _, h3, h4, _⟩ := restart_not_done t hrd
  simp only [readerWork]; rw [h3, h4]

theorem step_timer (m : κ → α → Bool) (s : St α κ) (ht : s.timer = true) :
    step m s .timer = some { s with timer := false, queue := s.queue ++ [.hb] } := by
  simp [step, stepWith, ht]

theorem step_loop_hb (m : κ → α → Bool) (s : St α κ) (rest : List (Ev α κ)) (hf : s.finished = none)
    (hq : s.queue = .hb :: rest) (hd : rest.dropWhile Ev.isHB = []) (hsel : s.select1 = false ∧ s.exit0 = false) :
    step m s (.loop {}) = some (hbMain { s with queue := [] } {}) := by
  have hfin' : s.finished.isSome = false := by simp [hf]
  simp only [step, stepWith, hfin', Bool.false_eq_true, if_false, hq, hd, handleHB]
  have o := hbMain_opts ({ s with queue := [] } : St α κ) {}
  rw [hbSelect_off _ _ (o.2.1.trans hsel.1) (o.2.2.1.trans hsel.2)]

/-- one step of the canonical schedule -/
theorem progress (m : κ → α → Bool) (s : St α κ) (h : Ready m s) (hnq : ¬ Quiet s) :
    ∃ (l : Label α κ) (s' : St α κ), l.canon = true ∧ step m s l = some s' ∧ Ready m s' ∧ mu s' < mu s := by
  have hfin' : s.finished.isSome = false := by simp [h.fin]
  by_cases hlive : s.live = true
  · -- the reader moves
    cases hu : s.unread with
    | cons x u =>
      have hs : step m s .rPush = some { s with unread := u, buf := s.buf ++ [x] } := by
        simp [step, stepWith, hfin', hlive, hu]
      refine ⟨.rPush, _, rfl, hs, ready_of_step m s _ .rPush h hs h.fin h.onlyHB h.noSel, ?_⟩
      apply mu_lt_of; left; simp [readerWork, hu]
    | nil =>
      have hs : step m s .rEnd = some { s with live := false } := by
        simp [step, stepWith, hfin', hlive, hu]
      refine ⟨.rEnd, _, rfl, hs, ready_of_step m s _ .rEnd h hs h.fin h.onlyHB h.noSel, ?_⟩
      apply mu_lt_of; left; simp [readerWork, hu, hlive]
  · have hlive' : s.live = false := by simpa using hlive
    have hun : s.unread = [] := h.inv.core.dead hlive'
    cases hmc : s.mc with
    | some r =>
      cases hp : r.phase with
      | spawned =>
        have hs := step_tTake m s r hmc hp
        refine ⟨.tTake, _, rfl, hs, ready_of_step m s _ .tTake h hs h.fin h.onlyHB h.noSel, ?_⟩
        apply mu_lt_of; right
        refine ⟨rfl, ?_⟩
        have hpr : phaseRank (afterTake s r) = 2 := rfl
        have hpr0 : phaseRank s = 3 := by simp [phaseRank, hmc, hp]
        by_cases hb : s.buf.isEmpty = false
        · right; exact ⟨by simp [cls, hb, afterTake], Or.inl (by rw [hpr, hpr0]; omega)⟩
        · have hb' : s.buf.isEmpty = true := by simpa using hb
          by_cases htk : s.pool.taken = s.pool.pool.length
          · right; exact ⟨by simp [cls, hb', htk, hmc, Pool.take, afterTake], Or.inl (by rw [hpr, hpr0]; omega)⟩
          · left; simp [cls, hb', htk, hmc, Pool.take, afterTake]
      | matching =>
        have hs := step_tPublish m s r hmc hp
        refine ⟨.tPublish, _, rfl, hs, ready_of_step m s _ .tPublish h hs h.fin ?_ h.noSel, ?_⟩
        · simp [afterPublish, List.all_append, h.onlyHB, Ev.isHB]
        · apply mu_lt_of; right
          refine ⟨rfl, Or.inr ⟨by simp [cls, afterPublish, hmc], Or.inl ?_⟩⟩
          simp [phaseRank, hmc, hp, afterPublish]
      | published =>
        have hs := step_tStop m s r hmc hp
        refine ⟨.tStop, _, rfl, hs, ready_of_step m s _ .tStop h hs h.fin h.onlyHB h.noSel, ?_⟩
        apply mu_lt_of; right
        refine ⟨rfl, Or.inr ⟨by simp [cls, afterStop, hmc], Or.inl ?_⟩⟩
        simp [phaseRank, hmc, hp, afterStop]
      | stopped =>
        obtain ⟨_, htk, _, _, _, _⟩ := acc_stopped m s r h.inv.acc hmc hp
        have hwk := h.wake (Or.inl (by simp [hmc]))
        have hta : tActive s = false := by simp [tActive, hmc, hp]
        by_cases hhb : hbQueued s = true
        · obtain ⟨rest, hq, _, hd⟩ := all_hb_head s.queue h.onlyHB hhb
          have hs := step_loop_hb m s rest h.fin hq hd h.noSel
          have hmc0 : ({ s with queue := [] } : St α κ).mc = some r := hmc
          by_cases hrd : readerDone s = true
          · have hrd0 : readerDone ({ s with queue := [] } : St α κ) = true := hrd
            have e := hbMain_stopped_done ({ s with queue := [] } : St α κ) r hmc0 hp hrd0 htk
            rw [e] at hs
            refine ⟨.loop {}, _, rfl, hs, ready_of_step m s _ _ h hs h.fin rfl h.noSel, ?_⟩
            apply mu_lt_cls
            · rfl
            · have hb : s.buf.isEmpty = true := by
                simp only [readerDone, Bool.and_eq_true] at hrd; exact hrd.2
              have c1 : cls s = 1 := by simp [cls, hb, htk, hmc]
              have c0 : cls (harvest ({ s with queue := [] } : St α κ) r true) = 0 := by
                simp [cls, harvest, hb, htk]
              rw [c1, c0]; omega
          · have hrd' : readerDone s = false := by simpa using hrd
            have hrd0 : readerDone ({ s with queue := [] } : St α κ) = false := hrd'
            have e := hbMain_stopped_more ({ s with queue := [] } : St α κ) r hmc0 hp hrd0
            rw [e] at hs
            have hrdh : readerDone (harvest ({ s with queue := [] } : St α κ) r false) = false := hrd'
            obtain ⟨_, _, _, _, g5, g6, g7, g8⟩ := restart_not_done _ hrdh
            refine ⟨.loop {}, _, rfl, hs, ready_of_step m s _ _ h hs ?_ ?_ ?_, ?_⟩
            · show (restart _).finished = none; rw [g6]; exact h.fin
            · show (restart _).queue.all Ev.isHB = true; rw [g5]; simp [harvest, Ev.isHB]
            · exact ⟨g7.trans h.noSel.1, g8.trans h.noSel.2⟩
            · apply mu_lt_cls
              · rw [readerWork_restart _ hrdh]; rfl
              · have hb : s.buf.isEmpty = false := by
                  simp only [readerDone, hlive', Bool.not_false, Bool.true_and] at hrd'; exact hrd'
                have c3 : cls s = 3 := by simp [cls, hb]
                have := cls_restart_le _ hrdh true
                rw [c3]; omega
        · have hhb' : hbQueued s = false := by simpa using hhb
          have ht : s.timer = true := by
            rcases hwk with h1 | h1 | h1
            · rw [hhb'] at h1; cases h1
            · exact h1
            · rw [hta] at h1; cases h1
          have hs := step_timer m s ht
          refine ⟨.timer, _, rfl, hs, ready_of_step m s _ _ h hs h.fin ?_ h.noSel, ?_⟩
          · simp [List.all_append, h.onlyHB, Ev.isHB]
          · apply mu_lt_of; right
            refine ⟨rfl, Or.inr ⟨by simp [cls], Or.inr ⟨by simp [phaseRank], ?_⟩⟩⟩
            have t1 : tflag s = 1 := by simp [tflag, hhb']
            have t0 : tflag ({ s with timer := false, queue := s.queue ++ [.hb] } : St α κ) = 0 := by
              simp [tflag, hbQueued, Ev.isHB]
            rw [t1, t0]; omega
    | none =>
      have htk := h.inv.idle hmc
      have hb : s.buf.isEmpty = false := by
        cases hbb : s.buf with
        | nil => exact absurd ⟨⟨hun, hbb, hlive'⟩, hmc, htk⟩ hnq
        | cons x xs => rfl
      have hrd' : readerDone s = false := by simp [readerDone, hb]
      have hwk := h.wake (Or.inr (by simp [allDone, hrd']))
      have hta : tActive s = false := by simp [tActive, hmc]
      by_cases hhb : hbQueued s = true
      · obtain ⟨rest, hq, _, hd⟩ := all_hb_head s.queue h.onlyHB hhb
        have hs := step_loop_hb m s rest h.fin hq hd h.noSel
        have hmc0 : ({ s with queue := [] } : St α κ).mc = none := hmc
        have hrd0 : readerDone ({ s with queue := [] } : St α κ) = false := hrd'
        have e := hbMain_none_more ({ s with queue := [] } : St α κ) hmc0 hrd0
        rw [e] at hs
        obtain ⟨_, _, _, _, g5, g6, g7, g8⟩ := restart_not_done _ hrd0
        refine ⟨.loop {}, _, rfl, hs, ready_of_step m s _ _ h hs ?_ ?_ ?_, ?_⟩
        · show (restart _).finished = none; rw [g6]; exact h.fin
        · show (restart _).queue.all Ev.isHB = true; rw [g5]; simp [Ev.isHB]
        · exact ⟨g7.trans h.noSel.1, g8.trans h.noSel.2⟩
        · apply mu_lt_cls
          · rw [readerWork_restart _ hrd0]; rfl
          · have c3 : cls s = 3 := by simp [cls, hb]
            have := cls_restart_le _ hrd0 true
            rw [c3]; omega
      · have hhb' : hbQueued s = false := by simpa using hhb
        have ht : s.timer = true := by
          rcases hwk with h1 | h1 | h1
          · rw [hhb'] at h1; cases h1
          · exact h1
          · rw [hta] at h1; cases h1
        have hs := step_timer m s ht
        refine ⟨.timer, _, rfl, hs, ready_of_step m s _ _ h hs h.fin ?_ h.noSel, ?_⟩
        · simp [List.all_append, h.onlyHB, Ev.isHB]
        · apply mu_lt_of; right
          refine ⟨rfl, Or.inr ⟨by simp [cls], Or.inr ⟨by simp [phaseRank], ?_⟩⟩⟩
          have t1 : tflag s = 1 := by simp [tflag, hhb']
          have t0 : tflag ({ s with timer := false, queue := s.queue ++ [.hb] } : St α κ) = 0 := by
            simp [tflag, hbQueued, Ev.isHB]
          rw [t1, t0]; omega

theorem runL_cons_some (m : κ → α → Bool) (s s' : St α κ) (l : Label α κ) (ls : List (Label α κ))
    (hs : step m s l = some s') : runL m s (l :: ls) = runL m s' ls := by
  simp [runL, hs]

/-- from every `Ready` state a finite sequence of internal labels reaches quiescence -/
theorem reach_quiet (m : κ → α → Bool) : ∀ (n : Nat) (s : St α κ), mu s ≤ n → Ready m s →
    ∃ ls : List (Label α κ), (∀ l ∈ ls, l.canon = true) ∧ Quiet (runL m s ls) ∧ Ready m (runL m s ls) := by
  intro n
  induction n with
  | zero =>
    intro s hmu h
    by_cases hq : Quiet s
    · exact ⟨[], by simp, hq, h⟩
    · obtain ⟨l, s', _, _, _, hlt⟩ := progress m s h hq
      omega
  | succ n ih =>
    intro s hmu h
    by_cases hq : Quiet s
    · exact ⟨[], by simp, hq, h⟩
    · obtain ⟨l, s', hint, hs, hr, hlt⟩ := progress m s h hq
      obtain ⟨ls, hall, hq', hr'⟩ := ih s' (by omega) hr
      refine ⟨l :: ls, ?_, ?_, ?_⟩
      · intro x hx
        rcases List.mem_cons.1 hx with rfl | hx
        · exact hint
        · exact hall x hx
      · rw [runL_cons_some m s s' l ls hs]; exact hq'
      · rw [runL_cons_some m s s' l ls hs]; exact hr'

end SkimModel.Session
