import SkimModel.Spec.Editor
namespace SkimModel.Editor

theorem popWhile_eq (p : Char → Bool) (l : List Char) :
    popWhile p l = (l.takeWhile p, l.dropWhile p) := by
  induction l with
  | nil => rfl
  | cons c cs ih =>
    simp only [popWhile, List.takeWhile_cons, List.dropWhile_cons]
    split <;> simp_all

@[simp] theorem abs_cur (e : Ed) : e.abs.cur = e.cur.abs := by
  cases e with | mk fz cmd yank mode fzH cmdH pasted => cases mode <;> rfl

@[simp] theorem abs_hist (e : Ed) : e.abs.hist = e.hist := by
  cases e with | mk fz cmd yank mode fzH cmdH pasted => cases mode <;> rfl

@[simp] theorem abs_setCur (e : Ed) (b : Buf) : (e.setCur b).abs = e.abs.setCur b.abs := by
  cases e with | mk fz cmd yank mode fzH cmdH pasted => cases mode <;> rfl

@[simp] theorem abs_setHist (e : Ed) (h : Hist) : (e.setHist h).abs = e.abs.setHist h := by
  cases e with | mk fz cmd yank mode fzH cmdH pasted => cases mode <;> rfl

@[simp] theorem setHist_cur (e : Ed) (h : Hist) : (e.setHist h).cur = e.cur := by
  cases e with | mk fz cmd yank mode fzH cmdH pasted => cases mode <;> rfl

@[simp] theorem abs_left (b : Buf) : b.abs.left = b.before.reverse := by
  simp [Buf.abs, SBuf.left, Buf.line, List.take_append_of_le_length]

@[simp] theorem abs_right (b : Buf) : b.abs.right = b.after := by
  simp [Buf.abs, SBuf.right, Buf.line, List.drop_append_of_le_length]

@[simp] theorem abs_line (b : Buf) : b.abs.line = b.before.reverse ++ b.after := rfl
@[simp] theorem abs_curpos (b : Buf) : b.abs.cur = b.before.length := rfl

theorem abs_saveYank (e : Ed) (v : List Char) (r : Bool) :
    (saveYank e v r).abs = e.abs.kill (if r then v.reverse else v) := by
  unfold saveYank SEd.kill
  cases r <;> by_cases h : v = [] <;> simp [h, Ed.abs]

theorem sbuf_ext {a b : SBuf} (h1 : a.line = b.line) (h2 : a.cur = b.cur) : a = b := by
  cases a; cases b; simp_all

theorem takeWhile_length_le (p : Char → Bool) (l : List Char) : (l.takeWhile p).length ≤ l.length := by
  induction l with
  | nil => simp
  | cons c cs ih => simp only [List.takeWhile_cons]; split <;> simp <;> omega

theorem drop_takeWhile_length (p : Char → Bool) (l : List Char) :
    l.drop (l.takeWhile p).length = l.dropWhile p := by
  induction l with
  | nil => simp
  | cons c cs ih => simp only [List.takeWhile_cons, List.dropWhile_cons]; split <;> simp_all

theorem takeWhile_append_dropWhile' (p : Char → Bool) (l : List Char) :
    l.takeWhile p ++ l.dropWhile p = l := List.takeWhile_append_dropWhile

theorem spanLeft_abs (p₁ p₂ : Char → Bool) (b : Buf) :
    spanLeft p₁ p₂ b.abs =
      (b.before.takeWhile p₁).length + ((b.before.dropWhile p₁).takeWhile p₂).length := by
  simp [spanLeft, drop_takeWhile_length]

theorem spanRight_abs (p₁ p₂ : Char → Bool) (b : Buf) :
    spanRight p₁ p₂ b.abs =
      (b.after.takeWhile p₁).length + ((b.after.dropWhile p₁).takeWhile p₂).length := by
  simp [spanRight, drop_takeWhile_length]

/-- splitting a stack into two popped runs and the rest -/
theorem split3 (p₁ p₂ : Char → Bool) (l : List Char) :
    l = l.takeWhile p₁ ++ ((l.dropWhile p₁).takeWhile p₂ ++ (l.dropWhile p₁).dropWhile p₂) := by
  rw [List.takeWhile_append_dropWhile, List.takeWhile_append_dropWhile]

theorem foldl_addCharRaw (e : Ed) (t : List Char) :
    t.foldl addCharRaw e = e.setCur { e.cur with before := t.reverse ++ e.cur.before } := by
  induction t generalizing e with
  | nil => cases e with | mk fz cmd yank mode fzH cmdH pasted => cases mode <;> rfl
  | cons c cs ih =>
    rw [List.foldl_cons, ih]
    cases e with | mk fz cmd yank mode fzH cmdH pasted =>
      cases mode <;> simp [addCharRaw, Ed.setCur, Ed.cur]

end SkimModel.Editor

namespace SkimModel.Editor

@[simp] theorem s_setCur_cur (e : SEd) (b : SBuf) : (e.setCur b).cur = b := by
  cases e with | mk fz cmd yank mode fzH cmdH pasted => cases mode <;> rfl
@[simp] theorem s_setCur_yank (e : SEd) (b : SBuf) : (e.setCur b).yank = e.yank := by
  cases e with | mk fz cmd yank mode fzH cmdH pasted => cases mode <;> rfl
@[simp] theorem s_setCur_mode (e : SEd) (b : SBuf) : (e.setCur b).mode = e.mode := by
  cases e with | mk fz cmd yank mode fzH cmdH pasted => cases mode <;> rfl
@[simp] theorem s_setCur_pasted (e : SEd) (b : SBuf) : (e.setCur b).pasted = e.pasted := by
  cases e with | mk fz cmd yank mode fzH cmdH pasted => cases mode <;> rfl
@[simp] theorem s_setCur_setCur (e : SEd) (b c : SBuf) : (e.setCur b).setCur c = e.setCur c := by
  cases e with | mk fz cmd yank mode fzH cmdH pasted => cases mode <;> rfl
@[simp] theorem s_setHist_cur (e : SEd) (h : Hist) : (e.setHist h).cur = e.cur := by
  cases e with | mk fz cmd yank mode fzH cmdH pasted => cases mode <;> rfl
@[simp] theorem s_setHist_hist (e : SEd) (h : Hist) : (e.setHist h).hist = h := by
  cases e with | mk fz cmd yank mode fzH cmdH pasted => cases mode <;> rfl
@[simp] theorem s_setCur_hist (e : SEd) (b : SBuf) : (e.setCur b).hist = e.hist := by
  cases e with | mk fz cmd yank mode fzH cmdH pasted => cases mode <;> rfl
@[simp] theorem s_kill_cur (e : SEd) (t : List Char) : (e.kill t).cur = e.cur := by
  unfold SEd.kill; split <;> rfl
theorem s_kill_yank (e : SEd) (t : List Char) (h : t ≠ []) : (e.kill t).yank = t := by
  unfold SEd.kill; simp [h]
@[simp] theorem s_kill_nil (e : SEd) : e.kill [] = e := rfl

/-- the other buffer: the one the current mode does NOT edit -/
def SEd.other (e : SEd) : SBuf := match e.mode with | .query => e.cmd | .cmd => e.fz

@[simp] theorem s_setCur_other (e : SEd) (b : SBuf) : (e.setCur b).other = e.other := by
  cases e with | mk fz cmd yank mode fzH cmdH pasted => cases mode <;> rfl
@[simp] theorem s_setHist_other (e : SEd) (h : Hist) : (e.setHist h).other = e.other := by
  cases e with | mk fz cmd yank mode fzH cmdH pasted => cases mode <;> rfl
@[simp] theorem s_kill_other (e : SEd) (t : List Char) : (e.kill t).other = e.other := by
  unfold SEd.kill; split <;> rfl
@[simp] theorem s_kill_mode (e : SEd) (t : List Char) : (e.kill t).mode = e.mode := by
  unfold SEd.kill; split <;> rfl
@[simp] theorem s_setHist_mode (e : SEd) (h : Hist) : (e.setHist h).mode = e.mode := by
  cases e with | mk fz cmd yank mode fzH cmdH pasted => cases mode <;> rfl

theorem spanLeft_le (p₁ p₂ : Char → Bool) (b : SBuf) : spanLeft p₁ p₂ b ≤ b.cur := by
  unfold spanLeft
  have h1 := takeWhile_length_le p₁ b.left.reverse
  have h2 := takeWhile_length_le p₂ (b.left.reverse.drop (b.left.reverse.takeWhile p₁).length)
  simp only [List.length_drop, List.length_reverse] at h1 h2
  have h3 : b.left.length ≤ b.cur := by simp [SBuf.left, List.length_take]; omega
  simp only []
  omega

theorem spanRight_le (p₁ p₂ : Char → Bool) (b : SBuf) : spanRight p₁ p₂ b ≤ b.line.length - b.cur := by
  unfold spanRight
  have h1 := takeWhile_length_le p₁ b.right
  have h2 := takeWhile_length_le p₂ (b.right.drop (b.right.takeWhile p₁).length)
  simp only [List.length_drop] at h1 h2
  have h3 : b.right.length = b.line.length - b.cur := by simp [SBuf.right]
  simp only []
  omega

theorem take_len_append {α} (A B : List α) (m : Nat) (h : m = A.length) : (A ++ B).take m = A := by
  subst h; exact List.take_left
theorem drop_len_append {α} (A B : List α) (m : Nat) (h : m = A.length) : (A ++ B).drop m = B := by
  subst h; exact List.drop_left

theorem left_length (b : SBuf) (h : b.WF) : b.left.length = b.cur := by
  simp only [SBuf.left, List.length_take]; exact Nat.min_eq_left h

theorem left_right (b : SBuf) : b.left ++ b.right = b.line := List.take_append_drop _ _

/-- kill `n > 0` characters to the left, then yank: the buffer is restored -/
theorem killLeft_yank (e : SEd) (n : Nat) (hn : n ≤ e.cur.cur) (h0 : 0 < n) (hwf : e.cur.WF) :
    ((killLeft e n).cur.insert (killLeft e n).yank) = e.cur := by
  have hl := left_length _ hwf
  have hne : e.cur.left.drop (e.cur.cur - n) ≠ [] := by
    intro h
    have := congrArg List.length h
    simp only [List.length_drop, List.length_nil, hl] at this; omega
  unfold killLeft
  simp only [s_kill_cur, s_setCur_cur, s_kill_yank _ _ hne, s_setCur_yank]
  have h1 : (e.cur.left.take (e.cur.cur - n)).length = e.cur.cur - n := by
    simp only [List.length_take, hl]; omega
  apply sbuf_ext
  · simp only [SBuf.insert]
    have hL : ({ line := List.take (e.cur.cur - n) e.cur.left ++ e.cur.right, cur := e.cur.cur - n } : SBuf).left
        = List.take (e.cur.cur - n) e.cur.left := by
      simp only [SBuf.left]; exact take_len_append _ _ _ h1.symm
    have hR : ({ line := List.take (e.cur.cur - n) e.cur.left ++ e.cur.right, cur := e.cur.cur - n } : SBuf).right
        = e.cur.right := by
      simp only [SBuf.right]; exact drop_len_append _ _ _ h1.symm
    rw [hL, hR, List.take_append_drop]; exact left_right _
  · simp only [SBuf.insert, List.length_drop, hl]; omega

theorem killRight_yank_line (e : SEd) (n : Nat) (h0 : e.cur.right.take n ≠ []) (hwf : e.cur.WF) :
    ((killRight e n).cur.insert (killRight e n).yank).line = e.cur.line := by
  have hl := left_length _ hwf
  unfold killRight
  simp only [s_kill_cur, s_setCur_cur, s_kill_yank _ _ h0, s_setCur_yank]
  simp only [SBuf.insert]
  have hL : ({ line := e.cur.left ++ List.drop n e.cur.right, cur := e.cur.cur } : SBuf).left = e.cur.left := by
    simp only [SBuf.left]; exact take_len_append _ _ _ hl.symm
  have hR : ({ line := e.cur.left ++ List.drop n e.cur.right, cur := e.cur.cur } : SBuf).right
      = List.drop n e.cur.right := by
    simp only [SBuf.right]; exact drop_len_append _ _ _ hl.symm
  rw [hL, hR, List.append_assoc, List.take_append_drop]; exact left_right _

end SkimModel.Editor
