import SkimModel.Lemmas.SessionFGInv
/-!
The wake-up invariant at read granularity: whenever the event loop is idle (and the session is running), `Wake` holds —
while a run is outstanding or not everything has been read and taken, a queued heart beat, the armed timer or an active
matcher thread is there to wake it.  Inside the heart-beat handler M itself is the one that moves; what is carried there is
that the positive readings `rs`, `ic` are still true (monotone flags), which is what makes "processed, hence no timer" sound
when act_heart_beat ends.
-/
namespace SkimModel.Session
open SkimModel.Pool
variable {α κ : Type}

/-- the end of act_heart_beat leaves a wake-up behind unless everything is done — given that its two readings are sound -/
theorem wake_hbFinish (s : St α κ) (rs ic : Bool) (h1 : rs = true → readerDone s = true)
    (h2 : ic = true → itemsConsumed s = true) : Wake (hbFinish s rs ic) := by
  unfold hbFinish
  simp only []
  by_cases hproc : (rs && ic) = true
  · simp only [hproc, Bool.not_true, Bool.false_and, Bool.false_eq_true, if_false, Bool.or_false]
    split
    · intro _; right; left; rfl
    · rename_i hmc
      intro hp
      simp only [Bool.and_eq_true] at hproc
      rcases hp with hp | hp
      · exact absurd hp hmc
      · exfalso
        simp [allDone, h1 hproc.1, h2 hproc.2] at hp
  · have hp : (rs && ic) = false := by simpa using hproc
    simp only [hp, Bool.not_false, Bool.true_and, Bool.or_true, if_true]
    intro _; right; left; rfl

def FWake (f : FSt α κ) : Prop :=
  f.s.finished = none →
  match f.pc with
  | .idle => Wake f.s
  | .hb1 => True
  | .hb2 rs => rs = true → readerDone f.s = true
  | .hb3 rs _ => rs = true → readerDone f.s = true
  | .hb4 rs => rs = true → readerDone f.s = true
  | .hb5 rs ic => (rs = true → readerDone f.s = true) ∧ (ic = true → itemsConsumed f.s = true)
  | .s1 => Wake f.s
  | .s2 _ => Wake f.s
  | .s3 _ _ => Wake f.s

theorem fwake_foreign (m : κ → α → Bool) (f : FSt α κ) (l : Label α κ) (s' : St α κ) (hl : l.isLoop = false)
    (hs : step m f.s l = some s') (h : FWake f) : FWake { f with s := s' } := by
  have hf : l.foreign = true := (foreign_iff l).mpr hl
  obtain ⟨_, mono_rd, _⟩ := c01_flags_monotone m f.s s' l hf hs
  have mono_ic := foreign_consumed m f.s s' l hl hs
  intro hfin
  have hfin0 : f.s.finished = none := finished_step m f.s s' l hs hfin
  have h0 := h hfin0
  have hw : Wake f.s → Wake s' := fun w => wake_step m f.s s' l w hs hfin
  cases hpc : f.pc with
  | idle => simp only [hpc] at h0 ⊢; exact hw h0
  | hb1 => simp only [hpc] at h0 ⊢
  | hb2 rs => simp only [hpc] at h0 ⊢; exact fun e => mono_rd (h0 e)
  | hb3 rs ms => simp only [hpc] at h0 ⊢; exact fun e => mono_rd (h0 e)
  | hb4 rs => simp only [hpc] at h0 ⊢; exact fun e => mono_rd (h0 e)
  | hb5 rs ic => simp only [hpc] at h0 ⊢; exact ⟨fun e => mono_rd (h0.1 e), fun e => mono_ic (h0.2 e)⟩
  | s1 => simp only [hpc] at h0 ⊢; exact hw h0
  | s2 ic' => simp only [hpc] at h0 ⊢; exact hw h0
  | s3 ic' rs' => simp only [hpc] at h0 ⊢; exact hw h0

theorem fwake_mstep (m : κ → α → Bool) (f f' : FSt α κ) (rd : Bool) (hs : mstep f rd = some f') (h : FWake f) :
    FWake f' := by
  have and_r : ∀ x : Bool, (rd && x) = true → x = true := by intro x hx; simp at hx; exact hx.2
  unfold mstep at hs
  split at hs
  · cases hs
  · rename_i hfin
    have hfin0 : f.s.finished = none := by
      cases hh : f.s.finished with
      | none => rfl
      | some b => simp [hh] at hfin
    have h0 := h hfin0
    cases hpc : f.pc with
    | idle =>
      simp only [hpc] at hs h0
      split at hs
      · cases hs
      · cases hs; intro _; trivial
      · rename_i e rest hq
        cases hs
        intro hfin'
        show Wake _
        have hstep : step m f.s (.loop {}) = some (handleUser { f.s with queue := rest } e) := by
          simp [step, stepWith, hfin0, hq]
        exact wake_step m f.s _ (.loop {}) h0 hstep hfin'
    | hb1 =>
      simp only [hpc] at hs h0; cases hs
      intro _; exact and_r _
    | hb2 rs =>
      simp only [hpc] at hs h0; cases hs
      intro _; exact h0
    | hb3 rs ms =>
      simp only [hpc] at hs h0; cases hs
      intro _
      show rs = true → readerDone (hbHarvest f.s rs ms) = true
      intro e
      have := hbHarvest_reader f.s rs ms
      simpa [readerDone, this.1, this.2] using h0 e
    | hb4 rs =>
      simp only [hpc] at hs h0; cases hs
      intro _; exact ⟨h0, and_r _⟩
    | hb5 rs ic =>
      simp only [hpc] at hs h0; cases hs
      have hw := wake_hbFinish f.s rs ic h0.1 h0.2
      intro _
      by_cases hc : (!(hbFinish f.s rs ic).select1 && !(hbFinish f.s rs ic).exit0) = true
      · simp only [hc, if_true]; exact hw
      · simp only [hc, if_false]; exact hw
    | s1 =>
      simp only [hpc] at hs h0; cases hs
      intro _; exact h0
    | s2 ic' =>
      simp only [hpc] at hs h0; cases hs
      intro _; exact h0
    | s3 ic' rs' =>
      simp only [hpc] at hs h0; cases hs
      intro _
      show Wake (if (rs' && ic' && f.s.mc.isNone) = true then decide1 f.s else f.s)
      split
      · obtain ⟨e1, e2, e3, e4, e5, e6⟩ := decide1_fields f.s
        exact wake_transfer f.s _ h0 e1 e2 e3 e4 e5 e6
      · exact h0

theorem fwake_fstep (m : κ → α → Bool) (f f' : FSt α κ) (l : FLabel α κ) (hs : fstep m f l = some f')
    (h : FWake f) : FWake f' := by
  cases l with
  | m rd => exact fwake_mstep m f f' rd hs h
  | foreign l =>
    cases hl : l.isLoop with
    | true => cases l <;> simp_all [Label.isLoop, fstep]
    | false =>
      have : fstep m f (.foreign l) = (step m f.s l).map (fun s' => { f with s := s' }) := by
        cases l <;> simp_all [Label.isLoop, fstep]
      rw [this] at hs
      cases hst : step m f.s l with
      | none => rw [hst] at hs; cases hs
      | some s' =>
        rw [hst] at hs; cases hs
        exact fwake_foreign m f l s' hl hst h

theorem fwake_init (o : Opts) (q : κ) (src : List α) : FWake (finit o q src : FSt α κ) := by
  intro _; exact wake_initWith o q src

theorem fwake_frun (m : κ → α → Bool) (f : FSt α κ) (ls : List (FLabel α κ)) (h : FWake f) :
    FWake (frun m f ls) := by
  induction ls generalizing f with
  | nil => exact h
  | cons l ls ih =>
    unfold frun; simp only [List.foldl_cons]
    apply ih
    cases hs : fstep m f l with
    | none => exact h
    | some f' => exact fwake_fstep m f f' l hs h

end SkimModel.Session
