/-
Helper lemmas for C19: unfolding equations of the hand-compiled regex matchers and their behaviour
on rendered well-formed specifications.
-/
import SkimModel.Spec.Keymap
namespace SkimModel.Keymap

theorem mI_nil : mI [] = none := by rw [mI]
theorem mI_cons (c : Char) (r : Str) (hc : c ≠ '+') :
    mI (c :: r) = if isNameCh c then mA (skipName r) else none := by
  rw [mI.eq_def]; simp [hc]
theorem mI_plus (d : Char) (r : Str) :
    mI ('+' :: d :: r) = if isNameCh d then mA (skipName r) else none := by
  rw [mI.eq_def]; simp
theorem mA_nil : mA [] = some [] := by rw [mA, mL]
theorem mA_closer (c q : Char) (r : Str) (h : closerOf c = some q) :
    mA (c :: r) = match afterClose q r with | some t => mL (skipWs t) | none => none := by
  rw [mA]; simp only [h]; split <;> simp_all
theorem mA_colon (r : Str) : mA (':' :: r) = mC r := by
  rw [mA]; simp [closerOf]
theorem mA_plain (c : Char) (r : Str) (h : closerOf c = none) (hc : c ≠ ':') :
    mA (c :: r) = mL (skipWs (c :: r)) := by
  rw [mA]; simp [h, hc]
theorem mL_nil : mL [] = some [] := by rw [mL]
theorem mL_comma (r : Str) : mL (',' :: r) = some (',' :: r) := by rw [mL]; simp
theorem mL_other (c : Char) (r : Str) (h : c ≠ ',') : mL (c :: r) = mI (c :: r) := by rw [mL]; simp [h]
theorem mC_eq (cs : Str) : mC cs = match mL (skipWs cs) with
    | some r => some r
    | none => match cs with | [] => none | c :: r => if c = ':' then none else mC r := by
  conv => lhs; rw [mC.eq_def]
  rfl
theorem bScan_nil : bScan [] = [] := by rw [bScan]
theorem bScan_cons (c : Char) (r : Str) : bScan (c :: r) =
    match bMatch (c :: r) with | some (x, rest) => x :: bScan rest | none => bScan r := by
  rw [bScan]; split <;> simp_all
theorem reScan_nil : reScan [] = [] := by rw [reScan]
theorem reScan_cons (c : Char) (r : Str) : reScan (c :: r) =
    match splitColon (c :: r) with
    | none => []
    | some (key, _) =>
      if key.isEmpty then reScan (r.drop key.length) else
      match mI (r.drop key.length) with
      | none => reScan (r.drop key.length)
      | some rest =>
        (key, (r.drop key.length).take ((r.drop key.length).length - rest.length))
          :: reScan ((r.drop key.length).drop ((r.drop key.length).length - rest.length + 1)) := by
  conv => lhs; rw [reScan.eq_def]
  rfl

/-! ## character facts -/

theorem isNameCh_plus : isNameCh '+' = false := by decide
theorem isNameCh_comma : isNameCh ',' = false := by decide
theorem isNameCh_colon : isNameCh ':' = false := by decide
theorem isWs_plus : isWs '+' = false := by decide
theorem isWs_comma : isWs ',' = false := by decide

/-- the text after a complete action: end of input, a ',' (end of the binding) or a '+' (next action) -/
def TailHead (t : Str) : Prop := t = [] ∨ (∃ r, t = ',' :: r) ∨ (∃ r, t = '+' :: r)

theorem skipWs_tail {t : Str} (h : TailHead t) : skipWs t = t := by
  rcases h with h | ⟨r, h⟩ | ⟨r, h⟩ <;> subst h <;> simp [skipWs, isWs_plus, isWs_comma]

theorem skipName_tail {t : Str} (h : TailHead t) : skipName t = t := by
  rcases h with h | ⟨r, h⟩ | ⟨r, h⟩ <;> subst h <;> simp [skipName, isNameCh_plus, isNameCh_comma]

theorem takeName_tail {t : Str} (h : TailHead t) : takeName t = [] := by
  rcases h with h | ⟨r, h⟩ | ⟨r, h⟩ <;> subst h <;> simp [takeName, isNameCh_plus, isNameCh_comma]

theorem mA_tail {t : Str} (h : TailHead t) : mA t = mL t := by
  rcases h with h | ⟨r, h⟩ | ⟨r, h⟩ <;> subst h
  · rw [mA_nil, mL_nil]
  · rw [mA_plain _ _ (by decide) (by decide)]; simp [skipWs, isWs_comma]
  · rw [mA_plain _ _ (by decide) (by decide)]; simp [skipWs, isWs_plus]

theorem skipName_append (n t : Str) (hn : n.all isNameCh = true) (ht : skipName t = t) :
    skipName (n ++ t) = t := by
  induction n with
  | nil => simpa using ht
  | cons c r ih =>
    simp only [List.all_cons, Bool.and_eq_true] at hn
    simp [skipName, hn.1, ih hn.2]

theorem takeName_append (n t : Str) (hn : n.all isNameCh = true) (ht : takeName t = []) :
    takeName (n ++ t) = n := by
  induction n with
  | nil => simpa using ht
  | cons c r ih =>
    simp only [List.all_cons, Bool.and_eq_true] at hn
    simp [takeName, hn.1, ih hn.2]

theorem afterClose_append (q : Char) (s t : Str) (hs : s.all (· ≠ q) = true) :
    afterClose q (s ++ q :: t) = some t := by
  induction s with
  | nil => simp [afterClose]
  | cons c r ih =>
    simp only [List.all_cons, Bool.and_eq_true, decide_eq_true_eq] at hs
    simp [afterClose, hs.1, ih hs.2]

theorem beforeClose_append (q : Char) (s t : Str) (hs : s.all (· ≠ q) = true) :
    beforeClose q (s ++ q :: t) = s := by
  induction s with
  | nil => simp [beforeClose]
  | cons c r ih =>
    simp only [List.all_cons, Bool.and_eq_true, decide_eq_true_eq] at hs
    simp [beforeClose, hs.1, ih hs.2]

/-! ## the lazy `:arg` of RE on a well-formed argument -/

theorem isOpener_false {d : Char} (h : isOpener d = false) : closerOf d = none ∧ d ≠ ':' := by
  simp only [isOpener, Bool.or_eq_false_iff, decide_eq_false_iff_not] at h
  obtain ⟨⟨⟨⟨h1, h2⟩, h3⟩, h4⟩, h5⟩ := h
  simp [closerOf, h1, h2, h3, h4, h5]

theorem noOpenerAfterName_tail {c : Char} {s : Str} (h : noOpenerAfterName (c :: s) = true) :
    noOpenerAfterName s = true := by
  cases s with
  | nil => simp [noOpenerAfterName]
  | cons d r => simp only [noOpenerAfterName, Bool.and_eq_true] at h; exact h.2

def ColonChars (s : Str) : Bool := s.all (fun c => c ≠ ':' && c ≠ '+' && c ≠ ',')

theorem inside_arg (rest t : Str) (ht : TailHead t) (hl : mL t = some rest) :
    ∀ s, ColonChars s = true → noOpenerAfterName s = true →
      (∀ r, mL (skipWs (s ++ t)) = some r → r = rest) ∧
      (∀ c, isNameCh c = true → noOpenerAfterName (c :: s) = true →
        ∀ r, mA (skipName (s ++ t)) = some r → r = rest) := by
  intro s
  induction s with
  | nil =>
    intro _ _
    refine ⟨?_, ?_⟩
    · intro r h
      simp only [List.nil_append, skipWs_tail ht, hl] at h
      exact (Option.some.inj h).symm
    · intro c _ _ r h
      simp only [List.nil_append, skipName_tail ht, mA_tail ht, hl] at h
      exact (Option.some.inj h).symm
  | cons d s ih =>
    intro hall hno
    simp only [ColonChars, List.all_cons, Bool.and_eq_true, decide_eq_true_eq] at hall
    obtain ⟨⟨⟨hd1, hd2⟩, hd3⟩, hall'⟩ := hall
    obtain ⟨ihP, ihR⟩ := ih (by simpa [ColonChars] using hall') (noOpenerAfterName_tail hno)
    have hP : ∀ r, mL (skipWs (d :: s ++ t)) = some r → r = rest := by
      intro r h
      simp only [List.cons_append, skipWs] at h
      split at h
      · exact ihP r h
      · rw [mL_other _ _ hd3, mI_cons _ _ hd2] at h
        split at h
        · rename_i hn
          exact ihR d hn hno r h
        · cases h
    refine ⟨hP, ?_⟩
    intro c hc hno' r h
    simp only [List.cons_append, skipName] at h
    split at h
    · rename_i hn
      exact ihR d hn hno r h
    · simp only [noOpenerAfterName, hc, Bool.true_and, Bool.and_eq_true, Bool.not_eq_true'] at hno'
      obtain ⟨ho1, ho2⟩ := isOpener_false hno'.1
      rw [mA_plain _ _ ho1 ho2] at h
      exact hP r h

theorem mC_colon (rest t : Str) (ht : TailHead t) (hl : mL t = some rest) :
    ∀ s, ColonChars s = true → noOpenerAfterName s = true → mC (s ++ t) = some rest := by
  intro s
  induction s with
  | nil =>
    intro _ _
    rw [mC_eq]
    simp only [List.nil_append, skipWs_tail ht, hl]
  | cons d s ih =>
    intro hall hno
    have hq := (inside_arg rest t ht hl (d :: s) hall hno).1
    simp only [ColonChars, List.all_cons, Bool.and_eq_true, decide_eq_true_eq] at hall
    obtain ⟨⟨⟨hd1, hd2⟩, hd3⟩, hall'⟩ := hall
    rw [mC_eq]
    cases h : mL (skipWs (d :: s ++ t)) with
    | some r => simp only; rw [hq r h]
    | none =>
      simp only [List.cons_append, hd1, if_false]
      exact ih (by simpa [ColonChars] using hall') (noOpenerAfterName_tail hno)


/-! ## RE on a rendered chain -/


theorem isNameCh_ne_plus {c : Char} (h : isNameCh c = true) : c ≠ '+' := by
  intro e; subst e; simp [isNameCh_plus] at h

theorem isNameCh_lp : isNameCh '(' = false := by decide
theorem isNameCh_lb : isNameCh '[' = false := by decide
theorem isNameCh_dq : isNameCh '"' = false := by decide
theorem isNameCh_sq : isNameCh '\'' = false := by decide

theorem skipName_argtail (f : ArgForm) (t : Str) (ht : TailHead t) :
    skipName (f.render ++ t) = f.render ++ t := by
  cases f <;> simp [ArgForm.render, skipName, skipName_tail ht, isNameCh_lp, isNameCh_lb, isNameCh_dq,
    isNameCh_sq, isNameCh_colon]

theorem takeName_argtail (f : ArgForm) (t : Str) (ht : TailHead t) :
    takeName (f.render ++ t) = [] := by
  cases f <;> simp [ArgForm.render, takeName, takeName_tail ht, isNameCh_lp, isNameCh_lb, isNameCh_dq,
    isNameCh_sq, isNameCh_colon]

theorem mA_arg (rest t : Str) (ht : TailHead t) (hl : mL t = some rest) (f : ArgForm)
    (hf : WFArg f = true) : mA (f.render ++ t) = some rest := by
  cases f with
  | none => simp [ArgForm.render, mA_tail ht, hl]
  | paren s =>
    simp only [WFArg, Bool.and_eq_true] at hf
    simp only [ArgForm.render, List.cons_append, List.append_assoc, List.nil_append]
    rw [mA_closer '(' ')' _ (by decide), afterClose_append _ _ _ hf.2]
    simp [skipWs_tail ht, hl]
  | brack s =>
    simp only [WFArg, Bool.and_eq_true] at hf
    simp only [ArgForm.render, List.cons_append, List.append_assoc, List.nil_append]
    rw [mA_closer '[' ']' _ (by decide), afterClose_append _ _ _ hf.2]
    simp [skipWs_tail ht, hl]
  | dq s =>
    simp only [WFArg, Bool.and_eq_true] at hf
    simp only [ArgForm.render, List.cons_append, List.append_assoc, List.nil_append]
    rw [mA_closer '"' '"' _ (by decide), afterClose_append _ _ _ hf.2]
    simp [skipWs_tail ht, hl]
  | sq s =>
    simp only [WFArg, Bool.and_eq_true] at hf
    simp only [ArgForm.render, List.cons_append, List.append_assoc, List.nil_append]
    rw [mA_closer '\'' '\'' _ (by decide), afterClose_append _ _ _ hf.2]
    simp [skipWs_tail ht, hl]
  | colon s =>
    simp only [WFArg, Bool.and_eq_true] at hf
    simp only [ArgForm.render, List.cons_append]
    rw [mA_colon]
    exact mC_colon rest t ht hl s hf.1.2 hf.2

theorem mI_action (rest t : Str) (ht : TailHead t) (hl : mL t = some rest) (a : ActionSpec)
    (ha : WFAction a = true) :
    mI (renderAction a ++ t) = some rest ∧ mI ('+' :: (renderAction a ++ t)) = some rest := by
  obtain ⟨name, arg⟩ := a
  simp only [WFAction, Bool.and_eq_true, Bool.not_eq_true'] at ha
  obtain ⟨⟨hne, hall⟩, hf⟩ := ha
  cases name with
  | nil => simp at hne
  | cons c n =>
    simp only [List.all_cons, Bool.and_eq_true] at hall
    have key : mA (skipName (n ++ (arg.render ++ t))) = some rest := by
      rw [skipName_append _ _ hall.2 (skipName_argtail arg t ht)]
      exact mA_arg rest t ht hl arg hf
    simp only [renderAction, List.cons_append, List.append_assoc]
    refine ⟨?_, ?_⟩
    · rw [mI_cons _ _ (isNameCh_ne_plus hall.1)]; simp [hall.1, key]
    · rw [mI_plus]; simp [hall.1, key]

/-- what may follow a binding: end of input or the ',' before the next binding -/
def BindEnd (rest : Str) : Prop := rest = [] ∨ ∃ r, rest = ',' :: r

theorem mL_bindEnd {rest : Str} (h : BindEnd rest) : mL rest = some rest := by
  rcases h with h | ⟨r, h⟩ <;> subst h
  · exact mL_nil
  · exact mL_comma r

theorem tailHead_bindEnd {rest : Str} (h : BindEnd rest) : TailHead rest := by
  rcases h with h | ⟨r, h⟩
  · exact Or.inl h
  · exact Or.inr (Or.inl ⟨r, h⟩)

theorem mI_chain (rest : Str) (hr : BindEnd rest) :
    ∀ chain : List ActionSpec, chain ≠ [] → chain.all WFAction = true →
      mI (renderChain chain ++ rest) = some rest ∧ mI ('+' :: (renderChain chain ++ rest)) = some rest := by
  intro chain
  induction chain with
  | nil => intro h; exact absurd rfl h
  | cons a as ih =>
    intro _ hall
    simp only [List.all_cons, Bool.and_eq_true] at hall
    cases as with
    | nil =>
      simp only [renderChain]
      exact mI_action rest rest (tailHead_bindEnd hr) (mL_bindEnd hr) a hall.1
    | cons b r =>
      have ih' := ih (by simp) hall.2
      simp only [renderChain, List.append_assoc, List.cons_append]
      refine mI_action rest _ (Or.inr (Or.inr ⟨_, rfl⟩)) ?_ a hall.1
      rw [mL_other _ _ (by decide)]
      exact ih'.2


/-! ## RE.captures_iter on a rendered specification -/


theorem splitColon_append (k x : Str) (hk : k.all (· ≠ ':') = true) :
    splitColon (k ++ ':' :: x) = some (k, x) := by
  induction k with
  | nil => simp [splitColon]
  | cons c r ih =>
    simp only [List.all_cons, Bool.and_eq_true, decide_eq_true_eq] at hk
    simp [splitColon, hk.1, ih hk.2]

theorem drop_len_append (k x : Str) : (k ++ x).drop k.length = x := by
  induction k with
  | nil => rfl
  | cons c r ih => simp

theorem take_len_append (k x : Str) : (k ++ x).take k.length = k := by
  induction k with
  | nil => simp
  | cons c r ih => simp

theorem reScan_binding (b : BindingSpec) (hb : WFBinding b = true) (rest : Str) (hr : BindEnd rest) :
    reScan (renderBinding b ++ rest) = (b.key, renderChain b.chain) :: reScan (rest.drop 1) := by
  obtain ⟨key, chain⟩ := b
  simp only [WFBinding, Bool.and_eq_true, Bool.not_eq_true'] at hb
  obtain ⟨⟨⟨hk1, hk2⟩, hc1⟩, hc2⟩ := hb
  cases key with
  | nil => simp at hk1
  | cons c k =>
    have hm := (mI_chain rest hr chain (by intro h; simp [h] at hc1) hc2).1
    have hsplit : splitColon (c :: (k ++ ':' :: (renderChain chain ++ rest))) =
        some (c :: k, renderChain chain ++ rest) := by
      have := splitColon_append (c :: k) (renderChain chain ++ rest) hk2
      simpa using this
    have hdrop : (k ++ ':' :: (renderChain chain ++ rest)).drop (c :: k).length = renderChain chain ++ rest := by
      simp
    simp only [renderBinding, List.cons_append, List.append_assoc]
    rw [reScan_cons, hsplit]
    simp only [hdrop, hm, List.isEmpty_cons, Bool.false_eq_true, if_false]
    have hn : (renderChain chain ++ rest).length - rest.length = (renderChain chain).length := by simp
    rw [hn, take_len_append]
    congr 2
    rw [← List.drop_drop, drop_len_append]

theorem reScan_render : ∀ spec : BindSpec, WF spec = true →
    reScan (render spec) = spec.map (fun b => (b.key, renderChain b.chain)) := by
  intro spec
  induction spec with
  | nil => intro _; simp [render, reScan_nil]
  | cons b bs ih =>
    intro h
    simp only [WF, List.all_cons, Bool.and_eq_true] at h
    cases bs with
    | nil =>
      have := reScan_binding b h.1 [] (Or.inl rfl)
      simpa [render, reScan_nil] using this
    | cons c r =>
      have := reScan_binding b h.1 (',' :: render (c :: r)) (Or.inr ⟨_, rfl⟩)
      simp only [render, List.map_cons]
      rw [this]
      simp only [List.drop_succ_cons, List.drop_zero]
      rw [ih (by simpa [WF] using h.2)]
      simp


/-! ## RE_BIND on a rendered chain; the round trip -/


/-- what may follow an action inside group 2: the end or the '+' before the next action -/
def ChainEnd (t : Str) : Prop := t = [] ∨ ∃ r, t = '+' :: r

theorem tailHead_chainEnd {t : Str} (h : ChainEnd t) : TailHead t := by
  rcases h with h | ⟨r, h⟩
  · exact Or.inl h
  · exact Or.inr (Or.inr ⟨r, h⟩)

theorem endOrPlus_chainEnd {t : Str} (h : ChainEnd t) : endOrPlus t = some (t.drop 1) := by
  rcases h with h | ⟨r, h⟩ <;> subst h <;> simp [endOrPlus]

def NoColonPlus (s : Str) : Bool := s.all (fun c => c ≠ ':' && c ≠ '+')

theorem colonArg_append (t : Str) (ht : ChainEnd t) :
    ∀ s : Str, s ≠ [] → NoColonPlus s = true → colonArg (s ++ t) = some (s, t) := by
  intro s
  induction s with
  | nil => intro h; exact absurd rfl h
  | cons c r ih =>
    intro _ hall
    simp only [NoColonPlus, List.all_cons, Bool.and_eq_true, decide_eq_true_eq] at hall
    obtain ⟨⟨hc1, hc2⟩, hall'⟩ := hall
    cases r with
    | nil =>
      rcases ht with h | ⟨r', h⟩ <;> subst h <;> simp [colonArg, hc1]
    | cons d r' =>
      have := ih (by simp) (by simpa [NoColonPlus] using hall')
      simp only [List.all_cons, Bool.and_eq_true, decide_eq_true_eq] at hall'
      simp only [List.cons_append] at this ⊢
      rw [colonArg]
      simp [hc1, hall'.1.2, this]

theorem colonChars_noColonPlus {s : Str} (h : ColonChars s = true) : NoColonPlus s = true := by
  simp only [ColonChars, NoColonPlus, List.all_eq_true, Bool.and_eq_true, decide_eq_true_eq] at h ⊢
  intro c hc
  exact (h c hc).1

theorem bMatch_action (a : ActionSpec) (ha : WFAction a = true) (t : Str) (ht : ChainEnd t) :
    bMatch (renderAction a ++ t) = some ((a.name, a.arg.value), t.drop 1) := by
  obtain ⟨name, arg⟩ := a
  simp only [WFAction, Bool.and_eq_true, Bool.not_eq_true'] at ha
  obtain ⟨⟨hne, hall⟩, hf⟩ := ha
  have hth := tailHead_chainEnd ht
  have h1 : takeName (name ++ (arg.render ++ t)) = name := takeName_append _ _ hall (takeName_argtail arg t hth)
  have h2 : skipName (name ++ (arg.render ++ t)) = arg.render ++ t := skipName_append _ _ hall (skipName_argtail arg t hth)
  simp only [bMatch, renderAction, List.append_assoc, h1, h2, hne, Bool.false_eq_true, if_false]
  cases arg with
  | none =>
    rcases ht with h | ⟨r, h⟩ <;> subst h <;> simp [ArgForm.render, ArgForm.value]
  | paren s =>
    simp only [WFArg, Bool.and_eq_true, Bool.not_eq_true'] at hf
    simp [ArgForm.render, ArgForm.value, closerOf, afterClose_append _ _ _ hf.2, beforeClose_append _ _ _ hf.2,
      hf.1, endOrPlus_chainEnd ht]
  | brack s =>
    simp only [WFArg, Bool.and_eq_true, Bool.not_eq_true'] at hf
    simp [ArgForm.render, ArgForm.value, closerOf, afterClose_append _ _ _ hf.2, beforeClose_append _ _ _ hf.2,
      hf.1, endOrPlus_chainEnd ht]
  | dq s =>
    simp only [WFArg, Bool.and_eq_true, Bool.not_eq_true'] at hf
    simp [ArgForm.render, ArgForm.value, closerOf, afterClose_append _ _ _ hf.2, beforeClose_append _ _ _ hf.2,
      hf.1, endOrPlus_chainEnd ht]
  | sq s =>
    simp only [WFArg, Bool.and_eq_true, Bool.not_eq_true'] at hf
    simp [ArgForm.render, ArgForm.value, closerOf, afterClose_append _ _ _ hf.2, beforeClose_append _ _ _ hf.2,
      hf.1, endOrPlus_chainEnd ht]
  | colon s =>
    simp only [WFArg, Bool.and_eq_true, Bool.not_eq_true'] at hf
    have hs : s ≠ [] := by intro h; simp [h] at hf
    have := colonArg_append t ht s hs (colonChars_noColonPlus hf.1.2)
    simp [ArgForm.render, ArgForm.value, closerOf, this, endOrPlus_chainEnd ht]

theorem bScan_of_bMatch {cs : Str} {x : Str × Option Str} {rest : Str} (h : bMatch cs = some (x, rest)) :
    bScan cs = x :: bScan rest := by
  cases cs with
  | nil => simp [bMatch, takeName] at h
  | cons c r => rw [bScan_cons, h]

theorem bScan_chain : ∀ chain : List ActionSpec, chain.all WFAction = true →
    bScan (renderChain chain) = chain.map (fun a => (a.name, a.arg.value)) := by
  intro chain
  induction chain with
  | nil => intro _; simp [renderChain, bScan_nil]
  | cons a as ih =>
    intro hall
    simp only [List.all_cons, Bool.and_eq_true] at hall
    cases as with
    | nil =>
      have := bMatch_action a hall.1 [] (Or.inl rfl)
      simp only [List.append_nil] at this
      simp [renderChain, bScan_of_bMatch this, bScan_nil]
    | cons b r =>
      have := bMatch_action a hall.1 ('+' :: renderChain (b :: r)) (Or.inr ⟨_, rfl⟩)
      simp only [renderChain, List.map_cons]
      rw [bScan_of_bMatch this]
      simp only [List.drop_succ_cons, List.drop_zero]
      rw [ih hall.2]
      simp

theorem parseKeyAction_render (spec : BindSpec) (h : WF spec = true) :
    parseKeyAction (render spec) = spec.parsed := by
  simp only [parseKeyAction, reScan_render spec h, List.map_map, BindSpec.parsed]
  apply List.map_congr_left
  intro b hb
  simp only [WF, List.all_eq_true] at h
  have hb' := h b hb
  simp only [WFBinding, Bool.and_eq_true] at hb'
  simp [bScan_chain b.chain hb'.2]



/-! ## key map -/

theorem kmLookup_filter (km : Keymap) (k k' : Key) (h : k ≠ k') :
    kmLookup (km.filter (fun e => e.1 ≠ k)) k' = kmLookup km k' := by
  induction km with
  | nil => rfl
  | cons e r ih =>
    obtain ⟨k0, v0⟩ := e
    by_cases h0 : k0 = k
    · subst h0
      simp only [List.filter, ne_eq, not_true_eq_false, decide_false, kmLookup, h, if_false]
      exact ih
    · simp only [List.filter, h0, ne_eq, not_false_eq_true, decide_true, kmLookup, ih]

theorem kmLookup_insert (km : Keymap) (k k' : Key) (v : Chain) :
    kmLookup (kmInsert km k v) k' = if k = k' then some v else kmLookup km k' := by
  simp only [kmInsert, kmLookup]
  split
  · rfl
  · rename_i h; exact kmLookup_filter km k k' h

/-- bindings applied oldest first -/
def applyBinds (km : Keymap) (bs : List (Key × Chain)) : Keymap :=
  bs.foldl (fun km e => kmInsert km e.1 e.2) km

theorem applyBinds_append (km : Keymap) (a b : List (Key × Chain)) :
    applyBinds km (a ++ b) = applyBinds (applyBinds km a) b := by
  simp [applyBinds]

theorem kmLookup_applyBinds (bs : List (Key × Chain)) : ∀ (km : Keymap) (k : Key),
    kmLookup (applyBinds km bs) k =
      match lastBinding bs k with
      | some v => some v
      | none => kmLookup km k := by
  induction bs with
  | nil => intro km k; simp [applyBinds, lastBinding]
  | cons e r ih =>
    intro km k
    obtain ⟨k', v⟩ := e
    have := ih (kmInsert km k' v) k
    simp only [applyBinds, List.foldl_cons] at this ⊢
    rw [this, kmLookup_insert]
    simp only [lastBinding]
    cases lastBinding r k with
    | some w => rfl
    | none => by_cases h : k' = k <;> simp [h]

/-! ## parse_event vs. the meaning of an action -/

theorem parseEvent_of_actionEvent (a : ActionSpec) (e : Event) (h : actionEvent a = some e) :
    parseEvent a.name a.arg.value = .ok (some e) := by
  simp only [actionEvent] at h
  simp only [parseEvent]
  cases hr : findRow a.name with
  | none => simp [hr] at h
  | some r =>
    simp only [hr] at h ⊢
    cases hk : r.kind <;> simp only [hk] at h ⊢
    · exact congrArg _ h
    · exact congrArg _ h
    · exact congrArg _ h
    · cases hv : a.arg.value with
      | none => simp [hv] at h
      | some v => simp only [hv, Option.map_some] at h ⊢; exact congrArg _ h

theorem chainEvents_of_spec : ∀ chain : List ActionSpec,
    chain.all (fun a => (actionEvent a).isSome) = true →
    chainEvents (chain.map (fun a => (a.name, a.arg.value))) = .ok (chain.filterMap actionEvent) := by
  intro chain
  induction chain with
  | nil => intro _; rfl
  | cons a r ih =>
    intro h
    simp only [List.all_cons, Bool.and_eq_true] at h
    obtain ⟨e, he⟩ := Option.isSome_iff_exists.mp h.1
    simp only [List.map_cons, chainEvents, parseEvent_of_actionEvent a e he, ih h.2, List.filterMap_cons, he]

/-- the bindings of one specification that take effect -/
def effSpec (spec : BindSpec) : List (Key × Chain) :=
  spec.filterMap (fun b => (keyOf b.key).map (fun k => (k, chainOf b)))

theorem bindAll_parsed : ∀ (spec : BindSpec) (km : Keymap), SWF spec = true →
    bindAll km spec.parsed = .ok (applyBinds km (effSpec spec)) := by
  intro spec
  induction spec with
  | nil => intro km _; rfl
  | cons b r ih =>
    intro km h
    simp only [SWF, WF, List.all_cons, Bool.and_eq_true] at h
    obtain ⟨⟨hb, hr⟩, ⟨hb2, hr2⟩⟩ := h
    have hce := chainEvents_of_spec b.chain hb2
    have hne : (chainOf b).isEmpty = false := by
      simp only [WFBinding, Bool.and_eq_true, Bool.not_eq_true'] at hb
      cases hc : b.chain with
      | nil => simp [hc] at hb
      | cons a as =>
        rw [hc] at hb2
        simp only [List.all_cons, Bool.and_eq_true] at hb2
        obtain ⟨e, he⟩ := Option.isSome_iff_exists.mp hb2.1
        simp [chainOf, hc, he]
    simp only [BindSpec.parsed, List.map_cons, bindAll, hce]
    have ih' := ih (bind km b.key (chainOf b)) (by simp [SWF, WF, hr, hr2])
    simp only [BindSpec.parsed] at ih'
    rw [show (b.chain.filterMap actionEvent) = chainOf b from rfl, ih']
    simp only [effSpec, List.filterMap_cons, bind]
    cases keyOf b.key with
    | none => rfl
    | some k => simp [hne, applyBinds]

theorem parseKeymaps_render : ∀ (specs : List BindSpec) (km : Keymap),
    specs.all SWF = true →
    parseKeymaps km (specs.map render) = .ok (applyBinds km (effSpec specs.flatten)) := by
  intro specs
  induction specs with
  | nil => intro km _; rfl
  | cons sp r ih =>
    intro km h
    simp only [List.all_cons, Bool.and_eq_true] at h
    have hwf : WF sp = true := by have := h.1; simp only [SWF, Bool.and_eq_true] at this; exact this.1
    simp only [List.map_cons, parseKeymaps, parseKeymap, parseKeyAction_render sp hwf, bindAll_parsed sp km h.1,
      ih _ h.2]
    simp [effSpec, List.filterMap_append, applyBinds_append]

/-- the bindings an `--expect` list adds -/
def effExpect (names : List Str) : List (Key × Chain) :=
  names.filterMap (fun n => (keyOf n).map (fun k => (k, [Event.optStr evAccept (some n)])))

theorem foldl_bind_expect : ∀ (names : List Str) (km : Keymap),
    names.foldl (fun km k => bind km k [.optStr evAccept (some k)]) km = applyBinds km (effExpect names) := by
  intro names
  induction names with
  | nil => intro km; rfl
  | cons n r ih =>
    intro km
    simp only [List.foldl_cons]
    rw [ih]
    simp only [effExpect, List.filterMap_cons, bind]
    cases keyOf n with
    | none => rfl
    | some k => simp [applyBinds]


theorem splitComma_ne_nil (ks : Str) : splitComma ks ≠ [] := by
  induction ks with
  | nil => simp [splitComma]
  | cons c r ih =>
    simp only [splitComma]
    split
    · simp
    · split <;> simp


end SkimModel.Keymap
