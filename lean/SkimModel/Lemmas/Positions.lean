/-
Helper lemmas for C08 (`Props/C08.lean`): clipping of the matching ranges, boundaries of slices,
UTF-8 encoding facts, sorting / dedup, the fragment iterator, `reshape_string`.
-/
import SkimModel.Spec.Positions
import SkimModel.Lemmas.Field
import SkimModel.Lemmas.Engine
set_option linter.unusedSimpArgs false
namespace SkimModel.Positions
open SkimModel.Engine SkimModel.Field SkimModel.Field.Spec

/-! ### clipping, slices, boundaries -/

def clip (len : Nat) (p : Nat × Nat) : Nat × Nat := (min p.1 len, min p.2 len)

theorem clipped_eq (text : Bytes) (ranges : Option (List (Nat × Nat))) :
    clipped text ranges = (ranges.getD [(0, text.length)]).map (clip text.length) := rfl

theorem matchBytes_go_clip (find : Bytes → Option (Nat × Nat)) (nr inv : Bool) (text : Bytes)
    (spans : List (Nat × Nat)) :
    matchBytes.go find nr inv text (spans.map (clip text.length)) = matchBytes.go find nr inv text spans := by
  induction spans with
  | nil => rfl
  | cons p rest ih =>
    obtain ⟨s, e⟩ := p
    simp only [List.map_cons, clip, matchBytes.go, ih]
    rw [Nat.min_eq_left (Nat.min_le_right s _), Nat.min_eq_left (Nat.min_le_right e _)]

theorem matchChars_go_clip (fz : Bytes → Option (List Nat)) (text : Bytes) (spans : List (Nat × Nat)) :
    matchChars.go fz text (spans.map (clip text.length)) = matchChars.go fz text spans := by
  induction spans with
  | nil => rfl
  | cons p rest ih =>
    obtain ⟨s, e⟩ := p
    simp only [List.map_cons, clip, matchChars.go, ih]
    rw [Nat.min_eq_left (Nat.min_le_right s _), Nat.min_eq_left (Nat.min_le_right e _)]

theorem matchBytes_eq (find : Bytes → Option (Nat × Nat)) (inv : Bool) (text : Bytes)
    (ranges : Option (List (Nat × Nat))) (hv : ValidSpans text (clipped text ranges)) :
    matchBytes find false inv text ranges = some (specMatch find inv text (clipped text ranges)) := by
  unfold matchBytes
  rw [← matchBytes_go_clip, ← clipped_eq]
  exact matchBytes_go find inv text _ hv

theorem matchChars_eq (fz : Bytes → Option (List Nat)) (text : Bytes)
    (ranges : Option (List (Nat × Nat))) (hv : ValidSpans text (clipped text ranges)) :
    matchChars fz text ranges = some (specMatchChars fz text (clipped text ranges)) := by
  unfold matchChars
  rw [← matchChars_go_clip, ← clipped_eq]
  exact matchChars_go fz text _ hv

theorem sub_length (x : Bytes) (s t : Nat) (h : t ≤ x.length) : (sub x s t).length = t - s := by
  simp [sub]; omega

theorem sub_getElem? (x : Bytes) (s t i : Nat) (h : i < t - s) : (sub x s t)[i]? = x[s + i]? := by
  simp [sub, List.getElem?_take, h]

/-- a boundary of a slice is a boundary of the text -/
theorem boundary_shift (text : Bytes) (s t i : Nat) (hst : s ≤ t) (ht : t ≤ text.length)
    (hs : isBoundary text s = true) (hte : isBoundary text t = true) (hi : i ≤ t - s)
    (hb : isBoundary (sub text s t) i = true) : isBoundary text (i + s) = true := by
  by_cases h0 : i = 0
  · subst h0; simpa using hs
  by_cases h1 : i = t - s
  · subst h1; rw [Nat.sub_add_cancel hst]; exact hte
  have hlt : i < t - s := by omega
  unfold isBoundary at hb ⊢
  rw [sub_length _ _ _ ht, sub_getElem? _ _ _ _ hlt] at hb
  have e1 : (i == 0) = false := by simp [h0]
  have e2 : (i == t - s) = false := by simp [h1]
  rw [e1, e2] at hb
  simp only [Bool.false_or] at hb
  rw [Nat.add_comm i s, hb]
  simp

theorem validBytes_iff (text : Bytes) (b e : Nat) :
    validBytes text b e = true ↔ b ≤ e ∧ e ≤ text.length ∧ isBoundary text b = true ∧ isBoundary text e = true := by
  simp [validBytes, and_assoc]

/-- what a non-inverse hit of `specMatch` looks like -/
theorem specMatch_hit (find : Bytes → Option (Nat × Nat)) (text : Bytes) (spans : List (Nat × Nat)) (b e : Nat)
    (h : specMatch find false text spans = some (b, e)) :
    ∃ p ∈ spans, ∃ s' e', find (sub text p.1 p.2) = some (s', e') ∧ b = s' + p.1 ∧ e = e' + p.1 := by
  unfold specMatch at h
  split at h
  · cases h
  · rename_i p hp
    have hm := List.mem_of_find?_eq_some hp
    simp only [Bool.false_eq_true, if_false] at h
    cases hf : find (sub text p.1 p.2) with
    | none => rw [hf] at h; cases h
    | some m =>
      rw [hf] at h
      simp only [Option.map_some, Option.some.injEq, Prod.mk.injEq] at h
      exact ⟨p, hm, m.1, m.2, hf, h.1.symm, h.2.symm⟩

theorem specMatch_inv (find : Bytes → Option (Nat × Nat)) (text : Bytes) (spans : List (Nat × Nat)) (b e : Nat)
    (h : specMatch find true text spans = some (b, e)) : b = 0 ∧ e = 0 := by
  unfold specMatch at h
  split at h
  · cases h
  · simp at h; omega

/-- a valid answer on a valid slice is a valid span of the text, inside the slice's region -/
theorem span_shift (text : Bytes) (s t s' e' : Nat) (hst : s ≤ t) (ht : t ≤ text.length)
    (hs : isBoundary text s = true) (hte : isBoundary text t = true)
    (ha : validBytes (sub text s t) s' e' = true) :
    validBytes text (s' + s) (e' + s) = true ∧ s ≤ s' + s ∧ e' + s ≤ t := by
  rw [validBytes_iff, sub_length _ _ _ ht] at ha
  obtain ⟨h1, h2, h3, h4⟩ := ha
  rw [validBytes_iff]
  refine ⟨⟨by omega, by omega, ?_, ?_⟩, by omega, by omega⟩
  · exact boundary_shift text s t s' hst ht hs hte (by omega) h3
  · exact boundary_shift text s t e' hst ht hs hte h2 h4


/-! ### UTF-8 -/

theorem isCont_ofNat (m : Nat) (h : m < 256) : isCont (UInt8.ofNat m) = (m / 64 == 2) := by
  simp [isCont, UInt8.toNat_ofNat', Nat.mod_eq_of_lt h]

theorem char_lt (c : Char) : c.toNat < 0x110000 := by
  have := c.valid
  simp only [Char.toNat, UInt32.isValidChar, Nat.isValidChar] at this ⊢
  omega

/-- the encoding of a character: one leading byte that is not a continuation byte, then continuation bytes only -/
theorem encodeChar_shape (c : Char) :
    ∃ b t, encodeChar c = b :: t ∧ isCont b = false ∧ t.all isCont = true := by
  have hc := char_lt c
  unfold encodeChar
  simp only []
  split
  · refine ⟨_, _, rfl, ?_, by simp⟩
    rw [isCont_ofNat _ (by omega)]; simp; omega
  split
  · refine ⟨_, _, rfl, ?_, ?_⟩
    · rw [isCont_ofNat _ (by omega)]; simp; omega
    · simp only [List.all_cons, List.all_nil, Bool.and_true]
      rw [isCont_ofNat _ (by omega)]; simp; omega
  split
  · refine ⟨_, _, rfl, ?_, ?_⟩
    · rw [isCont_ofNat _ (by omega)]; simp; omega
    · simp only [List.all_cons, List.all_nil, Bool.and_true, Bool.and_eq_true]
      refine ⟨?_, ?_⟩ <;> (rw [isCont_ofNat _ (by omega)]; simp; omega)
  · refine ⟨_, _, rfl, ?_, ?_⟩
    · rw [isCont_ofNat _ (by omega)]; simp; omega
    · simp only [List.all_cons, List.all_nil, Bool.and_true, Bool.and_eq_true]
      refine ⟨?_, ?_, ?_⟩ <;> (rw [isCont_ofNat _ (by omega)]; simp; omega)

theorem charCount_append (a b : Bytes) : charCount (a ++ b) = charCount a + charCount b := by
  simp [charCount]

theorem charCount_all_cont (t : Bytes) (h : t.all isCont = true) : charCount t = 0 := by
  simp only [charCount, List.length_eq_zero_iff, List.filter_eq_nil_iff]
  intro b hb
  have := List.all_eq_true.mp h b hb
  simp [this]

theorem charCount_encodeChar (c : Char) : charCount (encodeChar c) = 1 := by
  obtain ⟨b, t, e, hb, ht⟩ := encodeChar_shape c
  have := charCount_all_cont t ht
  rw [e]
  simp only [charCount, List.filter_cons, hb, Bool.not_false, if_true, List.length_cons] at this ⊢
  omega

theorem utf8_nil : utf8 [] = [] := rfl
theorem utf8_cons (c : Char) (x : List Char) : utf8 (c :: x) = encodeChar c ++ utf8 x := by simp [utf8]
theorem utf8_append (a b : List Char) : utf8 (a ++ b) = utf8 a ++ utf8 b := by simp [utf8]

/-- a string has as many characters as its bytes have non-continuation bytes -/
theorem charCount_utf8 (x : List Char) : charCount (utf8 x) = x.length := by
  induction x with
  | nil => rfl
  | cons c x ih => rw [utf8_cons, charCount_append, charCount_encodeChar, ih]; simp; omega

theorem encodeChar_pos (c : Char) : 0 < (encodeChar c).length := by
  obtain ⟨b, t, e, _, _⟩ := encodeChar_shape c
  simp [e]

/-- byte offset of character number `k` -/
def off (x : List Char) (k : Nat) : Nat := (utf8 (x.take k)).length

theorem off_zero (x : List Char) : off x 0 = 0 := by simp [off, utf8]
theorem off_len (x : List Char) (k : Nat) (h : x.length ≤ k) : off x k = (utf8 x).length := by
  simp [off, List.take_of_length_le h]

theorem off_cons_succ (c : Char) (x : List Char) (k : Nat) :
    off (c :: x) (k + 1) = (encodeChar c).length + off x k := by
  simp [off, utf8_cons]

/-- the boundaries of a string are the offsets of its characters (and its end) -/
theorem boundary_is_off (x : List Char) (s : Nat) (hs : s ≤ (utf8 x).length)
    (hb : isBoundary (utf8 x) s = true) : ∃ k, k ≤ x.length ∧ s = off x k := by
  induction x generalizing s with
  | nil => simp [utf8] at hs; subst hs; exact ⟨0, by simp, by simp [off, utf8]⟩
  | cons c x ih =>
    by_cases h0 : s = 0
    · subst h0; exact ⟨0, by simp, (off_zero _).symm⟩
    obtain ⟨b, t, e, hb0, ht⟩ := encodeChar_shape c
    rw [utf8_cons] at hs hb
    by_cases hlt : s < (encodeChar c).length
    · -- inside the first character: a continuation byte
      exfalso
      unfold isBoundary at hb
      have e1 : (s == 0) = false := by simp [h0]
      have e2 : (s == (encodeChar c ++ utf8 x).length) = false := by
        simp only [List.length_append]; simp; omega
      rw [e1, e2, List.getElem?_append_left hlt] at hb
      simp only [Bool.false_or] at hb
      rw [e] at hb hlt
      cases s with
      | zero => exact h0 rfl
      | succ s' =>
        simp only [List.length_cons] at hlt
        have hs' : s' < t.length := by omega
        simp only [List.getElem?_cons_succ, List.getElem?_eq_getElem hs'] at hb
        have := List.all_eq_true.mp ht t[s'] (List.getElem_mem hs')
        simp [this] at hb
    · have hge : (encodeChar c).length ≤ s := by omega
      have hb' : isBoundary (utf8 x) (s - (encodeChar c).length) = true := by
        by_cases h1 : s - (encodeChar c).length = 0
        · rw [h1]; simp [isBoundary]
        unfold isBoundary at hb ⊢
        have e1 : (s == 0) = false := by simp [h0]
        rw [e1, List.getElem?_append_right hge] at hb
        simp only [Bool.false_or, List.length_append] at hb
        have e3 : (s - (encodeChar c).length == 0) = false := by simp [h1]
        rw [e3]
        simp only [Bool.false_or]
        by_cases h2 : s = (encodeChar c).length + (utf8 x).length
        · have : s - (encodeChar c).length = (utf8 x).length := by omega
          simp [this]
        · have e4 : (s == (encodeChar c).length + (utf8 x).length) = false := by simp [h2]
          rw [e4] at hb
          simp only [Bool.false_or] at hb
          simp [hb]
      simp only [List.length_append] at hs
      obtain ⟨k, hk, hk2⟩ := ih (s - (encodeChar c).length) (by omega) hb'
      exact ⟨k + 1, by simp; omega, by rw [off_cons_succ]; omega⟩

theorem utf8_length_ge (x : List Char) : x.length ≤ (utf8 x).length := by
  induction x with
  | nil => simp [utf8]
  | cons c x ih =>
    rw [utf8_cons]; have := encodeChar_pos c
    simp only [List.length_append, List.length_cons]; omega

/-- the characters `[k1, k2)` -/
def mid (x : List Char) (k1 k2 : Nat) : List Char := (x.take k2).drop k1

theorem take_split (x : List Char) (k1 k2 : Nat) (h : k1 ≤ k2) : x.take k2 = x.take k1 ++ mid x k1 k2 := by
  unfold mid
  have : x.take k1 = (x.take k2).take k1 := by rw [List.take_take, Nat.min_eq_left h]
  rw [this, List.take_append_drop]

theorem off_split (x : List Char) (k1 k2 : Nat) (h : k1 ≤ k2) :
    off x k2 = off x k1 + (utf8 (mid x k1 k2)).length := by
  unfold off; rw [take_split x k1 k2 h, utf8_append]; simp

theorem mid_length (x : List Char) (k1 k2 : Nat) (h2 : k2 ≤ x.length) : (mid x k1 k2).length = k2 - k1 := by
  simp [mid, Nat.min_eq_left h2]

theorem off_mono (x : List Char) (k1 k2 : Nat) (h : k1 ≤ k2) : off x k1 ≤ off x k2 := by
  rw [off_split x k1 k2 h]; omega

theorem off_strict (x : List Char) (k1 k2 : Nat) (h : k1 < k2) (h2 : k2 ≤ x.length) : off x k1 < off x k2 := by
  rw [off_split x k1 k2 (by omega)]
  have := utf8_length_ge (mid x k1 k2)
  rw [mid_length x k1 k2 h2] at this
  omega

theorem off_le_len (x : List Char) (k : Nat) : off x k ≤ (utf8 x).length := by
  by_cases h : k ≤ x.length
  · rw [← off_len x x.length (Nat.le_refl _)]; exact off_mono x k _ h
  · rw [off_len x k (by omega)]; exact Nat.le_refl _

theorem sub_append_mid (a b c : Bytes) : sub (a ++ b ++ c) a.length (a.length + b.length) = b := by
  simp [sub]

/-- the bytes between two character offsets are the encoding of the characters in between -/
theorem sub_utf8 (x : List Char) (k1 k2 : Nat) (h : k1 ≤ k2) :
    sub (utf8 x) (off x k1) (off x k2) = utf8 (mid x k1 k2) := by
  have e : utf8 x = utf8 (x.take k1) ++ utf8 (mid x k1 k2) ++ utf8 (x.drop k2) := by
    rw [← utf8_append, ← take_split x k1 k2 h, ← utf8_append, List.take_append_drop]
  rw [off_split x k1 k2 h]
  conv => lhs; rw [e]
  exact sub_append_mid _ _ _

theorem sub_utf8_prefix (x : List Char) (k : Nat) : sub (utf8 x) 0 (off x k) = utf8 (x.take k) := by
  have := sub_utf8 x 0 k (Nat.zero_le _)
  rw [off_zero] at this
  rw [this]; simp [mid]

theorem charCount_prefix (x : List Char) (k : Nat) (h : k ≤ x.length) :
    charCount (sub (utf8 x) 0 (off x k)) = k := by
  rw [sub_utf8_prefix, charCount_utf8]; simp [Nat.min_eq_left h]

theorem mid_getElem? (x : List Char) (k1 k2 i : Nat) (h : k1 + i < k2) : (mid x k1 k2)[i]? = x[k1 + i]? := by
  simp [mid, List.getElem?_take, h]

/-- a valid span of a string, in characters -/
theorem span_chars (x : List Char) (s t : Nat) (hst : s ≤ t) (ht : t ≤ (utf8 x).length)
    (hs : isBoundary (utf8 x) s = true) (hte : isBoundary (utf8 x) t = true) :
    ∃ k1 k2, k1 ≤ k2 ∧ k2 ≤ x.length ∧ s = off x k1 ∧ t = off x k2 := by
  obtain ⟨k1, h1, e1⟩ := boundary_is_off x s (by omega) hs
  obtain ⟨k2, h2, e2⟩ := boundary_is_off x t ht hte
  refine ⟨k1, k2, ?_, h2, e1, e2⟩
  by_cases h : k1 ≤ k2
  · exact h
  · have := off_strict x k2 k1 (by omega) h1
    omega

/-! ### index lists -/

theorem strictInc_cons (a : Nat) (l : List Nat) :
    strictInc (a :: l) = true ↔ (∀ b ∈ l.head?, a < b) ∧ strictInc l = true := by
  cases l with
  | nil => simp [strictInc]
  | cons b t => simp [strictInc]

theorem strictInc_map_add (k : Nat) (v : List Nat) : strictInc (v.map (· + k)) = strictInc v := by
  induction v with
  | nil => rfl
  | cons a t ih =>
    cases t with
    | nil => rfl
    | cons b t' =>
      simp only [List.map_cons, strictInc] at ih ⊢
      rw [ih]; simp

theorem validChars_iff (n : Nat) (v : List Nat) :
    validChars n v = true ↔ strictInc v = true ∧ ∀ i ∈ v, i < n := by
  simp [validChars]

theorem specMatchChars_hit (fz : Bytes → Option (List Nat)) (text : Bytes) (spans : List (Nat × Nat)) (v : List Nat)
    (h : specMatchChars fz text spans = some v) :
    ∃ p ∈ spans, ∃ v0, fz (sub text p.1 p.2) = some v0 ∧ v = v0.map (· + charCount (sub text 0 p.1)) := by
  unfold specMatchChars at h
  split at h
  · cases h
  · rename_i p hp
    have hm := List.mem_of_find?_eq_some hp
    cases hf : fz (sub text p.1 p.2) with
    | none => rw [hf] at h; cases h
    | some v0 =>
      rw [hf] at h
      simp only [Option.map_some, Option.some.injEq] at h
      exact ⟨p, hm, v0, hf, h.symm⟩

theorem hitAt_nil (cs : Bool) (i : Nat) (p : Char) : hitAt cs [] i p = false := by simp [hitAt]
theorem hitAt_cons_succ (cs : Bool) (c : Char) (xs : List Char) (i : Nat) (p : Char) :
    hitAt cs (c :: xs) (i + 1) p = hitAt cs xs i p := by simp [hitAt]
theorem hitAt_cons_zero (cs : Bool) (c : Char) (xs : List Char) (p : Char) :
    hitAt cs (c :: xs) 0 p = charEq cs c p := by simp [hitAt]
theorem hitAt_congr (cs : Bool) (x y : List Char) (i j : Nat) (p : Char) (h : x[i]? = y[j]?) :
    hitAt cs x i p = hitAt cs y j p := by simp [hitAt, h]

theorem witness_shift (cs : Bool) (body x : List Char) (k1 k2 : Nat) (v0 : List Nat)
    (hv : ∀ i ∈ v0, i < k2 - k1) (hw : witnessB cs body (mid x k1 k2) v0 = true) :
    witnessB cs body x (v0.map (· + k1)) = true := by
  simp only [witnessB, Bool.and_eq_true, List.length_map] at hw ⊢
  refine ⟨hw.1, ?_⟩
  rw [List.zip_map_left, List.all_map]
  rw [List.all_eq_true] at hw ⊢
  intro p hp
  have h1 := hw.2 p hp
  have hm : p.1 ∈ v0 := (List.of_mem_zip hp).1
  have := hv p.1 hm
  rw [hitAt_congr cs _ x p.1 (k1 + p.1) p.2 (mid_getElem? x k1 k2 p.1 (by omega))] at h1
  simp only [Function.comp, Prod.map, id]
  rw [Nat.add_comm p.1 k1]
  exact h1


/-! ### a witness implies the greedy verdict -/

/-- a witness read with an offset: indices `≥ o`, the text is what remains after `o` characters -/
theorem witness_greedy (cs : Bool) (x : List Char) : ∀ (body : List Char) (v : List Nat) (o : Nat),
    strictInc v = true → (∀ i ∈ v, o ≤ i) → v.length = body.length →
    (v.zip body).all (fun p => hitAt cs x (p.1 - o) p.2) = true →
    greedy cs body x = true := by
  induction x with
  | nil =>
    intro body v o _ _ hl hw
    cases body with
    | nil => simp [greedy]
    | cons p ps =>
      cases v with
      | nil => simp at hl
      | cons i is => simp [hitAt_nil] at hw
  | cons c xs ih =>
    intro body v o hs ho hl hw
    cases body with
    | nil => simp [greedy]
    | cons p ps =>
      cases v with
      | nil => simp at hl
      | cons i is =>
        rw [strictInc_cons] at hs
        simp only [List.length_cons, Nat.add_right_cancel_iff] at hl
        simp only [List.zip_cons_cons, List.all_cons, Bool.and_eq_true] at hw
        have hio : o ≤ i := ho i (by simp)
        -- all later indices are > i
        have hgt : ∀ j ∈ is, i < j := by
          intro j hj
          have : ∀ (l : List Nat) (a : Nat), strictInc (a :: l) = true → ∀ j ∈ l, a < j := by
            intro l
            induction l with
            | nil => intro a _ j hj; cases hj
            | cons b t iht =>
              intro a h j hj
              rw [strictInc_cons] at h
              have hab : a < b := h.1 b (by simp)
              rcases List.mem_cons.mp hj with rfl | hj'
              · exact hab
              · have := iht b h.2 j hj'; omega
          exact this is i (by rw [strictInc_cons]; exact hs) j hj
        -- the rest of the witness lives in `xs` with offset `o + 1`
        have hrest : (is.zip ps).all (fun q => hitAt cs xs (q.1 - (o + 1)) q.2) = true := by
          rw [List.all_eq_true] at hw ⊢
          intro q hq
          have h1 := hw.2 q hq
          have hm : q.1 ∈ is := (List.of_mem_zip hq).1
          have := hgt q.1 hm
          have e : q.1 - o = (q.1 - (o + 1)) + 1 := by omega
          rw [e, hitAt_cons_succ] at h1
          exact h1
        simp only [greedy]
        by_cases hce : charEq cs c p = true
        · rw [if_pos hce]
          exact ih ps is (o + 1) hs.2 (fun j hj => by have := hgt j hj; omega) hl hrest
        · rw [if_neg hce]
          -- the witness does not use `c`
          have hne : i ≠ o := by
            intro e
            subst e
            simp only [Nat.sub_self, hitAt_cons_zero] at hw
            exact hce hw.1
          refine ih (p :: ps) (i :: is) (o + 1) (by rw [strictInc_cons]; exact hs) ?_ (by simp [hl]) ?_
          · intro j hj
            rcases List.mem_cons.mp hj with rfl | hj'
            · omega
            · have := hgt j hj'; omega
          · simp only [List.zip_cons_cons, List.all_cons, Bool.and_eq_true]
            refine ⟨?_, hrest⟩
            have h1 := hw.1
            have e : i - o = (i - (o + 1)) + 1 := by omega
            rw [e, hitAt_cons_succ] at h1
            exact h1


/-! ### sort and dedup -/

theorem sortNat_pairwise (l : List Nat) : (sortNat l).Pairwise (· ≤ ·) := by
  have := List.pairwise_mergeSort (le := fun a b : Nat => decide (a ≤ b))
    (by intro a b c; simp; omega) (by intro a b; simp; omega) l
  simpa [sortNat] using this

theorem mem_sortNat (l : List Nat) (i : Nat) : i ∈ sortNat l ↔ i ∈ l := by
  simp [sortNat, List.mem_mergeSort]

theorem dedupFrom_spec (l : List Nat) : ∀ (prev : Nat), l.Pairwise (· ≤ ·) → (∀ i ∈ l, prev ≤ i) →
    strictInc (prev :: dedupFrom prev l) = true ∧ ∀ i, i ∈ prev :: dedupFrom prev l ↔ i ∈ prev :: l := by
  induction l with
  | nil => intro prev _ _; simp [dedupFrom, strictInc]
  | cons b t ih =>
    intro prev hp hge
    rw [List.pairwise_cons] at hp
    have hb : prev ≤ b := hge b (by simp)
    simp only [dedupFrom]
    by_cases he : prev = b
    · subst he
      rw [if_pos rfl]
      have := ih prev hp.2 (fun i hi => hge i (by simp [hi]))
      refine ⟨this.1, fun i => ?_⟩
      rw [this.2 i]; simp
    · rw [if_neg he]
      have := ih b hp.2 (fun i hi => hp.1 i hi)
      refine ⟨?_, fun i => ?_⟩
      · simp only [strictInc, Bool.and_eq_true, decide_eq_true_eq]
        exact ⟨by omega, this.1⟩
      · have h2 := this.2 i
        simp only [List.mem_cons] at h2 ⊢
        rw [h2]

theorem dedupAdj_spec (l : List Nat) (hp : l.Pairwise (· ≤ ·)) :
    strictInc (dedupAdj l) = true ∧ ∀ i, i ∈ dedupAdj l ↔ i ∈ l := by
  cases l with
  | nil => simp [dedupAdj, strictInc]
  | cons a t =>
    rw [List.pairwise_cons] at hp
    exact dedupFrom_spec t a hp.2 hp.1

/-- `sort` then `dedup`: strictly increasing, same members -/
theorem sort_dedup_spec (l : List Nat) :
    strictInc (dedupAdj (sortNat l)) = true ∧ ∀ i, i ∈ dedupAdj (sortNat l) ↔ i ∈ l := by
  have := dedupAdj_spec (sortNat l) (sortNat_pairwise l)
  exact ⟨this.1, fun i => by rw [this.2 i, mem_sortNat]⟩

/-! ### range_char_indices -/

theorem byteToCharRange_valid (text : Bytes) (b e : Nat) (h : validBytes text b e = true) :
    byteToCharRange text b e =
      some (charCount (sub text 0 b), charCount (sub text 0 b) + charCount (sub text b e)) ∧
    charCount (sub text 0 b) + charCount (sub text b e) ≤ charCount text := by
  rw [validBytes_iff] at h
  obtain ⟨h1, h2, h3, h4⟩ := h
  constructor
  · unfold byteToCharRange
    rw [slice_ok text 0 b (by omega) (by omega) (isBoundary_zero _) h3, slice_ok text b e h1 h2 h3 h4]
  · have e1 : text = sub text 0 b ++ (sub text b e ++ sub text e text.length) := by
      rw [sub_append _ _ _ _ h1 h2, sub_append _ _ _ _ (by omega) (by omega), sub_all]
    have : charCount text = charCount (sub text 0 b) + (charCount (sub text b e) + charCount (sub text e text.length)) := by
      conv => lhs; rw [e1]
      rw [charCount_append, charCount_append]
    omega

theorem strictInc_range' (s n : Nat) : strictInc (List.range' s n) = true := by
  induction n generalizing s with
  | zero => rfl
  | succ n ih =>
    cases n with
    | zero => rfl
    | succ m =>
      have := ih (s + 1)
      simp only [List.range'_succ] at this ⊢
      simp only [strictInc, Bool.and_eq_true, decide_eq_true_eq]
      exact ⟨by omega, this⟩


theorem lit_to_re (cs pre post : Bool) (lit : Bytes) (find : Bytes → Option (Nat × Nat))
    (hc : LitContract cs pre post lit find) : ReContract find := by
  intro sl
  have := hc sl
  cases hf : find sl with
  | none => rfl
  | some m =>
    obtain ⟨s, e⟩ := m
    rw [hf] at this
    simp only [litAnswerOk, Bool.and_eq_true] at this
    exact this.1


/-! ### accumulated widths and `reshape_string` -/

theorem accWidth_length (ts w : Nat) (cs : List (Option Nat)) : (accWidth ts w cs).length = cs.length := by
  induction cs generalizing w with
  | nil => rfl
  | cons c cs ih => simp [accWidth, ih]

theorem accWidth_ge (ts : Nat) (cs : List (Option Nat)) : ∀ w, ∀ a ∈ accWidth ts w cs, w ≤ a := by
  induction cs with
  | nil => intro w a ha; cases ha
  | cons c cs ih =>
    intro w a ha
    simp only [accWidth, List.mem_cons] at ha
    rcases ha with rfl | ha
    · omega
    · have := ih _ a ha; omega

theorem accWidth_pairwise (ts : Nat) (cs : List (Option Nat)) : ∀ w, (accWidth ts w cs).Pairwise (· ≤ ·) := by
  induction cs with
  | nil => intro w; simp [accWidth]
  | cons c cs ih =>
    intro w
    simp only [accWidth, List.pairwise_cons]
    exact ⟨fun a ha => accWidth_ge ts cs _ a ha, ih _⟩

theorem pairwise_le_getElem (l : List Nat) (h : l.Pairwise (· ≤ ·)) (i j : Nat) (hij : i ≤ j) (hj : j < l.length) :
    l[i]'(by omega) ≤ l[j] := by
  by_cases e : i = j
  · subst e; exact Nat.le_refl _
  · exact (List.pairwise_iff_getElem.mp h) i j (by omega) hj (by omega)

theorem csub_some (a b : Nat) (h : b ≤ a) : csub a b = some (a - b) := by simp [csub, h]

/-- `reshape_string` neither indexes outside `acc_width` nor underflows, whenever the match lies inside the text
    (`ms ≤ me ≤ number of chars`) and the accumulated widths are non-decreasing -/
theorem reshape_total (acc : List Nat) (hp : acc.Pairwise (· ≤ ·)) (cw ms me : Nat)
    (h1 : ms ≤ me) (h2 : me ≤ acc.length) : (reshapeString acc cw ms me).isSome = true := by
  unfold reshapeString
  by_cases he : acc.isEmpty = true
  · rw [if_pos he]; rfl
  rw [if_neg he]
  have hn : 0 < acc.length := by
    cases acc with
    | nil => simp at he
    | cons a t => simp
  have hlast : acc[acc.length - 1]? = some (acc[acc.length - 1]'(by omega)) := List.getElem?_eq_getElem (by omega)
  rw [hlast]
  simp only []
  generalize hfull : acc[acc.length - 1]'(by omega) = full
  by_cases hc : full ≤ cw
  · rw [if_pos hc]; rfl
  rw [if_neg hc]
  have mono : ∀ i (hi : i < acc.length), acc[i] ≤ full := by
    intro i hi; rw [← hfull]; exact pairwise_le_getElem acc hp i _ (by omega) (by omega)
  -- w1
  obtain ⟨w1, hw1, hw1f, hw1m⟩ : ∃ w1, (if ms == 0 then some 0 else acc[ms - 1]?) = some w1 ∧ w1 ≤ full ∧
      (∀ (hme : me < acc.length), w1 ≤ acc[me]) := by
    by_cases h0 : ms = 0
    · exact ⟨0, by simp [h0], Nat.zero_le _, fun _ => Nat.zero_le _⟩
    · have hlt : ms - 1 < acc.length := by omega
      refine ⟨acc[ms - 1], ?_, mono _ hlt, fun hme => pairwise_le_getElem acc hp _ _ (by omega) hme⟩
      have : (ms == 0) = false := by simp [h0]
      rw [this]; simp [List.getElem?_eq_getElem hlt]
  rw [hw1]
  simp only []
  by_cases hge : me ≥ acc.length
  · -- the match reaches the end of the text: w3 = 0, right-fixed
    rw [if_pos hge, csub_some _ _ hw1f]
    simp only [Option.bind_some]
    rw [csub_some _ _ (Nat.le_refl _)]
    simp only [Option.bind_some, Nat.sub_self]
    have : ((decide (w1 > 0) && decide (full - w1 + 0 ≤ cw)) || decide (0 ≤ 2)) = true := by simp
    rw [if_pos this, csub_some _ _ (by omega)]; rfl
  · have hme : me < acc.length := by omega
    rw [if_neg hge, List.getElem?_eq_getElem hme]
    simp only [Option.bind_some]
    have ha := hw1m hme
    have hb := mono me hme
    rw [csub_some _ _ ha, csub_some _ _ hw1f]
    simp only [Option.bind_some]
    rw [csub_some _ _ (by omega)]
    simp only []
    split
    · rw [csub_some _ _ (by omega)]; rfl
    · split
      · rfl
      · rename_i c1 c2
        simp only [Bool.or_eq_true, Bool.and_eq_true, decide_eq_true_eq, not_or, not_and] at c1 c2
        rw [csub_some _ _ (by omega)]; rfl


theorem charCount_le_length (x : Bytes) : charCount x ≤ x.length := by
  simp only [charCount]; exact List.length_filter_le _ _

theorem strictInc_head_le_last (v : List Nat) (h : strictInc v = true) :
    ∀ a ∈ v.head?, ∀ b ∈ v.getLast?, a ≤ b := by
  induction v with
  | nil => intro a ha; cases ha
  | cons c t ih =>
    intro a ha b hb
    simp only [List.head?_cons, Option.mem_def, Option.some.injEq] at ha
    subst ha
    rw [strictInc_cons] at h
    cases t with
    | nil => simp at hb; omega
    | cons d t' =>
      have h1 : c < d := h.1 d (by simp)
      have hb' : b ∈ (d :: t').getLast? := by simpa [List.getLast?_cons_cons] using hb
      have := ih h.2 d (by simp) b hb'
      omega


theorem any_of_mem {α : Type} (l : List α) (f : α → Bool) (a : α) (h : a ∈ l) (hf : f a = true) : l.any f = true :=
  List.any_eq_true.mpr ⟨a, h, hf⟩


/-! ### the fragment iterator -/

theorem iterFlags_nil (ci k o : Nat) : trueIdx o (iterFlags [] ci k) = [] := by
  induction k generalizing ci o with
  | zero => rfl
  | succ k ih => simp [iterFlags, skipFrags, trueIdx, ih]

/-- a fragment that ends at or before the current character is skipped -/
theorem iterFlags_skip (s e : Nat) (rest : List (Nat × Nat)) (ci k : Nat) (h : e ≤ ci) :
    iterFlags ((s, e) :: rest) ci k = iterFlags rest ci k := by
  cases k with
  | zero => rfl
  | succ k =>
    simp only [iterFlags, skipFrags]
    rw [if_neg (by omega)]

/-- one-character fragments at strictly increasing indices: exactly those characters are flagged -/
theorem iterFlags_singletons (k : Nat) : ∀ (ci : Nat) (is : List Nat), strictInc is = true → (∀ i ∈ is, ci ≤ i) →
    trueIdx ci (iterFlags (is.map (fun i => (i, i + 1))) ci k) = is.filter (fun i => decide (i < ci + k)) := by
  induction k with
  | zero =>
    intro ci is _ hge
    simp only [iterFlags, trueIdx, Nat.add_zero]
    symm
    rw [List.filter_eq_nil_iff]
    intro i hi
    have := hge i hi
    simp; omega
  | succ k ih =>
    intro ci is hs hge
    cases is with
    | nil => simp [iterFlags, skipFrags, trueIdx, iterFlags_nil]
    | cons i t =>
      have hi : ci ≤ i := hge i (by simp)
      rw [strictInc_cons] at hs
      have hgt : ∀ j ∈ t, i < j := by
        intro j hj
        have hmono : ∀ (l : List Nat) (a : Nat), strictInc (a :: l) = true → ∀ j ∈ l, a < j := by
          intro l
          induction l with
          | nil => intro a _ j hj; cases hj
          | cons b t iht =>
            intro a h j hj
            rw [strictInc_cons] at h
            have hab : a < b := h.1 b (by simp)
            rcases List.mem_cons.mp hj with rfl | hj'
            · exact hab
            · have := iht b h.2 j hj'; omega
        exact hmono t i (by rw [strictInc_cons]; exact hs) j hj
      simp only [List.map_cons, iterFlags, skipFrags]
      rw [if_pos (by omega)]
      simp only []
      by_cases he : i = ci
      · subst he
        have : (decide (i ≤ i) && decide (i < i + 1)) = true := by simp
        rw [this]
        simp only [trueIdx, if_true]
        rw [iterFlags_skip i (i + 1) _ (i + 1) k (Nat.le_refl _)]
        rw [ih (i + 1) t hs.2 (fun j hj => by have := hgt j hj; omega)]
        rw [List.filter_cons, if_pos (by simp)]
        congr 1
        apply List.filter_congr
        intro j _
        congr 1
        exact propext ⟨fun h => by omega, fun h => by omega⟩
      · have : (decide (i ≤ ci) && decide (ci < i + 1)) = false := by simp; omega
        rw [this]
        simp only [trueIdx, Bool.false_eq_true, if_false]
        have := ih (ci + 1) (i :: t) (by rw [strictInc_cons]; exact hs) (fun j hj => by
          rcases List.mem_cons.mp hj with rfl | hj'
          · omega
          · have := hgt j hj'; omega)
        simp only [List.map_cons] at this
        rw [this]
        apply List.filter_congr
        intro j _
        congr 1
        exact propext ⟨fun h => by omega, fun h => by omega⟩


/-- one fragment `[a, b)`: exactly the characters `a ≤ i < b` (as far as the text reaches) are flagged -/
theorem iterFlags_range (a b : Nat) (k : Nat) : ∀ ci : Nat,
    trueIdx ci (iterFlags [(a, b)] ci k) = List.range' (max a ci) (min b (ci + k) - max a ci) := by
  induction k with
  | zero =>
    intro ci
    simp only [iterFlags, trueIdx, Nat.add_zero]
    have : min b ci - max a ci = 0 := by omega
    rw [this]; rfl
  | succ k ih =>
    intro ci
    simp only [iterFlags, skipFrags]
    by_cases hb : ci < b
    · rw [if_pos hb]
      simp only []
      by_cases ha : a ≤ ci
      · have : (decide (a ≤ ci) && decide (ci < b)) = true := by simp [ha, hb]
        rw [this]
        simp only [trueIdx, if_true]
        rw [ih (ci + 1)]
        have e1 : max a ci = ci := by omega
        have e2 : max a (ci + 1) = ci + 1 := by omega
        have e3 : min b (ci + (k + 1)) - ci = (min b (ci + 1 + k) - (ci + 1)) + 1 := by omega
        rw [e1, e2, e3, List.range'_succ]
      · have : (decide (a ≤ ci) && decide (ci < b)) = false := by simp [ha]
        rw [this]
        simp only [trueIdx, Bool.false_eq_true, if_false]
        rw [ih (ci + 1)]
        have e1 : max a ci = max a (ci + 1) := by omega
        have e2 : ci + (k + 1) = ci + 1 + k := by omega
        rw [e1, e2]
    · rw [if_neg hb]
      simp only [skipFrags, trueIdx, Bool.false_eq_true, if_false]
      rw [iterFlags_nil]
      have : min b (ci + (k + 1)) - max a ci = 0 := by omega
      rw [this]; rfl


end SkimModel.Positions
