/-
Helper lemmas for C13 (no property theorems here).
-/
import SkimModel.Spec.Rank
namespace SkimModel.Rank
open SkimModel.Generated.Rank

/-! ### the enumeration is complete -/

theorem mem_all (c : Criterion) : c ∈ Criterion.all := by
  cases c <;> decide

/-! ### integer comparison -/

theorem compare_int (a b : Int) :
    compare a b = if a < b then .lt else if b < a then .gt else .eq := by
  rcases Int.lt_trichotomy a b with h | h | h
  · have : ¬ b < a := by omega
    simp [h, Int.compare_eq_lt.mpr h]
  · subst h
    simp
  · have : ¬ a < b := by omega
    simp [h, this, Int.compare_eq_gt.mpr h]

/-! ### name lookup -/

theorem lookup_some_mem {k : List Char} {tbl : List (String × Criterion)} {c : Criterion}
    (h : lookup k tbl = some c) : ∃ n, (n, c) ∈ tbl ∧ k = n.toList := by
  induction tbl with
  | nil => simp [lookup] at h
  | cons row rest ih =>
    obtain ⟨n, d⟩ := row
    simp only [lookup] at h
    by_cases hk : k = n.toList
    · simp only [hk, if_true, Option.some.injEq] at h
      subst h
      exact ⟨n, by simp, hk⟩
    · simp only [hk, if_false] at h
      obtain ⟨n', hm, he⟩ := ih h
      exact ⟨n', by simp [hm], he⟩

theorem find_name_some {k : List Char} {l : List Criterion} {c : Criterion}
    (h : l.find? (fun c => (Spec.name c).toList = k) = some c) : (Spec.name c).toList = k := by
  have := List.find?_some h
  simpa using this

/-- the eight names are pairwise different -/
theorem name_injective : ∀ c ∈ Criterion.all, ∀ d ∈ Criterion.all,
    (Spec.name c).toList = (Spec.name d).toList → c = d := by decide

/-! ### RankBuilder::new -/

theorem dedupFrom_eq (a : Criterion) (l : List Criterion) :
    a :: dedupFrom a l = Spec.destutter (a :: l) := by
  induction l generalizing a with
  | nil => simp [dedupFrom, Spec.destutter]
  | cons b t ih =>
    simp only [dedupFrom, Spec.destutter]
    by_cases h : a = b
    · subst h; simp [ih]
    · simp [h, ih]

theorem dedup_eq (l : List Criterion) : dedup l = Spec.destutter l := by
  cases l with
  | nil => simp [dedup, Spec.destutter]
  | cons a t => simp [dedup, dedupFrom_eq]

/-! ### build_rank -/

theorem asI32_small {n : Nat} (h : (n : Int) ≤ i32Max) : asI32 n = n := by
  unfold asI32 i32Max at *
  have : n % 4294967296 = n := Nat.mod_eq_of_lt (by omega)
  simp only [this]
  simp [h]

theorem fill_length {t : Tuple} {cs : List Criterion} {i : Nat} {rank r : List Int}
    (h : fill t cs i rank = some r) : r.length = rank.length := by
  induction cs generalizing i rank with
  | nil => simp [fill] at h; subst h; rfl
  | cons c cs ih =>
    simp only [fill] at h
    split at h
    · simp at h
    · split at h
      · simpa using ih h
      · simp at h

/-- the loop writes the values of the criteria into consecutive slots -/
theorem fill_ok (t : Tuple) (vals : Criterion → Int) :
    ∀ (cs : List Criterion) (pre : List Int) (k : Nat),
      (∀ c ∈ cs, value c t = some (vals c)) → cs.length ≤ k →
      fill t cs pre.length (pre ++ List.replicate k 0) =
        some (pre ++ cs.map vals ++ List.replicate (k - cs.length) 0) := by
  intro cs
  induction cs with
  | nil => intro pre k _ _; simp [fill]
  | cons c cs ih =>
    intro pre k hv hk
    have hc : value c t = some (vals c) := hv c (by simp)
    simp only [List.length_cons] at hk
    obtain ⟨k', rfl⟩ : ∃ k', k = k' + 1 := ⟨k - 1, by omega⟩
    simp only [fill, hc]
    have hlt : pre.length < (pre ++ List.replicate (k' + 1) 0).length := by simp
    simp only [hlt, if_true]
    have hset : (pre ++ List.replicate (k' + 1) 0).set pre.length (vals c)
        = (pre ++ [vals c]) ++ List.replicate k' 0 := by
      simp [List.set_append_right, List.replicate_succ]
    rw [hset]
    have := ih (pre ++ [vals c]) k' (fun d hd => hv d (by simp [hd])) (by omega)
    simp only [List.length_append, List.length_cons, List.length_nil] at this
    rw [this]
    simp

/-- the loop panics exactly when one of the values does -/
theorem fill_none_iff (t : Tuple) :
    ∀ (cs : List Criterion) (i : Nat) (rank : List Int), i + cs.length ≤ rank.length →
      (fill t cs i rank = none ↔ ∃ c ∈ cs, value c t = none) := by
  intro cs
  induction cs with
  | nil => intro i rank _; simp [fill]
  | cons c cs ih =>
    intro i rank h
    simp only [List.length_cons] at h
    simp only [fill]
    cases hv : value c t with
    | none => simp [hv]
    | some v =>
      have hlt : i < rank.length := by omega
      simp only [hlt, if_true]
      rw [ih (i + 1) (rank.set i v) (by simp; omega)]
      simp [hv]

/-! ### lexicographic comparison -/

theorem cmpRank_self (l : List Int) : cmpRank l l = .eq := by
  induction l with
  | nil => rfl
  | cons a l ih => simp [cmpRank, ih]

theorem cmpRank_append_same (l₁ l₂ p : List Int) (h : l₁.length = l₂.length) :
    cmpRank (l₁ ++ p) (l₂ ++ p) = cmpRank l₁ l₂ := by
  induction l₁ generalizing l₂ with
  | nil =>
    cases l₂ with
    | nil => simp [cmpRank, cmpRank_self]
    | cons => simp at h
  | cons a l₁ ih =>
    cases l₂ with
    | nil => simp at h
    | cons b l₂ =>
      simp only [List.length_cons, Nat.add_right_cancel_iff] at h
      simp only [List.cons_append, cmpRank, ih l₂ h]

/-- one key component orders two items the way the criterion prefers -/
theorem key_cmp (c : Criterion) (t₁ t₂ : Tuple) :
    (if Spec.key c t₁ < Spec.key c t₂ then Ordering.lt
     else if Spec.key c t₂ < Spec.key c t₁ then .gt else .eq) = Spec.prefers c t₁ t₂ := by
  unfold Spec.key Spec.prefers
  cases Spec.largerFirst c <;> simp only [compare_int, if_true, Bool.false_eq_true, if_false]
  · have e1 : (-Spec.qty t₁ (Spec.field c) < -Spec.qty t₂ (Spec.field c))
        = (Spec.qty t₂ (Spec.field c) < Spec.qty t₁ (Spec.field c)) := by
      apply propext; constructor <;> intro h <;> omega
    have e2 : (-Spec.qty t₂ (Spec.field c) < -Spec.qty t₁ (Spec.field c))
        = (Spec.qty t₁ (Spec.field c) < Spec.qty t₂ (Spec.field c)) := by
      apply propext; constructor <;> intro h <;> omega
    simp only [e1, e2]

theorem cmpRank_keys (cs : List Criterion) (t₁ t₂ : Tuple) :
    cmpRank (cs.map (Spec.key · t₁)) (cs.map (Spec.key · t₂)) = Spec.lexCompare cs t₁ t₂ := by
  induction cs with
  | nil => rfl
  | cons c cs ih =>
    simp only [List.map_cons, cmpRank, Spec.lexCompare]
    rw [← key_cmp c t₁ t₂, ← ih]
    by_cases h1 : Spec.key c t₁ < Spec.key c t₂
    · simp [h1]
    · by_cases h2 : Spec.key c t₂ < Spec.key c t₁
      · simp [h1, h2]
      · simp [h1, h2]

theorem cmpRank_swap : ∀ (a b : List Int), cmpRank a b = (cmpRank b a).swap
  | [], [] => rfl
  | [], _ :: _ => rfl
  | _ :: _, [] => rfl
  | x :: a, y :: b => by
    have ih := cmpRank_swap a b
    simp only [cmpRank]
    rcases Int.lt_trichotomy x y with h | h | h
    · have h' : ¬ y < x := by omega
      simp [h, h']
    · subst h; simp [ih]
    · have h' : ¬ x < y := by omega
      simp [h, h']

theorem cmpRank_trans : ∀ (a b c : List Int),
    cmpRank a b ≠ .gt → cmpRank b c ≠ .gt → cmpRank a c ≠ .gt
  | [], _, [] => by simp [cmpRank]
  | [], _, _ :: _ => by simp [cmpRank]
  | _ :: _, [], _ => by simp [cmpRank]
  | _ :: _, _ :: _, [] => by simp [cmpRank]
  | x :: a, y :: b, z :: c => by
    intro h1 h2
    have ih := cmpRank_trans a b c
    simp only [cmpRank] at *
    rcases Int.lt_trichotomy x y with hxy | hxy | hxy
    · rcases Int.lt_trichotomy y z with hyz | hyz | hyz
      · have : x < z := by omega
        simp [this]
      · subst hyz; simp [hxy]
      · have : ¬ y < z := by omega
        simp [this, hyz] at h2
    · subst hxy
      rcases Int.lt_trichotomy x z with hyz | hyz | hyz
      · simp [hyz]
      · subst hyz
        simp only [Int.lt_irrefl, if_false] at h1 h2 ⊢
        exact ih h1 h2
      · have : ¬ x < z := by omega
        simp [this, hyz] at h2
    · have : ¬ x < y := by omega
      simp [this, hxy] at h1

/-! ### split / join -/

theorem split_no_sep (sep : Char) (w : List Char) (h : sep ∉ w) : splitOnChar sep w = [w] := by
  induction w with
  | nil => rfl
  | cons c w ih =>
    have hc : c ≠ sep := by intro e; subst e; simp at h
    have hw : sep ∉ w := by intro e; exact h (by simp [e])
    simp [splitOnChar, hc, ih hw]

theorem split_append (sep : Char) (w rest : List Char) (h : sep ∉ w) :
    splitOnChar sep (w ++ sep :: rest) = w :: splitOnChar sep rest := by
  induction w with
  | nil => simp [splitOnChar]
  | cons c w ih =>
    have hc : c ≠ sep := by intro e; subst e; simp at h
    have hw : sep ∉ w := by intro e; exact h (by simp [e])
    simp [splitOnChar, hc, ih hw]

theorem words_join (w : List Char) (ws : List (List Char)) (h : ∀ x ∈ w :: ws, ',' ∉ x) :
    Spec.words (Spec.joinComma (w :: ws)) = w :: ws := by
  unfold Spec.words
  induction ws generalizing w with
  | nil => simpa [Spec.joinComma] using split_no_sep ',' w (h w (by simp))
  | cons w' ws ih =>
    simp only [Spec.joinComma]
    rw [split_append ',' w _ (h w (by simp)), ih w' (fun x hx => h x (by simp [hx]))]

/-! ### runs -/

theorem destutter_replicate (c : Criterion) (n : Nat) (l : List Criterion) :
    Spec.destutter (List.replicate (n + 1) c ++ l) = Spec.destutter (c :: l) := by
  induction n with
  | zero => simp
  | succ n ih =>
    rw [List.replicate_succ, List.cons_append, List.replicate_succ, List.cons_append]
    simp only [Spec.destutter, if_true]
    rw [← ih, List.replicate_succ, List.cons_append]

theorem destutter_expand (runs : List (Criterion × Nat)) (h : Spec.RunsDiffer runs) :
    Spec.destutter (Spec.expand runs) = runs.map (·.1) := by
  induction runs with
  | nil => simp [Spec.expand, Spec.destutter]
  | cons r rest ih =>
    obtain ⟨c, n⟩ := r
    simp only [Spec.expand]
    rw [destutter_replicate]
    cases rest with
    | nil => simp [Spec.expand, Spec.destutter]
    | cons r' rest' =>
      obtain ⟨b, m⟩ := r'
      simp only [Spec.RunsDiffer, Spec.runsDiffer, Bool.and_eq_true, bne_iff_ne, ne_eq] at h
      have ih' := ih h.2
      simp only [Spec.expand, List.replicate_succ, List.cons_append] at ih' ⊢
      simp only [Spec.destutter, h.1, if_false]
      rw [ih']
      simp

theorem runs_exist (l : List Criterion) : ∃ runs, Spec.RunsDiffer runs ∧ Spec.expand runs = l := by
  induction l with
  | nil => exact ⟨[], by decide, rfl⟩
  | cons a l ih =>
    obtain ⟨runs, hd, he⟩ := ih
    cases runs with
    | nil =>
      refine ⟨[(a, 0)], by simp [Spec.RunsDiffer, Spec.runsDiffer], ?_⟩
      simp [Spec.expand] at he ⊢
      exact he
    | cons r rest =>
      obtain ⟨b, m⟩ := r
      by_cases hab : a = b
      · subst hab
        refine ⟨(a, m + 1) :: rest, ?_, ?_⟩
        · cases rest with
          | nil => simp [Spec.RunsDiffer, Spec.runsDiffer]
          | cons r' rest' => simpa [Spec.RunsDiffer, Spec.runsDiffer] using hd
        · simp only [Spec.expand] at he ⊢
          rw [← he, List.replicate_succ, List.cons_append]
      · refine ⟨(a, 0) :: (b, m) :: rest, ?_, ?_⟩
        · simp only [Spec.RunsDiffer, Spec.runsDiffer, Bool.and_eq_true, bne_iff_ne, ne_eq]
          exact ⟨hab, hd⟩
        · simp only [Spec.expand] at he ⊢
          simp [he]

end SkimModel.Rank
