/-
C14 liveness under weak fairness: with --select-1 / --exit-0 a decision IS eventually taken.
Until the decision the system with the options behaves exactly like the system without them (`strip`), so the measure and the
helpful thread of `Lemmas/SessionFair.lean` carry over; what the options add is (K): as long as nothing is decided a wake-up is
pending even in a quiescent state, so the event loop runs once more there — and that iteration decides.
-/
import SkimModel.Lemmas.SessionFair
namespace SkimModel.Session
open SkimModel.Pool SkimModel.Fair
variable {α κ : Type}

/-- the same state with both options off -/
def strip (s : St α κ) : St α κ := { s with select1 := false, exit0 := false }

/-- what is carried along a keystroke-free, accurately reading execution while nothing has been decided -/
structure Undecided (m : κ → α → Bool) (s : St α κ) : Prop where
  inv : Inv m s
  wake : Wake s
  fin : s.finished = none
  onlyHB : s.queue.all Ev.isHB = true
  dec : s.decision = none
  opt : s.select1 = true ∨ s.exit0 = true
  /-- while the collector lives, a state without a matcher run is a state before the first heart beat -/
  j : s.live = true → s.mc = none → hbQueued s = true
  /-- nothing decided yet: a wake-up is pending even where everything else has come to rest -/
  k : Quiet s → hbQueued s = true ∨ s.timer = true

theorem quiet_strip (s : St α κ) : Quiet (strip s) ↔ Quiet s := Iff.rfl

theorem ready_strip (m : κ → α → Bool) (s : St α κ) (h : Undecided m s) : Ready m (strip s) :=
  ⟨⟨⟨h.inv.core.pinv, h.inv.core.nopt, h.inv.core.src, h.inv.core.dead⟩, h.inv.acc, h.inv.pend, h.inv.idle⟩,
   h.wake, h.fin, h.onlyHB, rfl, rfl⟩

theorem hbHarvest_strip (s : St α κ) (rs ms : Bool) : hbHarvest (strip s) rs ms = strip (hbHarvest s rs ms) := by
  unfold hbHarvest strip
  cases hmc : s.mc with
  | none => simp [hmc]
  | some r => cases ms <;> simp [hmc, harvest]

theorem restart_strip (s : St α κ) : restart (strip s) = strip (restart s) := by
  unfold restart strip readerDone
  simp only []
  split <;> rfl

theorem hbMain_strip (s : St α κ) (rd : Reads) : hbMain (strip s) rd = strip (hbMain s rd) := by
  unfold hbMain
  simp only [show readerDone (strip s) = readerDone s from rfl, show matcherStopped (strip s) = matcherStopped s from rfl,
    hbHarvest_strip]
  generalize hbHarvest s (rd.rs && readerDone s) (rd.ms && matcherStopped s) = s1
  simp only [show itemsConsumed (strip s1) = itemsConsumed s1 from rfl, show (strip s1).mc = s1.mc from rfl]
  cases h1 : (!(rd.rs && readerDone s && (rd.ic && itemsConsumed s1)) && s1.mc.isNone)
  · simp only [Bool.false_eq_true, if_false, show (strip s1).mc = s1.mc from rfl]
    split <;> rfl
  · simp only [if_true, restart_strip, show (strip (restart s1)).mc = (restart s1).mc from rfl]
    split <;> rfl

theorem hbSelect_strip (s : St α κ) (rd : Reads) : hbSelect (strip s) rd = strip s := by
  unfold hbSelect strip; simp

/-- the heart-beat handler, nothing decided before and after: it was `hbMain` -/
theorem handleHB_undecided (s : St α κ) (hd' : (handleHB s {}).decision = none) :
    handleHB s {} = hbMain s {} := by
  unfold handleHB hbSelect at *
  cases hf : (!(hbMain s {}).select1 && !(hbMain s {}).exit0)
  · simp only [hf, Bool.false_eq_true, if_false] at hd' ⊢
    cases hc : (({} : Reads).rs2 && readerDone (hbMain s {}) && (({} : Reads).ic2 && itemsConsumed (hbMain s {})) &&
        (hbMain s {}).mc.isNone)
    · simp only [hc, Bool.false_eq_true, if_false]
    · simp only [hc, if_true] at hd'
      exfalso
      unfold decide1 at hd'
      simp only [] at hd'
      split at hd'
      · cases hd'
      · split at hd' <;> cases hd'
  · simp only [if_true]

/-- an accurate heart beat that ends in a quiescent state with an option still on decides -/
theorem handleHB_quiet_decides (s : St α κ) (hopt : s.select1 = true ∨ s.exit0 = true)
    (hq : Quiet (hbMain s {})) : (handleHB s {}).decision ≠ none := by
  obtain ⟨⟨_, hb, hl⟩, hmc, htk⟩ := hq
  have o := hbMain_opts s {}
  unfold handleHB hbSelect
  have hf : (!(hbMain s {}).select1 && !(hbMain s {}).exit0) = false := by
    rw [o.2.1, o.2.2.1]; rcases hopt with h | h <;> simp [h]
  simp only [hf, Bool.false_eq_true, if_false]
  have c1 : itemsConsumed (hbMain s {}) = true := by simp [itemsConsumed, htk]
  have c2 : readerDone (hbMain s {}) = true := by simp [readerDone, hb, hl]
  simp only [c1, c2, hmc, Option.isNone_none, Bool.and_self, if_true]
  unfold decide1; simp only []
  split
  · simp
  · split <;> simp


/-- enabledness does not depend on the options -/
theorem step_strip_none (m : κ → α → Bool) (s : St α κ) (l : Label α κ) :
    step m (strip s) l = none ↔ step m s l = none := by
  cases l with
  | rPush => cases h0 : s.finished <;> cases hl : s.live <;> cases hu : s.unread <;> simp [step, stepWith, strip, h0, hl, hu]
  | rEnd => cases h0 : s.finished <;> cases hl : s.live <;> cases hu : s.unread <;> simp [step, stepWith, strip, h0, hl, hu]
  | tTake =>
    cases hmc : s.mc with
    | none => simp [step, stepWith, strip, hmc]
    | some r => cases hp : r.phase <;> simp [step, stepWith, strip, hmc, hp]
  | tPublish =>
    cases hmc : s.mc with
    | none => simp [step, stepWith, strip, hmc]
    | some r => cases hp : r.phase <;> simp [step, stepWith, strip, hmc, hp]
  | tStop =>
    cases hmc : s.mc with
    | none => simp [step, stepWith, strip, hmc]
    | some r => cases hp : r.phase <;> simp [step, stepWith, strip, hmc, hp]
  | timer => cases ht : s.timer <;> simp [step, stepWith, strip, ht]
  | user e => cases h0 : s.finished <;> simp [step, stepWith, strip, h0]
  | loop rd =>
    cases h0 : s.finished with
    | some b => simp [step, stepWith, strip, h0]
    | none =>
      cases hq : s.queue with
      | nil => simp [step, stepWith, strip, h0, hq]
      | cons e rest => cases e <;> simp [step, stepWith, strip, h0, hq]

/-- steps of the other threads commute with `strip` -/
theorem step_strip_foreign (m : κ → α → Bool) (s s' : St α κ) (l : Label α κ) (hl : clsOf Cls.M l = false)
    (hs : step m s l = some s') : step m (strip s) l = some (strip s') := by
  cases l with
  | loop rd => simp [clsOf] at hl
  | user e =>
    simp only [step, stepWith] at hs ⊢
    split at hs
    · cases hs
    · rename_i h0; cases hs
      simp only [strip] at *
      simp [h0]
  | rPush =>
    simp only [step, stepWith] at hs ⊢
    split at hs
    · cases hs
    · rename_i h0
      split at hs
      · rename_i x u h1 h2
        cases hs
        simp only [strip] at *
        simp [h0, h1, h2]
      · cases hs
  | rEnd =>
    simp only [step, stepWith] at hs ⊢
    split at hs
    · cases hs
    · rename_i h0
      split at hs
      · rename_i h1 h2
        cases hs
        simp only [strip] at *
        simp [h0, h1, h2]
      · cases hs
  | tTake =>
    simp only [step, stepWith] at hs ⊢
    split at hs
    · rename_i r hmc
      split at hs
      · rename_i hp
        cases hs
        simp only [strip] at *
        simp [hmc, hp]
      · cases hs
    · cases hs
  | tPublish =>
    simp only [step, stepWith] at hs ⊢
    split at hs
    · rename_i r hmc
      split at hs
      · rename_i hp
        cases hs
        simp only [strip] at *
        simp [hmc, hp]
      · cases hs
    · cases hs
  | tStop =>
    simp only [step, stepWith] at hs ⊢
    split at hs
    · rename_i r hmc
      split at hs
      · rename_i hp
        cases hs
        simp only [strip] at *
        simp [hmc, hp]
      · cases hs
    · cases hs
  | timer =>
    simp only [step, stepWith] at hs ⊢
    split at hs
    · rename_i ht
      cases hs
      simp only [strip] at *
      simp [ht]
    · cases hs


theorem decide1_decides (s : St α κ) : (decide1 s).decision ≠ none := by
  unfold decide1; simp only []
  split
  · simp
  · split <;> simp

/-- a step that decides nothing keeps the options -/
theorem opts_of_undecided_step (m : κ → α → Bool) (s s' : St α κ) (l : Label α κ) (hinv : Inv m s)
    (hd : s.decision = none) (hs : step m s l = some s') (hd' : s'.decision = none) :
    s'.select1 = s.select1 ∧ s'.exit0 = s.exit0 := by
  rcases decision_step m s s' l hinv hs with ⟨_, h2, h3, _⟩ | ⟨s3, _, _, _, _, _, rfl⟩
  · exact ⟨h2, h3⟩
  · exact absurd hd' (decide1_decides s3)

/-- an event-loop iteration that decides nothing is `hbMain`, and commutes with `strip` -/
theorem step_strip_loop (m : κ → α → Bool) (s s' : St α κ) (h : Undecided m s)
    (hs : step m s (.loop {}) = some s') (hd' : s'.decision = none) :
    s' = hbMain { s with queue := [] } {} ∧ step m (strip s) (.loop {}) = some (strip s') := by
  have hfin' : s.finished.isSome = false := by simp [h.fin]
  cases hq : s.queue with
  | nil => simp [step, stepWith, hfin', hq] at hs
  | cons e rest =>
    have hall := h.onlyHB
    rw [hq] at hall
    have hhb : hbQueued s = true := by
      cases e with
      | hb => simp [hbQueued, hq, Ev.isHB]
      | user u => simp [Ev.isHB] at hall
    obtain ⟨rest', hq', _, hd⟩ := all_hb_head s.queue h.onlyHB hhb
    have e1 : step m s (.loop {}) = some (handleHB { s with queue := [] } {}) := by
      simp only [step, stepWith, hfin', Bool.false_eq_true, if_false, hq', hd]
    rw [e1] at hs
    have e2 : s' = handleHB { s with queue := [] } {} := (Option.some.inj hs).symm
    have e3 : handleHB ({ s with queue := [] } : St α κ) {} = hbMain { s with queue := [] } {} := by
      apply handleHB_undecided; rw [← e2]; exact hd'
    refine ⟨e2.trans e3, ?_⟩
    have hr := ready_strip m s h
    have := step_loop_hb m (strip s) rest' hr.fin hq' hd hr.noSel
    rw [this, e2, e3]
    have : ({ strip s with queue := [] } : St α κ) = strip { s with queue := [] } := rfl
    rw [this, hbMain_strip]

/-- every step that decides nothing is a step of the system without the options -/
theorem step_strip (m : κ → α → Bool) (s s' : St α κ) (l : Label α κ) (h : Undecided m s) (hc : l.canon = true)
    (hs : step m s l = some s') (hd' : s'.decision = none) : step m (strip s) l = some (strip s') := by
  by_cases hM : clsOf Cls.M l = true
  · cases l with
    | loop rd =>
      have hrd : rd = {} := by simpa [Label.canon] using hc
      subst hrd
      exact (step_strip_loop m s s' h hs hd').2
    | _ => simp [clsOf] at hM
  · exact step_strip_foreign m s s' l (by simpa using hM) hs

theorem hbMain_live_mc (s : St α κ) (rd : Reads) (hl : (hbMain s rd).live = true) : (hbMain s rd).mc ≠ none := by
  have hl0 : s.live = true := by rw [← (hbMain_reader s rd).1]; exact hl
  have hrd : readerDone s = false := by simp [readerDone, hl0]
  unfold hbMain
  simp only [hrd, Bool.and_false, Bool.false_and, Bool.not_false, Bool.true_and, Bool.or_true, if_true]
  generalize hbHarvest s false (rd.ms && matcherStopped s) = s1
  cases hmc : s1.mc with
  | none =>
    simp only [Option.isNone_none, if_true]
    unfold restart; simp
  | some r => simp [hmc]

/-- `Undecided` is kept by every step that decides nothing -/
theorem undecided_step (m : κ → α → Bool) (s s' : St α κ) (l : Label α κ) (h : Undecided m s) (hc : l.canon = true)
    (hs : step m s l = some s') (hd' : s'.decision = none) : Undecided m s' := by
  have hss := step_strip m s s' l h hc hs hd'
  have hr' : Ready m (strip s') := ready_internal m (strip s) (strip s') l (ready_strip m s h) hc hss
  have hfin : s'.finished = none := hr'.fin
  have hq : s'.queue.all Ev.isHB = true := hr'.onlyHB
  obtain ⟨o1, o2⟩ := opts_of_undecided_step m s s' l h.inv h.dec hs hd'
  have hopt : s'.select1 = true ∨ s'.exit0 = true := by rw [o1, o2]; exact h.opt
  have hfin' : s.finished.isSome = false := by simp [h.fin]
  refine ⟨inv_step m s s' l h.inv hs, wake_step m s s' l h.wake hs hfin, hfin, hq, hd', hopt, ?_, ?_⟩
  · -- J
    intro hl hmc
    cases l with
    | user e => simp [Label.canon] at hc
    | rPush =>
      simp only [step, stepWith, hfin', Bool.false_eq_true, if_false] at hs
      split at hs
      · rename_i x u h1 h2
        cases hs
        exact h.j h1 hmc
      · cases hs
    | rEnd =>
      simp only [step, stepWith, hfin', Bool.false_eq_true, if_false] at hs
      split at hs
      · cases hs; cases hl
      · cases hs
    | tTake =>
      simp only [step, stepWith] at hs
      split at hs
      · split at hs
        · cases hs; cases hmc
        · cases hs
      · cases hs
    | tPublish =>
      simp only [step, stepWith] at hs
      split at hs
      · split at hs
        · cases hs; cases hmc
        · cases hs
      · cases hs
    | tStop =>
      simp only [step, stepWith] at hs
      split at hs
      · split at hs
        · cases hs; cases hmc
        · cases hs
      · cases hs
    | timer =>
      simp only [step, stepWith] at hs
      split at hs
      · cases hs; simp [hbQueued, Ev.isHB]
      · cases hs
    | loop rd =>
      have hrd : rd = {} := by simpa [Label.canon] using hc
      subst hrd
      obtain ⟨e, _⟩ := step_strip_loop m s s' h hs hd'
      rw [e] at hl hmc
      exact absurd hmc (hbMain_live_mc _ _ hl)
  · -- K
    intro hquiet
    obtain ⟨⟨hun, hb, hlv⟩, hmc, htk⟩ := hquiet
    cases l with
    | user e => simp [Label.canon] at hc
    | rPush =>
      simp only [step, stepWith, hfin', Bool.false_eq_true, if_false] at hs
      split at hs
      · cases hs; simp at hb
      · cases hs
    | rEnd =>
      simp only [step, stepWith, hfin', Bool.false_eq_true, if_false] at hs
      split at hs
      · rename_i h1 h2
        cases hs
        left; exact h.j h1 hmc
      · cases hs
    | tTake =>
      simp only [step, stepWith] at hs
      split at hs
      · split at hs
        · cases hs; cases hmc
        · cases hs
      · cases hs
    | tPublish =>
      simp only [step, stepWith] at hs
      split at hs
      · split at hs
        · cases hs; cases hmc
        · cases hs
      · cases hs
    | tStop =>
      simp only [step, stepWith] at hs
      split at hs
      · split at hs
        · cases hs; cases hmc
        · cases hs
      · cases hs
    | timer =>
      simp only [step, stepWith] at hs
      split at hs
      · cases hs; left; simp [hbQueued, Ev.isHB]
      · cases hs
    | loop rd =>
      have hrd : rd = {} := by simpa [Label.canon] using hc
      subst hrd
      obtain ⟨e, _⟩ := step_strip_loop m s s' h hs hd'
      -- the iteration ended in a quiescent state with an option on: it would have decided
      exfalso
      have hq0 : Quiet (hbMain ({ s with queue := [] } : St α κ) {}) := by
        rw [← e]; exact ⟨⟨hun, hb, hlv⟩, hmc, htk⟩
      have hfin0 : s.finished.isSome = false := hfin'
      obtain ⟨rest', hq', _, hd⟩ := all_hb_head s.queue h.onlyHB (by
        cases hqq : s.queue with
        | nil => simp [step, stepWith, hfin', hqq] at hs
        | cons e0 rest0 =>
          have hall := h.onlyHB; rw [hqq] at hall
          cases e0 with
          | hb => simp [hbQueued, hqq, Ev.isHB]
          | user u => simp [Ev.isHB] at hall)
      have e1 : step m s (.loop {}) = some (handleHB { s with queue := [] } {}) := by
        simp only [step, stepWith, hfin', Bool.false_eq_true, if_false, hq', hd]
      rw [e1] at hs
      have e2 : s' = handleHB { s with queue := [] } {} := (Option.some.inj hs).symm
      have := handleHB_quiet_decides ({ s with queue := [] } : St α κ) h.opt hq0
      rw [← e2] at this
      exact this hd'


theorem nu_quiet_le (s : St α κ) (hq : Quiet s) : nu s ≤ 1 := by
  obtain ⟨⟨_, hb, hl⟩, hmc, htk⟩ := hq
  have c : cls s = 0 := by simp [cls, hb, htk, hmc]
  have p : phaseRank s = 0 := by simp [phaseRank, hmc]
  have := tf_le s
  rw [nu_dead _ hl, c, p]; omega

theorem nu_nonquiet_ge (m : κ → α → Bool) (s : St α κ) (h : Ready m s) (hnq : ¬ Quiet s) : 2 ≤ nu s := by
  by_cases hlive : s.live = true
  · rw [nu_live _ hlive]; simp [readerWork, hlive]; omega
  · have hlive' : s.live = false := by simpa using hlive
    have hun : s.unread = [] := h.inv.core.dead hlive'
    rw [nu_dead _ hlive']
    have : 1 ≤ cls s := by
      unfold cls
      by_cases hb : s.buf.isEmpty = false
      · simp [hb]
      · have hb' : s.buf.isEmpty = true := by simpa using hb
        simp only [hb', Bool.true_eq_false, if_false]
        by_cases htk : s.pool.taken ≠ s.pool.pool.length
        · simp [htk]
        · have htk' : s.pool.taken = s.pool.pool.length := by simpa using htk
          cases hmc : s.mc with
          | some r => simp [htk']
          | none =>
            exfalso; apply hnq
            exact ⟨⟨hun, by simpa using hb', hlive'⟩, hmc, htk'⟩
    omega

/-- the timer firing in a state whose collector has finished: the measure decreases, or nothing but the queue changes -/
theorem timer_step_measure (s : St α κ) (hlive' : s.live = false) :
    nu (afterTimer s) < nu s ∨
      (clsOf (helpful s) (.timer : Label α κ) = false ∧ helpful (afterTimer s) = helpful s ∧ nu (afterTimer s) = nu s) := by
  have l1 : (afterTimer s).live = false := hlive'
  have c : cls (afterTimer s) = cls s := rfl
  have p : phaseRank (afterTimer s) = phaseRank s := rfl
  have tl : tLive (afterTimer s) = tLive s := rfl
  have hq1 : hbQueued (afterTimer s) = true := by simp [hbQueued, afterTimer, Ev.isHB]
  have t1 : tf (afterTimer s) = 0 := by simp [tf, hq1]
  by_cases t0 : tf s = 0
  · right
    have hor : (tLive s || hbQueued s) = true := by
      unfold tf at t0; split at t0
      · assumption
      · omega
    have hh : helpful s = if tLive s then .T else .M := by
      unfold helpful; rw [hlive']; simp only [Bool.false_eq_true, if_false]
      by_cases a : tLive s = true
      · simp [a]
      · have a' : tLive s = false := by simpa using a
        have b : hbQueued s = true := by simpa [a'] using hor
        simp [a', b]
    have hh' : helpful (afterTimer s) = if tLive s then .T else .M := by
      unfold helpful; rw [l1, tl, hq1]; simp
    refine ⟨?_, by rw [hh, hh'], ?_⟩
    · rw [hh]; split <;> rfl
    · rw [nu_dead _ hlive', nu_dead _ l1, c, p, t1, t0]
  · left
    have := tf_le s
    rw [nu_dead _ hlive', nu_dead _ l1, c, p, t1]; omega

/-- the step rule of `Fair.fair_reaches` for "a decision is taken" -/
theorem decide_step_rule (m : κ → α → Bool) (s s' : St α κ) (l : Label α κ) (h : Undecided m s)
    (hc : l.canon = true) (hs : step m s l = some s') :
    s'.decision ≠ none ∨ (Undecided m s' ∧ (nu (strip s') < nu (strip s) ∨
      (clsOf (helpful (strip s)) l = false ∧ helpful (strip s') = helpful (strip s) ∧ nu (strip s') = nu (strip s)))) := by
  by_cases hd' : s'.decision = none
  · right
    have hP' := undecided_step m s s' l h hc hs hd'
    have hss := step_strip m s s' l h hc hs hd'
    refine ⟨hP', ?_⟩
    by_cases hquiet : Quiet s
    · -- at rest: only the timer can move without deciding
      obtain ⟨⟨hun, hb, hlv⟩, hmc, htk⟩ := hquiet
      have hfin' : s.finished.isSome = false := by simp [h.fin]
      cases l with
      | user e => simp [Label.canon] at hc
      | rPush => simp [step, stepWith, hfin', hlv] at hs
      | rEnd => simp [step, stepWith, hfin', hlv] at hs
      | tTake => simp [step, stepWith, hmc] at hs
      | tPublish => simp [step, stepWith, hmc] at hs
      | tStop => simp [step, stepWith, hmc] at hs
      | timer =>
        by_cases ht : s.timer = true
        · rw [step_timer m s ht] at hs
          have e : s' = afterTimer s := (Option.some.inj hs).symm
          subst e
          exact timer_step_measure (strip s) hlv
        · simp [step, stepWith, ht] at hs
      | loop rd =>
        have hrd : rd = {} := by simpa [Label.canon] using hc
        subst hrd
        exfalso
        -- the iteration starts and ends at rest with an option on: it decides
        have hq0 : Quiet ({ s with queue := [] } : St α κ) := ⟨⟨hun, hb, hlv⟩, hmc, htk⟩
        obtain ⟨e, _⟩ := step_strip_loop m s s' h hs hd'
        have hqm : Quiet (hbMain ({ s with queue := [] } : St α κ) {}) := by rw [hbMain_quiet _ hq0]; exact hq0
        have hk := hP'.k (by rw [e]; exact hqm)
        -- redo the step: it is `handleHB`, which decides
        have hhb : hbQueued s = true := by
          cases hqq : s.queue with
          | nil => simp [step, stepWith, hfin', hqq] at hs
          | cons e0 rest0 =>
            have hall := h.onlyHB; rw [hqq] at hall
            cases e0 with
            | hb => simp [hbQueued, hqq, Ev.isHB]
            | user u => simp [Ev.isHB] at hall
        obtain ⟨rest', hq', _, hd⟩ := all_hb_head s.queue h.onlyHB hhb
        have e1 : step m s (.loop {}) = some (handleHB { s with queue := [] } {}) := by
          simp only [step, stepWith, hfin', Bool.false_eq_true, if_false, hq', hd]
        rw [e1] at hs
        have e2 : s' = handleHB { s with queue := [] } {} := (Option.some.inj hs).symm
        have := handleHB_quiet_decides ({ s with queue := [] } : St α κ) h.opt hqm
        rw [← e2] at this
        exact this hd'
    · have hnq' : ¬ Quiet (strip s) := hquiet
      rcases fair_step m (strip s) (strip s') l (ready_strip m s h) hnq' hc hss with h1 | h1 | h1
      · exact Or.inl h1
      · left
        have a := nu_quiet_le (strip s') h1
        have b := nu_nonquiet_ge m (strip s) (ready_strip m s h) hnq'
        omega
      · exact Or.inr h1
  · left; exact hd'

/-- while nothing is decided the helpful thread has an enabled step -/
theorem decide_enabled (m : κ → α → Bool) (s : St α κ) (h : Undecided m s) :
    ¬ Disabled (step m) (clsOf (helpful (strip s))) s := by
  intro hdis
  by_cases hquiet : Quiet s
  · obtain ⟨⟨hun, hb, hlv⟩, hmc, htk⟩ := hquiet
    have hl' : (strip s).live = false := hlv
    have htl : tLive (strip s) = false := by simp [tLive, strip, hmc]
    by_cases hhb : hbQueued s = true
    · have hh : helpful (strip s) = .M := by
        unfold helpful; rw [hl', htl]; simp [show hbQueued (strip s) = hbQueued s from rfl, hhb]
      rw [hh] at hdis
      have := hdis (.loop {}) rfl
      have hfin' : s.finished.isSome = false := by simp [h.fin]
      obtain ⟨rest', hq', _, hd⟩ := all_hb_head s.queue h.onlyHB hhb
      simp [step, stepWith, hfin', hq', hd] at this
    · have hhb' : hbQueued s = false := by simpa using hhb
      have hh : helpful (strip s) = .K := by
        unfold helpful; rw [hl', htl]; simp [show hbQueued (strip s) = hbQueued s from rfl, hhb']
      rw [hh] at hdis
      have ht : s.timer = true := by
        rcases h.k ⟨⟨hun, hb, hlv⟩, hmc, htk⟩ with h1 | h1
        · rw [hhb'] at h1; cases h1
        · exact h1
      have := hdis .timer rfl
      rw [step_timer m s ht] at this; cases this
  · have hnq' : ¬ Quiet (strip s) := hquiet
    apply helpful_enabled m (strip s) (ready_strip m s h) hnq'
    intro l hl
    exact (step_strip_none m s l).mpr (hdis l hl)

/-- with an option on and nothing decided yet, every keystroke-free, accurately reading, weakly fair execution decides -/
theorem fair_decides (m : κ → α → Bool) (e : Exec (step m)) (h0 : Undecided m (e.st 0))
    (hcanon : ∀ n, (e.lab n).canon = true) (hfair : FairExec m e) : ∃ n, (e.st n).decision ≠ none := by
  obtain ⟨n, _, hq⟩ := fair_reaches (step := step m) clsOf Label.canon (Undecided m) (fun s => s.decision ≠ none)
    (fun s => nu (strip s)) (fun s => helpful (strip s))
    (fun s l s' hP _ hok hs => decide_step_rule m s s' l hP hok hs)
    (fun s hP _ => decide_enabled m s hP) e hcanon hfair (nu (strip (e.st 0))) 0 h0 (Nat.le_refl _)
  exact ⟨n, hq⟩

end SkimModel.Session
