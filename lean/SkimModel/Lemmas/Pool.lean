import SkimModel.Model.Pool
import SkimModel.Model.SpinLock
namespace SkimModel.Pool
variable {α : Type}

/-- well-formedness of a pool state -/
structure Inv (p : Pool α) : Prop where
  taken_le : p.taken ≤ p.pool.length
  length_eq : p.length = p.pool.length
  res_le : p.reserved.length ≤ p.nres
  res_full : p.reserved.length < p.nres → p.pool = []

theorem inv_init (n : Nat) : Inv ({ nres := n } : Pool α) :=
  ⟨Nat.le_refl _, rfl, Nat.zero_le _, fun _ => rfl⟩

theorem append_nres (p : Pool α) (xs : List α) : (p.append xs).1.nres = p.nres := by
  unfold Pool.append; simp only []; split <;> rfl

theorem append_taken (p : Pool α) (xs : List α) : (p.append xs).1.taken = p.taken := by
  unfold Pool.append; simp only []; split <;> rfl

/-- what append does to `reserved ++ pool` : it appends the batch, whatever the split -/
theorem append_all (p : Pool α) (xs : List α) (h : Inv p) :
    (p.append xs).1.reserved ++ (p.append xs).1.pool = p.reserved ++ p.pool ++ xs := by
  unfold Pool.append; simp only []
  split
  · rename_i hpos
    have hlt : p.reserved.length < p.nres := by omega
    simp [h.res_full hlt]
  · simp

theorem append_reserved_len (p : Pool α) (xs : List α) (h : Inv p) :
    (p.append xs).1.reserved.length = min p.nres (p.reserved.length + p.pool.length + xs.length) := by
  unfold Pool.append; simp only []
  have := h.res_le
  split
  · rename_i hpos
    have hlt : p.reserved.length < p.nres := by omega
    simp [h.res_full hlt, List.length_take]; omega
  · simp; omega

theorem append_pool_prefix (p : Pool α) (xs : List α) : ∃ ys, (p.append xs).1.pool = p.pool ++ ys := by
  unfold Pool.append; simp only []
  split
  · exact ⟨_, rfl⟩
  · exact ⟨_, rfl⟩

theorem append_inv (p : Pool α) (xs : List α) (h : Inv p) : Inv (p.append xs).1 := by
  have hres := append_reserved_len p xs h
  obtain ⟨ys, hys⟩ := append_pool_prefix p xs
  refine ⟨?_, ?_, ?_, ?_⟩
  · rw [append_taken, hys]; have := h.taken_le; simp only [List.length_append]; omega
  · unfold Pool.append; simp only []
  · rw [hres, append_nres]; omega
  · rw [hres, append_nres]
    intro hlt
    have hl : (p.append xs).1.reserved.length + (p.append xs).1.pool.length =
        p.reserved.length + p.pool.length + xs.length := by
      have := congrArg List.length (append_all p xs h); simp only [List.length_append] at this; omega
    have : (p.append xs).1.pool.length = 0 := by omega
    exact List.eq_nil_of_length_eq_zero this

theorem step_inv (p : Pool α) (o : Op α) (h : Inv p) : Inv (step p o).1 := by
  cases o with
  | append xs => exact append_inv p xs h
  | take => exact ⟨Nat.le_refl _, h.length_eq, h.res_le, h.res_full⟩
  | reset => exact ⟨Nat.zero_le _, h.length_eq, h.res_le, h.res_full⟩
  | clear => exact ⟨Nat.le_refl _, rfl, Nat.zero_le _, fun _ => rfl⟩
  | len => exact h
  | numTaken => exact h
  | numNotTaken => exact h
  | reserved => exact h

theorem runState_inv (p : Pool α) (ops : List (Op α)) (h : Inv p) : Inv (runState p ops) := by
  induction ops generalizing p with
  | nil => exact h
  | cons o os ih => exact ih _ (step_inv p o h)

theorem run_state (p : Pool α) (ops : List (Op α)) : (run p ops).1 = runState p ops := by
  induction ops generalizing p with
  | nil => rfl
  | cons o os ih => simp only [run, runState, List.foldl_cons]; exact ih _

/-! ### the pool as a sequential object with a ghost history -/

/-- pool + ghost history: what arrived since the last clear, what the takes since the last
    reset/clear returned -/
structure G (α : Type) where
  p     : Pool α
  arr   : List α := []
  takes : List (Nat × List α) := []

def gstep (g : G α) (o : Op α) : G α :=
  let p' := (step g.p o).1
  match o with
  | .append xs => { g with p := p', arr := g.arr ++ xs }
  | .take => { g with p := p', takes := g.takes ++ [(g.p.take).2] }
  | .reset => { g with p := p', takes := [] }
  | .clear => { p := p', arr := [], takes := [] }
  | _ => { g with p := p' }

def grun (n : Nat) (ops : List (Op α)) : G α := ops.foldl gstep { p := { nres := n } }

/-- the ghost run is the real run plus bookkeeping -/
theorem grun_p (n : Nat) (ops : List (Op α)) : (grun n ops).p = runState { nres := n } ops := by
  unfold grun runState
  have : ∀ (g : G α), (ops.foldl gstep g).p = ops.foldl (fun s o => (step s o).1) g.p := by
    induction ops with
    | nil => intro g; rfl
    | cons o os ih => intro g; simp only [List.foldl_cons]; rw [ih]; cases o <;> rfl
  exact this _

/-- consecutive takes chain: each starts where the previous one ended -/
inductive Chain : Nat → List (Nat × List α) → Nat → Prop
  | nil (s : Nat) : Chain s [] s
  | cons (s : Nat) (xs : List α) (rest : List (Nat × List α)) (e : Nat) :
      Chain (s + xs.length) rest e → Chain s ((s, xs) :: rest) e

theorem Chain.snoc {s e : Nat} {ts : List (Nat × List α)} (h : Chain s ts e) (xs : List α) :
    Chain s (ts ++ [(e, xs)]) (e + xs.length) := by
  induction h with
  | nil s => exact .cons s xs [] _ (.nil _)
  | cons s ys rest e _ ih => exact .cons s ys _ _ ih

structure GInv (g : G α) : Prop where
  inv : Inv g.p
  all : g.p.reserved ++ g.p.pool = g.arr
  reslen : g.p.reserved.length = min g.p.nres g.arr.length
  flat : (g.takes.map (·.2)).flatten = g.p.pool.take g.p.taken
  chain : Chain 0 g.takes g.p.taken

theorem gstep_inv (g : G α) (o : Op α) (h : GInv g) : GInv (gstep g o) := by
  cases o with
  | append xs =>
    have hi := append_inv g.p xs h.inv
    obtain ⟨ys, hys⟩ := append_pool_prefix g.p xs
    refine ⟨hi, ?_, ?_, ?_, ?_⟩
    · show (g.p.append xs).1.reserved ++ (g.p.append xs).1.pool = g.arr ++ xs
      rw [append_all g.p xs h.inv, h.all]
    · show (g.p.append xs).1.reserved.length = min (g.p.append xs).1.nres (g.arr ++ xs).length
      rw [append_reserved_len g.p xs h.inv, append_nres, ← h.all]; simp [Nat.add_assoc]
    · show (g.takes.map (·.2)).flatten = (g.p.append xs).1.pool.take (g.p.append xs).1.taken
      rw [append_taken, hys, List.take_append_of_le_length h.inv.taken_le]; exact h.flat
    · show Chain 0 g.takes (g.p.append xs).1.taken
      rw [append_taken]; exact h.chain
  | take =>
    refine ⟨step_inv g.p .take h.inv, h.all, h.reslen, ?_, ?_⟩
    · show ((g.takes ++ [(g.p.taken, g.p.pool.drop g.p.taken)]).map (·.2)).flatten = g.p.pool.take g.p.pool.length
      simp [h.flat]
    · show Chain 0 (g.takes ++ [(g.p.taken, g.p.pool.drop g.p.taken)]) g.p.pool.length
      have := h.chain.snoc (g.p.pool.drop g.p.taken)
      have e : g.p.taken + (g.p.pool.drop g.p.taken).length = g.p.pool.length := by
        have := h.inv.taken_le; simp; omega
      rw [e] at this; exact this
  | reset =>
    exact ⟨step_inv g.p .reset h.inv, h.all, h.reslen, by simp [gstep, step, Pool.reset], .nil 0⟩
  | clear =>
    exact ⟨step_inv g.p .clear h.inv, rfl, by simp [gstep, step, Pool.clear], by simp [gstep, step, Pool.clear], .nil 0⟩
  | len => exact h
  | numTaken => exact h
  | numNotTaken => exact h
  | reserved => exact h

theorem grun_inv (n : Nat) (ops : List (Op α)) : GInv (grun n ops) := by
  unfold grun
  have h0 : GInv ({ p := { nres := n } } : G α) :=
    ⟨inv_init n, rfl, by simp, by simp, .nil 0⟩
  generalize ({ p := { nres := n } } : G α) = g0 at h0
  induction ops generalizing g0 with
  | nil => exact h0
  | cons o os ih => exact ih _ (gstep_inv g0 o h0)


end SkimModel.Pool

namespace SkimModel.SpinLock

/-- invariant of the N-thread spin lock system -/
structure LInv (s : St) : Prop where
  excl : ∀ (i j : Nat) (a b : PC), s.pcs[i]? = some a → s.pcs[j]? = some b → a.inCS = true → b.inCS = true → i = j
  held : s.locked = true ↔ ∃ (i : Nat) (a : PC), s.pcs[i]? = some a ∧ a.inCS = true
  free : s.locked = false → s.data = s.done
  rd : ∀ (i : Nat), s.pcs[i]? = some PC.csRead → s.data = s.done
  wr : ∀ (i t : Nat), s.pcs[i]? = some (PC.csWrite t) → t = s.done ∧ s.data = s.done
  dn : ∀ (i : Nat), s.pcs[i]? = some PC.csDone → s.data = s.done + 1

theorem linv_init (n : Nat) : LInv (init n) := by
  have hget : ∀ (i : Nat) (a : PC), (init n).pcs[i]? = some a → a = PC.idle := by
    intro i a h
    simp only [init, List.getElem?_replicate] at h
    split at h <;> simp_all
  refine ⟨?_, ?_, ?_, ?_, ?_, ?_⟩
  · intro i j a b ha _ hia; rw [hget i a ha] at hia; simp [PC.inCS] at hia
  · constructor
    · intro h; simp [init] at h
    · rintro ⟨i, a, ha, hia⟩; rw [hget i a ha] at hia; simp [PC.inCS] at hia
  · intro _; rfl
  · intro i h; have := hget i _ h; simp at this
  · intro i t h; have := hget i _ h; simp at this
  · intro i h; have := hget i _ h; simp at this

theorem getElem?_set' (l : List PC) (i j : Nat) (a : PC) (hi : i < l.length) :
    (l.set i a)[j]? = if i = j then some a else l[j]? := by
  rw [List.getElem?_set]; split
  · simp [hi]
  · rfl

theorem step_linv (s : St) (k : Nat) (h : LInv s) : LInv (step s k) := by
  unfold step
  cases hk : s.pcs[k]? with
  | none => simpa [hk] using h
  | some pc =>
    have hklt : k < s.pcs.length := by
      rcases Nat.lt_or_ge k s.pcs.length with h1 | h1
      · exact h1
      · rw [List.getElem?_eq_none h1] at hk; cases hk
    cases pc with
    | idle =>
      simp only []
      by_cases hl : s.locked = true
      · simp [hl]; exact h
      · simp only [hl, Bool.false_eq_true, if_false]
        have hl' : s.locked = false := by simpa using hl
        have nocs : ∀ (i : Nat) (a : PC), s.pcs[i]? = some a → a.inCS = false := by
          intro i a ha
          cases hcs : a.inCS with
          | false => rfl
          | true => exact absurd (h.held.mpr ⟨i, a, ha, hcs⟩) hl
        refine ⟨?_, ?_, ?_, ?_, ?_, ?_⟩
        · intro i j a b ha hb hia hjb
          simp only [getElem?_set' _ _ _ _ hklt] at ha hb
          split at ha <;> split at hb
          · omega
          · rw [nocs j b hb] at hjb; cases hjb
          · rw [nocs i a ha] at hia; cases hia
          · rw [nocs j b hb] at hjb; cases hjb
        · constructor
          · intro _; exact ⟨k, .csRead, by simp [getElem?_set' _ _ _ _ hklt], rfl⟩
          · intro _; rfl
        · intro hf; cases hf
        · intro i _; exact h.free hl'
        · intro i t hi
          simp only [getElem?_set' _ _ _ _ hklt] at hi
          split at hi
          · cases hi
          · have := nocs i _ hi; simp [PC.inCS] at this
        · intro i hi
          simp only [getElem?_set' _ _ _ _ hklt] at hi
          split at hi
          · cases hi
          · have := nocs i _ hi; simp [PC.inCS] at this
    | csRead =>
      simp only []
      have only : ∀ (i : Nat) (a : PC), s.pcs[i]? = some a → a.inCS = true → i = k :=
        fun i a ha hia => h.excl i k a .csRead ha hk hia rfl
      refine ⟨?_, ?_, ?_, ?_, ?_, ?_⟩
      · intro i j a b ha hb hia hjb
        simp only [getElem?_set' _ _ _ _ hklt] at ha hb
        split at ha <;> split at hb
        · omega
        · rename_i h1 h2; exact absurd (only j b hb hjb).symm h2
        · rename_i h1 h2; exact absurd (only i a ha hia).symm h1
        · exact h.excl i j a b ha hb hia hjb
      · constructor
        · intro _; exact ⟨k, _, by simp only [getElem?_set' _ _ _ _ hklt, if_true]; rfl, rfl⟩
        · intro _; exact h.held.mpr ⟨k, _, hk, rfl⟩
      · intro hf; exact h.free hf
      · intro i hi
        simp only [getElem?_set' _ _ _ _ hklt] at hi
        split at hi
        · cases hi
        · exact h.rd i hi
      · intro i t hi
        simp only [getElem?_set' _ _ _ _ hklt] at hi
        split at hi
        · cases hi; exact ⟨h.rd k hk, h.rd k hk⟩
        · exact h.wr i t hi
      · intro i hi
        simp only [getElem?_set' _ _ _ _ hklt] at hi
        split at hi
        · cases hi
        · exact h.dn i hi
    | csWrite t =>
      simp only []
      have only : ∀ (i : Nat) (a : PC), s.pcs[i]? = some a → a.inCS = true → i = k :=
        fun i a ha hia => h.excl i k a (.csWrite t) ha hk hia rfl
      have ht := h.wr k t hk
      refine ⟨?_, ?_, ?_, ?_, ?_, ?_⟩
      · intro i j a b ha hb hia hjb
        simp only [getElem?_set' _ _ _ _ hklt] at ha hb
        split at ha <;> split at hb
        · omega
        · rename_i h1 h2; exact absurd (only j b hb hjb).symm h2
        · rename_i h1 h2; exact absurd (only i a ha hia).symm h1
        · exact h.excl i j a b ha hb hia hjb
      · constructor
        · intro _; exact ⟨k, _, by simp only [getElem?_set' _ _ _ _ hklt, if_true]; rfl, rfl⟩
        · intro _; exact h.held.mpr ⟨k, _, hk, rfl⟩
      · intro hf
        have : s.locked = true := h.held.mpr ⟨k, _, hk, rfl⟩
        rw [this] at hf; cases hf
      · intro i hi
        simp only [getElem?_set' _ _ _ _ hklt] at hi
        split at hi
        · cases hi
        · have := only i _ hi rfl; omega
      · intro i t' hi
        simp only [getElem?_set' _ _ _ _ hklt] at hi
        split at hi
        · cases hi
        · have := only i _ hi rfl; omega
      · intro i _; show t + 1 = s.done + 1; rw [ht.1]
    | csDone =>
      simp only []
      have hl : s.locked = true := h.held.mpr ⟨k, _, hk, rfl⟩
      simp only [hl, if_true]
      have only : ∀ (i : Nat) (a : PC), s.pcs[i]? = some a → a.inCS = true → i = k :=
        fun i a ha hia => h.excl i k a .csDone ha hk hia rfl
      have hd := h.dn k hk
      have nocs : ∀ (i : Nat) (a : PC), (s.pcs.set k .idle)[i]? = some a → a.inCS = false := by
        intro i a ha
        simp only [getElem?_set' _ _ _ _ hklt] at ha
        split at ha
        · cases ha; rfl
        · cases hcs : a.inCS with
          | false => rfl
          | true => have := only i a ha hcs; omega
      refine ⟨?_, ?_, ?_, ?_, ?_, ?_⟩
      · intro i j a b ha hb hia; rw [nocs i a ha] at hia; cases hia
      · constructor
        · intro hf; cases hf
        · rintro ⟨i, a, ha, hia⟩; rw [nocs i a ha] at hia; cases hia
      · intro _; exact hd
      · intro i hi; have := nocs i _ hi; simp [PC.inCS] at this
      · intro i t hi; have := nocs i _ hi; simp [PC.inCS] at this
      · intro i hi; have := nocs i _ hi; simp [PC.inCS] at this

theorem run_linv (n : Nat) (sched : List Nat) : LInv (run (init n) sched) := by
  unfold run
  have h0 := linv_init n
  generalize init n = s0 at h0
  induction sched generalizing s0 with
  | nil => exact h0
  | cons k ks ih => exact ih _ (step_linv s0 k h0)


end SkimModel.SpinLock
