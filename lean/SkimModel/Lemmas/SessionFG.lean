import SkimModel.Model.SessionFG
import SkimModel.Lemmas.Session
namespace SkimModel.Session
open SkimModel.Pool
variable {α κ : Type}

/-- the coarse handler with accurate reads is the composition of the micro-steps (no interleaving) -/
theorem hbMain_eq_micro (s : St α κ) (rd : Reads) :
    hbMain s rd =
      hbFinish (hbHarvest s (rd.rs && readerDone s) (rd.ms && matcherStopped s)) (rd.rs && readerDone s)
        (rd.ic && itemsConsumed (hbHarvest s (rd.rs && readerDone s) (rd.ms && matcherStopped s))) := rfl

def Label.isLoop : Label α κ → Bool
  | .loop _ => true
  | _ => false

/-- facts that hold between the harvest and the end of act_heart_beat -/
structure Mid (m : κ → α → Bool) (rs : Bool) (s : St α κ) : Prop where
  core : Core s
  none_ : s.mc = none →
    (eff s).Perm (hitsFrom m s.q 0 (s.pool.pool.take s.pool.taken)) ∧
    (s.noClearIfEmpty = false → s.clear ≠ .dont → rs = false) ∧
    s.pool.taken = s.pool.pool.length
  some_ : s.mc ≠ none → Inv m s

/-- the harvest step, from a state satisfying the invariant, with a sound `stopped` reading -/
theorem mid_of_harvest (m : κ → α → Bool) (s : St α κ) (rs ms : Bool) (h : Inv m s)
    (hms : ms = true → matcherStopped s = true) : Mid m rs (hbHarvest s rs ms) := by
  cases hmsv : ms with
  | false =>
    have e : hbHarvest s rs false = s := by unfold hbHarvest; split <;> simp_all
    rw [e]
    refine ⟨h.core, ?_, fun _ => h⟩
    intro hn
    refine ⟨?_, ?_, h.idle hn⟩
    · have := h.acc; unfold Acc at this; rw [hn] at this; exact this
    · intro hnce hcl; exact absurd hn (h.pend hnce hcl)
  | true =>
    obtain ⟨r, hmc, hp⟩ := matcherStopped_spec s (hms hmsv)
    have e : hbHarvest s rs true = harvest s r rs := by unfold hbHarvest; rw [hmc]
    rw [e]
    obtain ⟨hc, hacc, hpend, htk⟩ := harvest_acc m s r rs h hmc hp
    exact ⟨hc, fun _ => ⟨hacc, hpend, htk⟩, fun hne => absurd rfl hne⟩

/-- the end of act_heart_beat re-establishes the invariant, whatever `ic` was read -/
theorem inv_of_finish (m : κ → α → Bool) (s : St α κ) (rs ic : Bool) (hm : Mid m rs s) :
    Inv m (hbFinish s rs ic) := by
  unfold hbFinish
  simp only []
  have inv2 : Inv m (if (!(rs && ic) && s.mc.isNone) = true then restart s else s) := by
    by_cases hmc1 : s.mc = none
    · obtain ⟨hacc, hpend, htk1⟩ := hm.none_ hmc1
      by_cases hproc : (rs && ic) = true
      · simp only [hproc, Bool.not_true, Bool.false_and, Bool.false_eq_true, if_false]
        refine ⟨hm.core, ?_, ?_, fun _ => htk1⟩
        · unfold Acc; rw [hmc1]; exact hacc
        · intro hnce hcl
          have := hpend hnce hcl
          simp only [Bool.and_eq_true] at hproc
          rw [this] at hproc; simp at hproc
      · have : (rs && ic) = false := by simpa using hproc
        simp only [this, Bool.not_false, Bool.true_and, hmc1, Option.isNone_none, if_true]
        exact inv_restart m s hm.core hmc1 hacc
    · have : s.mc.isNone = false := by
        cases hh : s.mc with
        | none => exact absurd hh hmc1
        | some r => rfl
      simp only [this, Bool.and_false, Bool.false_eq_true, if_false]
      exact hm.some_ hmc1
  generalize (if (!(rs && ic) && s.mc.isNone) = true then restart s else s) = s2 at inv2
  split
  · exact inv_transfer m s2 _ inv2 rfl rfl rfl rfl rfl rfl rfl rfl rfl rfl rfl
  · exact inv2


/-- what a step of another thread can change -/
theorem foreign_frame (m : κ → α → Bool) (s s' : St α κ) (l : Label α κ) (hl : l.isLoop = false)
    (hs : step m s l = some s') :
    (s'.mc = none ↔ s.mc = none) ∧ s'.decision = s.decision ∧ s'.select1 = s.select1 ∧ s'.exit0 = s.exit0 ∧
    s'.noClearIfEmpty = s.noClearIfEmpty ∧ s'.finished = s.finished ∧ s'.q = s.q ∧ s'.clear = s.clear ∧
    s'.list = s.list ∧ s'.numOptions = s.numOptions ∧ s'.source = s.source ∧
    (s.mc = none → s'.pool = s.pool) := by
  cases l with
  | loop rd => simp [Label.isLoop] at hl
  | rPush => simp only [step, stepWith] at hs; split at hs <;> try cases hs
             split at hs <;> cases hs
             exact ⟨Iff.rfl, rfl, rfl, rfl, rfl, rfl, rfl, rfl, rfl, rfl, rfl, fun _ => rfl⟩
  | rEnd => simp only [step, stepWith] at hs; split at hs <;> try cases hs
            split at hs <;> cases hs
            exact ⟨Iff.rfl, rfl, rfl, rfl, rfl, rfl, rfl, rfl, rfl, rfl, rfl, fun _ => rfl⟩
  | tTake =>
    simp only [step, stepWith] at hs
    split at hs
    · rename_i r hmc
      split at hs
      · cases hs
        exact ⟨by simp [hmc], rfl, rfl, rfl, rfl, rfl, rfl, rfl, rfl, rfl, rfl, fun h => by rw [hmc] at h; cases h⟩
      · cases hs
    · cases hs
  | tPublish =>
    simp only [step, stepWith] at hs
    split at hs
    · rename_i r hmc
      split at hs
      · cases hs
        exact ⟨by simp [hmc], rfl, rfl, rfl, rfl, rfl, rfl, rfl, rfl, rfl, rfl, fun _ => rfl⟩
      · cases hs
    · cases hs
  | tStop =>
    simp only [step, stepWith] at hs
    split at hs
    · rename_i r hmc
      split at hs
      · cases hs
        exact ⟨by simp [hmc], rfl, rfl, rfl, rfl, rfl, rfl, rfl, rfl, rfl, rfl, fun _ => rfl⟩
      · cases hs
    · cases hs
  | timer => simp only [step, stepWith] at hs; split at hs <;> cases hs
             exact ⟨Iff.rfl, rfl, rfl, rfl, rfl, rfl, rfl, rfl, rfl, rfl, rfl, fun _ => rfl⟩
  | user e => simp only [step, stepWith] at hs; split at hs <;> cases hs
              exact ⟨Iff.rfl, rfl, rfl, rfl, rfl, rfl, rfl, rfl, rfl, rfl, rfl, fun _ => rfl⟩

/-- `Core` is preserved by the steps of the other threads when no matcher run exists (only the reader, the timer and
    the input thread can move then) -/
theorem foreign_core_none (m : κ → α → Bool) (s s' : St α κ) (l : Label α κ) (hl : l.isLoop = false)
    (hs : step m s l = some s') (hmc : s.mc = none) (hc : Core s) : Core s' := by
  cases l with
  | loop rd => simp [Label.isLoop] at hl
  | rPush =>
    simp only [step, stepWith] at hs
    split at hs
    · cases hs
    · split at hs
      · rename_i x u hlv hu
        cases hs
        refine ⟨hc.pinv, hc.nopt, ?_, ?_⟩
        · show s.pool.reserved ++ s.pool.pool ++ (s.buf ++ [x]) ++ u = s.source
          rw [← hc.src, hu]; simp
        · intro hl'; rw [hlv] at hl'; cases hl'
      · cases hs
  | rEnd =>
    simp only [step, stepWith] at hs
    split at hs
    · cases hs
    · split at hs
      · rename_i hlv hu
        cases hs
        exact ⟨hc.pinv, hc.nopt, hc.src, fun _ => hu⟩
      · cases hs
  | tTake => simp only [step, stepWith, hmc] at hs; cases hs
  | tPublish => simp only [step, stepWith, hmc] at hs; cases hs
  | tStop => simp only [step, stepWith, hmc] at hs; cases hs
  | timer => simp only [step, stepWith] at hs; split at hs <;> cases hs
             exact ⟨hc.pinv, hc.nopt, hc.src, hc.dead⟩
  | user e => simp only [step, stepWith] at hs; split at hs <;> cases hs
              exact ⟨hc.pinv, hc.nopt, hc.src, hc.dead⟩

theorem foreign_mid (m : κ → α → Bool) (rs : Bool) (s s' : St α κ) (l : Label α κ) (hl : l.isLoop = false)
    (hs : step m s l = some s') (hm : Mid m rs s) : Mid m rs s' := by
  obtain ⟨f1, _, _, _, f5, _, f7, f8, f9, _, _, f12⟩ := foreign_frame m s s' l hl hs
  by_cases hmc : s.mc = none
  · have hmc' : s'.mc = none := f1.mpr hmc
    obtain ⟨a1, a2, a3⟩ := hm.none_ hmc
    have hp := f12 hmc
    have he : eff s' = eff s := by simp [eff, f8, f9]
    refine ⟨foreign_core_none m s s' l hl hs hmc hm.core, fun _ => ⟨?_, ?_, ?_⟩, fun h => absurd hmc' h⟩
    · rw [he, f7, hp]; exact a1
    · rw [f5, f8]; exact a2
    · rw [hp]; exact a3
  · have hi := inv_step m s s' l (hm.some_ hmc) hs
    have hmc' : s'.mc ≠ none := fun h => hmc (f1.mp h)
    exact ⟨hi.core, fun h => absurd h hmc', fun _ => hi⟩

/-- `taken = length` is monotone under foreign steps (no invariant needed) -/
theorem foreign_consumed (m : κ → α → Bool) (s s' : St α κ) (l : Label α κ) (hl : l.isLoop = false)
    (hs : step m s l = some s') : itemsConsumed s = true → itemsConsumed s' = true := by
  intro h
  cases l with
  | loop rd => simp [Label.isLoop] at hl
  | tTake =>
    simp only [step, stepWith] at hs
    split at hs
    · split at hs
      · cases hs; simp [itemsConsumed, Pool.take]
      · cases hs
    · cases hs
  | rPush => simp only [step, stepWith] at hs; split at hs <;> try cases hs
             split at hs <;> cases hs; exact h
  | rEnd => simp only [step, stepWith] at hs; split at hs <;> try cases hs
            split at hs <;> cases hs; exact h
  | tPublish => simp only [step, stepWith] at hs; split at hs <;> try cases hs
                split at hs <;> cases hs; exact h
  | tStop => simp only [step, stepWith] at hs; split at hs <;> try cases hs
             split at hs <;> cases hs; exact h
  | timer => simp only [step, stepWith] at hs; split at hs <;> cases hs; exact h
  | user e => simp only [step, stepWith] at hs; split at hs <;> cases hs; exact h

end SkimModel.Session
