/-
Helper lemmas for C04 (parser model).
-/
import SkimModel.Spec.Query
namespace SkimModel.Engine
/-- a term with its blanks replaced by the mask character -/
def nul (t : List Char) : List Char := t.map (fun c => if c = ' ' then Char.ofNat 0 else c)

theorem mask_cons_of (c : Char) (r : List Char) (h : c ≠ '\\' ∨ r.head? ≠ some ' ') :
    mask (c :: r) = c :: mask r := by
  rw [mask.eq_def]
  split
  · rename_i heq
    simp only [List.cons.injEq] at heq
    rcases h with h | h
    · exact absurd heq.1 h
    · rw [heq.2] at h; simp at h
  · rename_i heq
    simp only [List.cons.injEq] at heq
    rw [heq.1, heq.2]
  · rename_i heq; cases heq

theorem mask_esc_sp (r : List Char) : mask ('\\' :: ' ' :: r) = Char.ofNat 0 :: mask r := by
  rw [mask]

theorem esc_cons (c : Char) (r : List Char) :
    esc (c :: r) = (if c = ' ' then ['\\', ' '] else [c]) ++ esc r := by
  simp [esc]

theorem esc_append_head (r rest : List Char) (h : r ≠ [] ∨ rest.head? ≠ some ' ') :
    (esc r ++ rest).head? ≠ some ' ' := by
  cases r with
  | nil => simpa [esc] using h
  | cons d r' =>
    rw [esc_cons]
    by_cases hd : d = ' '
    · simp [hd]
    · simp [hd]

theorem mask_esc_append (t rest : List Char) (h : t.getLast? ≠ some '\\' ∨ rest.head? ≠ some ' ') :
    mask (esc t ++ rest) = nul t ++ mask rest := by
  induction t with
  | nil => simp [esc, nul]
  | cons c r ih =>
    have hr : r.getLast? ≠ some '\\' ∨ rest.head? ≠ some ' ' := by
      rcases h with h | h
      · cases r with
        | nil => left; simp
        | cons d r' => left; simpa [List.getLast?_cons_cons] using h
      · right; exact h
    rw [esc_cons]
    by_cases hc : c = ' '
    · subst hc
      simp only [if_true, List.cons_append, List.nil_append]
      rw [mask_esc_sp, ih hr]
      simp [nul]
    · simp only [hc, if_false, List.cons_append, List.nil_append]
      rw [mask_cons_of, ih hr]
      · simp [nul, hc]
      · by_cases hb : c = '\\'
        · right
          apply esc_append_head
          cases r with
          | nil =>
            right
            rcases h with h | h
            · simp [hb] at h
            · exact h
          | cons d r' => left; simp
        · left; exact hb

theorem mask_sp_append (n : Nat) (rest : List Char) : mask (sp n ++ rest) = sp n ++ mask rest := by
  induction n with
  | zero => simp [sp]
  | succ n ih =>
    have : sp (n + 1) = ' ' :: sp n := by simp [sp, List.replicate_succ]
    rw [this, List.cons_append, mask_cons_of _ _ (Or.inl (by decide)), ih, List.cons_append]

theorem mask_bar (rest : List Char) : mask ('|' :: rest) = '|' :: mask rest :=
  mask_cons_of _ _ (Or.inl (by decide))

theorem unmask_nul (t : List Char) (h : Char.ofNat 0 ∉ t) : unmask (nul t) = t := by
  induction t with
  | nil => rfl
  | cons c r ih =>
    simp only [List.mem_cons, not_or] at h
    simp only [unmask, nul, List.map_cons, List.map_map] at ih ⊢
    rw [ih h.2]
    by_cases hc : c = ' '
    · simp [hc]
    · have : ¬ c = Char.ofNat 0 := fun e => h.1 e.symm
      simp [hc, this]


/-- a masked word: non-empty, no blank, no bar at either end -/
def CW (w : List Char) : Prop :=
  w ≠ [] ∧ (∀ c ∈ w, c ≠ ' ') ∧ w.head? ≠ some '|' ∧ w.getLast? ≠ some '|'

theorem sp_succ (n : Nat) : sp (n + 1) = ' ' :: sp n := by simp [sp, List.replicate_succ]

theorem sp_reverse (n : Nat) : (sp n).reverse = sp n := by simp [sp]

theorem sp_append_cons (n : Nat) (l : List Char) : sp n ++ ' ' :: l = ' ' :: (sp n ++ l) := by
  induction n with
  | zero => simp [sp]
  | succ n ih => rw [sp_succ, List.cons_append, ih, List.cons_append]

/-! #### trimSB -/

theorem dropWhile_sp_append (n : Nat) (m : List Char) :
    (sp n ++ m).dropWhile isSpBar = m.dropWhile isSpBar := by
  induction n with
  | zero => simp [sp]
  | succ n ih => rw [sp_succ, List.cons_append, List.dropWhile_cons]; simp [isSpBar, ih]

theorem dropWhile_isSp_sp_append (n : Nat) (m : List Char) :
    (sp n ++ m).dropWhile isSp = m.dropWhile isSp := by
  induction n with
  | zero => simp [sp]
  | succ n ih => rw [sp_succ, List.cons_append, List.dropWhile_cons]; simp [isSp, ih]

theorem dropWhile_of_head (p : Char → Bool) (m : List Char) (h : ∀ c, m.head? = some c → p c = false) :
    m.dropWhile p = m := by
  cases m with
  | nil => rfl
  | cons c r => rw [List.dropWhile_cons]; simp [h c rfl]

/-- leading / trailing blanks around a text that starts and ends with an ordinary character -/
theorem trimSB_pad (a b : Nat) (m : List Char) (hne : m ≠ [])
    (hh : ∀ c, m.head? = some c → isSpBar c = false) (hl : ∀ c, m.getLast? = some c → isSpBar c = false) :
    trimSB (sp a ++ m ++ sp b) = m := by
  have h1 : (sp a ++ m ++ sp b).dropWhile isSpBar = m ++ sp b := by
    rw [List.append_assoc, dropWhile_sp_append]
    apply dropWhile_of_head
    intro c hc
    cases m with
    | nil => exact absurd rfl hne
    | cons d r => exact hh c (by simpa using hc)
  have h2 : (m ++ sp b).reverse.dropWhile isSpBar = m.reverse := by
    rw [List.reverse_append, sp_reverse, dropWhile_sp_append]
    apply dropWhile_of_head
    intro c hc; rw [List.head?_reverse] at hc; exact hl c hc
  unfold trimSB
  rw [h1, h2, List.reverse_reverse]

theorem trimSB_nil : trimSB [] = [] := rfl

theorem CW.head {w : List Char} (h : CW w) : ∀ c, w.head? = some c → isSpBar c = false := by
  intro c hc
  obtain ⟨hne, hsp, hh, _⟩ := h
  have h1 : c ≠ '|' := fun e => hh (by rw [hc, e])
  have h2 : c ≠ ' ' := hsp c (List.mem_of_mem_head? hc)
  simp [isSpBar, h1, h2]

theorem CW.last {w : List Char} (h : CW w) : ∀ c, w.getLast? = some c → isSpBar c = false := by
  intro c hc
  obtain ⟨hne, hsp, _, hl⟩ := h
  have h1 : c ≠ '|' := fun e => hl (by rw [hc, e])
  have h2 : c ≠ ' ' := hsp c (List.mem_of_getLast? hc)
  simp [isSpBar, h1, h2]

theorem trimSB_CW {w : List Char} (h : CW w) : trimSB w = w := by
  have := trimSB_pad 0 0 w h.1 h.head h.last
  simpa [sp] using this

/-! #### splitSp -/

theorem splitSp_ne_nil (s : List Char) : splitSp s ≠ [] := by
  cases s with
  | nil => simp [splitSp]
  | cons c r =>
    simp only [splitSp]
    split
    · simp
    · split <;> simp

theorem splitSp_word_append (w s : List Char) (h : ∀ c ∈ w, c ≠ ' ') :
    splitSp (w ++ s) = (w ++ (splitSp s).headD []) :: (splitSp s).tail := by
  induction w with
  | nil =>
    have := splitSp_ne_nil s
    cases hs : splitSp s with
    | nil => exact absurd hs this
    | cons x xs => simp [hs]
  | cons c r ih =>
    have hc : c ≠ ' ' := h c (by simp)
    have ih' := ih (fun d hd => h d (by simp [hd]))
    rw [List.cons_append, splitSp, if_neg hc, ih']
    simp

theorem splitSp_sp_append (n : Nat) (s : List Char) :
    splitSp (sp n ++ s) = List.replicate n [] ++ splitSp s := by
  induction n with
  | zero => simp [sp]
  | succ n ih => rw [sp_succ, List.cons_append, splitSp, if_pos rfl, ih, List.replicate_succ]; rfl

/-- the terms of one piece, as `parse_and` extracts them after the outer trim -/
def piecewise (s : List Char) : List (List Char) :=
  ((splitSp s).map (fun t => unmask (trimSB t))).filter (fun t => !t.isEmpty)

theorem parseAnd_eq (piece : List Char) : parseAnd piece = piecewise (trimSB piece) := rfl

theorem unmask_ne_nil {w : List Char} (h : w ≠ []) : (unmask w).isEmpty = false := by
  cases w with
  | nil => exact absurd rfl h
  | cons c r => simp [unmask]

theorem piecewise_word_sp (w : List Char) (k : Nat) (s : List Char) (hw : CW w) :
    piecewise (w ++ sp (k + 1) ++ s) = unmask w :: piecewise s := by
  unfold piecewise
  rw [List.append_assoc, splitSp_word_append _ _ hw.2.1, sp_succ, List.cons_append, splitSp, if_pos rfl,
    splitSp_sp_append]
  simp only [List.headD_cons, List.append_nil, List.tail_cons, List.map_cons, List.map_append,
    List.map_replicate, trimSB_CW hw, trimSB_nil]
  rw [List.filter_cons, unmask_ne_nil hw.1]
  simp only [Bool.not_false, if_true, List.filter_append]
  congr 1
  have : List.filter (fun t => !t.isEmpty) (List.replicate k (unmask [])) = [] := by
    simp [unmask]
  rw [this, List.nil_append]

theorem piecewise_word (w : List Char) (hw : CW w) : piecewise w = [unmask w] := by
  unfold piecewise
  have := splitSp_word_append w [] hw.2.1
  rw [List.append_nil] at this
  rw [this]
  simp [splitSp, trimSB_CW hw, unmask_ne_nil hw.1]

/-- all words of a masked alternative are clean -/
def CWAlt (a : List (List Char × Nat)) : Prop := ∀ t ∈ a, CW t.1

theorem piecewise_joinAlt (a : List (List Char × Nat)) (h : CWAlt a) :
    piecewise (joinAlt a) = if a.isEmpty then [[]].filter (fun t => !t.isEmpty) else a.map (fun t => unmask t.1) := by
  induction a with
  | nil => simp [joinAlt, piecewise, splitSp, trimSB_nil, unmask]
  | cons x rest ih =>
    obtain ⟨w, k⟩ := x
    have hw : CW w := h (w, k) (by simp)
    have hrest : CWAlt rest := fun t ht => h t (by simp [ht])
    simp only [joinAlt, List.isEmpty_cons, Bool.false_eq_true, if_false, List.map_cons]
    cases rest with
    | nil => simp [piecewise_word w hw]
    | cons y ys =>
      simp only [List.isEmpty_cons, Bool.false_eq_true, if_false]
      rw [← List.append_assoc, piecewise_word_sp w k _ hw, ih hrest]
      simp

theorem head?_append_ne (w s : List Char) (h : w ≠ []) : (w ++ s).head? = w.head? := by
  cases w with
  | nil => exact absurd rfl h
  | cons c r => rfl

theorem getLast?_append_ne (w s : List Char) (h : s ≠ []) : (w ++ s).getLast? = s.getLast? := by
  rw [List.getLast?_append]
  cases hs : s.getLast? with
  | none => rw [List.getLast?_eq_none_iff] at hs; exact absurd hs h
  | some c => rfl

theorem joinAlt_ne_nil {a : List (List Char × Nat)} (hne : a ≠ []) (h : CWAlt a) : joinAlt a ≠ [] := by
  cases a with
  | nil => exact absurd rfl hne
  | cons x rest =>
    have hw : CW x.1 := h x (by simp)
    obtain ⟨w, k⟩ := x
    simp only [joinAlt]
    intro e
    exact hw.1 (List.append_eq_nil_iff.1 e).1

theorem joinAlt_head {a : List (List Char × Nat)} (h : CWAlt a) :
    ∀ c, (joinAlt a).head? = some c → isSpBar c = false := by
  cases a with
  | nil => intro c hc; simp [joinAlt] at hc
  | cons x rest =>
    have hw : CW x.1 := h x (by simp)
    obtain ⟨w, k⟩ := x
    intro c hc
    simp only [joinAlt] at hc
    rw [head?_append_ne _ _ hw.1] at hc
    exact hw.head c hc

theorem joinAlt_last {a : List (List Char × Nat)} (h : CWAlt a) :
    ∀ c, (joinAlt a).getLast? = some c → isSpBar c = false := by
  induction a with
  | nil => intro c hc; simp [joinAlt] at hc
  | cons x rest ih =>
    have hw : CW x.1 := h x (by simp)
    have hrest : CWAlt rest := fun t ht => h t (by simp [ht])
    obtain ⟨w, k⟩ := x
    intro c hc
    simp only [joinAlt] at hc
    cases rest with
    | nil => simp at hc; exact hw.last c hc
    | cons y ys =>
      simp only [List.isEmpty_cons, Bool.false_eq_true, if_false] at hc
      have hne : joinAlt (y :: ys) ≠ [] := joinAlt_ne_nil (by simp) hrest
      rw [getLast?_append_ne _ _ (by simp [hne]), getLast?_append_ne _ _ hne] at hc
      exact ih hrest c hc

/-- `parse_and` on a padded alternative gives back its terms -/
theorem parseAnd_pad (a : List (List Char × Nat)) (l r : Nat) (hne : a ≠ []) (h : CWAlt a) :
    parseAnd (sp l ++ joinAlt a ++ sp r) = a.map (fun t => unmask t.1) := by
  rw [parseAnd_eq, trimSB_pad l r _ (joinAlt_ne_nil hne h) (joinAlt_head h) (joinAlt_last h),
    piecewise_joinAlt a h]
  cases a with
  | nil => exact absurd rfl hne
  | cons x rest => simp

/-! #### splitOr -/

theorem orSepAt_nonblank (c : Char) (s : List Char) (hc : c ≠ ' ') : orSepAt (c :: s) = none := by
  unfold orSepAt
  split
  · rename_i heq; simp only [List.cons.injEq] at heq; exact absurd heq.1 hc
  · rfl

theorem splitOrGo_nil (cur : List Char) : splitOrGo cur [] = [cur.reverse] := by
  rw [splitOrGo]; simp [orSepAt]

theorem splitOrGo_cons_none (cur : List Char) (c : Char) (s : List Char) (h : orSepAt (c :: s) = none) :
    splitOrGo cur (c :: s) = splitOrGo (c :: cur) s := by
  rw [splitOrGo]
  split
  · rename_i rest heq; rw [h] at heq; cases heq
  · rfl

theorem splitOrGo_some (cur : List Char) (s rest : List Char) (h : orSepAt s = some rest) :
    splitOrGo cur s = cur.reverse :: splitOrGo [] rest := by
  rw [splitOrGo]
  split
  · rename_i rest' heq; rw [h] at heq; cases heq; rfl
  · rename_i heq; rw [h] at heq; cases heq

/-- a word (no blanks) is copied into the current piece -/
theorem splitOrGo_word (cur w s : List Char) (h : ∀ c ∈ w, c ≠ ' ') :
    splitOrGo cur (w ++ s) = splitOrGo (w.reverse ++ cur) s := by
  induction w generalizing cur with
  | nil => rfl
  | cons c r ih =>
    rw [List.cons_append, splitOrGo_cons_none _ _ _ (orSepAt_nonblank c _ (h c (by simp))),
      ih _ (fun d hd => h d (by simp [hd]))]
    simp

/-- "does not start with blank or bar" -/
def startsOrdinary (s : List Char) : Prop := ∀ c, s.head? = some c → c ≠ ' ' ∧ c ≠ '|'

theorem orSepAt_sp (n : Nat) (s : List Char) (hs : startsOrdinary s) : orSepAt (sp (n + 1) ++ s) = none := by
  rw [sp_succ, List.cons_append]
  unfold orSepAt
  simp only
  rw [dropWhile_isSp_sp_append]
  cases s with
  | nil => simp
  | cons d r =>
    have := hs d rfl
    rw [List.dropWhile_cons]
    simp [isSp, this.1]
    split
    · rename_i heq; simp only [List.cons.injEq] at heq; exact absurd heq.1 this.2
    · rfl

/-- blanks followed by an ordinary character (or the end) are copied into the current piece -/
theorem splitOrGo_sp (cur : List Char) (n : Nat) (s : List Char) (hs : startsOrdinary s) :
    splitOrGo cur (sp n ++ s) = splitOrGo (sp n ++ cur) s := by
  induction n generalizing cur with
  | zero => simp [sp]
  | succ n ih =>
    have h := orSepAt_sp n s hs
    rw [sp_succ, List.cons_append] at h
    rw [sp_succ, List.cons_append, splitOrGo_cons_none _ _ _ h, ih, sp_append_cons, List.cons_append]

/-- a separator closes the current piece -/
theorem splitOrGo_sep (cur : List Char) (l r : Nat) (s : List Char) (hs : ∀ c, s.head? = some c → c ≠ ' ') :
    splitOrGo cur (sp (l + 1) ++ '|' :: sp (r + 1) ++ s) = cur.reverse :: splitOrGo [] s := by
  apply splitOrGo_some
  have e1 : sp (l + 1) ++ '|' :: sp (r + 1) ++ s = ' ' :: (sp l ++ '|' :: ' ' :: (sp r ++ s)) := by
    rw [sp_succ, sp_succ]; simp
  rw [e1]
  unfold orSepAt
  simp only
  rw [dropWhile_isSp_sp_append, List.dropWhile_cons]
  simp only [isSp, show ('|' == ' ') = false by decide, Bool.false_eq_true, if_false]
  congr 1
  rw [dropWhile_isSp_sp_append]
  apply dropWhile_of_head
  intro c hc
  simp [isSp, hs c hc]

theorem ordinary_of_not_spbar {c : Char} (h : isSpBar c = false) : c ≠ ' ' ∧ c ≠ '|' := by
  simp [isSpBar] at h; exact h

theorem joinAlt_append_starts {a : List (List Char × Nat)} (hne : a ≠ []) (h : CWAlt a) (s : List Char) :
    startsOrdinary (joinAlt a ++ s) := by
  intro c hc
  rw [head?_append_ne _ _ (joinAlt_ne_nil hne h)] at hc
  exact ordinary_of_not_spbar (joinAlt_head h c hc)

/-- a whole alternative is copied into the current piece -/
theorem splitOrGo_joinAlt (cur : List Char) (a : List (List Char × Nat)) (h : CWAlt a) (s : List Char) :
    splitOrGo cur (joinAlt a ++ s) = splitOrGo ((joinAlt a).reverse ++ cur) s := by
  induction a generalizing cur with
  | nil => rfl
  | cons x rest ih =>
    have hw : CW x.1 := h x (by simp)
    have hrest : CWAlt rest := fun t ht => h t (by simp [ht])
    obtain ⟨w, k⟩ := x
    simp only [joinAlt]
    cases rest with
    | nil =>
      simp only [List.isEmpty_nil, if_true, List.append_nil]
      exact splitOrGo_word cur w s hw.2.1
    | cons y ys =>
      simp only [List.isEmpty_cons, Bool.false_eq_true, if_false]
      rw [List.append_assoc, List.append_assoc, splitOrGo_word _ _ _ hw.2.1,
        splitOrGo_sp _ _ _ (joinAlt_append_starts (by simp) hrest s), ih _ hrest]
      simp [sp_reverse, List.reverse_append]

/-- masked query: every alternative non-empty, all words clean -/
def CWQ (q : List (List (List Char × Nat) × Nat × Nat)) : Prop := ∀ a ∈ q, a.1 ≠ [] ∧ CWAlt a.1

theorem joinAlts_head {q : List (List (List Char × Nat) × Nat × Nat)} (hne : q ≠ []) (h : CWQ q) (s : List Char) :
    startsOrdinary (joinAlts q ++ s) := by
  cases q with
  | nil => exact absurd rfl hne
  | cons x rest =>
    obtain ⟨a, l, r⟩ := x
    have ha := h (a, l, r) (by simp)
    intro c hc
    simp only [joinAlts] at hc
    rw [List.append_assoc] at hc
    exact joinAlt_append_starts ha.1 ha.2 _ c hc

theorem splitOr_joinAlts (q : List (List (List Char × Nat) × Nat × Nat)) (hne : q ≠ []) (h : CWQ q)
    (lead trail : Nat) :
    (splitOrGo (sp lead) (joinAlts q ++ sp trail)).map parseAnd =
      q.map (fun a => a.1.map (fun t => unmask t.1)) := by
  induction q generalizing lead with
  | nil => exact absurd rfl hne
  | cons x rest ih =>
    obtain ⟨a, l, r⟩ := x
    have ha := h (a, l, r) (by simp)
    have hrest : CWQ rest := fun t ht => h t (by simp [ht])
    simp only [joinAlts]
    cases rest with
    | nil =>
      simp only [List.isEmpty_nil, if_true, List.append_nil]
      have e : sp trail = sp trail ++ [] := by simp
      rw [splitOrGo_joinAlt _ _ ha.2, e, splitOrGo_sp _ _ _ (by intro c hc; simp at hc), splitOrGo_nil]
      simp only [List.reverse_append, List.reverse_reverse, sp_reverse, List.map_cons, List.map_nil]
      rw [parseAnd_pad a lead trail ha.1 ha.2]
    | cons y ys =>
      simp only [List.isEmpty_cons, Bool.false_eq_true, if_false]
      have e : joinAlt a ++ (sp (l + 1) ++ '|' :: sp (r + 1) ++ joinAlts (y :: ys)) ++ sp trail =
          joinAlt a ++ (sp (l + 1) ++ '|' :: sp (r + 1) ++ (joinAlts (y :: ys) ++ sp trail)) := by
        simp
      rw [e, splitOrGo_joinAlt _ _ ha.2, splitOrGo_sep _ _ _ _ (fun c hc => (joinAlts_head (by simp) hrest _ c hc).1)]
      simp only [List.reverse_append, List.reverse_reverse, sp_reverse, List.map_cons]
      have e2 : sp lead ++ joinAlt a = sp lead ++ joinAlt a ++ sp 0 := by simp [sp]
      have e3 : ([] : List Char) = sp 0 := rfl
      rw [e2, parseAnd_pad a lead 0 ha.1 ha.2, e3, ih (by simp) hrest 0]
      simp

/-! #### mask of a rendered query -/

theorem mask_joinAlt (a : PAlt) (rest : List Char) (h : ∀ t ∈ a, t.1.getLast? ≠ some '\\') :
    mask (joinAlt (a.map (fun t => (esc t.1, t.2))) ++ rest) =
      joinAlt (a.map (fun t => (nul t.1, t.2))) ++ mask rest := by
  induction a generalizing rest with
  | nil => rfl
  | cons x a' ih =>
    obtain ⟨t, k⟩ := x
    have ht : t.getLast? ≠ some '\\' := h (t, k) (by simp)
    have ha' : ∀ t ∈ a', t.1.getLast? ≠ some '\\' := fun u hu => h u (by simp [hu])
    simp only [List.map_cons, joinAlt]
    cases a' with
    | nil =>
      simp only [List.map_nil, List.isEmpty_nil, if_true, List.append_nil]
      exact mask_esc_append t rest (Or.inl ht)
    | cons y ys =>
      simp only [List.map_cons, List.isEmpty_cons, Bool.false_eq_true, if_false]
      rw [List.append_assoc, List.append_assoc, mask_esc_append t _ (Or.inl ht), mask_sp_append]
      have := ih rest ha'
      simp only [List.map_cons] at this
      rw [this]
      simp

theorem mask_joinAlts (q : PQuery) (rest : List Char) (h : ∀ a ∈ q, ∀ t ∈ a.1, t.1.getLast? ≠ some '\\') :
    mask (joinAlts (q.mapTerms esc) ++ rest) = joinAlts (q.mapTerms nul) ++ mask rest := by
  induction q generalizing rest with
  | nil => rfl
  | cons x q' ih =>
    obtain ⟨a, l, r⟩ := x
    have ha := h (a, l, r) (by simp)
    have hq' : ∀ a ∈ q', ∀ t ∈ a.1, t.1.getLast? ≠ some '\\' := fun u hu => h u (by simp [hu])
    simp only [PQuery.mapTerms, List.map_cons, joinAlts]
    cases q' with
    | nil =>
      simp only [List.map_nil, List.isEmpty_nil, if_true, List.append_nil]
      exact mask_joinAlt a rest ha
    | cons y ys =>
      simp only [List.map_cons, List.isEmpty_cons, Bool.false_eq_true, if_false]
      have e : ∀ (A : List Char) (B : List Char),
          A ++ (sp (l + 1) ++ '|' :: sp (r + 1) ++ B) ++ rest = A ++ (sp (l + 1) ++ ('|' :: (sp (r + 1) ++ (B ++ rest)))) := by
        intro A B; simp
      rw [e, mask_joinAlt a _ ha, mask_sp_append, mask_bar, mask_sp_append]
      have := ih rest hq'
      simp only [PQuery.mapTerms, List.map_cons] at this
      rw [this]
      simp

theorem CW_nul {t : List Char} (h : WFTerm t) : CW (nul t) := by
  obtain ⟨hne, _, hh, hl, _⟩ := h
  refine ⟨by simpa [nul] using hne, ?_, ?_, ?_⟩
  · intro c hc
    simp only [nul, List.mem_map] at hc
    obtain ⟨d, _, rfl⟩ := hc
    by_cases hd : d = ' '
    · simp [hd]
    · simp [hd]
  · simp only [nul, List.head?_map]
    cases hd : t.head? with
    | none => simp
    | some d =>
      simp only [Option.map_some, ne_eq, Option.some.injEq]
      by_cases hs : d = ' '
      · simp [hs]
      · simp only [hs, if_false]; intro e; exact hh (by rw [hd, e])
  · simp only [nul, List.getLast?_map]
    cases hd : t.getLast? with
    | none => simp
    | some d =>
      simp only [Option.map_some, ne_eq, Option.some.injEq]
      by_cases hs : d = ' '
      · simp [hs]
      · simp only [hs, if_false]; intro e; exact hl (by rw [hd, e])

/-- the whole parser on a rendered query -/
theorem parseAlts_render (lead trail : Nat) (q : PQuery) (h : WFQuery q) :
    parseAlts (renderQuery lead trail q) = q.ast := by
  obtain ⟨hne, hq⟩ := h
  have hbs : ∀ a ∈ q, ∀ t ∈ a.1, t.1.getLast? ≠ some '\\' := fun a ha t ht => ((hq a ha).2 t ht).2.2.2.2
  have hm : mask (renderQuery lead trail q) = sp lead ++ (joinAlts (q.mapTerms nul) ++ sp trail) := by
    have e : mask (sp trail) = sp trail := by
      have := mask_sp_append trail []
      simpa [mask] using this
    rw [renderQuery, renderAlts, List.append_assoc, mask_sp_append, mask_joinAlts q _ hbs, e]
  have hcw : CWQ (q.mapTerms nul) := by
    intro a ha
    simp only [PQuery.mapTerms, List.mem_map] at ha
    obtain ⟨a0, ha0, rfl⟩ := ha
    refine ⟨by simpa using (hq a0 ha0).1, ?_⟩
    intro t ht
    simp only [List.mem_map] at ht
    obtain ⟨t0, ht0, rfl⟩ := ht
    exact CW_nul ((hq a0 ha0).2 t0 ht0)
  have hne' : q.mapTerms nul ≠ [] := by simpa [PQuery.mapTerms] using hne
  unfold parseAlts splitOr
  have e0 : ([] : List Char) = sp 0 := rfl
  rw [hm, e0, splitOrGo_sp _ _ _ (joinAlts_head hne' hcw _)]
  have e1 : sp lead ++ sp 0 = sp lead := by simp [sp]
  rw [e1, splitOr_joinAlts _ hne' hcw]
  simp only [PQuery.mapTerms, PQuery.ast, List.map_map]
  apply List.map_congr_left
  intro a ha
  simp only [Function.comp, List.map_map]
  apply List.map_congr_left
  intro t ht
  exact unmask_nul t.1 ((hq a ha).2 t ht).2.1


/-! #### no separator inside a piece -/

theorem dropWhile_append_ne (p : Char → Bool) (t more : List Char) (h : t.dropWhile p ≠ []) :
    (t ++ more).dropWhile p = t.dropWhile p ++ more := by
  induction t with
  | nil => exact absurd rfl h
  | cons c r ih =>
    rw [List.cons_append, List.dropWhile_cons, List.dropWhile_cons]
    rw [List.dropWhile_cons] at h
    by_cases hc : p c = true
    · simp only [hc, if_true] at h ⊢; exact ih h
    · simp only [hc] at h ⊢; simp

/-- a separator match inside a string is still a match when the string is extended -/
theorem orSepAt_mono (u more : List Char) (h : orSepAt (u ++ more) = none) : orSepAt u = none := by
  cases hu : orSepAt u with
  | none => rfl
  | some r =>
    exfalso
    unfold orSepAt at hu
    split at hu
    · rename_i t
      split at hu
      · rename_i r' heq
        have hne : t.dropWhile isSp ≠ [] := by rw [heq]; simp
        have := dropWhile_append_ne isSp t more hne
        rw [heq] at this
        rw [List.cons_append] at h
        unfold orSepAt at h
        simp only [this, List.cons_append] at h
        cases h
      · cases hu
    · cases hu

theorem splitOrGo_pieces_no_sep (cur s : List Char)
    (hcur : ∀ v u, cur.reverse = v ++ u → u ≠ [] → orSepAt (u ++ s) = none) :
    ∀ p ∈ splitOrGo cur s, ∀ v u, p = v ++ u → orSepAt u = none := by
  fun_induction splitOrGo cur s with
  | case1 cur s rest hsep ih =>
    intro p hp v u hvu
    simp only [List.mem_cons] at hp
    rcases hp with rfl | hp
    · by_cases hu : u = []
      · subst hu; rfl
      · exact orSepAt_mono u s (hcur v u hvu hu)
    · apply ih _ p hp v u hvu
      intro v' u' h' hu'
      simp only [List.reverse_nil] at h'
      have := List.append_eq_nil_iff.1 h'.symm
      exact absurd this.2 hu'
  | case2 cur hsep =>
    intro p hp v u hvu
    simp only [List.mem_singleton] at hp
    subst hp
    by_cases hu : u = []
    · subst hu; rfl
    · have := hcur v u hvu hu
      simpa using this
  | case3 cur c cs hsep ih =>
    apply ih
    intro v u hvu hu
    simp only [List.reverse_cons] at hvu
    -- u ends with c
    rcases List.eq_nil_or_concat u with rfl | ⟨u', d, rfl⟩
    · exact absurd rfl hu
    · simp only [List.concat_eq_append] at hvu hu ⊢
      rw [← List.append_assoc] at hvu
      have h1 := List.append_inj' hvu (by simp)
      simp only [List.cons.injEq, and_true] at h1
      obtain ⟨h1, rfl⟩ := h1
      by_cases hu' : u' = []
      · subst hu'; simpa using hsep
      · have := hcur v u' h1 hu'
        simpa using this


/-! #### pieces only contain characters of the input -/

theorem mem_of_mem_dropWhile' (p : Char → Bool) (l : List Char) : ∀ c ∈ l.dropWhile p, c ∈ l := by
  induction l with
  | nil => intro c hc; simp at hc
  | cons a t ih =>
    intro c hc
    rw [List.dropWhile_cons] at hc
    split at hc
    · exact List.mem_cons_of_mem _ (ih c hc)
    · exact hc

theorem orSepAt_subset {s rest : List Char} (h : orSepAt s = some rest) : ∀ c ∈ rest, c ∈ s := by
  unfold orSepAt at h
  split at h
  · rename_i t
    split at h
    · rename_i r' heq
      cases h
      intro c hc
      have h1 := mem_of_mem_dropWhile' isSp r' c hc
      have h2 : c ∈ t.dropWhile isSp := by rw [heq]; simp [h1]
      exact List.mem_cons_of_mem _ (mem_of_mem_dropWhile' isSp t c h2)
    · cases h
  · cases h

theorem splitOrGo_mem (cur s : List Char) : ∀ p ∈ splitOrGo cur s, ∀ c ∈ p, c ∈ cur ∨ c ∈ s := by
  fun_induction splitOrGo cur s with
  | case1 cur s rest hsep ih =>
    intro p hp c hc
    simp only [List.mem_cons] at hp
    rcases hp with rfl | hp
    · left; simpa using hc
    · rcases ih p hp c hc with h | h
      · simp at h
      · right; exact orSepAt_subset hsep c h
  | case2 cur hsep =>
    intro p hp c hc
    simp only [List.mem_singleton] at hp
    subst hp; left; simpa using hc
  | case3 cur d cs hsep ih =>
    intro p hp c hc
    rcases ih p hp c hc with h | h
    · simp only [List.mem_cons] at h
      rcases h with rfl | h
      · right; simp
      · left; exact h
    · right; exact List.mem_cons_of_mem _ h

theorem mask_no_backslash (s : List Char) (h : ∀ c ∈ s, c ≠ '\\') : mask s = s := by
  induction s with
  | nil => rfl
  | cons c r ih =>
    rw [mask_cons_of c r (Or.inl (h c (by simp))), ih (fun d hd => h d (by simp [hd]))]

theorem dropWhile_all (p : Char → Bool) (s : List Char) (h : ∀ c ∈ s, p c = true) : s.dropWhile p = [] := by
  induction s with
  | nil => rfl
  | cons c r ih => rw [List.dropWhile_cons, if_pos (h c (by simp))]; exact ih (fun d hd => h d (by simp [hd]))

theorem trimSB_all (s : List Char) (h : ∀ c ∈ s, isSpBar c = true) : trimSB s = [] := by
  unfold trimSB; rw [dropWhile_all _ _ h]; rfl

theorem parseAnd_all_spbar (s : List Char) (h : ∀ c ∈ s, isSpBar c = true) : parseAnd s = [] := by
  rw [parseAnd_eq, trimSB_all s h]; rfl


end SkimModel.Engine
