/-
Helper lemmas for C06 (reader loop = chunks of the flat stream = split spec).
-/
import SkimModel.Spec.Reader
import SkimModel.Model.ReaderFns
namespace SkimModel.Reader

/-- the part of a source that is read: everything before the first empty slice (= end of input) -/
def live (s : Src) : Src := s.takeWhile (fun a => !a.isEmpty)

theorem live_eq_self (s : Src) (h : ∀ a ∈ s, a ≠ []) : live s = s := by
  induction s with
  | nil => rfl
  | cons a s ih =>
    have ha : a.isEmpty = false := by
      have := h a (by simp); cases a <;> simp_all
    simp only [live, List.takeWhile, ha, Bool.not_false]
    congr 1
    exact ih (fun x hx => h x (List.mem_cons_of_mem _ hx))

theorem live_append_eof (pre post : Src) (h : ∀ a ∈ pre, a ≠ []) : live (pre ++ [] :: post) = pre := by
  induction pre with
  | nil => simp [live]
  | cons a s ih =>
    have ha : a.isEmpty = false := by
      have := h a (by simp); cases a <;> simp_all
    simp only [live, List.cons_append, List.takeWhile, ha, Bool.not_false]
    congr 1
    exact ih (fun x hx => h x (List.mem_cons_of_mem _ hx))

theorem cut_append_eq (t : UInt8) (bs : Bytes) : (cut t bs).1 ++ (cut t bs).2 = bs := by
  induction bs with
  | nil => rfl
  | cons b bs ih => simp only [cut]; split <;> simp [ih]

theorem cut_fst_eq_nil (t : UInt8) (bs : Bytes) : (cut t bs).1 = [] ↔ bs = [] := by
  cases bs with
  | nil => simp [cut]
  | cons b bs => simp only [cut]; split <;> simp

theorem cut_of_mem (t : UInt8) (a r : Bytes) (h : t ∈ a) :
    cut t (a ++ r) = ((cut t a).1, (cut t a).2 ++ r) := by
  induction a with
  | nil => simp at h
  | cons b a ih =>
    simp only [List.cons_append, cut]
    by_cases hb : b == t
    · simp [hb]
    · simp only [hb]
      have : t ∈ a := by
        rcases List.mem_cons.mp h with h | h
        · exact absurd (by simp [h]) hb
        · exact h
      simp [ih this]

theorem cut_of_not_mem (t : UInt8) (a r : Bytes) (h : t ∉ a) :
    cut t (a ++ r) = (a ++ (cut t r).1, (cut t r).2) := by
  induction a with
  | nil => simp
  | cons b a ih =>
    simp only [List.cons_append, cut]
    have hb : (b == t) = false := by
      simp only [beq_eq_false_iff_ne, ne_eq]; intro e; exact h (by simp [e])
    have : t ∉ a := fun m => h (List.mem_cons_of_mem _ m)
    simp [hb, ih this]

theorem readUntil1_spec (t : UInt8) (s : Src) (buf : Bytes) :
    (readUntil1 t s buf).1 = buf ++ (cut t (live s).flatten).1 ∧
    (live (readUntil1 t s buf).2).flatten = (cut t (live s).flatten).2 := by
  induction s generalizing buf with
  | nil => simp [readUntil1, live, cut]
  | cons a rest ih =>
    simp only [readUntil1]
    by_cases ha : a.isEmpty
    · simp [ha, live, cut]
    · have hl : live (a :: rest) = a :: live rest := by simp [live, List.takeWhile, ha]
      simp only [ha, hl, List.flatten_cons]
      by_cases hc : a.contains t
      · have hm : t ∈ a := by simpa using hc
        simp only [hc, cut_of_mem t a _ hm]
        by_cases hq : (cut t a).2.isEmpty
        · have : (cut t a).2 = [] := by simpa using hq
          simp [this]
        · simp [hq, live]
      · have hm : t ∉ a := by simpa using hc
        simp only [hc, cut_of_not_mem t a _ hm]
        have := ih (buf ++ a)
        simp [this]

theorem chunks_eq_cut (t : UInt8) (bs : Bytes) (h : bs ≠ []) :
    chunks t bs = (cut t bs).1 :: chunks t (cut t bs).2 := by
  induction bs with
  | nil => exact absurd rfl h
  | cons b bs ih =>
    simp only [chunks, cut]
    by_cases hb : b == t
    · simp [hb]
    · simp only [hb]
      cases bs with
      | nil => simp [chunks, cut]
      | cons c cs => rw [ih (by simp)]; simp

theorem readLoop_eq (t : UInt8) (s : Src) : readLoop t s = lines t (live s).flatten := by
  fun_induction readLoop t s with
  | case1 s buf s' h hb =>
    have h1 := (readUntil1_spec t s []).1
    rw [h] at h1
    have : buf = [] := by simpa using hb
    have : (live s).flatten = [] := by
      rw [this] at h1; exact (cut_fst_eq_nil t _).mp (by simpa using h1.symm)
    simp [this, lines, chunks]
  | case2 s buf s' h hb ih =>
    have h1 := readUntil1_spec t s []
    rw [h] at h1
    simp only [List.nil_append] at h1
    have hne : (live s).flatten ≠ [] := by
      intro e
      have : buf = [] := by rw [h1.1, e]; simp [cut]
      exact hb (by simp [this])
    rw [ih, lines, lines, chunks_eq_cut t _ hne, h1.2]
    simp [h1.1]


/-! ### chunks of the flat stream vs. the classical split -/

/-- re-attach the terminators: inverse view of `pieces` -/
def unpieces (t : UInt8) : List Bytes → List Bytes
  | [] => []
  | [p] => if p.isEmpty then [] else [p]
  | p :: q :: ps => (p ++ [t]) :: unpieces t (q :: ps)

theorem pieces_ne_nil (t : UInt8) (bs : Bytes) : pieces t bs ≠ [] := by
  cases bs with
  | nil => simp [pieces]
  | cons b bs =>
    simp only [pieces]
    split
    · simp
    · split <;> simp

theorem chunks_eq_unpieces (t : UInt8) (bs : Bytes) : chunks t bs = unpieces t (pieces t bs) := by
  induction bs with
  | nil => simp [chunks, pieces, unpieces]
  | cons b bs ih =>
    simp only [chunks, pieces]
    by_cases hb : b == t
    · simp only [hb, if_true]
      have hbt : b = t := by simpa using hb
      cases hp : pieces t bs with
      | nil => exact absurd hp (pieces_ne_nil t bs)
      | cons q qs => rw [ih, hp]; simp [unpieces, hbt]
    · simp only [hb]
      cases hp : pieces t bs with
      | nil => exact absurd hp (pieces_ne_nil t bs)
      | cons q qs =>
        rw [ih, hp]
        cases qs with
        | nil =>
          by_cases hq : q.isEmpty
          · have : q = [] := by simpa using hq
            simp [unpieces, this]
          · simp [unpieces, hq]
        | cons r rs => simp [unpieces]

theorem not_mem_pieces (t : UInt8) (bs : Bytes) : ∀ p ∈ pieces t bs, t ∉ p := by
  induction bs with
  | nil => simp [pieces]
  | cons b bs ih =>
    simp only [pieces]
    by_cases hb : b == t
    · simp only [hb, if_true]
      intro p hp
      rcases List.mem_cons.mp hp with h | h
      · simp [h]
      · exact ih p h
    · simp only [hb]
      have hbt : ¬ t = b := fun e => hb (by simp [e])
      cases hp : pieces t bs with
      | nil => simp [hbt]
      | cons q qs =>
        rw [hp] at ih
        intro p hp'
        rcases List.mem_cons.mp hp' with h | h
        · have := ih q (by simp)
          simp [h, hbt, this]
        · exact ih p (by simp [h])

theorem strip_append_term (t : UInt8) (p : Bytes) : strip t (p ++ [t]) = lineOf t p := by
  simp only [strip, lineOf, dropCR, List.reverse_append, List.reverse_cons, List.reverse_nil,
    List.nil_append, List.singleton_append, beq_self_eq_true, if_true]
  by_cases h10 : t == 10
  · simp only [h10, if_true]
    cases hr : p.reverse with
    | nil =>
      have : p = [] := by simpa using hr
      simp [this]
    | cons y r =>
      have : p = r.reverse ++ [y] := by
        have := congrArg List.reverse hr
        simpa using this
      simp [this]
  · simp [h10]

theorem strip_of_not_mem (t : UInt8) (p : Bytes) (h : t ∉ p) : strip t p = p := by
  simp only [strip]
  cases hr : p.reverse with
  | nil => rfl
  | cons x r =>
    have hx : x ∈ p := by
      have : x ∈ p.reverse := by rw [hr]; simp
      simpa using this
    have : (x == t) = false := by
      simp only [beq_eq_false_iff_ne, ne_eq]; intro e; exact h (e ▸ hx)
    simp [this]

theorem map_strip_unpieces (t : UInt8) (ps : List Bytes) (h : ∀ p ∈ ps, t ∉ p) :
    (unpieces t ps).map (strip t) = specOf t ps := by
  induction ps with
  | nil => simp [unpieces, specOf]
  | cons p ps ih =>
    cases ps with
    | nil =>
      by_cases hp : p.isEmpty
      · simp [unpieces, specOf, hp]
      · simp [unpieces, specOf, hp, strip_of_not_mem t p (h p (by simp))]
    | cons q qs =>
      simp only [unpieces, specOf, List.map_cons, strip_append_term]
      rw [ih (fun x hx => h x (List.mem_cons_of_mem _ hx))]

theorem lines_eq_spec (t : UInt8) (bs : Bytes) : lines t bs = specLines t bs := by
  rw [lines, specLines, chunks_eq_unpieces, map_strip_unpieces t _ (not_mem_pieces t bs)]


/-! ### rejoin -/

theorem unpieces_flatten (t : UInt8) (bs : Bytes) : (unpieces t (pieces t bs)).flatten = bs := by
  rw [← chunks_eq_unpieces]
  induction bs with
  | nil => rfl
  | cons b bs ih =>
    simp only [chunks]
    split
    · simp [ih]
    · split
      · rename_i h; rw [h] at ih; simp at ih; simp [ih]
      · rename_i c cs h; rw [h] at ih; simp at ih; simp [ih]

theorem dropCR_cases (p : Bytes) : (dropCR p = p ∧ p.getLast? ≠ some 13) ∨ (p = dropCR p ++ [13]) := by
  simp only [dropCR]
  cases hr : p.reverse with
  | nil =>
    have : p = [] := by simpa using hr
    simp [this]
  | cons x r =>
    have hp : p = r.reverse ++ [x] := by
      have := congrArg List.reverse hr
      simpa using this
    by_cases hx : x == 13
    · right; simp only [hx, if_true]; have : x = 13 := by simpa using hx
      rw [hp, this]
    · left; simp only [hx]
      refine ⟨by simp, ?_⟩
      rw [hp]; simp only [List.getLast?_append, List.getLast?_singleton]
      simpa using hx

theorem lineOf_sepOf (t : UInt8) (p : Bytes) : lineOf t p ++ sepOf t p = p ++ [t] := by
  simp only [lineOf, sepOf]
  by_cases h10 : t == 10
  · simp only [h10, if_true]
    rcases dropCR_cases p with ⟨h, _⟩ | h
    · simp [h]
    · have hne : dropCR p ≠ p := by
        intro e
        have := congrArg List.length h
        rw [e] at this; simp at this
      simp only [hne, if_false]
      conv => rhs; rw [h]
      simp
  · simp [h10]

theorem sepOf_isTerm (t : UInt8) (p : Bytes) : IsTerm t (sepOf t p) := by
  simp only [sepOf, IsTerm]
  by_cases h10 : t == 10
  · have : t = 10 := by simpa using h10
    subst this
    by_cases h : dropCR p = p <;> simp [h]
  · simp [h10]

theorem zip_spec_seps (t : UInt8) (ps : List Bytes) :
    (List.zipWith (· ++ ·) (specOf t ps) (sepsOf t ps)).flatten = (unpieces t ps).flatten := by
  induction ps with
  | nil => simp [specOf, sepsOf, unpieces]
  | cons p ps ih =>
    cases ps with
    | nil =>
      by_cases hp : p.isEmpty <;> simp [specOf, sepsOf, unpieces, hp]
    | cons q qs =>
      simp only [specOf, sepsOf, unpieces, List.zipWith_cons_cons, List.flatten_cons, ih, lineOf_sepOf]

theorem length_spec_seps (t : UInt8) (ps : List Bytes) : (specOf t ps).length = (sepsOf t ps).length := by
  induction ps with
  | nil => simp [specOf, sepsOf]
  | cons p ps ih =>
    cases ps with
    | nil => by_cases hp : p.isEmpty <;> simp [specOf, sepsOf, hp]
    | cons q qs => simp only [specOf, sepsOf, List.length_cons, ih]

theorem sepsOf_terms (t : UInt8) (ps : List Bytes) :
    ∀ s ∈ sepsOf t ps, IsTerm t s ∨ s = [] := by
  induction ps with
  | nil => simp [sepsOf]
  | cons p ps ih =>
    cases ps with
    | nil => by_cases hp : p.isEmpty <;> simp [sepsOf, hp]
    | cons q qs =>
      intro s hs
      simp only [sepsOf, List.mem_cons] at hs
      rcases hs with h | h
      · left; rw [h]; exact sepOf_isTerm t p
      · exact ih s (by simpa [sepsOf] using h)

theorem sepsOf_dropLast_terms (t : UInt8) (ps : List Bytes) :
    ∀ s ∈ (sepsOf t ps).dropLast, IsTerm t s := by
  induction ps with
  | nil => simp [sepsOf]
  | cons p ps ih =>
    cases ps with
    | nil => by_cases hp : p.isEmpty <;> simp [sepsOf, hp]
    | cons q qs =>
      intro s hs
      simp only [sepsOf] at hs
      cases hq : sepsOf t (q :: qs) with
      | nil => simp [hq] at hs
      | cons x xs =>
        rw [hq] at hs ih
        simp only [List.dropLast_cons_cons, List.mem_cons] at hs
        rcases hs with h | h
        · rw [h]; exact sepOf_isTerm t p
        · exact ih s h

theorem dropCR_not_mem (t : UInt8) (p : Bytes) (h : t ∉ p) : t ∉ dropCR p := by
  rcases dropCR_cases p with ⟨e, _⟩ | e
  · rw [e]; exact h
  · intro m; apply h; rw [e]; simp [m]

theorem specOf_not_mem (t : UInt8) (ps : List Bytes) (h : ∀ p ∈ ps, t ∉ p) : ∀ l ∈ specOf t ps, t ∉ l := by
  induction ps with
  | nil => simp [specOf]
  | cons p ps ih =>
    cases ps with
    | nil =>
      by_cases hp : p.isEmpty
      · simp [specOf, hp]
      · simp only [specOf, hp]; intro l hl; simp at hl; rw [hl]; exact h p (by simp)
    | cons q qs =>
      intro l hl
      simp only [specOf, List.mem_cons] at hl
      rcases hl with e | e
      · rw [e]; simp only [lineOf]; split
        · exact dropCR_not_mem t p (h p (by simp))
        · exact h p (by simp)
      · exact ih (fun x hx => h x (List.mem_cons_of_mem _ hx)) l (by simpa [specOf] using e)


/-! ### a source that ends early -/

theorem chunks_ne_nil (t : UInt8) (bs : Bytes) (h : bs ≠ []) : chunks t bs ≠ [] := by
  rw [chunks_eq_cut t bs h]; simp

theorem chunks_append_closed (t : UInt8) (pre ys : Bytes) :
    chunks t (pre ++ [t] ++ ys) = chunks t (pre ++ [t]) ++ chunks t ys := by
  induction pre with
  | nil => simp [chunks]
  | cons b pre ih =>
    simp only [List.cons_append, chunks]
    by_cases hb : b == t
    · simp only [hb, if_true]
      simp only [List.append_assoc, List.cons_append, List.nil_append] at ih ⊢
      rw [ih]
    · simp only [hb]
      simp only [List.append_assoc, List.cons_append, List.nil_append] at ih ⊢
      rw [ih]
      cases hc : chunks t (pre ++ [t]) with
      | nil => exact absurd hc (chunks_ne_nil t _ (by simp))
      | cons c cs => simp

theorem chunks_open (t : UInt8) (tail ys : Bytes) (h : t ∉ tail) (hne : tail ≠ []) :
    chunks t (tail ++ ys) = (tail ++ (cut t ys).1) :: chunks t (cut t ys).2 := by
  rw [chunks_eq_cut t _ (by simp [hne]), cut_of_not_mem t tail ys h]

theorem split_last_term (t : UInt8) (xs : Bytes) :
    ∃ front tail, xs = front ++ tail ∧ t ∉ tail ∧ (front = [] ∨ ∃ pre, front = pre ++ [t]) := by
  induction xs with
  | nil => exact ⟨[], [], by simp⟩
  | cons b xs ih =>
    obtain ⟨front, tail, hx, ht, hf⟩ := ih
    rcases hf with hf | ⟨pre, hf⟩
    · by_cases hb : b = t
      · exact ⟨[t], tail, by simp [hx, hf, hb], ht, Or.inr ⟨[], by simp⟩⟩
      · refine ⟨[], b :: tail, by simp [hx, hf], ?_, Or.inl rfl⟩
        intro m
        rcases List.mem_cons.mp m with e | e
        · exact hb e.symm
        · exact ht e
    · exact ⟨b :: front, tail, by simp [hx], ht, Or.inr ⟨b :: pre, by simp [hf]⟩⟩


/-! ### the executable stand-in for `String::from_utf8_lossy` -/

theorem decode1_len (b : UInt8) (rest : Bytes) :
    (decode1 b rest).2 + 1 ≤ (decode1 b rest).1.length ∧ (decode1 b rest).2 ≤ rest.length := by
  unfold decode1
  repeat' split
  all_goals simp_all [replBytes]
  all_goals (repeat' split)
  all_goals simp_all
  all_goals omega

end SkimModel.Reader
