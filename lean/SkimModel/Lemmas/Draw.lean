import SkimModel.Spec.Draw
namespace SkimModel.Draw
open SkimModel.Ansi

theorem cols_append (cw : Char → Nat) (a b : List (Char × Attr)) : cols cw (a ++ b) = cols cw a + cols cw b := by
  induction a with
  | nil => simp [cols]
  | cons x t ih => obtain ⟨c, at'⟩ := x; simp [cols, ih]; omega

theorem cols_replicate (cw : Char → Nat) (k : Nat) (c : Char) (a : Attr) :
    cols cw (List.replicate k (c, a)) = k * cw c := by
  induction k with
  | zero => simp [cols]
  | succ k ih => simp [List.replicate_succ, cols, ih, Nat.succ_mul]; omega

theorem layout_append (cw : Char → Nat) (row col : Nat) (a b : List (Char × Attr)) :
    layout cw row col (a ++ b) = layout cw row col a ++ layout cw row (col + cols cw a) b := by
  induction a generalizing col with
  | nil => simp [layout, cols]
  | cons x t ih => obtain ⟨c, at'⟩ := x; simp [layout, cols, ih, Nat.add_assoc]

theorem shownFrom_append (g : Geo) (cw : Char → Nat) (pos : Nat) (a b : List (Char × Attr)) :
    shownFrom g cw pos (a ++ b) = shownFrom g cw pos a ++ shownFrom g cw (pos + cols cw a) b := by
  induction a generalizing pos with
  | nil => simp [shownFrom, cols]
  | cons x t ih => obtain ⟨c, at'⟩ := x; simp [shownFrom, cols, ih, Nat.add_assoc]

theorem dots_eq (cw : Char → Nat) (p : LP) (a : Attr) (k : Nat) :
    p.dots cw a k = ({ p with scol := p.scol + cols cw (List.replicate k ('.', a)) },
                      layout cw p.row p.scol (List.replicate k ('.', a))) := by
  induction k generalizing p with
  | zero => simp [LP.dots, cols, layout]
  | succ k ih =>
    simp only [LP.dots, LP.putCh, ih, List.replicate_succ, cols, layout]
    simp [Nat.add_assoc]

theorem printCharRaw_eq (cw : Char → Nat) (p : LP) (ch : Char) (a : Attr) :
    p.printCharRaw cw ch a =
      ({ p with scol := p.scol + cols cw (rawShown p.geo cw p.cur ch a), cur := p.cur + cw ch },
       layout cw p.row p.scol (rawShown p.geo cw p.cur ch a)) := by
  unfold LP.printCharRaw rawShown LP.geo
  simp only []
  split
  · simp [cols, layout]
  · split
    · simp [dots_eq]
    · split
      · simp [dots_eq]
      · simp [LP.putCh, cols, layout]

theorem spaces_eq (cw : Char → Nat) (p : LP) (a : Attr) (k : Nat) :
    p.spaces cw a k =
      ({ p with scol := p.scol + cols cw (shownFrom p.geo cw p.cur (List.replicate k (' ', a))),
                cur := p.cur + k * cw ' ' },
       layout cw p.row p.scol (shownFrom p.geo cw p.cur (List.replicate k (' ', a)))) := by
  induction k generalizing p with
  | zero => simp [LP.spaces, cols, layout, shownFrom]
  | succ k ih =>
    simp only [LP.spaces, printCharRaw_eq, ih, List.replicate_succ, shownFrom, layout_append, cols_append]
    simp [LP.geo, Nat.add_assoc, Nat.succ_mul, Nat.add_comm (cw ' ')]

/-- state and output of `print_char` for a character that is not `\b` -/
theorem printChar_eq (cw : Char → Nat) (hsp : cw ' ' = 1) (p : LP) (ch : Char) (a : Attr) (hb : ch ≠ '\x08') :
    p.printChar cw ch a =
      ({ p with scol := p.scol + cols cw (shownFrom p.geo cw p.cur (expandFrom cw p.tabstop p.cur [(ch, a)])),
                cur := p.cur + cols cw (expandFrom cw p.tabstop p.cur [(ch, a)]) },
       layout cw p.row p.scol (shownFrom p.geo cw p.cur (expandFrom cw p.tabstop p.cur [(ch, a)]))) := by
  unfold LP.printChar
  rw [if_neg hb]
  by_cases ht : ch = '\t'
  · simp [ht, expandFrom, spaces_eq, cols_replicate, hsp]
  · simp [ht, expandFrom, printCharRaw_eq, shownFrom, cols]

theorem expandFrom_cons (cw : Char → Nat) (hsp : cw ' ' = 1) (tab pos : Nat) (x : Char × Attr) (t : List (Char × Attr)) :
    expandFrom cw tab pos (x :: t) =
      expandFrom cw tab pos [x] ++ expandFrom cw tab (pos + cols cw (expandFrom cw tab pos [x])) t := by
  obtain ⟨c, a⟩ := x
  by_cases ht : c = '\t'
  · simp [ht, expandFrom, cols_replicate, hsp]
  · simp [ht, expandFrom, cols]

/-- THE BRIDGE: what `print_item` writes = the window function of the spec applied to the tab-expanded,
    attribute-extended content, laid out on consecutive columns -/
theorem printItem_eq (cw : Char → Nat) (hsp : cw ' ' = 1) (dflt : Attr) (content : List (Char × Attr))
    (hb : ∀ x ∈ content, x.1 ≠ '\x08') (p : LP) :
    (p.printItem cw dflt content).2 =
      layout cw p.row p.scol (shownFrom p.geo cw p.cur
        (expandFrom cw p.tabstop p.cur (content.map fun x => (x.1, extend dflt x.2)))) := by
  induction content generalizing p with
  | nil => simp [LP.printItem, expandFrom, shownFrom, layout]
  | cons x t ih =>
    obtain ⟨c, a⟩ := x
    have hc : c ≠ '\x08' := hb (c, a) (by simp)
    have ht : ∀ x ∈ t, x.1 ≠ '\x08' := fun x hx => hb x (by simp [hx])
    simp only [LP.printItem, List.map_cons]
    rw [expandFrom_cons cw hsp, shownFrom_append, layout_append, printChar_eq cw hsp p c _ hc, ih ht]
    simp [LP.geo]

/-- nothing is shown at or beyond the right end of the window -/
theorem shownFrom_beyond (g : Geo) (cw : Char → Nat) (pos : Nat) (raws : List (Char × Attr))
    (h : g.stop ≤ pos) : shownFrom g cw pos raws = [] := by
  induction raws generalizing pos with
  | nil => simp [shownFrom]
  | cons x t ih =>
    obtain ⟨c, a⟩ := x
    simp only [shownFrom, rawShown]
    rw [if_pos (Or.inr h), ih _ (by omega)]; rfl

/-- FITS: an unscrolled window at least as wide as the text shows every raw cell as it is -/
theorem shownFrom_fits (g : Geo) (cw : Char → Nat) (pos : Nat) (raws : List (Char × Attr))
    (hs : g.start = 0) (htw : g.tw ≤ g.stop) (hw : pos + cols cw raws ≤ g.stop)
    (h1 : ∀ x ∈ raws, 1 ≤ cw x.1) : shownFrom g cw pos raws = raws := by
  induction raws generalizing pos with
  | nil => simp [shownFrom]
  | cons x t ih =>
    obtain ⟨c, a⟩ := x
    have hc : 1 ≤ cw c := h1 (c, a) (by simp)
    simp only [cols] at hw
    simp only [shownFrom, rawShown]
    rw [if_neg (by omega), if_neg (by omega), if_neg (by omega), ih (pos + cw c) (by omega) (fun x hx => h1 x (by simp [hx]))]
    rfl

/-- IN AREA: the columns used from position `pos` on never exceed what is left of the window, provided the
    claimed text width is not smaller than the real one -/
theorem cols_shownFrom_le (g : Geo) (cw : Char → Nat) (hdot : cw '.' = 1) (pos : Nat) (raws : List (Char × Attr))
    (hse : g.start ≤ g.stop) (htw : pos + cols cw raws ≤ g.tw) (h2 : ∀ x ∈ raws, cw x.1 ≤ 2) :
    cols cw (shownFrom g cw pos raws) ≤ g.stop - max pos g.start := by
  induction raws generalizing pos with
  | nil => simp [shownFrom, cols]
  | cons x t ih =>
    obtain ⟨c, a⟩ := x
    simp only [cols] at htw
    have ih' := ih (pos + cw c) (by omega) (fun x hx => h2 x (by simp [hx]))
    have hc : cw c ≤ 2 := h2 (c, a) (by simp)
    simp only [shownFrom, rawShown, cols_append]
    split
    · simp only [cols]; omega
    · split
      · rw [cols_replicate, hdot]; omega
      · split
        · rw [cols_replicate, hdot]; omega
        · simp only [cols]; omega

/-- the position lies to the right of the left dot zone -/
def beyondLeft (g : Geo) (pos : Nat) : Prop := g.start ≤ pos ∧ ¬ (pos < g.start + 2 ∧ g.start > 0)

/-- ... and in the right dot zone or beyond the window -/
def rightOrBeyond (g : Geo) (pos : Nat) : Prop :=
  beyondLeft g pos ∧ (pos ≥ g.stop ∨ (g.stop - pos ≤ 2 ∧ g.tw > g.stop))

theorem allDots_replicate (k : Nat) (a : Attr) : AllDots (List.replicate k ('.', a)) := by
  intro x hx; rw [List.mem_replicate] at hx; rw [hx.2]

theorem allDots_append {l r : List (Char × Attr)} (hl : AllDots l) (hr : AllDots r) : AllDots (l ++ r) := by
  intro x hx; rcases List.mem_append.mp hx with h | h
  · exact hl x h
  · exact hr x h

/-- phase 3: from the right dot zone on only dots are shown, at most as many as columns are left -/
theorem shownFrom_right (g : Geo) (cw : Char → Nat) (pos : Nat) (raws : List (Char × Attr))
    (h : rightOrBeyond g pos) :
    AllDots (shownFrom g cw pos raws) ∧ (shownFrom g cw pos raws).length ≤ g.stop - pos := by
  induction raws generalizing pos with
  | nil => simp [shownFrom, AllDots]
  | cons x t ih =>
    obtain ⟨c, a⟩ := x
    have ht := ih (pos + cw c) (by unfold rightOrBeyond beyondLeft at *; omega)
    obtain ⟨⟨h1, h2⟩, h3⟩ := h
    simp only [shownFrom, rawShown]
    split
    · simp only [List.nil_append]; exact ⟨ht.1, by omega⟩
    · (try rw [if_neg h2])
      rw [if_pos (by omega)]
      refine ⟨allDots_append (allDots_replicate _ _) ht.1, ?_⟩
      simp only [List.length_append, List.length_replicate]; omega

/-- phase 2: right of the left dot zone a run of cells is shown as it is, then at most two dots -/
theorem shownFrom_mid (g : Geo) (cw : Char → Nat) (pos : Nat) (raws : List (Char × Attr))
    (h : beyondLeft g pos) :
    ∃ core post R, raws = core ++ post ∧ shownFrom g cw pos raws = core ++ R ∧ AllDots R ∧ R.length ≤ 2 ∧
      (R ≠ [] → post ≠ []) := by
  induction raws generalizing pos with
  | nil => exact ⟨[], [], [], by simp [shownFrom, AllDots]⟩
  | cons x t ih =>
    by_cases hr : rightOrBeyond g pos
    · have := shownFrom_right g cw pos (x :: t) hr
      refine ⟨[], x :: t, shownFrom g cw pos (x :: t), by simp, by simp, this.1, ?_, by simp⟩
      have h2 := this.2
      unfold rightOrBeyond beyondLeft at hr; omega
    · obtain ⟨c, a⟩ := x
      obtain ⟨core, post, R, e1, e2, e3, e4, e5⟩ := ih (pos + cw c) (by unfold beyondLeft at *; omega)
      refine ⟨(c, a) :: core, post, R, by simp [e1], ?_, e3, e4, e5⟩
      simp only [shownFrom, rawShown, e2]
      unfold rightOrBeyond beyondLeft at *
      rw [if_neg (by omega), if_neg (by omega), if_neg (by omega)]; rfl

/-- bound on the number of left dots still to come when the next cell starts at `pos` -/
def leftBudget (g : Geo) (pos : Nat) : Nat := if pos ≤ g.start then 3 else if pos = g.start + 1 then 2 else 0

/-- phase 1: the general form -/
theorem shownFrom_form (g : Geo) (cw : Char → Nat) (pos : Nat) (raws : List (Char × Attr)) :
    ∃ pre core post L R, raws = pre ++ core ++ post ∧ shownFrom g cw pos raws = L ++ core ++ R ∧
      AllDots L ∧ AllDots R ∧ L.length ≤ leftBudget g pos ∧ R.length ≤ 2 ∧
      (L ≠ [] → pre ≠ []) ∧ (R ≠ [] → post ≠ []) := by
  induction raws generalizing pos with
  | nil => exact ⟨[], [], [], [], [], by simp [shownFrom, AllDots]⟩
  | cons x t ih =>
    by_cases hb : beyondLeft g pos
    · obtain ⟨core, post, R, e1, e2, e3, e4, e5⟩ := shownFrom_mid g cw pos (x :: t) hb
      exact ⟨[], core, post, [], R, by simp [e1], by simp [e2], by simp [AllDots], e3, by simp, e4, by simp, e5⟩
    · obtain ⟨c, a⟩ := x
      obtain ⟨pre, core, post, L, R, e1, e2, e3, e4, e5, e6, e7, e8⟩ := ih (pos + cw c)
      have hd : AllDots (rawShown g cw pos c a) ∧
          (rawShown g cw pos c a).length + leftBudget g (pos + cw c) ≤ leftBudget g pos := by
        unfold rawShown beyondLeft at *
        split
        · refine ⟨by simp [AllDots], ?_⟩
          simp only [List.length_nil, leftBudget]
          (repeat' split) <;> omega
        · rw [if_pos (by omega)]
          refine ⟨allDots_replicate _ _, ?_⟩
          simp only [List.length_replicate, leftBudget]
          (repeat' split) <;> omega
      refine ⟨(c, a) :: pre, core, post, rawShown g cw pos c a ++ L, R, by simp [e1], ?_,
        allDots_append hd.1 e3, e4, ?_, e6, by simp, e8⟩
      · simp [shownFrom, e2]
      · simp only [List.length_append]; omega

/-- LEFT CUT MARKED: when the window does not start at the beginning of the text, whatever is shown begins
    with a dot -/
theorem shownFrom_left_marked (g : Geo) (cw : Char → Nat) (pos : Nat) (raws : List (Char × Attr))
    (h0 : 0 < g.start) (hp : pos ≤ g.start + 1) (hw : ∀ x ∈ raws, 1 ≤ cw x.1 ∧ cw x.1 ≤ 2) :
    shownFrom g cw pos raws = [] ∨ ∃ a rest, shownFrom g cw pos raws = ('.', a) :: rest := by
  induction raws generalizing pos with
  | nil => simp [shownFrom]
  | cons x t ih =>
    obtain ⟨c, a⟩ := x
    have hc : 1 ≤ cw c ∧ cw c ≤ 2 := hw (c, a) (by simp)
    have ht : ∀ x ∈ t, 1 ≤ cw x.1 ∧ cw x.1 ≤ 2 := fun x hx => hw x (by simp [hx])
    simp only [shownFrom, rawShown]
    by_cases h1 : pos < g.start
    · rw [if_pos (Or.inl h1)]
      simpa using ih (pos + cw c) (by omega) ht
    · by_cases h2 : pos ≥ g.stop
      · rw [if_pos (Or.inr h2), shownFrom_beyond g cw _ t (by omega)]; simp
      · rw [if_neg (by omega), if_pos (by omega)]
        right
        have : min (min (cw c) (pos - g.start + 1)) (g.stop - pos) = (min (min (cw c) (pos - g.start + 1)) (g.stop - pos) - 1) + 1 := by omega
        rw [this, List.replicate_succ]
        exact ⟨a, _, rfl⟩

/-- a segment of width-1 cells all of whose positions are treated alike -/
theorem shownFrom_segment (g : Geo) (cw : Char → Nat) (F : Char × Attr → List (Char × Attr)) (pos : Nat)
    (X Y : List (Char × Attr)) (hn : ∀ x ∈ X, cw x.1 = 1)
    (hF : ∀ j, j < X.length → ∀ c a, cw c = 1 → rawShown g cw (pos + j) c a = F (c, a)) :
    shownFrom g cw pos (X ++ Y) = X.flatMap F ++ shownFrom g cw (pos + X.length) Y := by
  induction X generalizing pos with
  | nil => simp
  | cons x t ih =>
    obtain ⟨c, a⟩ := x
    have hc : cw c = 1 := hn (c, a) (by simp)
    have h0 := hF 0 (by simp) c a hc
    simp only [Nat.add_zero] at h0
    simp only [List.cons_append, shownFrom, h0, List.flatMap_cons, List.append_assoc, hc]
    rw [ih (pos + 1) (fun x hx => hn x (by simp [hx]))]
    · simp [Nat.add_assoc, Nat.add_comm 1]
    · intro j hj c a hc
      have := hF (j + 1) (by simp; omega) c a hc
      rw [← this]; congr 1; omega

def dotOf (x : Char × Attr) : Char × Attr := ('.', x.2)

/-- CLIPPED, width-1 cells (plain characters and expanded tabs), both sides cut, container at least 4 wide:
    the window shows exactly `..` + the cells between + `..` -/
theorem shownFrom_narrow_both (g : Geo) (cw : Char → Nat) (A B C D E : List (Char × Attr))
    (hn : ∀ x ∈ A ++ B ++ C ++ D ++ E, cw x.1 = 1)
    (hA : A.length = g.start) (h0 : 0 < g.start) (hB : B.length = 2) (hD : D.length = 2)
    (hstop : A.length + B.length + C.length + D.length = g.stop) (htw : g.tw > g.stop) :
    shownFrom g cw 0 (A ++ B ++ C ++ D ++ E) = B.map dotOf ++ C ++ D.map dotOf := by
  have hnA : ∀ x ∈ A, cw x.1 = 1 := fun x hx => hn x (by simp [hx])
  have hnB : ∀ x ∈ B, cw x.1 = 1 := fun x hx => hn x (by simp [hx])
  have hnC : ∀ x ∈ C, cw x.1 = 1 := fun x hx => hn x (by simp [hx])
  have hnD : ∀ x ∈ D, cw x.1 = 1 := fun x hx => hn x (by simp [hx])
  rw [List.append_assoc, List.append_assoc, List.append_assoc,
    shownFrom_segment g cw (fun _ => []) 0 A _ hnA (by
      intro j hj c a hc; simp only [rawShown]; rw [if_pos (by omega)]),
    shownFrom_segment g cw (fun x => [dotOf x]) _ B _ hnB (by
      intro j hj c a hc; simp only [rawShown, dotOf, hc]
      rw [if_neg (by omega), if_pos (by omega)]
      have : min (min 1 (0 + A.length + j - g.start + 1)) (g.stop - (0 + A.length + j)) = 1 := by omega
      rw [this]; rfl),
    shownFrom_segment g cw (fun x => [x]) _ C _ hnC (by
      intro j hj c a hc; simp only [rawShown]
      rw [if_neg (by omega), if_neg (by omega), if_neg (by omega)]),
    shownFrom_segment g cw (fun x => [dotOf x]) _ D _ hnD (by
      intro j hj c a hc; simp only [rawShown, dotOf, hc]
      rw [if_neg (by omega), if_neg (by omega), if_pos (by omega)]
      have : min 1 (g.stop - (0 + A.length + B.length + C.length + j)) = 1 := by omega
      rw [this]; rfl),
    shownFrom_beyond g cw _ E (by omega)]
  have e1 : ∀ l : List (Char × Attr), List.flatMap (fun _ => ([] : List (Char × Attr))) l = [] := by
    intro l; induction l <;> simp_all
  have e2 : ∀ l : List (Char × Attr), List.flatMap (fun x => [dotOf x]) l = l.map dotOf := by
    intro l; induction l <;> simp_all
  simp [e1, e2]

theorem extend_dflt (b : Attr) : extend b Attr.dflt = b := by
  obtain ⟨fg, bg, ⟨e1, e2, e3, e4, e5⟩⟩ := b
  simp [extend, Attr.dflt, Effect.or]

/-- the attribute extension `print_item` applies to every `(char, attr)` of the content -/
def ext (base : Attr) (x : Char × Attr) : Char × Attr := (x.1, extend base x.2)

theorem styledFrom_congr (f g : Nat → Bool) (base hl : Attr) (j : Nat) (cs : List Char)
    (h : ∀ i, j ≤ i → f i = g i) : styledFrom f base hl j cs = styledFrom g base hl j cs := by
  induction cs generalizing j with
  | nil => rfl
  | cons c t ih => simp only [styledFrom, h j (Nat.le_refl _)]; rw [ih (j + 1) (fun i hi => h i (by omega))]

theorem styledFrom_false (base hl : Attr) (j : Nat) (cs : List Char) :
    styledFrom (fun _ => false) base hl j cs = cs.map fun c => (c, base) := by
  induction cs generalizing j with
  | nil => rfl
  | cons c t ih => simp [styledFrom, ih]

theorem styledFrom_hl_dflt (f : Nat → Bool) (base : Attr) (j : Nat) (cs : List Char) :
    styledFrom f base Attr.dflt j cs = cs.map fun c => (c, base) := by
  induction cs generalizing j with
  | nil => rfl
  | cons c t ih => simp [styledFrom, ih, extend_dflt]

theorem iterGo_nil (base : Attr) (j : Nat) (cs : List Char) :
    (iterGo [] j cs).map (ext base) = cs.map fun c => (c, base) := by
  induction cs generalizing j with
  | nil => rfl
  | cons c t ih => simp [iterGo, advance, ext, extend_dflt, ih]

def mkFrag (hl : Attr) (i : Nat) : Frag := ⟨hl, i, 1 + i⟩

theorem advance_sorted (hl : Attr) (l : List Nat) (hs : l.Pairwise (· < ·)) (j : Nat) :
    ∃ l' : List Nat, advance (l.map (mkFrag hl)) j = l'.map (mkFrag hl) ∧ l'.Pairwise (· < ·) ∧ (∀ i ∈ l', j ≤ i) ∧
      (∀ i, j ≤ i → (i ∈ l ↔ i ∈ l')) := by
  induction l with
  | nil => exact ⟨[], by simp [advance]⟩
  | cons i t ih =>
    rw [List.pairwise_cons] at hs
    by_cases hj : j < 1 + i
    · refine ⟨i :: t, by simp [advance, mkFrag, hj], List.pairwise_cons.mpr hs, ?_, fun _ _ => Iff.rfl⟩
      intro x hx
      rcases List.mem_cons.mp hx with h | h
      · omega
      · have := hs.1 x h; omega
    · obtain ⟨l', e1, e2, e3, e4⟩ := ih hs.2
      refine ⟨l', by simp [advance, mkFrag, hj]; simpa [mkFrag] using e1, e2, e3, ?_⟩
      intro x hx
      rw [← e4 x hx, List.mem_cons]
      constructor
      · rintro (h | h)
        · omega
        · exact h
      · exact Or.inr

/-- HIGHLIGHT (char indices): for strictly increasing indices the iterator hands the highlight to exactly
    the listed characters -/
theorem iterGo_chars (base hl : Attr) (l : List Nat) (hs : l.Pairwise (· < ·)) (j : Nat) (cs : List Char) :
    (iterGo (l.map (mkFrag hl)) j cs).map (ext base) = styledFrom (fun i => l.contains i) base hl j cs := by
  induction cs generalizing l j with
  | nil => rfl
  | cons c t ih =>
    obtain ⟨l', e1, e2, e3, e4⟩ := advance_sorted hl l hs j
    simp only [iterGo, List.map_cons, styledFrom, e1]
    rw [ih l' e2 (j + 1), styledFrom_congr (fun i => l'.contains i) (fun i => l.contains i) base hl (j + 1) t
      (by intro i hi; simp only [List.contains_eq_mem]; rw [decide_eq_decide]; exact (e4 i (by omega)).symm)]
    congr 1
    simp only [ext, List.contains_eq_mem]
    cases l' with
    | nil =>
      have : j ∉ l := fun h => by simpa using (e4 j (Nat.le_refl _)).mp h
      simp [this, extend_dflt]
    | cons i t' =>
      simp only [List.map_cons, mkFrag]
      have hi : j ≤ i := e3 i (by simp)
      rw [List.pairwise_cons] at e2
      by_cases hij : i = j
      · have : j ∈ l := (e4 j (Nat.le_refl _)).mpr (by simp [hij])
        simp [this, hij]
      · have : j ∉ l := by
          intro h
          rcases List.mem_cons.mp ((e4 j (Nat.le_refl _)).mp h) with h | h
          · omega
          · have := e2.1 j h; omega
        have h2 : ¬ (i ≤ j ∧ j < 1 + i) := by omega
        simp [this, h2, extend_dflt]

theorem iterGo_single (base : Attr) (f : Frag) (j : Nat) (cs : List Char) :
    (iterGo [f] j cs).map (ext base) =
      styledFrom (fun i => decide (f.start ≤ i) && decide (i < f.stop)) base f.attr j cs := by
  induction cs generalizing j with
  | nil => rfl
  | cons c t ih =>
    by_cases hj : j < f.stop
    · simp only [iterGo, advance, hj, if_true, List.map_cons, styledFrom, ih]
      congr 1
      by_cases hs : f.start ≤ j <;> simp [ext, hs, extend_dflt]
    · simp only [iterGo, advance, hj, if_false, List.map_cons, styledFrom, iterGo_nil]
      rw [styledFrom_congr _ (fun _ => false) base f.attr (j + 1) t (by intro i hi; simp; omega),
        styledFrom_false]
      simp [ext, extend_dflt]

theorem iter_none_map (base : Attr) (text : List Char) :
    (AnsiString.iter ⟨text, none⟩).map (ext base) = text.map fun c => (c, base) := by
  simp [AnsiString.iter, ext, extend_dflt]

/-- HIGHLIGHT: with valid match positions, the content `print_item` iterates over, after `default_attr.extend`,
    is the text in which exactly the matched characters carry `base.extend(hl)` and all others `base` -/
theorem content_styled (text : List Char) (mr : MatchRange) (base hl : Attr) (content : AnsiString)
    (hd : displayContent text mr hl = some content) (hv : mr.Valid text) :
    content.iter.map (ext base) = styled text mr base hl := by
  cases mr with
  | none =>
    simp only [displayContent, AnsiString.newString, Option.some.injEq] at hd
    subst hd
    have : MatchRange.covers text .none = fun _ => false := by funext i; rfl
    simp only [List.isEmpty_nil, Bool.true_or, if_true, styled, this, styledFrom_false]
    exact iter_none_map base text
  | chars idxs =>
    simp only [displayContent, Option.some.injEq] at hd
    subst hd
    have hc : MatchRange.covers text (.chars idxs) = fun i => idxs.contains i := by funext i; rfl
    simp only [styled, hc]
    cases idxs with
    | nil =>
      simp only [AnsiString.newString, List.map_nil, List.isEmpty_nil, Bool.true_or, if_true]
      rw [iter_none_map, styledFrom_congr _ (fun _ => false) base hl 0 text (by intro i _; simp), styledFrom_false]
    | cons i t =>
      by_cases hn : t = [] ∧ hl = Attr.dflt
      · obtain ⟨h1, h2⟩ := hn
        subst h1; subst h2
        simp only [AnsiString.newString, List.map_cons, List.map_nil, List.isEmpty_cons, Bool.false_or,
          decide_true, if_true]
        rw [iter_none_map, styledFrom_hl_dflt]
      · have : AnsiString.newString text ((i :: t).map fun i => (⟨hl, i, 1 + i⟩ : Frag)) =
            ⟨text, some ((i :: t).map (mkFrag hl))⟩ := by
          cases t with
          | nil => simp [AnsiString.newString, mkFrag]; intro h; exact hn ⟨rfl, h⟩
          | cons i2 t2 => simp [AnsiString.newString, mkFrag]
        rw [this]
        simp only [AnsiString.iter]
        exact iterGo_chars base hl (i :: t) hv.1 0 text
  | bytes s e =>
    simp only [displayContent, byteRangeChars, MatchRange.Valid] at hd hv
    obtain ⟨hse, h1, h2⟩ := hv
    obtain ⟨a, ha⟩ := Option.isSome_iff_exists.mp h1
    obtain ⟨b, hb⟩ := Option.isSome_iff_exists.mp h2
    simp [ha, hb, show ¬ e < s by omega] at hd
    subst hd
    have hc : MatchRange.covers text (.bytes s e) = fun i => decide (a ≤ i) && decide (i < b) := by
      funext i; simp [MatchRange.covers, ha, hb]
    simp only [styled, hc]
    by_cases hn : hl = Attr.dflt
    · subst hn
      simp only [AnsiString.newString, List.isEmpty_cons, Bool.false_or, decide_true, if_true]
      rw [iter_none_map, styledFrom_hl_dflt]
    · have : AnsiString.newString text [(⟨hl, a, a + (b - a)⟩ : Frag)] = ⟨text, some [⟨hl, a, a + (b - a)⟩]⟩ := by
        simp [AnsiString.newString, hn]
      rw [this]
      simp only [AnsiString.iter]
      rw [iterGo_single]
      apply styledFrom_congr
      intro i _
      simp only []
      by_cases h1 : a ≤ i <;> by_cases h2 : i < b <;> simp [h1, h2] <;> omega

theorem cols_expandFrom (cw : Char → Nat) (hsp : cw ' ' = 1) (tab pos : Nat) (l : List (Char × Attr)) :
    pos + cols cw (expandFrom cw tab pos l) = widthFrom cw tab pos (l.map (·.1)) := by
  induction l generalizing pos with
  | nil => simp [expandFrom, cols, widthFrom]
  | cons x t ih =>
    obtain ⟨c, a⟩ := x
    by_cases ht : c = '\t'
    · simp only [expandFrom, ht, if_true, cols_append, cols_replicate, hsp, List.map_cons, widthFrom, ← ih]
      omega
    · simp only [expandFrom, ht, if_false, cols, List.map_cons, widthFrom, ← ih]
      omega

theorem styledFrom_fst (f : Nat → Bool) (base hl : Attr) (j : Nat) (cs : List Char) :
    (styledFrom f base hl j cs).map (·.1) = cs := by
  induction cs generalizing j with
  | nil => rfl
  | cons c t ih => simp [styledFrom, ih]

theorem mem_expandFrom (cw : Char → Nat) (P : Char → Prop) (hsp : P ' ') (tab pos : Nat) (l : List (Char × Attr))
    (h : ∀ y ∈ l, y.1 ≠ '\t' → P y.1) : ∀ x ∈ expandFrom cw tab pos l, P x.1 := by
  induction l generalizing pos with
  | nil => simp [expandFrom]
  | cons y t ih =>
    obtain ⟨c, a⟩ := y
    intro x hx
    by_cases ht : c = '\t'
    · simp only [expandFrom, ht, if_true, List.mem_append, List.mem_replicate] at hx
      rcases hx with h1 | h1
      · rw [h1.2]; exact hsp
      · exact ih _ (fun y hy => h y (by simp [hy])) x h1
    · simp only [expandFrom, ht, if_false, List.mem_cons] at hx
      rcases hx with h1 | h1
      · rw [h1]; exact h (c, a) (by simp) ht
      · exact ih _ (fun y hy => h y (by simp [hy])) x h1

theorem accFrom_length (cw : Char → Nat) (tab w : Nat) (text : List Char) :
    (accFrom cw tab w text).length = text.length := by
  induction text generalizing w with
  | nil => rfl
  | cons c t ih => simp [accFrom, ih]

theorem accFrom_last (cw : Char → Nat) (tab w : Nat) (c : Char) (t : List Char) :
    (accFrom cw tab w (c :: t))[t.length]? = some (widthFrom cw tab w (c :: t)) := by
  induction t generalizing w c with
  | nil => simp [accFrom, widthFrom]
  | cons c2 t2 ih =>
    have := ih (w + (if c = '\t' then tab - w % tab else cw c)) c2
    simp only [accFrom, widthFrom, List.length_cons] at *
    simpa using this

/-- every entry of `acc_width` is at most the full width, and entries grow with the index -/
theorem accFrom_le (cw : Char → Nat) (tab w : Nat) (text : List Char) (i : Nat) (x : Nat)
    (h : (accFrom cw tab w text)[i]? = some x) : w ≤ x ∧ x ≤ widthFrom cw tab w text := by
  induction text generalizing w i with
  | nil => simp [accFrom] at h
  | cons c t ih =>
    have hmono : ∀ w t, w ≤ widthFrom cw tab w t := by
      intro w t; induction t generalizing w with
      | nil => simp [widthFrom]
      | cons c t ih => simp only [widthFrom]; exact Nat.le_trans (by omega) (ih _)
    cases i with
    | zero =>
      simp only [accFrom, List.getElem?_cons_zero, Option.some.injEq] at h
      subst h
      exact ⟨by omega, by simp only [widthFrom]; exact hmono _ _⟩
    | succ i =>
      simp only [accFrom, List.getElem?_cons_succ] at h
      have := ih _ _ h
      simp only [widthFrom]
      omega

theorem accFrom_mono (cw : Char → Nat) (tab w : Nat) (text : List Char) (i j x y : Nat) (hij : i ≤ j)
    (hi : (accFrom cw tab w text)[i]? = some x) (hj : (accFrom cw tab w text)[j]? = some y) : x ≤ y := by
  induction text generalizing w i j with
  | nil => simp [accFrom] at hi
  | cons c t ih =>
    cases i with
    | zero =>
      cases j with
      | zero => simp_all
      | succ j =>
        simp only [accFrom, List.getElem?_cons_zero, List.getElem?_cons_succ, Option.some.injEq] at hi hj
        have := (accFrom_le cw tab _ t j y hj).1
        omega
    | succ i =>
      cases j with
      | zero => omega
      | succ j =>
        simp only [accFrom, List.getElem?_cons_succ] at hi hj
        exact ih _ i j (by omega) hi hj

theorem accFrom_get (cw : Char → Nat) (tab w : Nat) (text : List Char) (i : Nat) (h : i < text.length) :
    ∃ x, (accFrom cw tab w text)[i]? = some x := by
  have : i < (accFrom cw tab w text).length := by rw [accFrom_length]; exact h
  exact ⟨_, List.getElem?_eq_getElem this⟩

theorem reshape_fullWidth (cw : Char → Nat) (text : List Char) (tab : Nat) (h : text ≠ []) :
    (accumulateTextWidth cw text tab)[(accumulateTextWidth cw text tab).length - 1]? =
      some (textWidth cw tab text) := by
  cases text with
  | nil => exact absurd rfl h
  | cons c t =>
    unfold accumulateTextWidth textWidth
    rw [accFrom_length]
    simpa using accFrom_last cw tab 0 c t

/-- the second component of `reshape_string` is the display width of the text -/
theorem reshape_snd (cw : Char → Nat) (text : List Char) (cwidth ms me tab : Nat) (r : Nat × Nat)
    (h : reshapeString cw text cwidth ms me tab = some r) : r.2 = textWidth cw tab text := by
  unfold reshapeString at h
  by_cases ht : text = []
  · subst ht; simp at h; subst h; rfl
  · have hf := reshape_fullWidth cw text tab ht
    simp only [List.isEmpty_iff, ht, if_false, hf] at h
    repeat' split at h
    all_goals first
      | (simp at h; done)
      | (simp only [Option.some.injEq] at h; subst h; rfl)
      | (simp only [Option.map_eq_some_iff] at h; obtain ⟨_, _, h⟩ := h; subst h; rfl)

/-- a text that fits is never shifted -/
theorem reshape_fits (cw : Char → Nat) (text : List Char) (cwidth ms me tab : Nat)
    (hw : textWidth cw tab text ≤ cwidth) :
    reshapeString cw text cwidth ms me tab = some (0, textWidth cw tab text) := by
  unfold reshapeString
  by_cases ht : text = []
  · subst ht; simp [textWidth, widthFrom]
  · have hf := reshape_fullWidth cw text tab ht
    simp [ht, hf, hw]

/-- RESHAPE TOTAL: for match positions inside the text, `reshape_string` never indexes outside `acc_width`
    and never subtracts below zero -/
theorem reshape_total (cw : Char → Nat) (text : List Char) (cwidth ms me tab : Nat)
    (h1 : ms ≤ text.length) (h2 : ms ≤ me + 1) :
    (reshapeString cw text cwidth ms me tab).isSome = true := by
  unfold reshapeString
  by_cases ht : text = []
  · subst ht; simp
  · have hf := reshape_fullWidth cw text tab ht
    have hlen : (accumulateTextWidth cw text tab).length = text.length := accFrom_length cw tab 0 text
    simp only [List.isEmpty_iff, ht, if_false, hf]
    split
    · rfl
    · -- w1
      have hw1 : ∃ w1, reshapeW1 (accumulateTextWidth cw text tab) ms = some w1 ∧ w1 ≤ textWidth cw tab text ∧
          (∀ a, (accumulateTextWidth cw text tab)[me]? = some a → w1 ≤ a) := by
        unfold reshapeW1
        by_cases h0 : ms = 0
        · exact ⟨0, by simp [h0], by omega, fun _ _ => by omega⟩
        · obtain ⟨x, hx⟩ := accFrom_get cw tab 0 text (ms - 1) (by omega)
          refine ⟨x, by simp [h0]; exact hx, (accFrom_le cw tab 0 text _ x hx).2, ?_⟩
          intro a ha
          exact accFrom_mono cw tab 0 text (ms - 1) me x a (by omega) hx ha
      obtain ⟨w1, e1, l1, m1⟩ := hw1
      rw [e1]
      simp only []
      -- w2
      have hw2 : ∃ w2, reshapeW2 (accumulateTextWidth cw text tab) (textWidth cw tab text) w1 me = some w2 ∧
          w1 + w2 ≤ textWidth cw tab text ∧
          (me < text.length → (accumulateTextWidth cw text tab)[me]? = some (w1 + w2)) ∧
          (text.length ≤ me → w1 + w2 = textWidth cw tab text) := by
        unfold reshapeW2
        by_cases hm : me ≥ (accumulateTextWidth cw text tab).length
        · refine ⟨textWidth cw tab text - w1, by simp [hm, csub, l1], by omega, by omega, by omega⟩
        · obtain ⟨a, ha⟩ := accFrom_get cw tab 0 text me (by omega)
          have := m1 a ha
          have hle := (accFrom_le cw tab 0 text _ a ha).2
          refine ⟨a - w1, ?_, ?_, ?_, by omega⟩
          · simp only [hm, if_false]; unfold accumulateTextWidth; rw [ha]; simp [csub, this]
          · unfold textWidth; omega
          · intro _; unfold accumulateTextWidth; rw [ha]; congr 1; omega
      obtain ⟨w2, e2, l2, m2, m3⟩ := hw2
      rw [e2]
      simp only []
      have e3 : reshapeW3 (textWidth cw tab text) w1 w2 = some (textWidth cw tab text - w1 - w2) := by
        simp [reshapeW3, csub, l1]; omega
      rw [e3]
      simp only []
      split
      · simp [csub]; omega
      · split
        · rfl
        · have hme : me < text.length := by omega
          rw [m2 hme]
          simp [csub]; omega

theorem build_fields (row col tab cwid shift tw : Nat) (hs : Int) :
    (LP.build row col tab cwid shift tw hs).row = row ∧ (LP.build row col tab cwid shift tw hs).scol = col ∧
    (LP.build row col tab cwid shift tw hs).cur = 0 ∧ (LP.build row col tab cwid shift tw hs).tabstop = tab ∧
    (LP.build row col tab cwid shift tw hs).geo =
      ⟨(max ((shift : Int) + hs) 0).toNat, (max ((shift : Int) + hs) 0).toNat + cwid, tw⟩ := by
  simp [LP.build, LP.reset, LP.geo]

theorem iter_fst (content : AnsiString) : content.iter.map (·.1) = content.stripped := by
  unfold AnsiString.iter
  cases content.fragments with
  | none => simp [Function.comp_def]
  | some fr =>
    simp only []
    generalize (0 : Nat) = j
    induction content.stripped generalizing fr j with
    | nil => rfl
    | cons c t ih => simp [iterGo, ih]

theorem displayContent_stripped (text : List Char) (mr : MatchRange) (hl : Attr) (content : AnsiString)
    (h : displayContent text mr hl = some content) : content.stripped = text := by
  cases mr with
  | none => simp [displayContent, AnsiString.newString] at h; subst h; rfl
  | chars idxs => simp [displayContent, AnsiString.newString] at h; subst h; rfl
  | bytes s e =>
    simp only [displayContent] at h
    cases hb : byteRangeChars text s e with
    | none => simp [hb] at h
    | some r => simp [hb, AnsiString.newString] at h; subst h; rfl

/-- ITEM ROW: what `draw_item` writes for an item with valid match positions: the marker, then the window
    `geoOf` over the tab-expanded, highlighted text, on consecutive columns from column 2 -/
theorem drawItem_eq (v : View) (w row : Nat) (it : Item) (isCur : Bool) (ps : List Put)
    (h : drawItem v w row it isCur = some ps) (hw : 3 ≤ w) (hsp : v.cw ' ' = 1)
    (hb : ∀ c ∈ it.text, c ≠ '\x08') (hv : it.mr.Valid it.text) :
    ∃ g, v.geoOf w it = some g ∧
      ps = v.mark row it isCur :: layout v.cw row 2 (shownFrom g v.cw 0 (v.rawsOf it isCur)) := by
  unfold drawItem at h
  rw [if_neg (by omega)] at h
  simp only [] at h
  split at h
  · cases h
  · rename_i content hc
    split at h
    · cases h
    · rename_i m hm
      split at h
      · cases h
      · rename_i r hr
        simp only [Option.some.injEq] at h
        refine ⟨_, by simp only [View.geoOf, hm, hr]; rfl, ?_⟩
        rw [← h]
        congr 1
        obtain ⟨f1, f2, f3, f4, f5⟩ := build_fields row 2 v.tabstop (w - 2) (v.shiftOf it.text (w - 2) m.1 m.2 r.1 r.2) r.2 v.hscroll
        have hstr := displayContent_stripped _ _ _ _ hc
        rw [printItem_eq v.cw hsp (v.base isCur) content.iter (by
          intro x hx
          have : x.1 ∈ content.iter.map (·.1) := List.mem_map_of_mem hx
          rw [iter_fst, hstr] at this
          exact hb _ this), f1, f2, f3, f4, f5]
        have := content_styled it.text it.mr (v.base isCur) (v.hl isCur) content hc hv
        unfold ext at this
        rw [this]
        rfl

theorem geoOf_facts (v : View) (w : Nat) (it : Item) (g : Geo) (h : v.geoOf w it = some g) :
    g.stop = g.start + (w - 2) ∧ g.tw = textWidth v.cw v.tabstop it.text ∧
    (textWidth v.cw v.tabstop it.text ≤ w - 2 → v.hscroll ≤ 0 → v.skip = none → g.start = 0) := by
  unfold View.geoOf at h
  split at h
  · cases h
  · rename_i m hm
    split at h
    · cases h
    · rename_i r hr
      simp only [Option.some.injEq] at h
      subst h
      refine ⟨rfl, reshape_snd _ _ _ _ _ _ _ hr, ?_⟩
      intro hfit hhs hsk
      rw [reshape_fits v.cw it.text (w - 2) m.1 m.2 v.tabstop hfit] at hr
      simp only [Option.some.injEq] at hr
      subst hr
      have : v.shiftOf it.text (w - 2) m.1 m.2 0 (textWidth v.cw v.tabstop it.text) = 0 := by
        unfold View.shiftOf View.calcSkipWidth
        rw [hsk]
        split
        · rfl
        · split
          · split
            · omega
            · rfl
          · rfl
      simp only [this]
      omega

theorem layout_mem (cw : Char → Nat) (row col : Nat) (s : List (Char × Attr)) :
    ∀ q ∈ layout cw row col s, q.row = row ∧ col ≤ q.col := by
  induction s generalizing col with
  | nil => simp [layout]
  | cons x t ih =>
    obtain ⟨c, a⟩ := x
    intro q hq
    simp only [layout, List.mem_cons] at hq
    rcases hq with h | h
    · subst h; exact ⟨rfl, Nat.le_refl _⟩
    · have := ih (col + cw c) q h; exact ⟨this.1, by omega⟩

/-- every write of the layout lies inside the first `col + cols` columns -/
theorem layout_inside (cw : Char → Nat) (row col : Nat) (s : List (Char × Attr)) (h1 : ∀ x ∈ s, 1 ≤ cw x.1) :
    ∀ q ∈ layout cw row col s, q.col + max (cw q.ch) 1 ≤ col + cols cw s := by
  induction s generalizing col with
  | nil => simp [layout]
  | cons x t ih =>
    obtain ⟨c, a⟩ := x
    have hc : 1 ≤ cw c := h1 (c, a) (by simp)
    intro q hq
    simp only [layout, List.mem_cons] at hq
    simp only [cols]
    rcases hq with h | h
    · subst h; simp only []; omega
    · have := ih (col + cw c) (fun x hx => h1 x (by simp [hx])) q h; omega

/-! ### printer invariants that need no hypothesis on the text: row and leftmost column of the writes -/

def OutOk (p : LP) (r : LP × List Put) : Prop :=
  r.1.row = p.row ∧ p.scol ≤ r.1.scol ∧ ∀ q ∈ r.2, q.row = p.row ∧ p.scol ≤ q.col

theorem OutOk.seq {p : LP} {r1 : LP × List Put} {r2 : LP × List Put} (h1 : OutOk p r1) (h2 : OutOk r1.1 r2) :
    OutOk p (r2.1, r1.2 ++ r2.2) := by
  obtain ⟨a1, a2, a3⟩ := h1
  obtain ⟨b1, b2, b3⟩ := h2
  refine ⟨by simp [b1, a1], by simp; omega, ?_⟩
  intro q hq
  rcases List.mem_append.mp hq with h | h
  · exact a3 q h
  · have := b3 q h; exact ⟨by rw [this.1, a1], by omega⟩

theorem dots_ok (cw : Char → Nat) (p : LP) (a : Attr) (k : Nat) : OutOk p (p.dots cw a k) := by
  rw [dots_eq]
  refine ⟨rfl, by simp, ?_⟩
  intro q hq; exact layout_mem cw _ _ _ q hq

theorem printCharRaw_ok (cw : Char → Nat) (p : LP) (ch : Char) (a : Attr) : OutOk p (p.printCharRaw cw ch a) := by
  rw [printCharRaw_eq]
  refine ⟨rfl, by simp, ?_⟩
  intro q hq; exact layout_mem cw _ _ _ q hq

theorem spaces_ok (cw : Char → Nat) (p : LP) (a : Attr) (k : Nat) : OutOk p (p.spaces cw a k) := by
  rw [spaces_eq]
  refine ⟨rfl, by simp, ?_⟩
  intro q hq; exact layout_mem cw _ _ _ q hq

theorem printChar_ok (cw : Char → Nat) (p : LP) (ch : Char) (a : Attr) : OutOk p (p.printChar cw ch a) := by
  unfold LP.printChar
  split
  · exact ⟨rfl, Nat.le_refl _, by simp⟩
  · split
    · exact spaces_ok cw p a _
    · exact printCharRaw_ok cw p ch a

theorem printItem_ok (cw : Char → Nat) (p : LP) (d : Attr) (l : List (Char × Attr)) :
    OutOk p (p.printItem cw d l) := by
  induction l generalizing p with
  | nil => exact ⟨rfl, Nat.le_refl _, by simp [LP.printItem]⟩
  | cons x t ih =>
    obtain ⟨c, a⟩ := x
    simp only [LP.printItem]
    exact OutOk.seq (printChar_ok cw p c _) (ih _)

/-- all writes of `draw_item` are in its row, at column 1 or further right -/
theorem drawItem_rows (v : View) (w row : Nat) (it : Item) (isCur : Bool) (ps : List Put)
    (h : drawItem v w row it isCur = some ps) : ∀ q ∈ ps, q.row = row ∧ 1 ≤ q.col := by
  unfold drawItem at h
  split at h
  · simp at h; subst h; simp
  · simp only [] at h
    repeat' split at h
    all_goals first
      | (cases h; done)
      | skip
    simp only [Option.some.injEq] at h
    subst h
    intro q hq
    rcases List.mem_cons.mp hq with hq | hq
    · subst hq; unfold View.mark; split <;> simp
    · have := (printItem_ok v.cw _ _ _).2.2 q hq
      obtain ⟨f1, f2, _⟩ := build_fields row 2 v.tabstop (w - 2) (v.shiftOf it.text (w - 2) _ _ _ _) _ v.hscroll
      rw [f1, f2] at this
      exact ⟨this.1, by omega⟩

/-- screen row of the loop index `lcur` -/
def View.lineNo (v : View) (h lcur : Nat) : Nat := if v.cur.rev then lcur else h - 1 - lcur

theorem rowPuts_rows (v : View) (w h lcur : Nat) (rp : List Put) (hr : rowPuts v w h lcur = some rp) :
    ∀ q ∈ rp, q.row = v.lineNo h lcur := by
  unfold rowPuts at hr
  simp only [] at hr
  split at hr
  · cases hr
  · rename_i it _
    cases hd : drawItem v w (if v.cur.rev then lcur else h - 1 - lcur) it (decide (lcur = v.cur.lc)) with
    | none => simp [hd] at hr
    | some ps =>
      simp only [hd, Option.map_some, Option.some.injEq] at hr
      subst hr
      intro q hq
      rcases List.mem_cons.mp hq with hq | hq
      · subst hq; rfl
      · exact (drawItem_rows v w _ it _ ps hd q hq).1

theorem filter_row_self (r : Nat) (l : List Put) (h : ∀ q ∈ l, q.row = r) : l.filter (fun q => q.row == r) = l := by
  rw [List.filter_eq_self]; intro q hq; simp [h q hq]

theorem filter_row_none (r : Nat) (l : List Put) (h : ∀ q ∈ l, q.row ≠ r) : l.filter (fun q => q.row == r) = [] := by
  rw [List.filter_eq_nil_iff]; intro q hq; simp [h q hq]

theorem allSome_miss (f : Nat → Option (List Put)) (g : Nat → Nat) (r : Nat)
    (htag : ∀ j rp, f j = some rp → ∀ q ∈ rp, q.row = g j) (js : List Nat) (rows : List (List Put))
    (h : allSome (js.map f) = some rows) (hm : ∀ j ∈ js, g j ≠ r) :
    rows.flatten.filter (fun q => q.row == r) = [] := by
  induction js generalizing rows with
  | nil => simp [allSome] at h; subst h; rfl
  | cons j t ih =>
    simp only [List.map_cons] at h
    cases hf : f j with
    | none => simp [hf, allSome] at h
    | some rp =>
      cases ht : allSome (t.map f) with
      | none => simp [hf, ht, allSome] at h
      | some rows' =>
        simp only [hf, ht, allSome, Option.map_some, Option.some.injEq] at h
        subst h
        simp only [List.flatten_cons, List.filter_append]
        rw [ih rows' ht (fun j hj => hm j (by simp [hj])),
          filter_row_none r rp (fun q hq => by rw [htag j rp hf q hq]; exact hm j (by simp))]
        rfl

theorem allSome_hit (f : Nat → Option (List Put)) (g : Nat → Nat) (r j0 : Nat)
    (htag : ∀ j rp, f j = some rp → ∀ q ∈ rp, q.row = g j) (js : List Nat) (rows : List (List Put))
    (h : allSome (js.map f) = some rows) (hnd : js.Nodup) (hj0 : j0 ∈ js) (hg : g j0 = r)
    (hinj : ∀ j ∈ js, g j = r → j = j0) :
    ∃ rp, f j0 = some rp ∧ rows.flatten.filter (fun q => q.row == r) = rp := by
  induction js generalizing rows with
  | nil => simp at hj0
  | cons j t ih =>
    simp only [List.map_cons] at h
    rw [List.nodup_cons] at hnd
    cases hf : f j with
    | none => simp [hf, allSome] at h
    | some rp =>
      cases ht : allSome (t.map f) with
      | none => simp [hf, ht, allSome] at h
      | some rows' =>
        simp only [hf, ht, allSome, Option.map_some, Option.some.injEq] at h
        subst h
        simp only [List.flatten_cons, List.filter_append]
        by_cases hj : j = j0
        · subst hj
          refine ⟨rp, hf, ?_⟩
          rw [allSome_miss f g r htag t rows' ht (fun j' hj' hgj => by
              have := hinj j' (by simp [hj']) hgj; subst this; exact hnd.1 hj'),
            filter_row_self r rp (fun q hq => by rw [htag j rp hf q hq, hg])]
          simp
        · have hj0t : j0 ∈ t := by
            rcases List.mem_cons.mp hj0 with h | h
            · exact absurd h.symm hj
            · exact h
          obtain ⟨rp0, e1, e2⟩ := ih rows' ht hnd.2 hj0t (fun j' hj' => hinj j' (by simp [hj']))
          refine ⟨rp0, e1, ?_⟩
          rw [e2, filter_row_none r rp (fun q hq => by
            rw [htag j rp hf q hq]; intro hgj; exact hj (hinj j (by simp) hgj))]
          rfl

/-- ROWS (put level): the writes of `Draw::draw` that land in screen row `r` are the blanks of `clear_canvas`
    followed by the writes of exactly one loop iteration — the one whose index is shown on that row — or by
    nothing when no result belongs there -/
theorem draw_row (v : View) (w h : Nat) (ps : List Put) (hd : draw v w h = some ps) (r : Nat) (hr : r < h) :
    let i := if v.cur.rev then r else h - 1 - r
    ps.filter (fun q => q.row == r) =
      (clearCanvas w h).filter (fun q => q.row == r) ++
        (if i < v.nrows h then (rowPuts v w h i).getD [] else []) ∧
    (i < v.nrows h → (rowPuts v w h i).isSome = true) := by
  intro i
  unfold draw at hd
  cases ha : allSome ((List.range (v.nrows h)).map (rowPuts v w h)) with
  | none => simp [ha] at hd
  | some rows =>
    simp only [ha, Option.map_some, Option.some.injEq] at hd
    subst hd
    have htag : ∀ j rp, rowPuts v w h j = some rp → ∀ q ∈ rp, q.row = v.lineNo h j :=
      fun j rp hj => rowPuts_rows v w h j rp hj
    have hnr : v.nrows h ≤ h := by unfold View.nrows; omega
    simp only [List.filter_append]
    by_cases hi : i < v.nrows h
    · obtain ⟨rp, e1, e2⟩ := allSome_hit (rowPuts v w h) (v.lineNo h) r i htag _ rows ha List.nodup_range
        (List.mem_range.mpr hi) (by show (if v.cur.rev then i else h - 1 - i) = r; simp only [i]; split <;> omega)
        (by
          intro j hj hg
          have hj := List.mem_range.mp hj
          unfold View.lineNo at hg
          simp only [i]
          split at hg <;> simp_all <;> omega)
      simp [hi, e1, e2]
    · rw [allSome_miss (rowPuts v w h) (v.lineNo h) r htag _ rows ha (by
        intro j hj hg
        have hj := List.mem_range.mp hj
        unfold View.lineNo at hg
        apply hi
        simp only [i]
        split at hg <;> simp_all <;> omega)]
      simp [hi]

/-- `draw_item` on a canvas at least 3 wide: the marker in column 1, then writes in columns ≥ 2 only -/
theorem drawItem_struct (v : View) (w row : Nat) (it : Item) (isCur : Bool) (ps : List Put)
    (h : drawItem v w row it isCur = some ps) (hw : 3 ≤ w) :
    ∃ rest, ps = v.mark row it isCur :: rest ∧ ∀ q ∈ rest, 2 ≤ q.col := by
  unfold drawItem at h
  rw [if_neg (by omega)] at h
  simp only [] at h
  repeat' split at h
  all_goals first
    | (cases h; done)
    | skip
  simp only [Option.some.injEq] at h
  subst h
  refine ⟨_, rfl, ?_⟩
  intro q hq
  have := (printItem_ok v.cw _ _ _).2.2 q hq
  obtain ⟨f1, f2, _⟩ := build_fields row 2 v.tabstop (w - 2) (v.shiftOf it.text (w - 2) _ _ _ _) _ v.hscroll
  rw [f2] at this
  exact this.2

theorem allSome_mem (f : Nat → Option (List Put)) (js : List Nat) (rows : List (List Put))
    (h : allSome (js.map f) = some rows) (q : Put) (hq : q ∈ rows.flatten) :
    ∃ j ∈ js, ∃ rp, f j = some rp ∧ q ∈ rp := by
  induction js generalizing rows with
  | nil => simp [allSome] at h; subst h; simp at hq
  | cons j t ih =>
    simp only [List.map_cons] at h
    cases hf : f j with
    | none => simp [hf, allSome] at h
    | some rp =>
      cases ht : allSome (t.map f) with
      | none => simp [hf, ht, allSome] at h
      | some rows' =>
        simp only [hf, ht, allSome, Option.map_some, Option.some.injEq] at h
        subst h
        simp only [List.flatten_cons, List.mem_append] at hq
        rcases hq with hq | hq
        · exact ⟨j, by simp, rp, hf, hq⟩
        · obtain ⟨j', h1, rp', h2, h3⟩ := ih rows' ht hq
          exact ⟨j', by simp [h1], rp', h2, h3⟩

theorem mem_rawShown (g : Geo) (cw : Char → Nat) (pos : Nat) (c : Char) (a : Attr) :
    ∀ x ∈ rawShown g cw pos c a, x.1 = '.' ∨ x = (c, a) := by
  intro x hx
  unfold rawShown at hx
  repeat' split at hx
  · simp at hx
  · rw [List.mem_replicate] at hx; left; rw [hx.2]
  · rw [List.mem_replicate] at hx; left; rw [hx.2]
  · simp at hx; right; exact hx

theorem mem_shownFrom (g : Geo) (cw : Char → Nat) (pos : Nat) (raws : List (Char × Attr)) :
    ∀ x ∈ shownFrom g cw pos raws, x.1 = '.' ∨ x ∈ raws := by
  induction raws generalizing pos with
  | nil => simp [shownFrom]
  | cons y t ih =>
    obtain ⟨c, a⟩ := y
    intro x hx
    simp only [shownFrom, List.mem_append] at hx
    rcases hx with h | h
    · rcases mem_rawShown g cw pos c a x h with h | h
      · exact Or.inl h
      · exact Or.inr (by simp [h])
    · rcases ih _ x h with h | h
      · exact Or.inl h
      · exact Or.inr (by simp [h])

/-- the raw cells of an item: total width and widths of the cells -/
theorem rawsOf_facts (v : View) (it : Item) (isCur : Bool) (hsp : v.cw ' ' = 1) (ht : TextOk v.cw it.text) :
    cols v.cw (v.rawsOf it isCur) = textWidth v.cw v.tabstop it.text ∧
    ∀ x ∈ v.rawsOf it isCur, 1 ≤ v.cw x.1 ∧ v.cw x.1 ≤ 2 := by
  unfold View.rawsOf styled
  constructor
  · have := cols_expandFrom v.cw hsp v.tabstop 0
      (styledFrom (it.mr.covers it.text) (v.base isCur) (v.hl isCur) 0 it.text)
    rw [styledFrom_fst] at this
    unfold textWidth; omega
  · apply mem_expandFrom v.cw (fun c => 1 ≤ v.cw c ∧ v.cw c ≤ 2) (by simp [hsp])
    intro y hy hyt
    have : y.1 ∈ (styledFrom (it.mr.covers it.text) (v.base isCur) (v.hl isCur) 0 it.text).map (·.1) :=
      List.mem_map_of_mem hy
    rw [styledFrom_fst] at this
    exact (ht y.1 this).2 hyt

theorem clearCanvas_mem (w h : Nat) : ∀ q ∈ clearCanvas w h, q.row < h ∧ q.col < w ∧ q.ch = ' ' := by
  intro q hq
  simp only [clearCanvas, List.mem_flatMap, List.mem_range, List.mem_map] at hq
  obtain ⟨y, hy, x, hx, e⟩ := hq
  subst e
  exact ⟨hy, hx, rfl⟩

open SkimModel.SelCursor in
theorem pointerRow_iff (s : Cur) (h r : Nat) (hr : r < h) :
    pointerRow s h = some r ↔
      ((if s.rev then r else h - 1 - r) < rowsDrawn s h ∧ (if s.rev then r else h - 1 - r) = s.lc) := by
  have hrd : rowsDrawn s h ≤ h := by unfold rowsDrawn; omega
  unfold pointerRow screenRow
  rcases Bool.eq_false_or_eq_true s.rev with hrev | hrev <;>
    simp only [hrev, if_true, Bool.false_eq_true, if_false] <;>
    by_cases hlt : s.lc < rowsDrawn s h <;> simp only [hlt, if_true, if_false, Option.some.injEq] <;>
    constructor <;> intro hh <;> (try cases hh) <;> omega

open SkimModel.SelCursor in
/-- the writes into row `r` when loop index `i` is shown there -/
theorem draw_row_shape (v : View) (w h : Nat) (ps : List Put) (hd : draw v w h = some ps) (r : Nat) (hr : r < h)
    (hi : (if v.cur.rev then r else h - 1 - r) < v.nrows h) :
    ∃ it di, v.items[v.cur.ic + (if v.cur.rev then r else h - 1 - r)]? = some it ∧
      drawItem v w r it (decide ((if v.cur.rev then r else h - 1 - r) = v.cur.lc)) = some di ∧
      ps.filter (fun q => q.row == r) = (clearCanvas w h).filter (fun q => q.row == r) ++
        ⟨r, 0, if (if v.cur.rev then r else h - 1 - r) = v.cur.lc then '>' else ' ', v.theme.cursor⟩ :: di := by
  obtain ⟨e1, e2⟩ := draw_row v w h ps hd r hr
  have hnr : v.nrows h ≤ h := by unfold View.nrows; omega
  have hline : (if v.cur.rev then (if v.cur.rev then r else h - 1 - r) else
      h - 1 - (if v.cur.rev then r else h - 1 - r)) = r := by
    rcases Bool.eq_false_or_eq_true v.cur.rev with hrev | hrev <;>
      simp only [hrev, if_true, Bool.false_eq_true, if_false] at hi ⊢ <;> omega
  generalize (if v.cur.rev then r else h - 1 - r) = i at *
  rw [if_pos hi] at e1
  obtain ⟨rp, hrp⟩ := Option.isSome_iff_exists.mp (e2 hi)
  rw [hrp] at e1
  simp only [Option.getD_some] at e1
  unfold rowPuts at hrp
  simp only [hline] at hrp
  split at hrp
  · cases hrp
  · rename_i it hit
    cases hdi : drawItem v w r it (decide (i = v.cur.lc)) with
    | none => simp [hdi] at hrp
    | some di =>
      simp only [hdi, Option.map_some, Option.some.injEq] at hrp
      exact ⟨it, di, hit, hdi, by rw [e1, ← hrp]⟩

theorem charsBefore_le (text : List Char) (b a : Nat) (h : charsBefore text b = some a) : a ≤ text.length := by
  induction text generalizing b a with
  | nil => unfold charsBefore at h; split at h <;> simp_all
  | cons c t ih =>
    unfold charsBefore at h
    split at h
    · simp at h; omega
    · split at h
      · cases h
      · cases hr : charsBefore t (b - c.utf8Size) with
        | none => simp [hr] at h
        | some a' =>
          simp [hr] at h
          have := ih _ _ hr
          simp only [List.length_cons]; omega

theorem getLastD_mem (t : List Nat) (d : Nat) : t.getLastD d = d ∨ t.getLastD d ∈ t := by
  induction t generalizing d with
  | nil => left; rfl
  | cons b t' ih =>
    rw [List.getLastD_cons]
    rcases ih b with h | h
    · right; rw [h]; simp
    · right; exact List.mem_cons_of_mem _ h

theorem matchStartEnd_valid (text : List Char) (mr : MatchRange) (hv : mr.Valid text) :
    ∃ m, matchStartEnd text mr = some m ∧ m.1 ≤ text.length ∧ m.1 ≤ m.2 + 1 := by
  cases mr with
  | none => exact ⟨(0, 0), rfl, by simp, by simp⟩
  | chars idxs =>
    cases idxs with
    | nil => exact ⟨(0, 0), rfl, by simp, by simp⟩
    | cons a t =>
      refine ⟨(a, (a :: t).getLastD 0 + 1), by simp [matchStartEnd], ?_, ?_⟩
      · have := hv.2 a (by simp); simp only []; omega
      · simp only [List.getLastD_cons]
        have hs := (List.pairwise_cons.mp hv.1).1
        rcases getLastD_mem t a with h | h
        · omega
        · have := hs _ h; omega
  | bytes s e =>
    obtain ⟨hse, h1, h2⟩ := hv
    obtain ⟨a, ha⟩ := Option.isSome_iff_exists.mp h1
    obtain ⟨b, hb⟩ := Option.isSome_iff_exists.mp h2
    refine ⟨(a, a + (b - a)), ?_, charsBefore_le text s a ha, by simp only []; omega⟩
    simp [matchStartEnd, byteRangeChars, ha, hb, show ¬ e < s by omega]

theorem displayContent_valid (text : List Char) (mr : MatchRange) (hl : Attr) (hv : mr.Valid text) :
    (displayContent text mr hl).isSome = true := by
  cases mr with
  | none => rfl
  | chars idxs => rfl
  | bytes s e =>
    obtain ⟨hse, h1, h2⟩ := hv
    obtain ⟨a, ha⟩ := Option.isSome_iff_exists.mp h1
    obtain ⟨b, hb⟩ := Option.isSome_iff_exists.mp h2
    simp [displayContent, byteRangeChars, ha, hb, show ¬ e < s by omega]

theorem drawItem_valid (v : View) (w row : Nat) (it : Item) (isCur : Bool) (hv : it.mr.Valid it.text) :
    (drawItem v w row it isCur).isSome = true := by
  unfold drawItem
  split
  · rfl
  · obtain ⟨c, hc⟩ := Option.isSome_iff_exists.mp (displayContent_valid it.text it.mr (v.hl isCur) hv)
    obtain ⟨m, hm, m1, m2⟩ := matchStartEnd_valid it.text it.mr hv
    obtain ⟨r, hr⟩ := Option.isSome_iff_exists.mp (reshape_total v.cw it.text (w - 2) m.1 m.2 v.tabstop m1 m2)
    simp [hc, hm, hr]

theorem allSome_isSome {α : Type} (l : List (Option α)) (h : ∀ x ∈ l, x.isSome = true) : (allSome l).isSome = true := by
  induction l with
  | nil => rfl
  | cons x t ih =>
    cases x with
    | none => have := h none (by simp); simp at this
    | some a =>
      obtain ⟨r, hr⟩ := Option.isSome_iff_exists.mp (ih (fun x hx => h x (by simp [hx])))
      simp [allSome, hr]

/-- NO PANIC: with valid match positions on every item, `Draw::draw` does not panic, whatever the cursor,
    the selected set, the options and the canvas size -/
theorem draw_valid (v : View) (w h : Nat) (hitems : ∀ it ∈ v.items, it.mr.Valid it.text) :
    (draw v w h).isSome = true := by
  unfold draw
  have : (allSome ((List.range (v.nrows h)).map (rowPuts v w h))).isSome = true := by
    apply allSome_isSome
    intro x hx
    obtain ⟨j, hj, e⟩ := List.mem_map.mp hx
    have hj := List.mem_range.mp hj
    subst e
    unfold rowPuts
    have hlt : v.cur.ic + j < v.items.length := by unfold View.nrows at hj; omega
    simp only [List.getElem?_eq_getElem hlt]
    have := drawItem_valid v w (if v.cur.rev then j else h - 1 - j) v.items[v.cur.ic + j] (decide (j = v.cur.lc))
      (hitems _ (List.getElem_mem hlt))
    obtain ⟨d, hd⟩ := Option.isSome_iff_exists.mp this
    simp [hd]
  obtain ⟨r, hr⟩ := Option.isSome_iff_exists.mp this
  simp [hr]

end SkimModel.Draw
