/-
Helper lemmas for C17 (ordered fragment lists, the iterator walk, the two-pointer merge).
-/
import SkimModel.Spec.Merge
namespace SkimModel.Merge

variable {α : Type}

/-! ### `Ordered` and its chain form -/

theorem OrdFrom.mono {lo lo' : Nat} {fs : List (Frag α)} (h : lo' ≤ lo) (ho : OrdFrom lo fs) : OrdFrom lo' fs := by
  cases fs with
  | nil => trivial
  | cons f fs => exact ⟨Nat.le_trans h ho.1, ho.2⟩

theorem OrdFrom.all_ge {lo : Nat} {fs : List (Frag α)} (ho : OrdFrom lo fs) :
    ∀ g ∈ fs, lo ≤ g.start ∧ g.start ≤ g.stop := by
  induction fs generalizing lo with
  | nil => intro g hg; cases hg
  | cons f fs ih =>
    intro g hg
    rcases List.mem_cons.mp hg with rfl | hg
    · exact ⟨ho.1, ho.2.1⟩
    · have := ih ho.2.2 g hg
      exact ⟨by have := ho.1; have := ho.2.1; omega, this.2⟩

theorem ordFrom_of_ordered {fs : List (Frag α)} (h : Ordered fs) : OrdFrom 0 fs := by
  suffices ∀ lo, (∀ f ∈ fs, lo ≤ f.start) → OrdFrom lo fs from this 0 (fun _ _ => Nat.zero_le _)
  obtain ⟨hp, hw⟩ := h
  induction fs with
  | nil => intro _ _; trivial
  | cons f fs ih =>
    intro lo hlo
    rw [List.pairwise_cons] at hp
    refine ⟨hlo f (List.mem_cons_self), hw f (List.mem_cons_self), ?_⟩
    exact ih hp.2 (fun g hg => hw g (List.mem_cons_of_mem _ hg)) f.stop (fun g hg => hp.1 g hg)

theorem ordered_of_ordFrom {lo : Nat} {fs : List (Frag α)} (h : OrdFrom lo fs) : Ordered fs := by
  induction fs generalizing lo with
  | nil => exact ⟨List.Pairwise.nil, fun _ hf => by cases hf⟩
  | cons f fs ih =>
    obtain ⟨hp, hw⟩ := ih h.2.2
    refine ⟨List.pairwise_cons.mpr ⟨fun g hg => (h.2.2.all_ge g hg).1, hp⟩, ?_⟩
    intro g hg
    rcases List.mem_cons.mp hg with rfl | hg
    · exact h.2.1
    · exact hw g hg

theorem ordered_iff_ordFrom (fs : List (Frag α)) : Ordered fs ↔ OrdFrom 0 fs :=
  ⟨ordFrom_of_ordered, ordered_of_ordFrom⟩

theorem orderedFromB_iff (lo : Nat) (fs : List (Frag α)) : orderedFromB lo fs = true ↔ OrdFrom lo fs := by
  induction fs generalizing lo with
  | nil => simp [orderedFromB, OrdFrom]
  | cons f fs ih => simp [orderedFromB, OrdFrom, ih, and_assoc]

theorem orderedB_iff (fs : List (Frag α)) : orderedB fs = true ↔ Ordered fs := by
  rw [orderedB, orderedFromB_iff, ordered_iff_ordFrom]

/-! ### lookup -/

theorem covers_iff (k : Nat) (f : Frag α) : covers k f = true ↔ f.start ≤ k ∧ k < f.stop := by
  simp [covers]

theorem findCover_nil (k : Nat) : findCover ([] : List (Frag α)) k = none := rfl

theorem findCover_cons (f : Frag α) (fs : List (Frag α)) (k : Nat) :
    findCover (f :: fs) k = if f.start ≤ k ∧ k < f.stop then some f else findCover fs k := by
  simp only [findCover, List.find?_cons]
  by_cases h : f.start ≤ k ∧ k < f.stop
  · simp [h, covers]
  · have : covers k f = false := by
      simp only [covers]; rcases Nat.lt_or_ge k f.start with h1 | h1 <;> simp_all <;> omega
    simp [this, h]

theorem findCover_none_of_lt {lo k : Nat} {fs : List (Frag α)} (ho : OrdFrom lo fs) (hk : k < lo) :
    findCover fs k = none := by
  induction fs generalizing lo with
  | nil => rfl
  | cons f fs ih =>
    rw [findCover_cons]
    have h1 := ho.1; have h2 := ho.2.1
    rw [if_neg (by omega)]
    exact ih ho.2.2 (by omega)

theorem lookup_nil (dflt : α) (k : Nat) : lookup dflt [] k = dflt := rfl

theorem lookup_cons (dflt : α) (f : Frag α) (fs : List (Frag α)) (k : Nat) :
    lookup dflt (f :: fs) k = if f.start ≤ k ∧ k < f.stop then f.attr else lookup dflt fs k := by
  simp only [lookup, findCover_cons]
  by_cases h : f.start ≤ k ∧ k < f.stop
  · simp [h]
  · simp [h]

theorem lookup_of_lt {lo k : Nat} {fs : List (Frag α)} (dflt : α) (ho : OrdFrom lo fs) (hk : k < lo) :
    lookup dflt fs k = dflt := by
  simp [lookup, findCover_none_of_lt ho hk]

/-! ### the iterator walk -/

theorem advance_ordFrom {lo : Nat} {fs : List (Frag α)} (k : Nat) (ho : OrdFrom lo fs) : OrdFrom lo (advance k fs) := by
  induction fs generalizing lo with
  | nil => trivial
  | cons f fs ih =>
    simp only [advance]
    split
    · exact ho
    · exact ih (ho.2.2.mono (by have := ho.1; have := ho.2.1; omega))

theorem lookup_advance {lo : Nat} {fs : List (Frag α)} (dflt : α) (k k' : Nat) (hk : k ≤ k') (ho : OrdFrom lo fs) :
    lookup dflt (advance k fs) k' = lookup dflt fs k' := by
  induction fs generalizing lo with
  | nil => rfl
  | cons f fs ih =>
    simp only [advance]
    split
    · rfl
    · rw [lookup_cons, if_neg (by omega)]
      exact ih ho.2.2

theorem attrAt_advance {lo : Nat} {fs : List (Frag α)} (dflt : α) (k : Nat) (ho : OrdFrom lo fs) :
    attrAt dflt k (advance k fs) = lookup dflt fs k := by
  induction fs generalizing lo with
  | nil => rfl
  | cons f fs ih =>
    simp only [advance]
    split
    · rw [lookup_cons, attrAt]
      by_cases h : f.start ≤ k ∧ k < f.stop
      · simp [h]
      · rw [if_neg h, if_neg h]
        exact (lookup_of_lt dflt ho.2.2 (by have := ho.2.1; omega)).symm
    · rw [lookup_cons, if_neg (by omega)]
      exact ih ho.2.2

theorem iterGo_eq {lo : Nat} {fs : List (Frag α)} (dflt : α) (n k : Nat) (ho : OrdFrom lo fs) :
    iterGo dflt n k fs = (List.range' k n).map (lookup dflt fs) := by
  induction n generalizing k fs lo with
  | zero => rfl
  | succ n ih =>
    simp only [iterGo, List.range'_succ, List.map_cons]
    rw [attrAt_advance dflt k ho, ih (k + 1) (advance_ordFrom k ho)]
    congr 1
    apply List.map_congr_left
    intro k' hk'
    have := (List.mem_range'_1.mp hk').1
    exact lookup_advance dflt k k' (by omega) ho

/-! ### the two-pointer merge -/

def Inv (os : Nat) : List (Frag α) → List (Frag α) → Prop
  | [], _ => True
  | o :: _, [] => os ≤ o.stop
  | o :: _, n :: _ => os ≤ o.stop ∧ (os ≤ o.start ∨ os ≤ n.start)

theorem inv_of_le {c os : Nat} {old : List (Frag α)} (new : List (Frag α)) (ho : OrdFrom c old) (h : os ≤ c) :
    Inv os old new := by
  cases old with
  | nil => trivial
  | cons o old =>
    have := ho.1; have := ho.2.1
    cases new with
    | nil => simp only [Inv]; omega
    | cons n new => simp only [Inv]; omega

theorem inv_new {c os : Nat} {new : List (Frag α)} (o : Frag α) (old : List (Frag α)) (hn : OrdFrom c new)
    (h : os ≤ c) (h2 : os ≤ o.stop) : Inv os (o :: old) new := by
  cases new with
  | nil => exact h2
  | cons n new => have := hn.1; simp only [Inv]; omega

theorem lookup_raise  {fs : List (Frag α)} (dflt : α) (os k : Nat) :
    lookup dflt (fs.map (raise os)) k = if os ≤ k then lookup dflt fs k else dflt := by
  induction fs with
  | nil => simp [lookup_nil]
  | cons f fs ih =>
    simp only [List.map_cons, lookup_cons, ih, raise]
    by_cases h : os ≤ k
    · simp only [h, if_true]
      have : (max os f.start ≤ k ∧ k < f.stop) ↔ (f.start ≤ k ∧ k < f.stop) := by omega
      simp only [this]
    · simp only [h, if_false]
      rw [if_neg (by omega)]

/-- highlight attribute at `k` if some highlight range contains `k`, else `x` -/
def hlOr (new : List (Frag α)) (k : Nat) (x : α) : α :=
  match findCover new k with
  | some f => f.attr
  | none => x

theorem hlOr_nil (k : Nat) (x : α) : hlOr [] k x = x := rfl

theorem hlOr_cons (n : Frag α) (new : List (Frag α)) (k : Nat) (x : α) :
    hlOr (n :: new) k x = if n.start ≤ k ∧ k < n.stop then n.attr else hlOr new k x := by
  simp only [hlOr, findCover_cons]
  by_cases h : n.start ≤ k ∧ k < n.stop <;> simp [h]

theorem hlOr_congr {new : List (Frag α)} {k : Nat} {x y : α} (h : findCover new k = none → x = y) :
    hlOr new k x = hlOr new k y := by
  unfold hlOr
  split
  · rfl
  · exact h ‹_›

theorem hlOr_of_lt {lo k : Nat} {new : List (Frag α)} (x : α) (hn : OrdFrom lo new) (hk : k < lo) : hlOr new k x = x := by
  simp [hlOr, findCover_none_of_lt hn hk]

theorem lookup_eq_hlOr (dflt : α) (fs : List (Frag α)) (k : Nat) : lookup dflt fs k = hlOr fs k dflt := rfl

/-- the generalised spec: highlight first, else the old colours clipped below `os` -/
def specFrom (dflt : α) (os : Nat) (old new : List (Frag α)) (k : Nat) : α :=
  hlOr new k (if os ≤ k then lookup dflt old k else dflt)

theorem mergeGo_lookup (dflt : α) (os : Nat) (old new : List (Frag α)) (a b : Nat)
    (ho : OrdFrom a old) (hn : OrdFrom b new) (hi : Inv os old new) (k : Nat) :
    lookup dflt (mergeGo os old new) k = specFrom dflt os old new k := by
  fun_induction mergeGo os old new generalizing a b with
  | case1 os new => 
    simp only [specFrom, lookup_nil, ite_self]; rfl
  | case2 os old hne =>
    rw [lookup_raise, specFrom, hlOr_nil]
  | case3 os0 o old n new os h ih =>
    have hos : os = max os0 o.start := rfl
    have := ho.1; have := ho.2.1; have := hn.2.1; have := hi.1
    rw [ih o.stop b ho.2.2 hn (inv_of_le _ ho.2.2 (by omega))]
    simp only [specFrom, hlOr_cons, lookup_cons]
    split
    · rfl
    · apply hlOr_congr
      intro _
      repeat' split
      all_goals first
        | rfl
        | (exfalso; omega)
        | (rw [lookup_of_lt dflt ho.2.2 (by omega)])
        | (symm; rw [lookup_of_lt dflt ho.2.2 (by omega)])
  | case4 os0 o old n new os h1 h2 ih =>
    have hos : os = max os0 o.start := rfl
    have := ho.1; have := ho.2.1; have := hn.2.1; have := hi.1; have := hi.2
    rw [lookup_cons, ih a n.stop ho hn.2.2 (inv_new _ _ hn.2.2 (Nat.le_refl _) (by omega))]
    simp only [specFrom, hlOr_cons, lookup_cons]
    split
    · rfl
    · apply hlOr_congr
      intro _
      repeat' split
      all_goals first
        | rfl
        | (exfalso; omega)
        | (rw [lookup_of_lt dflt ho.2.2 (by omega)])
        | (symm; rw [lookup_of_lt dflt ho.2.2 (by omega)])
  | case5 os0 o old n new os h1 h2 h3 ih =>
    have hos : os = max os0 o.start := rfl
    have := ho.1; have := ho.2.1; have := hn.2.1; have := hi.1; have := hi.2
    rw [lookup_cons, ih o.stop b ho.2.2 hn (inv_of_le _ ho.2.2 (by omega))]
    simp only [specFrom, hlOr_cons, lookup_cons]
    by_cases hc : os ≤ k ∧ k < o.stop
    · rw [if_pos hc, if_neg (by omega), hlOr_of_lt _ hn.2.2 (by omega), if_pos (by omega), if_pos (by omega)]
    · rw [if_neg hc]
      split
      · rfl
      · apply hlOr_congr
        intro _
        repeat' split
        all_goals first
          | rfl
          | (exfalso; omega)
          | (rw [lookup_of_lt dflt ho.2.2 (by omega)])
          | (symm; rw [lookup_of_lt dflt ho.2.2 (by omega)])
  | case6 os0 o old n new os h1 h2 h3 h4 ih =>
    have hos : os = max os0 o.start := rfl
    have := ho.1; have := ho.2.1; have := hn.2.1; have := hi.1; have := hi.2
    rw [lookup_cons]
    simp only []
    by_cases hc : os ≤ k ∧ k < n.start
    · rw [if_pos hc]
      simp only [specFrom, hlOr_cons, lookup_cons]
      rw [if_neg (by omega), hlOr_of_lt _ hn.2.2 (by omega), if_pos (by omega), if_pos (by omega)]
    · rw [if_neg hc]
      by_cases hs : n.stop ≥ o.stop
      · rw [if_pos hs, h4 o.stop b ho.2.2 hn (inv_of_le _ ho.2.2 (by omega))]
        simp only [specFrom, hlOr_cons, lookup_cons]
        split
        · rfl
        · apply hlOr_congr
          intro _
          repeat' split
          all_goals first
            | rfl
            | (exfalso; omega)
            | (rw [lookup_of_lt dflt ho.2.2 (by omega)])
            | (symm; rw [lookup_of_lt dflt ho.2.2 (by omega)])
      · rw [if_neg hs, lookup_cons, ih a n.stop ho hn.2.2 (inv_new _ _ hn.2.2 (Nat.le_refl _) (by omega))]
        simp only [specFrom, hlOr_cons, lookup_cons]
        split
        · rfl
        · apply hlOr_congr
          intro _
          repeat' split
          all_goals first
            | rfl
            | (exfalso; omega)
            | (rw [lookup_of_lt dflt ho.2.2 (by omega)])
            | (symm; rw [lookup_of_lt dflt ho.2.2 (by omega)])


theorem raise_map_eq {c os : Nat} {fs : List (Frag α)} (ho : OrdFrom c fs) (h : os ≤ c) : fs.map (raise os) = fs := by
  induction fs generalizing c with
  | nil => rfl
  | cons f fs ih =>
    have h1 := ho.1; have h2 := ho.2.1
    simp only [List.map_cons]
    rw [ih ho.2.2 (by omega)]
    congr 1
    cases f with | mk a s e => simp only [raise] at *; congr 1; omega

theorem mergeGo_ordFrom (os : Nat) (old new : List (Frag α)) (a b : Nat)
    (ho : OrdFrom a old) (hn : OrdFrom b new) (hi : Inv os old new) (lo : Nat) (h1 : lo ≤ b) (h2 : lo ≤ max os a) :
    OrdFrom lo (mergeGo os old new) := by
  fun_induction mergeGo os old new generalizing a b lo with
  | case1 os new => exact hn.mono h1
  | case2 os old hne =>
    cases old with
    | nil => trivial
    | cons o old =>
      have := ho.1; have := ho.2.1
      have hi' : os ≤ o.stop := hi
      simp only [List.map_cons]
      rw [raise_map_eq ho.2.2 hi']
      refine ⟨?_, ?_, ho.2.2⟩ <;> simp only [raise] <;> omega
  | case3 os0 o old n new os h ih =>
    have hos : os = max os0 o.start := rfl
    have := ho.1; have := ho.2.1; have := hn.1; have := hn.2.1; have := hi.1; have := hi.2
    exact ih o.stop b ho.2.2 hn (inv_of_le _ ho.2.2 (by omega)) lo h1 (by omega)
  | case4 os0 o old n new os h1' h2' ih =>
    have hos : os = max os0 o.start := rfl
    have := ho.1; have := ho.2.1; have := hn.1; have := hn.2.1; have := hi.1; have := hi.2
    refine ⟨by omega, by omega, ?_⟩
    exact ih a n.stop ho hn.2.2 (inv_new _ _ hn.2.2 (Nat.le_refl _) (by omega)) n.stop (Nat.le_refl _) (by omega)
  | case5 os0 o old n new os h1' h2' h3 ih =>
    have hos : os = max os0 o.start := rfl
    have := ho.1; have := ho.2.1; have := hn.1; have := hn.2.1; have := hi.1; have := hi.2
    refine ⟨by simp only []; omega, by simp only []; omega, ?_⟩
    exact ih o.stop n.start ho.2.2 ⟨Nat.le_refl _, hn.2⟩ (inv_of_le _ ho.2.2 (by omega)) o.stop (by omega) (by omega)
  | case6 os0 o old n new os h1' h2' h3 h4 ih =>
    have hos : os = max os0 o.start := rfl
    have := ho.1; have := ho.2.1; have := hn.1; have := hn.2.1; have := hi.1; have := hi.2
    refine ⟨by simp only []; omega, by simp only []; omega, ?_⟩
    simp only []
    by_cases hs : n.stop ≥ o.stop
    · rw [if_pos hs]
      exact h4 o.stop n.start ho.2.2 ⟨Nat.le_refl _, hn.2⟩ (inv_of_le _ ho.2.2 (by omega)) n.start (Nat.le_refl _) (by omega)
    · rw [if_neg hs]
      refine ⟨Nat.le_refl _, by omega, ?_⟩
      exact ih a n.stop ho hn.2.2 (inv_new _ _ hn.2.2 (Nat.le_refl _) (by omega)) n.stop (Nat.le_refl _) (by omega)

theorem mergeLoop_eq (fuel os : Nat) (old new : List (Frag α)) (hf : 2 * (old.length + new.length) ≤ fuel) :
    mergeLoop fuel os old new = mergeGo os old new := by
  fun_induction mergeGo os old new generalizing fuel with
  | case1 os new => simp [mergeLoop]
  | case2 os old hne =>
    cases old with
    | nil => simp [mergeLoop]
    | cons o old => simp [mergeLoop]
  | case3 os0 o old n new os h ih =>
    obtain ⟨f, rfl⟩ : ∃ f, fuel = f + 1 := ⟨fuel - 1, by simp at hf; omega⟩
    simp only [mergeLoop]
    rw [if_pos h]
    exact ih f (by simp at hf ⊢; omega)
  | case4 os0 o old n new os h1 h2 ih =>
    obtain ⟨f, rfl⟩ : ∃ f, fuel = f + 1 := ⟨fuel - 1, by simp at hf; omega⟩
    simp only [mergeLoop]
    rw [if_neg h1, if_pos h2]
    congr 1
    exact ih f (by simp at hf ⊢; omega)
  | case5 os0 o old n new os h1 h2 h3 ih =>
    obtain ⟨f, rfl⟩ : ∃ f, fuel = f + 1 := ⟨fuel - 1, by simp at hf; omega⟩
    simp only [mergeLoop]
    rw [if_neg h1, if_neg h2, if_pos h3]
    congr 1
    exact ih f (by simp at hf ⊢; omega)
  | case6 os0 o old n new os h1 h2 h3 h4 ih =>
    have hos : os = max os0 o.start := rfl
    obtain ⟨f, rfl⟩ : ∃ f, fuel = f + 2 := ⟨fuel - 2, by simp at hf; omega⟩
    simp only [mergeLoop]
    rw [if_neg h1, if_neg h2, if_neg h3]
    congr 1
    have hm : max n.start o.start = n.start := by omega
    rw [hm]
    by_cases hs : n.stop ≥ o.stop
    · rw [if_pos ⟨Nat.le_refl _, hs⟩, if_pos hs]
      exact h4 f (by simp at hf ⊢; omega)
    · rw [if_neg (by omega), if_pos (Nat.le_refl _), if_neg hs]
      congr 1
      exact ih f (by simp at hf ⊢; omega)

/-! ### covering fragments, the display constructions -/

theorem findCover_of_mem {lo : Nat} {fs : List (Frag α)} (ho : OrdFrom lo fs) {f : Frag α} (hf : f ∈ fs) {k : Nat}
    (h1 : f.start ≤ k) (h2 : k < f.stop) : findCover fs k = some f := by
  induction fs generalizing lo with
  | nil => cases hf
  | cons g gs ih =>
    rw [findCover_cons]
    rcases List.mem_cons.mp hf with rfl | hm
    · rw [if_pos ⟨h1, h2⟩]
    · have := (ho.2.2.all_ge f hm).1
      rw [if_neg (by omega)]
      exact ih ho.2.2 hm

theorem findCover_none_of_forall {fs : List (Frag α)} {k : Nat} (h : ∀ f ∈ fs, ¬(f.start ≤ k ∧ k < f.stop)) :
    findCover fs k = none := by
  induction fs with
  | nil => rfl
  | cons g gs ih =>
    rw [findCover_cons, if_neg (h g List.mem_cons_self)]
    exact ih (fun f hf => h f (List.mem_cons_of_mem _ hf))

theorem findCover_some {fs : List (Frag α)} {k : Nat} {f : Frag α} (h : findCover fs k = some f) :
    f ∈ fs ∧ f.start ≤ k ∧ k < f.stop := by
  unfold findCover at h
  have h1 := List.mem_of_find?_eq_some h
  have h2 := List.find?_some h
  exact ⟨h1, (covers_iff k f).mp h2⟩

theorem iterGo_nil (dflt : α) (n k : Nat) : iterGo dflt n k ([] : List (Frag α)) = List.replicate n dflt := by
  induction n generalizing k with
  | zero => rfl
  | succ n ih =>
    show attrAt dflt k (advance k []) :: iterGo dflt n (k + 1) (advance k []) = _
    rw [List.replicate_succ]
    simp only [advance, attrAt, ih]

theorem map_const_range (dflt : α) (n : Nat) : (List.range n).map (fun _ => dflt) = List.replicate n dflt := by
  induction n with
  | zero => rfl
  | succ n ih => rw [List.range_succ, List.map_append, ih, List.replicate_succ']; rfl

theorem findCover_charIndices (hl : α) (is : List Nat) (k : Nat) :
    findCover (charIndices hl is) k = if k ∈ is then some ⟨hl, k, k + 1⟩ else none := by
  induction is with
  | nil => rfl
  | cons i is ih =>
    simp only [charIndices, List.map_cons] at ih ⊢
    rw [findCover_cons, ih]
    by_cases h : i = k
    · subst h; simp
    · rw [if_neg (by simp only []; omega)]
      have : (k ∈ i :: is) ↔ k ∈ is := by simp [List.mem_cons]; omega
      simp only [this]

theorem strictInc_iff (is : List Nat) : strictIncB is = true ↔ StrictInc is := by
  induction is with
  | nil => simp [strictIncB, StrictInc]
  | cons a rest ih =>
    cases rest with
    | nil => simp [strictIncB, StrictInc]
    | cons b rest => simp [strictIncB, StrictInc, ih]

theorem charIndices_ordFrom (hl : α) (is : List Nat) (hs : StrictInc is) (lo : Nat) (hlo : ∀ i, is.head? = some i → lo ≤ i) :
    OrdFrom lo (charIndices hl is) := by
  induction is generalizing lo with
  | nil => trivial
  | cons a rest ih =>
    simp only [charIndices, List.map_cons]
    refine ⟨hlo a rfl, Nat.le_succ _, ?_⟩
    cases rest with
    | nil => trivial
    | cons b rest =>
      exact ih hs.2 (a + 1) (fun i hi => by simp at hi; have := hs.1; omega)

theorem byteToChar_mono (text : List Char) {s e a b : Nat} (hse : s ≤ e) (hs : byteToChar text s = some a)
    (he : byteToChar text e = some b) : a ≤ b := by
  induction text generalizing s e a b with
  | nil =>
    cases s with
    | zero => simp [byteToChar] at hs; omega
    | succ s => simp [byteToChar] at hs
  | cons c cs ih =>
    cases s with
    | zero => simp [byteToChar] at hs; omega
    | succ s =>
      obtain ⟨e, rfl⟩ : ∃ e', e = e' + 1 := ⟨e - 1, by omega⟩
      simp only [byteToChar] at hs he
      split at hs
      · cases hs
      · split at he
        · cases he
        · simp only [Option.map_eq_some_iff] at hs he
          obtain ⟨a', ha', rfl⟩ := hs
          obtain ⟨b', hb', rfl⟩ := he
          have := ih (by omega) ha' hb'
          omega

theorem u32_of_lt {x : Nat} (h : x < 4294967296) : u32 x = x := Nat.mod_eq_of_lt h

theorem unitFrags_eq (hl : α) (is : List Nat) (h : ∀ i ∈ is, i < 4294967295) :
    unitFrags hl is = some (charIndices hl is) := by
  induction is with
  | nil => rfl
  | cons i is ih =>
    have hi := h i List.mem_cons_self
    have h32 : u32 i = i := u32_of_lt (by omega)
    simp only [unitFrags, unitFrag, h32, ih (fun j hj => h j (List.mem_cons_of_mem _ hj))]
    rw [if_pos (by omega)]
    rfl

theorem byteToChar_le (text : List Char) {b c : Nat} (h : byteToChar text b = some c) : c ≤ b := by
  induction text generalizing b c with
  | nil =>
    cases b with
    | zero => simp [byteToChar] at h; omega
    | succ b => simp [byteToChar] at h
  | cons ch cs ih =>
    cases b with
    | zero => simp [byteToChar] at h; omega
    | succ b =>
      simp only [byteToChar] at h
      split at h
      · cases h
      · simp only [Option.map_eq_some_iff] at h
        obtain ⟨c', hc', rfl⟩ := h
        have := ih hc'
        have := Char.utf8Size_pos ch
        omega

theorem newFragments_eq_ideal (hl : α) (text : List Char) (m : Matches) (hm : m.WellFormed) :
    newFragments hl text m = idealFragments hl text m := by
  cases m with
  | none => rfl
  | charIndices is => exact unitFrags_eq hl is hm.2
  | charRange s e =>
    simp only [newFragments, idealFragments]
    rw [u32_of_lt (by have := hm.1; have := hm.2; omega), u32_of_lt hm.2]
  | byteRange s e =>
    simp only [newFragments, idealFragments]
    split
    · cases h1 : byteToChar text s with
      | none => rfl
      | some cs =>
        cases h2 : byteToChar text e with
        | none => rfl
        | some ce =>
          have := byteToChar_le text h1
          have := byteToChar_le text h2
          have := hm.1; have := hm.2
          simp only []
          rw [u32_of_lt (by omega), u32_of_lt (by omega)]
    · rfl

end SkimModel.Merge
