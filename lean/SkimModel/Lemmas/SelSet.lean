/-
Helper lemmas for C10: the association-list operations of `Model/SelSet.lean` behave like a map with
unique, ascending keys; the list-based sets of `Spec/SelSet.lean` behave like sets.
-/
import SkimModel.Spec.SelSet
namespace SkimModel.SelSet

/-! ### the key order -/

theorem keyLt_irrefl (a : Key) : keyLt a a = false := by
  simp [keyLt]

theorem keyLt_trans {a b c : Key} (h1 : keyLt a b = true) (h2 : keyLt b c = true) : keyLt a c = true := by
  simp only [keyLt, Bool.or_eq_true, decide_eq_true_eq, Bool.and_eq_true, beq_iff_eq] at *
  omega

theorem keyLt_asymm {a b : Key} (h : keyLt a b = true) : keyLt b a = false := by
  cases hb : keyLt b a with
  | false => rfl
  | true => have := keyLt_trans h hb; simp [keyLt_irrefl] at this

theorem keyLt_total {a b : Key} (h1 : keyLt a b = false) (h2 : a ≠ b) : keyLt b a = true := by
  have : ¬ (a.1 = b.1 ∧ a.2 = b.2) := fun h => h2 (Prod.ext h.1 h.2)
  simp only [keyLt, Bool.or_eq_false_iff, decide_eq_false_iff_not, Bool.and_eq_false_iff,
    Bool.or_eq_true, decide_eq_true_eq, Bool.and_eq_true, beq_iff_eq, beq_eq_false_iff_ne] at *
  omega

theorem keyLt_ne {a b : Key} (h : keyLt a b = true) : a ≠ b := by
  intro e; subst e; simp [keyLt_irrefl] at h

theorem beq_false_of_ne {a b : Key} (h : a ≠ b) : (a == b) = false := by simp [h]

/-! ### sorted maps -/

theorem sorted_nil : Sorted [] := List.Pairwise.nil

theorem sorted_cons {e : Key × Item} {t : SelMap} :
    Sorted (e :: t) ↔ (∀ x ∈ t, keyLt e.1 x.1 = true) ∧ Sorted t := List.pairwise_cons

theorem containsKey_iff {k : Key} {m : SelMap} : containsKey k m = true ↔ k ∈ m.map (·.1) := by
  simp only [containsKey, List.any_eq_true, beq_iff_eq, List.mem_map]
  constructor
  · rintro ⟨e, he, rfl⟩; exact ⟨e, he, rfl⟩
  · rintro ⟨e, he, h⟩; exact ⟨e, he, h.symm⟩

theorem mem_keys {s : Sel} {k : Key} : k ∈ keys s ↔ containsKey k s.selected = true := containsKey_iff.symm

theorem containsKey_cons (k : Key) (e : Key × Item) (t : SelMap) :
    containsKey k (e :: t) = (k == e.1 || containsKey k t) := by
  simp [containsKey]

theorem containsKey_nil (k : Key) : containsKey k [] = false := rfl

/-- keys of an inserted map -/
theorem mem_insert {k : Key} {v : Item} {m : SelMap} {x : Key × Item} :
    x ∈ insert k v m → x = (k, v) ∨ x ∈ m := by
  induction m with
  | nil => simp [insert]
  | cons e t ih =>
    simp only [insert]
    split
    · simp
    · split
      · simp only [List.mem_cons]; rintro (h | h) <;> simp [h]
      · simp only [List.mem_cons]; rintro (h | h)
        · simp [h]
        · rcases ih h with h | h <;> simp [h]

theorem containsKey_insert (k' k : Key) (v : Item) (m : SelMap) :
    containsKey k' (insert k v m) = (k' == k || containsKey k' m) := by
  induction m with
  | nil => simp [insert, containsKey]
  | cons e t ih =>
    simp only [insert]
    split
    · simp only [containsKey_cons]
    · split
      · rename_i h
        simp only [containsKey_cons, ← h]
        cases (k' == k) <;> simp
      · simp only [containsKey_cons, ih]
        cases (k' == e.1) <;> cases (k' == k) <;> simp

theorem sorted_insert {k : Key} {v : Item} {m : SelMap} (h : Sorted m) : Sorted (insert k v m) := by
  induction m with
  | nil => simp [insert, Sorted]
  | cons e t ih =>
    have ⟨h1, h2⟩ := sorted_cons.1 h
    simp only [insert]
    split
    · rename_i hlt
      refine sorted_cons.2 ⟨?_, h⟩
      intro x hx
      rcases List.mem_cons.1 hx with rfl | hx
      · exact hlt
      · exact keyLt_trans hlt (h1 x hx)
    · split
      · rename_i _ heq
        refine sorted_cons.2 ⟨?_, h2⟩
        intro x hx; simpa [heq] using h1 x hx
      · rename_i hnlt hne
        refine sorted_cons.2 ⟨?_, ih h2⟩
        intro x hx
        rcases mem_insert hx with rfl | hx
        · exact keyLt_total (by simpa using hnlt) hne
        · exact h1 x hx

theorem mem_remove {k : Key} {m : SelMap} {x : Key × Item} : x ∈ remove k m → x ∈ m := by
  induction m with
  | nil => simp [remove]
  | cons e t ih =>
    simp only [remove]
    split
    · intro h; exact List.mem_cons_of_mem _ h
    · simp only [List.mem_cons]; rintro (h | h)
      · exact Or.inl h
      · exact Or.inr (ih h)

theorem sorted_remove {k : Key} {m : SelMap} (h : Sorted m) : Sorted (remove k m) := by
  induction m with
  | nil => simp [remove, Sorted]
  | cons e t ih =>
    have ⟨h1, h2⟩ := sorted_cons.1 h
    simp only [remove]
    split
    · exact h2
    · exact sorted_cons.2 ⟨fun x hx => h1 x (mem_remove hx), ih h2⟩

theorem containsKey_of_sorted_head {e : Key × Item} {t : SelMap} (h : Sorted (e :: t)) :
    containsKey e.1 t = false := by
  have ⟨h1, _⟩ := sorted_cons.1 h
  cases hc : containsKey e.1 t with
  | false => rfl
  | true =>
    obtain ⟨x, hx, hk⟩ := List.mem_map.1 (containsKey_iff.1 hc)
    have := h1 x hx
    rw [hk, keyLt_irrefl] at this; cases this

theorem containsKey_remove (k' k : Key) {m : SelMap} (h : Sorted m) :
    containsKey k' (remove k m) = (k' != k && containsKey k' m) := by
  induction m with
  | nil => simp [remove, containsKey]
  | cons e t ih =>
    have ⟨_, h2⟩ := sorted_cons.1 h
    simp only [remove]
    split
    · rename_i heq; rw [heq]
      simp only [containsKey_cons]
      by_cases hk : k' = e.1
      · rw [hk]; simp [containsKey_of_sorted_head h]
      · simp [beq_false_of_ne hk, bne]
    · rename_i hne
      simp only [containsKey_cons, ih h2]
      by_cases hk : k' = k
      · rw [hk]
        simp [beq_false_of_ne hne]
      · simp [beq_false_of_ne hk, bne]

theorem sorted_toggleKey {k : Key} {v : Item} {m : SelMap} (h : Sorted m) : Sorted (toggleKey k v m) := by
  unfold toggleKey; split
  · exact sorted_insert h
  · exact sorted_remove h

/-- toggling one key flips exactly that key -/
theorem containsKey_toggleKey (k' k : Key) (v : Item) {m : SelMap} (h : Sorted m) :
    containsKey k' (toggleKey k v m) = (containsKey k' m ^^ (k' == k)) := by
  unfold toggleKey
  by_cases hc : containsKey k m = true
  · simp only [hc, Bool.not_true, Bool.false_eq_true, if_false, containsKey_remove k' k h]
    by_cases hk : k' = k
    · subst hk; simp [hc]
    · simp [beq_false_of_ne hk, bne]
  · simp only [Bool.not_eq_true] at hc
    simp only [hc, Bool.not_false, if_true, containsKey_insert]
    by_cases hk : k' = k
    · subst hk; simp [hc]
    · simp [beq_false_of_ne hk]

/-! ### values -/

theorem lookup_insert (k' k : Key) (v : Item) (m : SelMap) :
    lookup k' (insert k v m) = if k' = k then some v else lookup k' m := by
  induction m with
  | nil => simp [insert, lookup]
  | cons e t ih =>
    simp only [insert]
    split
    · simp [lookup]
    · split
      · rename_i heq; subst heq
        simp only [lookup]
        split <;> rfl
      · rename_i hne
        simp only [lookup, ih]
        by_cases hk : k' = k
        · subst hk; simp [hne]
        · simp [hk]

theorem lookup_isSome (k : Key) (m : SelMap) : (lookup k m).isSome = containsKey k m := by
  induction m with
  | nil => rfl
  | cons e t ih =>
    simp only [lookup, containsKey_cons]
    by_cases hk : k = e.1
    · simp [hk]
    · simp [hk, ih]

theorem lookup_remove (k' k : Key) {m : SelMap} (h : Sorted m) :
    lookup k' (remove k m) = if k' = k then none else lookup k' m := by
  induction m with
  | nil => simp [remove, lookup]
  | cons e t ih =>
    have ⟨_, h2⟩ := sorted_cons.1 h
    simp only [remove]
    split
    · rename_i heq; subst heq
      by_cases hk : k' = e.1
      · subst hk
        have := containsKey_of_sorted_head h
        rw [← lookup_isSome] at this
        simp only [if_true]
        cases hl : lookup e.1 t with
        | none => rfl
        | some _ => simp [hl] at this
      · simp [lookup, hk]
    · rename_i hne
      simp only [lookup, ih h2]
      by_cases hk : k' = k
      · subst hk; simp [hne]
      · simp [hk]

theorem lookup_toggleKey_other {k k0 : Key} {v : Item} {m : SelMap} (h : Sorted m) (hk : k0 ≠ k) :
    lookup k (toggleKey k0 v m) = lookup k m := by
  have hk' : k ≠ k0 := fun e => hk e.symm
  unfold toggleKey; split
  · simp [lookup_insert, hk']
  · simp [lookup_remove _ _ h, hk']

theorem lookup_foldl_insert_other (f : MItem → Key) (L : List MItem) (m : SelMap) {k : Key}
    (hk : ∀ x ∈ L, f x ≠ k) : lookup k (L.foldl (fun m x => insert (f x) x.item m) m) = lookup k m := by
  induction L generalizing m with
  | nil => rfl
  | cons a t ih =>
    simp only [List.foldl_cons]
    rw [ih _ (fun x hx => hk x (List.mem_cons_of_mem _ hx)), lookup_insert]
    have : k ≠ f a := fun e => hk a (List.mem_cons_self ..) e.symm
    simp [this]

theorem lookup_foldl_toggle_other (f : MItem → Key) (L : List MItem) {m : SelMap} (h : Sorted m) {k : Key}
    (hk : ∀ x ∈ L, f x ≠ k) : lookup k (L.foldl (fun m x => toggleKey (f x) x.item m) m) = lookup k m := by
  induction L generalizing m with
  | nil => rfl
  | cons a t ih =>
    simp only [List.foldl_cons]
    rw [ih (sorted_toggleKey h) (fun x hx => hk x (List.mem_cons_of_mem _ hx)),
      lookup_toggleKey_other h (hk a (List.mem_cons_self ..))]

/-! ### the loops of select-all / toggle-all / pre-select -/

theorem sorted_foldl_insert (f : MItem → Key) (L : List MItem) {m : SelMap} (h : Sorted m) :
    Sorted (L.foldl (fun m x => insert (f x) x.item m) m) := by
  induction L generalizing m with
  | nil => exact h
  | cons a t ih => exact ih (sorted_insert h)

theorem containsKey_foldl_insert (f : MItem → Key) (k : Key) (L : List MItem) (m : SelMap) :
    containsKey k (L.foldl (fun m x => insert (f x) x.item m) m) = (containsKey k m || (L.map f).contains k) := by
  induction L generalizing m with
  | nil => simp
  | cons a t ih =>
    simp only [List.foldl_cons, ih, containsKey_insert, List.map_cons, List.contains_cons]
    cases containsKey k m <;> cases (k == f a) <;> simp

theorem sorted_foldl_toggle (f : MItem → Key) (L : List MItem) {m : SelMap} (h : Sorted m) :
    Sorted (L.foldl (fun m x => toggleKey (f x) x.item m) m) := by
  induction L generalizing m with
  | nil => exact h
  | cons a t ih => exact ih (sorted_toggleKey h)

theorem parity_succ (n : Nat) : ((n + 1) % 2 == 1) = !(n % 2 == 1) := by
  rcases Nat.mod_two_eq_zero_or_one n with h | h
  · have : (n + 1) % 2 = 1 := by omega
    simp [h, this]
  · have : (n + 1) % 2 = 0 := by omega
    simp [h, this]

/-- toggle-all flips a key as many times as it is listed -/
theorem containsKey_foldl_toggle (f : MItem → Key) (k : Key) (L : List MItem) {m : SelMap} (h : Sorted m) :
    containsKey k (L.foldl (fun m x => toggleKey (f x) x.item m) m)
      = (containsKey k m ^^ ((L.map f).count k % 2 == 1)) := by
  induction L generalizing m with
  | nil => simp
  | cons a t ih =>
    simp only [List.foldl_cons, ih (sorted_toggleKey h), containsKey_toggleKey _ _ _ h, List.map_cons,
      List.count_cons]
    by_cases hk : k = f a
    · subst hk
      simp only [beq_self_eq_true, if_true, parity_succ]
      cases containsKey (f a) m <;> cases (List.count (f a) (List.map f t) % 2 == 1) <;> rfl
    · have h1 : (k == f a) = false := beq_false_of_ne hk
      have h2 : (f a == k) = false := beq_false_of_ne (fun e => hk e.symm)
      simp [h1, h2]

/-! ### pre-selection and append -/

/-- the loop of `select_all` / `pre_select` on the map -/
def insertAll (run : Nat) (L : List MItem) (m : SelMap) : SelMap :=
  L.foldl (fun m x => insert (run, x.idx) x.item m) m

def preFilter (sel : Selector) (b : List MItem) : List MItem := b.filter (fun m => sel.shouldSelect m.idx m.item)

theorem preSelect_fold_eq (sel : Selector) (run : Nat) (batch : List MItem) (s : Sel) (hm : s.multi = true) :
    batch.foldl (fun s m => if sel.shouldSelect m.idx m.item then selectRaw s run m.idx m.item else s) s
      = { s with selected := insertAll run (preFilter sel batch) s.selected } := by
  induction batch generalizing s with
  | nil => rfl
  | cons a t ih =>
    simp only [List.foldl_cons]
    by_cases hs : sel.shouldSelect a.idx a.item = true
    · have : selectRaw s run a.idx a.item = { s with selected := insert (run, a.idx) a.item s.selected } := by
        simp [selectRaw, hm]
      simp only [hs, if_true]
      rw [this, ih { s with selected := insert (run, a.idx) a.item s.selected } hm]
      simp [preFilter, insertAll, hs]
    · simp only [hs, if_false, Bool.false_eq_true]
      rw [ih _ hm]
      simp [preFilter, hs]

theorem preSelect_none {s : Sel} (run : Nat) (b : List MItem) (h : s.selector = none) : preSelect s run b = s := by
  simp [preSelect, h]

theorem preSelect_single {s : Sel} (run : Nat) (b : List MItem) (h : s.multi = false) : preSelect s run b = s := by
  unfold preSelect; split <;> simp [h]

theorem preSelect_multi {s : Sel} {sel : Selector} (run : Nat) (b : List MItem) (hs : s.selector = some sel)
    (hm : s.multi = true) :
    preSelect s run b = { s with selected := insertAll run (preFilter sel b) s.selected } := by
  simp [preSelect, hs, hm, preSelect_fold_eq]

/-- the state in which `append_sorted_items` calls `pre_select` -/
def bumped (s : Sel) (run : Nat) (b : List MItem) : Sel :=
  if !b.isEmpty && run > s.latestRun then { s with latestRun := run, watermark := 0 } else s

theorem bumped_fields (s : Sel) (run : Nat) (b : List MItem) :
    (bumped s run b).selected = s.selected ∧ (bumped s run b).listed = s.listed ∧
    (bumped s run b).multi = s.multi ∧ (bumped s run b).selector = s.selector ∧
    (bumped s run b).nosort = s.nosort ∧ (bumped s run b).tac = s.tac := by
  unfold bumped; split <;> simp

theorem preSelectDue_eq (s : Sel) (run : Nat) (b : List MItem) :
    preSelectDue s run b = decide ((bumped s run b).listed.length ≥ (bumped s run b).watermark) := by
  unfold preSelectDue bumped; split <;> simp_all

/-- what `append_sorted_items` does to the selected map -/
theorem append_selected (s : Sel) (run : Nat) (b : List MItem) :
    (append s run b).selected =
      match s.selector with
      | some sel =>
        if s.multi && preSelectDue s run b then insertAll run (preFilter sel b) s.selected else s.selected
      | none => s.selected := by
  have hb := bumped_fields s run b
  have hd := preSelectDue_eq s run b
  have : (append s run b).selected =
      (if (bumped s run b).listed.length ≥ (bumped s run b).watermark then preSelect (bumped s run b) run b
       else bumped s run b).selected := rfl
  rw [this]
  cases hsel : s.selector with
  | none =>
    simp only []
    split
    · rw [preSelect_none _ _ (hb.2.2.2.1.trans hsel)]; exact hb.1
    · exact hb.1
  | some sel =>
    simp only []
    cases hm : s.multi with
    | false =>
      simp only [Bool.false_and, Bool.false_eq_true, if_false]
      split
      · rw [preSelect_single _ _ (hb.2.2.1.trans hm)]; exact hb.1
      · exact hb.1
    | true =>
      simp only [Bool.true_and, hd, decide_eq_true_eq]
      split
      · rw [preSelect_multi _ _ (hb.2.2.2.1.trans hsel) (hb.2.2.1.trans hm)]
        simp [hb.1]
      · exact hb.1

theorem preSelect_multi_eq (s : Sel) (run : Nat) (b : List MItem) : (preSelect s run b).multi = s.multi := by
  cases hsel : s.selector with
  | none => rw [preSelect_none _ _ hsel]
  | some sel =>
    cases hm : s.multi with
    | false => rw [preSelect_single _ _ hm]; exact hm
    | true => rw [preSelect_multi _ _ hsel hm]; exact hm

theorem append_multi (s : Sel) (run : Nat) (b : List MItem) : (append s run b).multi = s.multi := by
  have hb := bumped_fields s run b
  have : (append s run b).multi =
      (if (bumped s run b).listed.length ≥ (bumped s run b).watermark then preSelect (bumped s run b) run b
       else bumped s run b).multi := rfl
  rw [this]
  split
  · rw [preSelect_multi_eq]; exact hb.2.2.1
  · exact hb.2.2.1

theorem sorted_insertAll (run : Nat) (L : List MItem) {m : SelMap} (h : Sorted m) : Sorted (insertAll run L m) :=
  sorted_foldl_insert _ L h

theorem containsKey_insertAll (run : Nat) (k : Key) (L : List MItem) (m : SelMap) :
    containsKey k (insertAll run L m) = (containsKey k m || (L.map (fun x => (run, x.idx))).contains k) :=
  containsKey_foldl_insert _ k L m

/-! ### the reference sets -/

theorem mem_sInsert {k' k : Key} {S : KSet} : k' ∈ sInsert k S ↔ k' = k ∨ k' ∈ S := by
  unfold sInsert; split
  · rename_i h; constructor
    · exact Or.inr
    · rintro (rfl | h') <;> assumption
  · simp

theorem mem_sErase {k' k : Key} {S : KSet} : k' ∈ sErase k S ↔ k' ∈ S ∧ k' ≠ k := by
  simp [sErase]

/-- insertion when absent, removal when present -/
theorem mem_sToggle {k' k : Key} {S : KSet} :
    k' ∈ sToggle k S ↔ (k' ∈ S ∧ k' ≠ k) ∨ (k' = k ∧ k ∉ S) := by
  unfold sToggle; split
  · rename_i h; rw [mem_sErase]; constructor
    · exact Or.inl
    · rintro (h' | ⟨_, h'⟩)
      · exact h'
      · exact absurd h h'
  · rename_i h
    simp only [List.mem_cons]; constructor
    · rintro (rfl | h')
      · exact Or.inr ⟨rfl, h⟩
      · exact Or.inl ⟨h', fun e => h (e ▸ h')⟩
    · rintro (⟨h', _⟩ | ⟨h', _⟩)
      · exact Or.inr h'
      · exact Or.inl h'

/-- union -/
theorem mem_sUnion {k' : Key} {L : List Key} {S : KSet} : k' ∈ sUnion L S ↔ k' ∈ S ∨ k' ∈ L := by
  unfold sUnion
  induction L generalizing S with
  | nil => simp
  | cons a t ih =>
    simp only [List.foldl_cons, ih, mem_sInsert, List.mem_cons]
    constructor
    · rintro ((h | h) | h)
      · exact Or.inr (Or.inl h)
      · exact Or.inl h
      · exact Or.inr (Or.inr h)
    · rintro (h | h | h)
      · exact Or.inl (Or.inr h)
      · exact Or.inl (Or.inl h)
      · exact Or.inr h

/-- symmetric difference -/
theorem mem_sSymmDiff {k' : Key} {L : List Key} {S : KSet} :
    k' ∈ sSymmDiff L S ↔ (k' ∈ S ∧ k' ∉ L) ∨ (k' ∈ L ∧ k' ∉ S) := by
  simp [sSymmDiff]

theorem nodup_sInsert {k : Key} {S : KSet} (h : S.Nodup) : (sInsert k S).Nodup := by
  unfold sInsert; split
  · exact h
  · rename_i hk; exact List.nodup_cons.2 ⟨hk, h⟩

theorem nodup_sToggle {k : Key} {S : KSet} (h : S.Nodup) : (sToggle k S).Nodup := by
  unfold sToggle; split
  · exact h.filter _
  · rename_i hk; exact List.nodup_cons.2 ⟨hk, h⟩

theorem nodup_sUnion {L : List Key} {S : KSet} (h : S.Nodup) : (sUnion L S).Nodup := by
  unfold sUnion
  induction L generalizing S with
  | nil => exact h
  | cons a t ih => exact ih (nodup_sInsert h)

theorem nodup_sSymmDiff {L : List Key} {S : KSet} (hL : L.Nodup) (h : S.Nodup) : (sSymmDiff L S).Nodup := by
  unfold sSymmDiff
  refine List.nodup_append.2 ⟨h.filter _, hL.filter _, ?_⟩
  intro a ha b hb
  simp only [List.mem_filter, decide_eq_true_eq] at ha hb
  intro e; subst e; exact hb.2 ha.1

/-! ### identity: the item stored under a key -/

/-- every entry of the map carries the item that `T` assigns to its key -/
def Consistent (T : Key → Item) (m : SelMap) : Prop := ∀ e ∈ m, e.2 = T e.1

theorem consistent_insert {T : Key → Item} {k : Key} {v : Item} {m : SelMap} (h : Consistent T m) (hv : v = T k) :
    Consistent T (insert k v m) := by
  intro e he
  rcases mem_insert he with rfl | he
  · exact hv
  · exact h e he

theorem consistent_remove {T : Key → Item} {k : Key} {m : SelMap} (h : Consistent T m) :
    Consistent T (remove k m) := fun e he => h e (mem_remove he)

theorem consistent_toggleKey {T : Key → Item} {k : Key} {v : Item} {m : SelMap} (h : Consistent T m) (hv : v = T k) :
    Consistent T (toggleKey k v m) := by
  unfold toggleKey; split
  · exact consistent_insert h hv
  · exact consistent_remove h

theorem consistent_foldl_insert {T : Key → Item} (f : MItem → Key) (L : List MItem) {m : SelMap}
    (h : Consistent T m) (hL : ∀ x ∈ L, x.item = T (f x)) :
    Consistent T (L.foldl (fun m x => insert (f x) x.item m) m) := by
  induction L generalizing m with
  | nil => exact h
  | cons a t ih =>
    exact ih (consistent_insert h (hL a (List.mem_cons_self ..))) (fun x hx => hL x (List.mem_cons_of_mem _ hx))

theorem consistent_foldl_toggle {T : Key → Item} (f : MItem → Key) (L : List MItem) {m : SelMap}
    (h : Consistent T m) (hL : ∀ x ∈ L, x.item = T (f x)) :
    Consistent T (L.foldl (fun m x => toggleKey (f x) x.item m) m) := by
  induction L generalizing m with
  | nil => exact h
  | cons a t ih =>
    exact ih (consistent_toggleKey h (hL a (List.mem_cons_self ..))) (fun x hx => hL x (List.mem_cons_of_mem _ hx))

/-! ### the reference step -/

/-- the reference step only looks at membership -/
theorem specStep_congr (st : St) (o : Op) {S S' : KSet} (h : SetEq S S') :
    SetEq (specStep st S o) (specStep st S' o) := by
  intro k
  have hn : ∀ x, x ∉ S ↔ x ∉ S' := fun x => not_congr (h x)
  cases o <;> simp only [specStep]
  case run => exact h k
  case clear => exact h k
  case accept => exact h k
  case append b =>
    split
    · split
      · simp only [mem_sUnion, h k]
      · exact h k
    · exact h k
  case toggle c =>
    split
    · exact h k
    · split
      · simp only [mem_sToggle, h k, hn]
      · exact h k
  case toggleAll =>
    split
    · exact h k
    · simp only [mem_sSymmDiff, h k]
  case selectAll =>
    split
    · exact h k
    · simp only [mem_sUnion, h k]
  case selectMatched i it =>
    split
    · exact h k
    · simp only [mem_sInsert, h k]

/-- the reference keeps its set duplicate-free (so its size is the count) -/
theorem specStep_nodup (st : St) (o : Op) {S : KSet} (h : S.Nodup)
    (hnd : o = .toggleAll → (listedKeys st.sel st.runs.cur).Nodup) : (specStep st S o).Nodup := by
  cases o <;> simp only [specStep]
  case run => exact h
  case clear => exact h
  case accept => exact h
  case deselectAll => exact List.nodup_nil
  case append b =>
    split
    · split
      · exact nodup_sUnion h
      · exact h
    · exact h
  case toggle c =>
    split
    · exact h
    · split
      · exact nodup_sToggle h
      · exact h
  case toggleAll =>
    split
    · exact h
    · exact nodup_sSymmDiff (hnd rfl) h
  case selectAll =>
    split
    · exact h
    · exact nodup_sUnion h
  case selectMatched i it =>
    split
    · exact h
    · exact nodup_sInsert h

/-! ### output order of the reference: `sortKeys` -/

def KSorted (L : List Key) : Prop := L.Pairwise (fun a b => keyLt a b = true)

theorem mem_insertKey {k x : Key} {L : List Key} : k ∈ sortKeys.insertKey x L ↔ k = x ∨ k ∈ L := by
  induction L with
  | nil => simp [sortKeys.insertKey]
  | cons a t ih =>
    simp only [sortKeys.insertKey]; split
    · simp
    · simp only [List.mem_cons, ih]
      constructor
      · rintro (h | h | h) <;> simp [h]
      · rintro (h | h | h) <;> simp [h]

theorem mem_sortKeys {k : Key} {S : KSet} : k ∈ sortKeys S ↔ k ∈ S := by
  induction S with
  | nil => simp [sortKeys]
  | cons a t ih => simp [sortKeys, mem_insertKey, ih]

theorem length_insertKey (x : Key) (L : List Key) : (sortKeys.insertKey x L).length = L.length + 1 := by
  induction L with
  | nil => rfl
  | cons a t ih => simp only [sortKeys.insertKey]; split <;> simp [ih]

theorem length_sortKeys (S : KSet) : (sortKeys S).length = S.length := by
  induction S with
  | nil => rfl
  | cons a t ih => simp [sortKeys, length_insertKey, ih]

theorem ksorted_insertKey {x : Key} {L : List Key} (h : KSorted L) (hx : x ∉ L) : KSorted (sortKeys.insertKey x L) := by
  induction L with
  | nil => simp [sortKeys.insertKey, KSorted]
  | cons a t ih =>
    have ⟨h1, h2⟩ := List.pairwise_cons.1 h
    simp only [sortKeys.insertKey]; split
    · rename_i hlt
      refine List.pairwise_cons.2 ⟨?_, h⟩
      intro y hy
      rcases List.mem_cons.1 hy with rfl | hy
      · exact hlt
      · exact keyLt_trans hlt (h1 y hy)
    · rename_i hnlt
      have hxa : x ≠ a := fun e => hx (e ▸ List.mem_cons_self ..)
      have hxt : x ∉ t := fun e => hx (List.mem_cons_of_mem _ e)
      refine List.pairwise_cons.2 ⟨?_, ih h2 hxt⟩
      intro y hy
      rcases mem_insertKey.1 hy with rfl | hy
      · exact keyLt_total (by simpa using hnlt) hxa
      · exact h1 y hy

theorem ksorted_sortKeys {S : KSet} (h : S.Nodup) : KSorted (sortKeys S) := by
  induction S with
  | nil => simp [sortKeys, KSorted]
  | cons a t ih =>
    have ⟨h1, h2⟩ := List.nodup_cons.1 h
    simp only [sortKeys]
    exact ksorted_insertKey (ih h2) (fun e => h1 (mem_sortKeys.1 e))

/-- a strictly ascending list is determined by its members -/
theorem ksorted_ext {L1 L2 : List Key} (h1 : KSorted L1) (h2 : KSorted L2) (h : ∀ k, k ∈ L1 ↔ k ∈ L2) : L1 = L2 := by
  induction L1 generalizing L2 with
  | nil =>
    cases L2 with
    | nil => rfl
    | cons b t => exact absurd ((h b).2 (List.mem_cons_self ..)) (by simp)
  | cons a t1 ih =>
    cases L2 with
    | nil => exact absurd ((h a).1 (List.mem_cons_self ..)) (by simp)
    | cons b t2 =>
      have ⟨ha, ht1⟩ := List.pairwise_cons.1 h1
      have ⟨hb, ht2⟩ := List.pairwise_cons.1 h2
      have hab : a = b := by
        rcases List.mem_cons.1 ((h a).1 (List.mem_cons_self ..)) with e | hin
        · exact e
        · rcases List.mem_cons.1 ((h b).2 (List.mem_cons_self ..)) with e | hin'
          · exact e.symm
          · have := keyLt_asymm (hb a hin); rw [ha b hin'] at this; cases this
      subst hab
      congr 1
      apply ih ht1 ht2
      intro k; constructor
      · intro hk
        rcases List.mem_cons.1 ((h k).1 (List.mem_cons_of_mem _ hk)) with e | hin
        · exact absurd e.symm (keyLt_ne (ha k hk))
        · exact hin
      · intro hk
        rcases List.mem_cons.1 ((h k).2 (List.mem_cons_of_mem _ hk)) with e | hin
        · exact absurd e.symm (keyLt_ne (hb k hk))
        · exact hin

end SkimModel.SelSet
