/-
Helper lemmas for C02 (model `Model/OrderedVec.lean`, spec `Spec/OrderedVec.lean`).
-/
import SkimModel.Spec.OrderedVec
namespace SkimModel.OrderedVec
open List

set_option linter.unusedSimpArgs false
set_option linter.unusedVariables false

variable {α : Type} {K : Type}

/-- `T: Ord` looks at a key only, and keys are linearly ordered by `leK`
    (for `MatchedItem`: the rank array with its lexicographic order). -/
structure KeyOrder (leK : K → K → Bool) : Prop where
  total : ∀ a b, leK a b || leK b a
  trans : ∀ a b c, leK a b → leK b c → leK a c
  antisymm : ∀ a b, leK a b → leK b a → a = b

/-- the comparison of items induced by a key -/
def keyLe (leK : K → K → Bool) (key : α → K) (a b : α) : Bool := leK (key a) (key b)

/-- what the proofs need of `le`: a total preorder -/
structure TotalPre (le : α → α → Bool) : Prop where
  total : ∀ a b, le a b || le b a
  trans : ∀ a b c, le a b → le b c → le a c

theorem KeyOrder.totalPre {leK : K → K → Bool} (h : KeyOrder leK) (key : α → K) : TotalPre (keyLe leK key) :=
  ⟨fun a b => h.total _ _, fun a b c => h.trans _ _ _⟩

section order
variable {le : α → α → Bool} (h : TotalPre le) (c : Cfg)
include h

theorem TotalPre.refl (a : α) : le a a := by have := h.total a a; simpa using this

theorem cle_totalPre : TotalPre (cle le c) := by
  constructor
  · intro a b; unfold cle; split
    · exact h.total b a
    · exact h.total a b
  · intro x y z; unfold cle; split
    · intro h1 h2; exact h.trans _ _ _ h2 h1
    · exact h.trans _ _ _

theorem cle_refl (a : α) : cle le c a a := (cle_totalPre h c).refl a

theorem cle_trans {x y z : α} : cle le c x y → cle le c y z → cle le c x z := (cle_totalPre h c).trans _ _ _

omit h in
theorem lt_eq (a b : α) : lt le c a b = !cle le c b a := by
  unfold lt cle; split <;> rfl

/-- `a < b` gives `a ≤ b` -/
theorem cle_of_lt {a b : α} (hl : lt le c a b = true) : cle le c a b := by
  rw [lt_eq] at hl
  have := (cle_totalPre h c).total a b
  cases hb : cle le c b a <;> simp_all

omit h in
theorem cle_of_not_lt {a b : α} (hl : lt le c a b = false) : cle le c b a := by
  rw [lt_eq] at hl; simpa using hl

/-! ### `sort_vector` -/

omit h in
theorem sortVec_false_reverse (v : List α) : (sortVec le c false v).reverse = sortVec le c true v := by
  unfold sortVec; cases c.tac <;> simp

omit h in
theorem sortVec_perm (asc : Bool) (v : List α) : sortVec le c asc v ~ v := by
  unfold sortVec; simp only []; split
  · exact mergeSort_perm _ _
  · exact (reverse_perm _).trans (mergeSort_perm _ _)

theorem sortVec_true_pairwise (v : List α) : (sortVec le c true v).Pairwise (fun a b => cle le c a b) := by
  have hs := pairwise_mergeSort (le := le) h.trans h.total v
  unfold sortVec cle; cases c.tac <;> simp
  · exact hs
  · rw [pairwise_reverse]; exact hs

end order

/-! ### two sorted permutations show the same keys -/

theorem keys_unique {leK : K → K → Bool} (hk : KeyOrder leK) (key : α → K) {l₁ l₂ : List α}
    (hp : l₁ ~ l₂)
    (h₁ : l₁.Pairwise (fun a b => leK (key a) (key b))) (h₂ : l₂.Pairwise (fun a b => leK (key a) (key b))) :
    l₁.map key = l₂.map key := by
  apply Perm.eq_of_pairwise (le := fun a b => leK a b = true)
  · intro a b _ _ hab hba; exact hk.antisymm a b hab hba
  · rw [pairwise_map]; exact h₁
  · rw [pairwise_map]; exact h₂
  · exact hp.map key

/-! ### list surgery -/

theorem split_at {β : Type} {l : List β} {i : Nat} {a : β} (h : l[i]? = some a) :
    ∃ l₁ l₂, l = l₁ ++ a :: l₂ ∧ l₁.length = i := by
  induction l generalizing i with
  | nil => simp at h
  | cons b t ih =>
    cases i with
    | zero => simp at h; exact ⟨[], t, by simp [h], rfl⟩
    | succ j =>
      simp at h
      obtain ⟨l₁, l₂, e, hl⟩ := ih h
      exact ⟨b :: l₁, l₂, by simp [e], by simp [hl]⟩

theorem eraseIdx_split {β : Type} (l₁ : List β) (a : β) (l₂ : List β) :
    (l₁ ++ a :: l₂).eraseIdx l₁.length = l₁ ++ l₂ := by
  induction l₁ with
  | nil => simp
  | cons b t ih => simp [ih]

theorem set_split {β : Type} (l₁ : List β) (a b : β) (l₂ : List β) :
    (l₁ ++ a :: l₂).set l₁.length b = l₁ ++ b :: l₂ := by
  induction l₁ with
  | nil => simp
  | cons x t ih => simp [ih]

theorem pairwise_getLast {β : Type} {R : β → β → Prop} {l : List β} {z : β} (hp : l.Pairwise R)
    (hl : l.getLast? = some z) : ∀ x ∈ l, x = z ∨ R x z := by
  rw [getLast?_eq_some_iff] at hl
  obtain ⟨ys, rfl⟩ := hl
  rw [pairwise_append] at hp
  intro x hx
  simp at hx
  rcases hx with hx | hx
  · exact Or.inr (hp.2.2 x hx z (by simp))
  · exact Or.inl hx

/-! ### the representation invariant (sorting mode) -/

/-- `sorted` is sorted, every sub-vector is sorted and non-empty, and nothing waiting in a sub-vector
    ranks before anything in `sorted` -/
structure Inv (le : α → α → Bool) (c : Cfg) (s : State α) : Prop where
  sorted : s.sorted.Pairwise (fun a b => cle le c a b)
  runs : ∀ r ∈ s.subs, r.Pairwise (fun a b => cle le c a b) ∧ r ≠ []
  cross : ∀ x ∈ s.sorted, ∀ r ∈ s.subs, ∀ y ∈ r, cle le c x y

/-- all items held -/
def contents (s : State α) : List α := s.sorted ++ s.subs.flatten

theorem pending_eq (s : State α) : pending s = s.subs.flatten.length := by
  unfold pending; simp [length_flatten]

theorem len_eq (s : State α) : len s = (contents s).length := by
  unfold len contents; simp [pending_eq]

/-! ### `min_by` over the heads -/

section minidx
variable {le : α → α → Bool} (h : TotalPre le) (c : Cfg)
include h

/-- what the accumulator of the fold means after the sub-vectors `pre` have been scanned -/
def BestOk (le : α → α → Bool) (c : Cfg) (all pre : List (List α)) : Option (Nat × α) → Prop
  | none => ∀ r ∈ pre, r = []
  | some (j, x) => (∃ r, all[j]? = some (x :: r)) ∧ ∀ r ∈ pre, ∀ z, r.head? = some z → cle le c x z

theorem minIndexGo_ok (vs pre : List (List α)) (best : Option (Nat × α))
    (hb : BestOk le c (pre ++ vs) pre best) :
    BestOk le c (pre ++ vs) (pre ++ vs) (minIndexGo le c best pre.length vs) := by
  induction vs generalizing pre best with
  | nil => simpa [minIndexGo] using hb
  | cons v vs ih =>
    have e : pre ++ v :: vs = (pre ++ [v]) ++ vs := by simp
    have el : pre.length + 1 = (pre ++ [v]).length := by simp
    cases v with
    | nil =>
      rw [minIndexGo, e, el]
      apply ih
      rw [← e]
      cases best with
      | none => intro r hr; simp at hr; rcases hr with hr | hr; exact hb r hr; exact hr
      | some p =>
        obtain ⟨j, x⟩ := p
        refine ⟨hb.1, ?_⟩
        intro r hr z hz
        simp at hr
        rcases hr with hr | hr
        · exact hb.2 r hr z hz
        · subst hr; simp at hz
    | cons y r =>
      cases best with
      | none =>
        rw [minIndexGo, e, el]
        apply ih
        rw [← e]
        refine ⟨⟨r, by simp⟩, ?_⟩
        intro r' hr' z hz
        simp at hr'
        rcases hr' with hr' | hr'
        · have := hb r' hr'; subst this; simp at hz
        · subst hr'; simp at hz; subst hz; exact cle_refl h c _
      | some p =>
        obtain ⟨j, x⟩ := p
        rw [minIndexGo, e, el]
        apply ih
        rw [← e]
        cases hl : lt le c y x with
        | true =>
          simp only [if_true]
          refine ⟨⟨r, by simp⟩, ?_⟩
          intro r' hr' z hz
          simp at hr'
          rcases hr' with hr' | hr'
          · exact cle_trans h c (cle_of_lt h c hl) (hb.2 r' hr' z hz)
          · subst hr'; simp at hz; subst hz; exact cle_refl h c _
        | false =>
          simp only [Bool.false_eq_true, if_false]
          refine ⟨hb.1, ?_⟩
          intro r' hr' z hz
          simp at hr'
          rcases hr' with hr' | hr'
          · exact hb.2 r' hr' z hz
          · subst hr'; simp at hz; subst hz; exact cle_of_not_lt c hl

theorem minIndex_ok (vs : List (List α)) : BestOk le c vs vs (minIndex le c vs) := by
  have := minIndexGo_ok h c vs [] none (by intro r hr; simp at hr)
  simpa [minIndex] using this

end minidx

/-! ### `merge_till` -/

section merge
variable {le : α → α → Bool} (h : TotalPre le) (c : Cfg)
include h

/-- the minimal head is below everything that waits -/
theorem min_le_all {s : State α} (hi : Inv le c s) {x : α}
    (hmin : ∀ r ∈ s.subs, ∀ z, r.head? = some z → cle le c x z) :
    ∀ r ∈ s.subs, ∀ y ∈ r, cle le c x y := by
  intro r hr y hy
  cases r with
  | nil => simp at hy
  | cons z t =>
    have hz := hmin _ hr z (by simp)
    have hp := (hi.runs _ hr).1
    simp at hy
    rcases hy with hy | hy
    · subst hy; exact hz
    · exact cle_trans h c hz (rel_of_pairwise_cons hp hy)

/-- one iteration of the loop of `merge_till` -/
theorem merge_step {s : State α} (hi : Inv le c s) {x : α} {r : List α} {l₁ l₂ : List (List α)}
    (hs : s.subs = l₁ ++ (x :: r) :: l₂)
    (hmin : ∀ r ∈ s.subs, ∀ z, r.head? = some z → cle le c x z) :
    let s' : State α := { sorted := s.sorted ++ [x], subs := if r.isEmpty then l₁ ++ l₂ else l₁ ++ r :: l₂ }
    Inv le c s' ∧ contents s' ~ contents s ∧ pending s' + 1 = pending s := by
  have hall := min_le_all h c hi hmin
  have hxr : (x :: r) ∈ s.subs := by rw [hs]; simp
  have hsub : ∀ r' ∈ (if r.isEmpty then l₁ ++ l₂ else l₁ ++ r :: l₂), r' ≠ [] ∧ r'.Pairwise (fun a b => cle le c a b) ∧ ∀ y ∈ r', ∃ r'' ∈ s.subs, y ∈ r'' := by
    intro r' hr'
    have key : r' ∈ s.subs ∨ (r' = r ∧ r ≠ []) := by
      split at hr'
      · left; rw [hs]; simp at hr' ⊢; rcases hr' with hr' | hr'; exact Or.inl hr'; exact Or.inr (Or.inr hr')
      · rename_i hne
        simp at hr'
        rcases hr' with hr' | hr' | hr'
        · left; rw [hs]; simp; exact Or.inl hr'
        · right; exact ⟨hr', by simpa using hne⟩
        · left; rw [hs]; simp; exact Or.inr (Or.inr hr')
    rcases key with hk | ⟨hk, hne⟩
    · exact ⟨(hi.runs _ hk).2, (hi.runs _ hk).1, fun y hy => ⟨r', hk, hy⟩⟩
    · subst hk
      exact ⟨hne, (hi.runs _ hxr).1.tail, fun y hy => ⟨x :: r', hxr, by simp [hy]⟩⟩
  refine ⟨⟨?_, ?_, ?_⟩, ?_, ?_⟩
  · show (s.sorted ++ [x]).Pairwise _
    rw [pairwise_append]
    refine ⟨hi.sorted, by simp, ?_⟩
    intro a ha b hb
    simp at hb; subst hb
    exact hi.cross a ha _ hxr b (by simp)
  · intro r' hr'
    exact ⟨(hsub r' hr').2.1, (hsub r' hr').1⟩
  · intro a ha r' hr' y hy
    obtain ⟨r'', hr'', hy''⟩ := (hsub r' hr').2.2 y hy
    simp at ha
    rcases ha with ha | ha
    · exact hi.cross a ha r'' hr'' y hy''
    · subst ha; exact hall r'' hr'' y hy''
  · show (s.sorted ++ [x]) ++ (if r.isEmpty then l₁ ++ l₂ else l₁ ++ r :: l₂).flatten ~ s.sorted ++ s.subs.flatten
    rw [hs]
    have e : (if r.isEmpty then l₁ ++ l₂ else l₁ ++ r :: l₂).flatten = l₁.flatten ++ r ++ l₂.flatten := by
      split
      · rename_i he; simp at he; subst he; simp
      · simp
    rw [e]
    simp only [flatten_append, flatten_cons, append_assoc]
    apply Perm.append_left
    simp only [singleton_append, cons_append, nil_append]
    exact perm_middle.symm
  · show pending _ + 1 = pending s
    rw [pending_eq, pending_eq, hs]
    have e : (if r.isEmpty then l₁ ++ l₂ else l₁ ++ r :: l₂).flatten = l₁.flatten ++ r ++ l₂.flatten := by
      split
      · rename_i he; simp at he; subst he; simp
      · simp
    simp only [e]
    simp; omega

/-- the loop of `merge_till`: keeps the invariant, the contents and `sorted` as a prefix; when the fuel is at
    least the number of waiting items it ends with `index < sorted.len()` or with nothing waiting -/
theorem mergeLoop_spec (index : Nat) (fuel : Nat) (s : State α) (hi : Inv le c s) :
    let s' := mergeLoop le c index fuel s
    Inv le c s' ∧ contents s' ~ contents s ∧ s.sorted <+: s'.sorted ∧
      (pending s ≤ fuel → index < s'.sorted.length ∨ s'.subs = []) := by
  induction fuel generalizing s with
  | zero =>
    simp only [mergeLoop]
    refine ⟨hi, Perm.refl _, prefix_refl _, ?_⟩
    intro hp
    right
    have h0 : s.subs.flatten.length = 0 := by rw [← pending_eq]; omega
    cases hsu : s.subs with
    | nil => rfl
    | cons r t =>
      have hne := (hi.runs r (by simp [hsu])).2
      rw [hsu] at h0
      cases r with
      | nil => exact absurd rfl hne
      | cons a r => simp at h0
  | succ fuel ih =>
    rw [mergeLoop]
    split
    · rename_i hge
      have hm := minIndex_ok h c s.subs
      split
      · rename_i hnone
        rw [hnone] at hm
        refine ⟨hi, Perm.refl _, prefix_refl _, fun _ => Or.inr ?_⟩
        cases hsu : s.subs with
        | nil => rfl
        | cons r t =>
          have h1 := (hi.runs r (by simp [hsu])).2
          have h2 := hm r (by simp [hsu])
          exact absurd h2 h1
      · rename_i i y hsome
        rw [hsome] at hm
        obtain ⟨⟨r, hr⟩, hmin⟩ := hm
        rw [hr]
        simp only []
        obtain ⟨l₁, l₂, hs, hl⟩ := split_at hr
        have hst := merge_step h c hi hs hmin
        simp only [] at hst
        have e1 : s.subs.eraseIdx i = l₁ ++ l₂ := by rw [hs, ← hl, eraseIdx_split]
        have e2 : s.subs.set i r = l₁ ++ r :: l₂ := by rw [hs, ← hl, set_split]
        rw [e1, e2]
        obtain ⟨hi', hc', hp'⟩ := hst
        have := ih _ hi'
        simp only [] at this
        obtain ⟨a1, a2, a3, a4⟩ := this
        refine ⟨a1, a2.trans hc', ?_, ?_⟩
        · exact (prefix_append _ _).trans a3
        · intro hp; apply a4; omega
    · rename_i hlt
      exact ⟨hi, Perm.refl _, prefix_refl _, fun _ => Or.inl (by omega)⟩

theorem mergeTill_spec (index : Nat) (s : State α) (hi : Inv le c s) :
    let s' := mergeTill le c index s
    Inv le c s' ∧ contents s' ~ contents s ∧ s.sorted <+: s'.sorted ∧
      (index < s'.sorted.length ∨ s'.subs = []) := by
  have := mergeLoop_spec h c index (pending s) s hi
  simp only [] at this
  exact ⟨this.1, this.2.1, this.2.2.1, this.2.2.2 (Nat.le_refl _)⟩

end merge

/-! ### `append` -/

section app
variable {le : α → α → Bool} (h : TotalPre le) (c : Cfg)

theorem moveLoop_spec (last : α) (items acc : List α) :
    (moveLoop le c last items acc).1 ++ (moveLoop le c last items acc).2 = acc ++ items ∧
    (∀ x ∈ (moveLoop le c last items acc).1, x ∈ acc ∨ lt le c x last = true) := by
  induction items generalizing acc with
  | nil => simp [moveLoop]; exact fun x hx => Or.inl hx
  | cons x t ih =>
    rw [moveLoop]
    split
    · rename_i hc
      simp at hc
      obtain ⟨i1, i2⟩ := ih (acc ++ [x])
      refine ⟨by rw [i1]; simp, ?_⟩
      · intro y hy
        rcases i2 y hy with hy' | hy'
        · simp at hy'
          rcases hy' with hy' | hy'
          · exact Or.inl hy'
          · subst hy'; exact Or.inr hc.2
        · exact Or.inr hy'
    · simp; exact fun x hx => Or.inl hx

include h

/-- `append` in sorting mode keeps the invariant and adds exactly the batch -/
theorem append_spec (hn : c.nosort = false) (s : State α) (hi : Inv le c s) (b : List α) :
    Inv le c (append le c s b) ∧ contents (append le c s b) ~ contents s ++ b := by
  unfold append
  simp only [hn, Bool.false_eq_true, if_false, sortVec_false_reverse]
  have hrp := sortVec_true_pairwise h c b
  have hrperm := sortVec_perm (le := le) c true b
  generalize sortVec le c true b = run at hrp hrperm
  cases hl : s.sorted.getLast? with
  | none =>
    have hs0 : s.sorted = [] := by simpa using hl
    simp only [hs0, append_nil, Bool.false_eq_true, if_false]
    have e0 : sortVec le c true ([] : List α) = [] := by unfold sortVec; simp
    rw [e0]
    constructor
    · refine ⟨by simp, ?_, by simp⟩
      intro r hr
      split at hr
      · exact hi.runs r hr
      · rename_i hne
        simp at hr
        rcases hr with hr | hr
        · exact hi.runs r hr
        · subst hr; exact ⟨hrp, by simpa using hne⟩
    · unfold contents
      simp only [hs0, nil_append]
      split
      · rename_i he; simp at he; subst he
        have : b = [] := by simpa using hrperm.symm
        subst this; simp
      · simp; exact Perm.append_left _ hrperm
  | some last =>
    simp only []
    obtain ⟨m1, m2⟩ := moveLoop_spec (le := le) c last run []
    generalize (moveLoop le c last run []).1 = moved at m1 m2
    generalize (moveLoop le c last run []).2 = rest at m1
    simp only [nil_append] at m1
    subst m1
    rw [pairwise_append] at hrp
    obtain ⟨hpm, hpr, hmr⟩ := hrp
    have hmlast : ∀ x ∈ moved, cle le c x last := by
      intro x hx
      rcases m2 x hx with hx' | hx'
      · simp at hx'
      · exact cle_of_lt h c hx'
    have hslast := pairwise_getLast hi.sorted hl
    have hlast_mem : last ∈ s.sorted := by
      rw [getLast?_eq_some_iff] at hl; obtain ⟨ys, e⟩ := hl; rw [e]; simp
    have hne : s.sorted ≠ [] := by intro e; rw [e] at hlast_mem; simp at hlast_mem
    have hAp := sortVec_true_pairwise h c (s.sorted ++ moved)
    have hAperm := sortVec_perm (le := le) c true (s.sorted ++ moved)
    generalize sortVec le c true (s.sorted ++ moved) = A at hAp hAperm
    have hrest_runs : ∀ r ∈ (if rest.isEmpty then s.subs else s.subs ++ [rest]),
        (r.Pairwise (fun a b => cle le c a b) ∧ r ≠ []) := by
      intro r hr
      split at hr
      · exact hi.runs r hr
      · rename_i hne
        simp at hr
        rcases hr with hr | hr
        · exact hi.runs r hr
        · subst hr; exact ⟨hpr, by simpa using hne⟩
    have hflat : (if rest.isEmpty then s.subs else s.subs ++ [rest]).flatten = s.subs.flatten ++ rest := by
      split
      · rename_i he; simp at he; subst he; simp
      · simp
    have hperm_all : A ++ (s.subs.flatten ++ rest) ~ (s.sorted ++ s.subs.flatten) ++ b := by
      have : (s.sorted ++ s.subs.flatten) ++ b ~ (s.sorted ++ s.subs.flatten) ++ (moved ++ rest) :=
        Perm.append_left _ hrperm.symm
      refine Perm.trans ?_ this.symm
      refine (Perm.append_right _ hAperm).trans ?_
      simp only [append_assoc]
      apply Perm.append_left
      rw [← append_assoc, ← append_assoc]
      apply Perm.append_right
      exact perm_append_comm
    have hfalse : Inv le c { sorted := A, subs := if rest.isEmpty then s.subs else s.subs ++ [rest] } ∧
        (∀ z t, rest = z :: t → lt le c z last = false) →
        Inv le c { sorted := A, subs := if rest.isEmpty then s.subs else s.subs ++ [rest] } ∧
        contents { sorted := A, subs := if rest.isEmpty then s.subs else s.subs ++ [rest] } ~ contents s ++ b := by
      intro hh
      refine ⟨hh.1, ?_⟩
      unfold contents
      simp only [hflat]
      exact hperm_all
    have hInvFalse : (∀ z t, rest = z :: t → lt le c z last = false) →
        Inv le c { sorted := A, subs := if rest.isEmpty then s.subs else s.subs ++ [rest] } := by
      intro hd
      refine ⟨hAp, hrest_runs, ?_⟩
      intro x hx r hr y hy
      have hx' : x ∈ s.sorted ∨ x ∈ moved := by simpa using hAperm.mem_iff.mp hx
      have hxlast : cle le c x last := by
        rcases hx' with hx' | hx'
        · rcases hslast x hx' with e | e
          · subst e; exact cle_refl h c _
          · exact e
        · exact hmlast x hx'
      have hr' : r ∈ s.subs ∨ (r = rest ∧ rest ≠ []) := by
        split at hr
        · exact Or.inl hr
        · rename_i hne'
          simp at hr
          rcases hr with hr | hr
          · exact Or.inl hr
          · exact Or.inr ⟨hr, by simpa using hne'⟩
      rcases hr' with hr' | ⟨hr', hne'⟩
      · exact cle_trans h c hxlast (hi.cross last hlast_mem r hr' y hy)
      · subst hr'
        cases r with
        | nil => exact absurd rfl hne'
        | cons z t =>
          have hz : cle le c last z := cle_of_not_lt c (hd z t rfl)
          simp at hy
          rcases hy with hy | hy
          · subst hy; exact cle_trans h c hxlast hz
          · exact cle_trans h c (cle_trans h c hxlast hz) (rel_of_pairwise_cons hpr hy)
    cases hrest : rest with
    | nil =>
      rw [hrest] at hfalse hInvFalse
      simp only [head?_nil, Bool.false_eq_true, if_false]
      exact hfalse ⟨hInvFalse (by intro z t e; simp at e), by intro z t e; simp at e⟩
    | cons z t =>
      rw [hrest] at hfalse hInvFalse hrest_runs hflat hperm_all
      simp only [head?_cons]
      by_cases hd : lt le c z last = true
      case neg =>
        simp only [hd, if_false]
        have hz : ∀ z' t', z :: t = z' :: t' → lt le c z' last = false := by
          intro z' t' e; simp at e; rw [← e.1]; simpa using hd
        exact hfalse ⟨hInvFalse hz, hz⟩
      case pos =>
        simp only [hd, if_true]
        constructor
        · refine ⟨by simp, ?_, by simp⟩
          intro r hr
          simp only [mem_append, mem_singleton] at hr
          rcases hr with hr | hr
          · exact hrest_runs r hr
          · subst hr
            refine ⟨hAp, ?_⟩
            intro e
            have := hAperm.length_eq
            rw [e] at this
            simp at this
            exact hne (by apply eq_nil_of_length_eq_zero; omega)
        · unfold contents
          simp only [nil_append, flatten_append, hflat, flatten_cons, flatten_nil, append_nil]
          refine Perm.trans ?_ hperm_all
          exact perm_append_comm

end app

/-! ### reads -/

def ofOpt : Option α → Res α
  | some a => .some a
  | none => .none

/-- what a fully merged state lists, position by position -/
def listing (c : Cfg) (s : State α) : List α := if c.tac && c.nosort then s.sorted.reverse else s.sorted

section reads
variable {le : α → α → Bool} (c : Cfg)

theorem mergeTill_of_nil {s : State α} (hs : s.subs = []) (i : Nat) : mergeTill le c i s = s := by
  unfold mergeTill pending; rw [hs]; simp [mergeLoop]

theorem len_of_nil {s : State α} (hs : s.subs = []) : len s = s.sorted.length := by
  unfold len pending; rw [hs]; simp

theorem get_of_nil {s : State α} (hs : s.subs = []) (i : Nat) :
    get le c s i = (s, ofOpt ((listing c s)[i]?)) := by
  unfold get
  simp only [mergeTill_of_nil c hs, len_of_nil hs]
  split
  · rename_i hle
    have : (listing c s)[i]? = none := by
      unfold listing; split <;> simp <;> omega
    rw [this]; rfl
  · rename_i hlt
    have hlt' : i < s.sorted.length := by omega
    unfold listing
    by_cases hb : (c.tac && c.nosort) = true
    · simp only [hb, if_true]
      rw [getElem?_reverse hlt']
      have e : s.sorted.length - i - 1 = s.sorted.length - 1 - i := by omega
      rw [e]
      have : s.sorted.length - 1 - i < s.sorted.length := by omega
      rw [getElem?_eq_getElem this]
      rfl
    · simp only [hb, Bool.false_eq_true, if_false]
      rw [getElem?_eq_getElem hlt']
      rfl

theorem iterLoop_of_nil {s : State α} (hs : s.subs = []) (fuel i : Nat) (acc : List α)
    (hf : (listing c s).length - i < fuel) :
    iterLoop le c fuel i s acc = (s, ((listing c s).drop i).reverse ++ acc, false) := by
  induction fuel generalizing i acc with
  | zero => omega
  | succ fuel ih =>
    rw [iterLoop, get_of_nil c hs]
    cases hg : (listing c s)[i]? with
    | none =>
      simp only [ofOpt]
      have : (listing c s).length ≤ i := by simpa using hg
      rw [drop_eq_nil_of_le this]; simp
    | some a =>
      simp only [ofOpt]
      have hi : i < (listing c s).length := by
        rcases List.getElem?_eq_some_iff.mp hg with ⟨h1, _⟩; exact h1
      rw [ih (i + 1) (a :: acc) (by omega)]
      have : (listing c s).drop i = a :: (listing c s).drop (i + 1) := by
        rw [drop_eq_getElem_cons hi]
        congr 1
        rcases List.getElem?_eq_some_iff.mp hg with ⟨_, h2⟩; exact h2
      rw [this]; simp

theorem iter_of_nil {s : State α} (hs : (mergeTill le c (len s) s).subs = []) :
    iter le c s = (mergeTill le c (len s) s, listing c (mergeTill le c (len s) s), false) := by
  unfold iter
  simp only []
  rw [iterLoop_of_nil c hs _ 0 [] (by
    have : (listing c (mergeTill le c (len s) s)).length = len (mergeTill le c (len s) s) := by
      rw [len_of_nil hs]; unfold listing; split <;> simp
    omega)]
  simp

end reads

/-! ### reads in sorting mode, on keys -/

/-- the listing order on keys -/
def cleK (leK : K → K → Bool) (c : Cfg) (a b : K) : Bool := if c.tac then leK b a else leK a b

section keyed
variable {leK : K → K → Bool} (hk : KeyOrder leK) (key : α → K) (c : Cfg)

omit hk in
theorem cle_keyLe (a b : α) : cle (keyLe leK key) c a b = cleK leK c (key a) (key b) := by
  unfold cle cleK keyLe; rfl

include hk

theorem cleK_keyOrder : KeyOrder (cleK leK c) := by
  constructor
  · intro a b; unfold cleK; split
    · exact hk.total b a
    · exact hk.total a b
  · intro x y z; unfold cleK; split
    · intro h1 h2; exact hk.trans _ _ _ h2 h1
    · exact hk.trans _ _ _
  · intro a b; unfold cleK; split
    · intro h1 h2; exact hk.antisymm _ _ h2 h1
    · exact hk.antisymm _ _

theorem view_sort_spec (hn : c.nosort = false) (arr : List α) :
    view (keyLe leK key) c arr ~ arr ∧
    (view (keyLe leK key) c arr).Pairwise (fun a b => cle (keyLe leK key) c a b) := by
  have ht := cle_totalPre (hk.totalPre key) c
  unfold view
  simp only [hn, Bool.false_eq_true, if_false]
  exact ⟨mergeSort_perm _ _, pairwise_mergeSort ht.trans ht.total arr⟩

/-- two listings of the same arrivals in listing order show the same keys -/
theorem keys_unique_cle {l₁ l₂ : List α} (hp : l₁ ~ l₂)
    (h₁ : l₁.Pairwise (fun a b => cle (keyLe leK key) c a b))
    (h₂ : l₂.Pairwise (fun a b => cle (keyLe leK key) c a b)) : l₁.map key = l₂.map key := by
  apply keys_unique (cleK_keyOrder hk c) key hp
  · exact h₁.imp (fun {a b} hab => by rw [← cle_keyLe]; exact hab)
  · exact h₂.imp (fun {a b} hab => by rw [← cle_keyLe]; exact hab)

/-- the keys of the materialised prefix are a prefix of the keys of the sorted arrivals -/
theorem sorted_keys_prefix {s : State α} {arr : List α} (hn : c.nosort = false)
    (hi : Inv (keyLe leK key) c s) (hc : contents s ~ arr) :
    s.sorted.map key <+: (view (keyLe leK key) c arr).map key := by
  have ht := cle_totalPre (hk.totalPre key) c
  obtain ⟨vp, vs⟩ := view_sort_spec hk key c hn arr
  let L := s.sorted ++ (s.subs.flatten).mergeSort (cle (keyLe leK key) c)
  have hLp : L ~ view (keyLe leK key) c arr := by
    refine Perm.trans ?_ vp.symm
    refine Perm.trans ?_ hc
    exact Perm.append_left _ (mergeSort_perm _ _)
  have hLs : L.Pairwise (fun a b => cle (keyLe leK key) c a b) := by
    rw [pairwise_append]
    refine ⟨hi.sorted, pairwise_mergeSort ht.trans ht.total _, ?_⟩
    intro a ha b hb
    rw [mem_mergeSort, mem_flatten] at hb
    obtain ⟨r, hr, hbr⟩ := hb
    exact hi.cross a ha r hr b hbr
  have := keys_unique_cle hk key c hLp hLs vs
  rw [← this]
  show map key s.sorted <+: map key (s.sorted ++ _)
  rw [map_append]
  exact prefix_append _ _

/-- `get` in sorting mode -/
theorem get_sort (hn : c.nosort = false) {s : State α} {arr : List α}
    (hi : Inv (keyLe leK key) c s) (hc : contents s ~ arr) (i : Nat) :
    Inv (keyLe leK key) c (get (keyLe leK key) c s i).1 ∧ contents (get (keyLe leK key) c s i).1 ~ arr ∧
    (match (view (keyLe leK key) c arr)[i]? with
      | none => (get (keyLe leK key) c s i).2 = .none
      | some a => ∃ b, (get (keyLe leK key) c s i).2 = .some b ∧ key a = key b ∧ b ∈ arr) := by
  have ht := hk.totalPre key
  obtain ⟨m1, m2, m3, m4⟩ := mergeTill_spec ht c i s hi
  have hc' := m2.trans hc
  have hpre := sorted_keys_prefix hk key c hn m1 hc'
  obtain ⟨vp, vs⟩ := view_sort_spec hk key c hn arr
  have hlen : len (mergeTill (keyLe leK key) c i s) = arr.length := by rw [len_eq]; exact hc'.length_eq
  have hvlen : (view (keyLe leK key) c arr).length = arr.length := vp.length_eq
  unfold get
  generalize mergeTill (keyLe leK key) c i s = s1 at *
  simp only []
  split
  · rename_i hle
    refine ⟨m1, hc', ?_⟩
    have : (view (keyLe leK key) c arr)[i]? = none := by simp; omega
    rw [this]
  · rename_i hlt
    have hi' : i < s1.sorted.length := by
      rcases m4 with m4 | m4
      · exact m4
      · rw [len_of_nil m4] at hlen; rw [len_of_nil m4] at hlt; omega
    simp only [hn, Bool.and_false, Bool.false_eq_true, if_false]
    rw [getElem?_eq_getElem hi']
    simp only []
    refine ⟨m1, hc', ?_⟩
    have hiv : i < (view (keyLe leK key) c arr).length := by omega
    rw [getElem?_eq_getElem hiv]
    simp only []
    refine ⟨_, rfl, ?_, ?_⟩
    · have h1 : i < (s1.sorted.map key).length := by simpa using hi'
      have := hpre.getElem h1
      simp at this
      exact this.symm
    · apply hc'.mem_iff.mp
      unfold contents
      simp

/-- `iter` in sorting mode -/
theorem iter_sort (hn : c.nosort = false) {s : State α} {arr : List α}
    (hi : Inv (keyLe leK key) c s) (hc : contents s ~ arr) :
    Inv (keyLe leK key) c (iter (keyLe leK key) c s).1 ∧ contents (iter (keyLe leK key) c s).1 ~ arr ∧
    (iter (keyLe leK key) c s).2.2 = false ∧
    (iter (keyLe leK key) c s).2.1 ~ arr ∧
    (iter (keyLe leK key) c s).2.1.Pairwise (fun a b => cle (keyLe leK key) c a b) ∧
    (view (keyLe leK key) c arr).map key = (iter (keyLe leK key) c s).2.1.map key := by
  have ht := hk.totalPre key
  obtain ⟨m1, m2, m3, m4⟩ := mergeTill_spec ht c (len s) s hi
  have hc' := m2.trans hc
  obtain ⟨vp, vs⟩ := view_sort_spec hk key c hn arr
  have hnil : (mergeTill (keyLe leK key) c (len s) s).subs = [] := by
    rcases m4 with m4 | m4
    · have h1 : len (mergeTill (keyLe leK key) c (len s) s) = len s := by
        have e1 := len_eq (mergeTill (keyLe leK key) c (len s) s)
        have e2 := len_eq s
        have e3 := m2.length_eq
        omega
      unfold len at h1
      unfold len at m4
      omega
    · exact m4
  rw [iter_of_nil c hnil]
  generalize mergeTill (keyLe leK key) c (len s) s = s1 at *
  have hl : listing c s1 = s1.sorted := by unfold listing; simp [hn]
  have hcs : s1.sorted ~ arr := by
    have : contents s1 = s1.sorted := by unfold contents; rw [hnil]; simp
    rw [← this]; exact hc'
  simp only [hl]
  refine ⟨m1, hc', trivial, hcs, m1.sorted, ?_⟩
  exact keys_unique_cle hk key c (vp.trans hcs.symm) vs m1.sorted

end keyed

/-! ### simulation: model state vs. arrival list -/

/-- the model state represents the arrival list -/
def Sim (le : α → α → Bool) (c : Cfg) (s : State α) (arr : List α) : Prop :=
  if c.nosort then s.subs = [] ∧ s.sorted = arr else Inv le c s ∧ contents s ~ arr

/-- the property's requirement on one observed answer `o`, given the spec's answer and the arrivals -/
def OutOk (key : α → K) (c : Cfg) (arr : List α) : Out α → Out α → Prop
  | .unit, .unit => True
  | .len n, .len m => n = m
  | .got .none, .got .none => True
  | .got (.some a), .got (.some b) => if c.nosort then a = b else key a = key b ∧ b ∈ arr
  | .items l false, .items l' false => if c.nosort then l = l' else l.map key = l'.map key ∧ l' ~ arr
  | _, _ => False

def OutsOk (le : α → α → Bool) (key : α → K) (c : Cfg) : List α → List (Op α) → List (Out α) → Prop
  | _, [], [] => True
  | arr, op :: ops, o :: os =>
    OutOk key c arr (specStep le c arr op).2 o ∧ OutsOk le key c (specStep le c arr op).1 ops os
  | _, _, _ => False

theorem sim_empty (le : α → α → Bool) (c : Cfg) : Sim le c ({} : State α) [] := by
  unfold Sim; split
  · exact ⟨rfl, rfl⟩
  · exact ⟨⟨by simp, by simp, by simp⟩, by simp [contents]⟩

theorem specRun_fst (le : α → α → Bool) (c : Cfg) (arr : List α) (ops : List (Op α)) :
    (specRun le c arr ops).1 = arrivals arr ops := by
  induction ops generalizing arr with
  | nil => rfl
  | cons op ops ih => cases op <;> simp [specRun, specStep, arrivals, ih]

section sim
variable {leK : K → K → Bool} (hk : KeyOrder leK) (key : α → K) (c : Cfg)
include hk

theorem step_sim {s : State α} {arr : List α} (hs : Sim (keyLe leK key) c s arr) (op : Op α) :
    Sim (keyLe leK key) c (step (keyLe leK key) c s op).1 (specStep (keyLe leK key) c arr op).1 ∧
    OutOk key c arr (specStep (keyLe leK key) c arr op).2 (step (keyLe leK key) c s op).2 := by
  have ht := hk.totalPre key
  cases hn : c.nosort with
  | true =>
    unfold Sim at hs ⊢
    simp only [hn, if_true] at hs ⊢
    obtain ⟨h1, h2⟩ := hs
    have hlist : listing c s = view (keyLe leK key) c arr := by
      unfold listing view; simp only [hn, Bool.and_true, if_true, h2]
    cases op with
    | append b =>
      simp only [step, specStep, append, hn, if_true, OutOk]
      exact ⟨⟨h1, by rw [h2]⟩, trivial⟩
    | get i =>
      simp only [step, specStep, get_of_nil c h1, hlist]
      refine ⟨⟨h1, h2⟩, ?_⟩
      cases (view (keyLe leK key) c arr)[i]? with
      | none => simp [ofOpt, OutOk]
      | some a => simp [ofOpt, OutOk, hn]
    | len =>
      simp only [step, specStep, OutOk, len_of_nil h1, h2]
      exact ⟨⟨h1, trivial⟩, trivial⟩
    | iter =>
      have hm : mergeTill (keyLe leK key) c (len s) s = s := mergeTill_of_nil c h1 _
      have := iter_of_nil (le := keyLe leK key) c (s := s) (by rw [hm]; exact h1)
      simp only [step, specStep, this, hm, hlist, OutOk, hn, if_true]
      exact ⟨⟨h1, h2⟩, trivial⟩
    | clear =>
      simp only [step, specStep, OutOk]
      simp
  | false =>
    unfold Sim at hs ⊢
    simp only [hn, Bool.false_eq_true, if_false] at hs ⊢
    obtain ⟨hi, hc⟩ := hs
    cases op with
    | append b =>
      simp only [step, specStep, OutOk]
      obtain ⟨a1, a2⟩ := append_spec ht c hn s hi b
      exact ⟨⟨a1, a2.trans (Perm.append_right _ hc)⟩, trivial⟩
    | get i =>
      simp only [step, specStep]
      obtain ⟨g1, g2, g3⟩ := get_sort hk key c hn hi hc i
      refine ⟨⟨g1, g2⟩, ?_⟩
      cases hv : (view (keyLe leK key) c arr)[i]? with
      | none =>
        rw [hv] at g3; simp only [] at g3
        rw [g3]; simp [OutOk]
      | some a =>
        rw [hv] at g3; simp only [] at g3
        obtain ⟨b, e, hkab, hb⟩ := g3
        rw [e]; simp [OutOk, hn, hkab, hb]
    | len =>
      simp only [step, specStep, OutOk]
      refine ⟨⟨hi, hc⟩, ?_⟩
      rw [len_eq]; exact hc.length_eq.symm
    | iter =>
      simp only [step, specStep]
      obtain ⟨i1, i2, i3, i4, i5, i6⟩ := iter_sort hk key c hn hi hc
      refine ⟨⟨i1, i2⟩, ?_⟩
      rw [i3]
      simp only [OutOk, hn, Bool.false_eq_true, if_false]
      exact ⟨i6, i4⟩
    | clear =>
      simp only [step, specStep, OutOk]
      exact ⟨⟨⟨by simp, by simp, by simp⟩, by simp [contents]⟩, trivial⟩

theorem run_sim {s : State α} {arr : List α} (hs : Sim (keyLe leK key) c s arr) (ops : List (Op α)) :
    Sim (keyLe leK key) c (run (keyLe leK key) c s ops).1 (arrivals arr ops) ∧
    OutsOk (keyLe leK key) key c arr ops (run (keyLe leK key) c s ops).2 := by
  induction ops generalizing s arr with
  | nil => exact ⟨hs, trivial⟩
  | cons op ops ih =>
    obtain ⟨h1, h2⟩ := step_sim hk key c hs op
    obtain ⟨h3, h4⟩ := ih h1
    simp only [run, OutsOk]
    refine ⟨?_, h2, h4⟩
    have : arrivals arr (op :: ops) = arrivals (specStep (keyLe leK key) c arr op).1 ops := by
      cases op <;> simp [arrivals, specStep]
    rw [this]; exact h3

end sim

/-! ### the executable acceptance test decides `OutOk` -/

section acc
variable [DecidableEq α] [DecidableEq K] (key : α → K) (tot : α → α → Bool) (c : Cfg)

theorem permCheck_sound {l l' : List α} (h : permCheck tot l l' = true) : l ~ l' := by
  unfold permCheck at h
  have e : l.mergeSort tot = l'.mergeSort tot := by simpa using h
  exact (mergeSort_perm l tot).symm.trans (e ▸ mergeSort_perm l' tot)

theorem permCheck_complete (ht : KeyOrder tot) {l l' : List α} (h : l ~ l') : permCheck tot l l' = true := by
  unfold permCheck
  simp only [decide_eq_true_eq]
  apply Perm.eq_of_pairwise (le := fun a b => tot a b = true)
  · intro a b _ _ h1 h2; exact ht.antisymm a b h1 h2
  · exact pairwise_mergeSort ht.trans ht.total l
  · exact pairwise_mergeSort ht.trans ht.total l'
  · exact (mergeSort_perm l tot).trans (h.trans (mergeSort_perm l' tot).symm)

theorem accepts_sound (arr : List α) (sp o : Out α) (h : accepts key tot c arr sp o = true) :
    OutOk key c arr sp o := by
  unfold accepts at h
  unfold OutOk
  split at h <;> simp_all
  · split at h <;> simp_all
    exact permCheck_sound tot h.2

theorem accepts_complete (ht : KeyOrder tot) (arr : List α) (sp o : Out α) (h : OutOk key c arr sp o) :
    accepts key tot c arr sp o = true := by
  unfold OutOk at h
  unfold accepts
  split at h <;> simp_all
  · split at h <;> simp_all
    exact permCheck_complete tot ht h.2

theorem acceptsAll_complete (le : α → α → Bool) (ht : KeyOrder tot) (arr : List α) (ops : List (Op α))
    (os : List (Out α)) (h : OutsOk le key c arr ops os) : acceptsAll le key tot c arr ops os = true := by
  induction ops generalizing arr os with
  | nil => cases os <;> simp_all [OutsOk, acceptsAll]
  | cons op ops ih =>
    cases os with
    | nil => simp [OutsOk] at h
    | cons o os =>
      simp only [OutsOk] at h
      simp only [acceptsAll, Bool.and_eq_true]
      exact ⟨accepts_complete key tot c ht _ _ _ h.1, ih _ _ h.2⟩

theorem acceptsAll_sound (le : α → α → Bool) (arr : List α) (ops : List (Op α))
    (os : List (Out α)) (h : acceptsAll le key tot c arr ops os = true) : OutsOk le key c arr ops os := by
  induction ops generalizing arr os with
  | nil => cases os <;> simp_all [OutsOk, acceptsAll]
  | cons op ops ih =>
    cases os with
    | nil => simp [acceptsAll] at h
    | cons o os =>
      simp only [acceptsAll, Bool.and_eq_true] at h
      simp only [OutsOk]
      exact ⟨accepts_sound key tot c _ _ _ h.1, ih _ _ h.2⟩

end acc

end SkimModel.OrderedVec
