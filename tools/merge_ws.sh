#!/bin/sh
# usage: tools/merge_ws.sh <name>  -- copy files that exist only in the workspace into /verif (never overwrites)
W=/tmp/w/$1/verif
cd "$W" || exit 1
find . -type f \( -path ./harness/target -o -path ./lean/.lake -o -path ./.git -o -path ./replay -o -path ./evidence -o -path ./lean/.audit \) -prune -o -type f -print \
 | grep -v "/target/\|/target-sk/\|/.lake/\|/.audit/\|__pycache__\|^./replay/\|^./evidence/\|/.lock-" | while read f; do
  if [ ! -e "/verif/$f" ]; then mkdir -p "/verif/$(dirname "$f")"; cp "$f" "/verif/$f"; echo "added $f"; fi
done
