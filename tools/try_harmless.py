#!/usr/bin/env python3
"""usage: tools/try_harmless.py <Cxx> <variant>
A behaviour-preserving rewrite from /tmp/seed/<Cxx>/out/<variant>/: confirm it builds and passes the baseline tests, apply it to /repo,
run the quick check of EVERY property anchored in a file the patch touches, revert, and store it under /verif/seeded-harmless/.
Every alarm here is an alarm on code where the property holds."""
import json, os, re, shutil, subprocess, sys, time
pid, var = sys.argv[1], sys.argv[2]
src = "/tmp/seed/%s/out/%s" % (pid, var)
wt = "/tmp/seed/%s/repo" % pid
patch = os.path.join(src, "patch.diff")
def sh(cmd, cwd=None, timeout=3600):
    p = subprocess.run(cmd, cwd=cwd, shell=isinstance(cmd, str), stdout=subprocess.PIPE, stderr=subprocess.STDOUT, text=True, timeout=timeout)
    return p.returncode, p.stdout
files = re.findall(r"^\+\+\+ b/(\S+)", open(patch).read(), re.M)
props = []
for l in open("/verif/properties.jsonl"):
    p = json.loads(l)
    if any(f in p["anchors"]["files"] for f in files):
        props.append(p["id"])
if pid not in props:
    props.append(pid)
res = {"property": pid, "variant": var, "files": files, "checks_run": props}
sh("git checkout -- . && git clean -fdq", cwd=wt)
rc, out = sh(["git", "apply", "--check", patch], cwd=wt)
if rc != 0:
    print("patch does not apply:", out); sys.exit(2)
sh(["git", "apply", patch], cwd=wt)
rc, out = sh("cargo build --offline --features verif 2>&1 | tail -3 && cargo test --offline 2>&1 | grep 'test result' ", cwd=wt)
res["existing_tests_pass"] = "37 passed; 0 failed" in out
sh("git checkout -- . && git clean -fdq", cwd=wt)
rc, out = sh(["git", "-C", "/repo", "status", "--porcelain", "--untracked-files=no"])
if out.strip():
    print("/repo is dirty, refusing"); sys.exit(2)
rc, out = sh(["git", "-C", "/repo", "apply", patch])
if rc != 0:
    print("patch does not apply to /repo:", out); sys.exit(2)
saved = {}
for c in props:
    ef = "/verif/evidence/%s.json" % c
    saved[ef] = open(ef).read() if os.path.exists(ef) else None
res["alarms"] = {}
try:
    for c in props:
        rc, out = sh(["./check", c], cwd="/verif", timeout=1500)
        if rc != 0:
            lines = [l for l in out.split("\n") if l.startswith("VIOLATION")]
            info = dict(lines=[l[:200] for l in lines[:3]])
            try:
                d = json.load(open(lines[0].split("replay=")[1].split()[0]))
                info.update(kind=d.get("kind"), verdict=str(d.get("spec_verdict"))[:200], what=str(d.get("theorem_or_stream"))[:200],
                            detail=str(d.get("detail"))[-600:], case=str(d.get("case"))[:200])
            except Exception:
                pass
            res["alarms"][c] = info
finally:
    sh(["git", "-C", "/repo", "checkout", "--", "."])
    sh(["git", "-C", "/repo", "clean", "-fdq"])
    for ef, txt in saved.items():
        if txt is not None:
            open(ef, "w").write(txt)
dst = "/verif/seeded-harmless/%s-%s" % (pid, var)
os.makedirs(dst, exist_ok=True)
for f in os.listdir(src):
    if os.path.isfile(os.path.join(src, f)) and os.path.getsize(os.path.join(src, f)) < 200000:
        shutil.copy(os.path.join(src, f), os.path.join(dst, f))
meta = {}
try:
    meta = json.load(open(os.path.join(src, "meta.json")))
except Exception:
    pass
meta["verif_outcome"] = res
json.dump(meta, open(os.path.join(dst, "meta.json"), "w"), indent=1, ensure_ascii=False)
print(json.dumps(res, indent=1, ensure_ascii=False)[:2500])
