#!/bin/sh
# usage: tools/confirm_demo_rs.sh <Cxx> <variant> <demo file> <target: src/x.rs (append) | tests/x.rs | examples/x.rs (copy)> <cargo test args...>
p=$1; v=$2; demo=$3; target=$4; shift 4
wt=/tmp/seed/$p/repo; out=/tmp/seed/$p/out/$v
cd $wt || exit 2
run() {
  case $target in
    src/*) cat $out/$demo >> $target ;;
    *) mkdir -p $(dirname $target); cp $out/$demo $target ;;
  esac
  cargo test --offline "$@" 2>&1 | grep -E '^test result|^test .*(FAILED|ok)$|error' | head -12
}
git checkout -q -- . && git clean -fdq
git apply $out/patch.diff || exit 2
echo "== with change"; run "$@"
git checkout -q -- . && git clean -fdq
echo "== without change"; run "$@"
git checkout -q -- . && git clean -fdq
