#!/usr/bin/env python3
"""Regenerate the seeded-changes table (DESIGN.md §9) from seeded/*/meta.json."""
import json, os, re
root = "/verif/seeded"
rows = []
for d in sorted(os.listdir(root)):
    p = os.path.join(root, d, "meta.json")
    if not os.path.exists(p):
        continue
    m = json.load(open(p))
    vo = m.get("verif_outcome", {})
    what = re.sub(r"\s+", " ", str(m.get("what_breaks", "")))[:170]
    needs = re.sub(r"\s+", " ", str(m.get("needs_to_manifest", "")))[:150]
    hist = m.get("verif_history", [])
    caught = []
    for c, v in vo.get("checks", {}).items():
        fr = v.get("first_replay", {})
        caught.append("%s: %s%s" % (c, "VIOLATION" if v.get("exit") else "missed", (" (" + str(fr.get("kind")) + (", " + str(fr.get("verdict"))[:60] if fr.get("verdict") not in (None, "None") else "") + ")") if v.get("exit") else ""))
    rows.append("| %s | %s | %s | %s | %s |" % (d, what.replace("|", "/"), needs.replace("|", "/"), "; ".join(caught).replace("|", "/"), "; ".join(hist).replace("|", "/")))
table = "\n".join(["| seed | what it breaks | needs to manifest | outcome of the checks (final) | history |", "|---|---|---|---|---|"] + rows)
p = "/verif/DESIGN.md"
s = open(p).read()
marker = "## 9. Seeded changes: which check catches which"
tail = ""
if marker in s:
    rest = s[s.index(marker):]
    s = s[:s.index(marker)]
    if "\n## 10." in rest:
        tail = rest[rest.index("\n## 10."):]          # later sections are kept
s = s.rstrip() + "\n\n" + marker + "\n\nEach seed was written by a fresh sub-agent that saw only the property text and its own scratch worktree; each was confirmed\n(builds, the 37 tests pass with it, its demonstration fails with it and passes without) before the checks were run against it\n(`tools/try_seed.py`). `history` records checks that missed a seed at first and what was strengthened.\n\n" + table + "\n" + tail
open(p, "w").write(s)
print(len(rows), "seeds")
