#!/usr/bin/env python3
"""usage: tools/try_seed.py <Cxx> <variant> [check-id ...]
Confirm a seeded change in its scratch worktree (builds, existing tests pass, demo fails with / passes without when a
run_demo.sh exists), then apply it to /repo, run the named checks (default: the property's own), revert /repo, and store
the change under /verif/seeded/<Cxx>-<variant>/ with the outcome."""
import json, os, shutil, subprocess, sys, time
pid, var = sys.argv[1], sys.argv[2]
checks = sys.argv[3:] or [pid]
src = "/tmp/seed/%s/out/%s" % (pid, var)
wt = "/tmp/seed/%s/repo" % pid
patch = os.path.join(src, "patch.diff")
def sh(cmd, cwd=None, timeout=3600):
    p = subprocess.run(cmd, cwd=cwd, shell=isinstance(cmd, str), stdout=subprocess.PIPE, stderr=subprocess.STDOUT, text=True, timeout=timeout)
    return p.returncode, p.stdout
res = {"property": pid, "variant": var}
# 1. confirm in the scratch worktree
sh("git checkout -- . && git clean -fdq", cwd=wt)
rc, out = sh(["git", "apply", "--check", patch], cwd=wt)
res["applies"] = rc == 0
if rc != 0:
    print("patch does not apply:", out); sys.exit(2)
sh(["git", "apply", patch], cwd=wt)
rc, out = sh("cargo build --offline --features verif 2>&1 | tail -3 && cargo test --offline 2>&1 | grep 'test result' ", cwd=wt)
res["tests_with_change"] = out.strip().split("\n")[-3:]
ok_tests = "37 passed; 0 failed" in out
res["existing_tests_pass"] = ok_tests
sh("git checkout -- . && git clean -fdq", cwd=wt)
demo = os.path.join(src, "run_demo.sh")
if os.path.exists(demo):
    rc1, o1 = sh("sh %s with 2>&1 | tail -15" % demo, cwd=src, timeout=1800)
    rc2, o2 = sh("sh %s without 2>&1 | tail -15" % demo, cwd=src, timeout=1800)
    res["demo_with"] = o1[-600:]
    res["demo_without"] = o2[-600:]
    sh("git checkout -- . && git clean -fdq", cwd=wt)
# 2. run the checks against /repo with the change applied
rc, out = sh(["git", "-C", "/repo", "status", "--porcelain", "--untracked-files=no"])
if out.strip():
    print("/repo is dirty, refusing"); sys.exit(2)
rc, out = sh(["git", "-C", "/repo", "apply", patch])
if rc != 0:
    print("patch does not apply to /repo:", out); sys.exit(2)
res["checks"] = {}
# the evidence files describe runs on /repo as it is; a run against a seeded change must not leave its record behind
saved = {}
for c in checks:
    ef = "/verif/evidence/%s.json" % c
    saved[ef] = open(ef).read() if os.path.exists(ef) else None
try:
    for c in checks:
        t0 = time.time()
        rc, out = sh(["./check", c], cwd="/verif", timeout=1500)
        lines = [l for l in out.split("\n") if l.startswith("VIOLATION") or l.startswith("KNOWN-FINDING") or " tier=" in l]
        res["checks"][c] = dict(exit=rc, wall=round(time.time() - t0, 1), lines=[l[:300] for l in lines[:6]])
        # keep one replay summary
        for l in lines:
            if l.startswith("VIOLATION"):
                rp = l.split("replay=")[1].split()[0]
                try:
                    d = json.load(open(rp))
                    res["checks"][c]["first_replay"] = dict(kind=d.get("kind"), case=str(d.get("case"))[:300], verdict=str(d.get("spec_verdict"))[:200],
                                                            theorem_or_stream=str(d.get("theorem_or_stream"))[:200])
                except Exception:
                    pass
                break
finally:
    sh(["git", "-C", "/repo", "checkout", "--", "."])
    sh(["git", "-C", "/repo", "clean", "-fdq"])
    for ef, txt in saved.items():
        if txt is not None:
            open(ef, "w").write(txt)
res["caught"] = any(v["exit"] != 0 for v in res["checks"].values())
# 3. store
dst = "/verif/seeded/%s-%s" % (pid, var)
os.makedirs(dst, exist_ok=True)
for f in os.listdir(src):
    if os.path.isfile(os.path.join(src, f)) and os.path.getsize(os.path.join(src, f)) < 200000:
        shutil.copy(os.path.join(src, f), os.path.join(dst, f))
meta = {}
try:
    meta = json.load(open(os.path.join(src, "meta.json")))
except Exception:
    pass
meta["verif_outcome"] = res
json.dump(meta, open(os.path.join(dst, "meta.json"), "w"), indent=1, ensure_ascii=False)
print(json.dumps(res, indent=1, ensure_ascii=False)[:3000])
