#!/bin/sh
# run every registered check once on the current tree (tier from $1, default quick); one summary line per property
tier=${1:-quick}
cd "$(dirname "$0")/.."
rc=0
for i in 01 02 03 04 05 06 07 08 09 10 11 12 13 14 15 16 17 18 19 20; do
  out=$(./check C$i --tier $tier 2>&1); r=$?
  echo "$out" | grep -E "^VIOLATION|^C$i tier" | cut -c1-220
  [ $r -ne 0 ] && rc=1
done
exit $rc
