#!/bin/sh
# usage: tools/confirm_demo_sh.sh <Cxx> <variant>   — for demos that are shell scripts driving the release `sk` of the scratch worktree
p=$1; v=$2; wt=/tmp/seed/$p/repo; out=/tmp/seed/$p/out/$v
cd $wt || exit 2
git checkout -q -- . && git clean -fdq
git apply $out/patch.diff || exit 2
cargo build --release --offline -q 2>&1 | tail -2
bash $out/demo.sh >/tmp/seed/$p/demo_with_$v.log 2>&1; w=$?
git checkout -q -- . && git clean -fdq
cargo build --release --offline -q 2>&1 | tail -2
bash $out/demo.sh >/tmp/seed/$p/demo_without_$v.log 2>&1; wo=$?
echo "$p-$v demo exit with-change=$w without-change=$wo"
