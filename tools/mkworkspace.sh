#!/bin/sh
# usage: tools/mkworkspace.sh <name>   -> isolated copy of /verif and a worktree of /repo under /tmp/w/<name>
set -e
N="$1"; W=/tmp/w/$N
rm -rf "$W"; mkdir -p "$W/out"
git -C /repo worktree prune
git -C /repo worktree add --detach "$W/repo" HEAD >/dev/null 2>&1
rsync -a --exclude harness/target --exclude .git /verif/ "$W/verif/"
sed -i "s#path = \"/repo\"#path = \"$W/repo\"#" "$W/verif/harness/Cargo.toml"
echo "export VERIF_REPO=$W/repo" > "$W/env.sh"
echo "$W"
