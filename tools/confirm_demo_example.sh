#!/bin/sh
# usage: tools/confirm_demo_example.sh <Cxx> <variant> <demo file> <example name> [cargo run args...]   -- demos that are example programs (exit 0 = property holds)
p=$1; v=$2; demo=$3; ex=$4; shift 4
wt=/tmp/seed/$p/repo; out=/tmp/seed/$p/out/$v
cd $wt || exit 2
run() { mkdir -p examples; cp $out/$demo examples/$ex.rs; cargo run --offline "$@" --example $ex >/tmp/seed/$p/ex_$v.log 2>&1; echo "exit=$? $(tail -1 /tmp/seed/$p/ex_$v.log | cut -c1-150)"; }
git checkout -q -- . && git clean -fdq
git apply $out/patch.diff || exit 2
echo "== with change: $(run "$@")"
git checkout -q -- . && git clean -fdq
echo "== without change: $(run "$@")"
git checkout -q -- . && git clean -fdq
