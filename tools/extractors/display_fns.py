"""src/lib.rs `From<DisplayContext> for AnsiString`, src/ansi.rs `From<(&str, &[usize], Attr)>` and src/helper/item.rs
`DefaultSkimItem::display`: the highlight fragments (char ranges) built from the reported match, TRANSLATED into tables (the offsets
added to a matched char index, the two slices counted for a byte range and whether the second count is added to the first, what
`Matches::None` yields).  Props/DisplayFnsTables.lean proves both sites compute the C08 model's `Positions.fragments`."""
import os, re, sys
sys.path.insert(0, os.path.dirname(os.path.abspath(__file__)))
import _rustfn as R

NAME = "DisplayFns"

BOUND = {"": ".open", "start": ".start", "end": ".stop"}


def norm(b):
    b = re.sub(r"//[^\n]*", "", b)
    b = re.sub(r"\s+", " ", b).strip()
    return re.sub(r" ?\. ?", ".", b)


def off(e, what):
    e = e.strip()
    if e == "idx as u32":
        return 0
    m = re.fullmatch(r"(\d+) \+ idx as u32|idx as u32 \+ (\d+)", e)
    if not m:
        raise R.Unsupported(what + ": fragment bound not understood: " + e)
    return int(m.group(1) or m.group(2))


def byte_arm(b, what):
    m = re.search(r"Matches::ByteRange\(start, end\) => \{ let ch_start = context\.text\[(\w*)\.\.(\w*)\]\.chars\(\)\.count\(\); "
                  r"let ch_end = (ch_start \+ )?context\.text\[(\w*)\.\.(\w*)\]\.chars\(\)\.count\(\); "
                  r"(?:AnsiString::new_str\( ?context\.text, )?vec!\[\(context\.highlight_attr, \(ch_start as u32, ch_end as u32\)\)\],? ?\)? \}", b)
    if not m or any(x not in BOUND for x in m.group(1, 2, 4, 5)):
        raise R.Unsupported(what + ": the ByteRange arm is not understood")
    return ("(%s, %s)" % (BOUND[m.group(1)], BOUND[m.group(2)]), "(%s, %s)" % (BOUND[m.group(4)], BOUND[m.group(5)]),
            "true" if m.group(3) else "false")


def extract(repo):
    lib = norm(open(os.path.join(repo, "src", "lib.rs")).read())
    ansi = norm(open(os.path.join(repo, "src", "ansi.rs")).read())
    item = norm(R.fn_body(open(os.path.join(repo, "src", "helper", "item.rs")).read(), "display")[0])
    # site 1: From<DisplayContext> (+ the char-index constructor it delegates to)
    i = lib.find("impl<'a> From<DisplayContext<'a>> for AnsiString<'a>")
    j = lib.find("pub struct PreviewContext", i)
    if i < 0 or j < 0:
        raise R.Unsupported("lib.rs: From<DisplayContext> not found")
    b = lib[i:j]
    if "Matches::CharIndices(indices) => AnsiString::from((context.text, indices, context.highlight_attr))," not in b:
        raise R.Unsupported("From<DisplayContext>: the CharIndices arm does not delegate to From<(&str, &[usize], Attr)>")
    m = re.search(r"fn from\(\(text, indices, attr\): \(&'a str, &'a \[usize\], Attr\)\) -> Self \{ let fragments = indices\.iter\(\)"
                  r"\.map\(\|&idx\| \(attr, \(([^,]*), ([^)]*)\)\)\)\.collect\(\); AnsiString::new_str\(text, fragments\) \}", ansi)
    if not m:
        raise R.Unsupported("ansi.rs: From<(&str, &[usize], Attr)> not understood")
    lo1, hi1 = off(m.group(1), "From<(&str,&[usize],Attr)>"), off(m.group(2), "From<(&str,&[usize],Attr)>")
    s1 = byte_arm(b, "From<DisplayContext>")
    if "Matches::None => AnsiString::new_str(context.text, vec![])," not in b:
        raise R.Unsupported("From<DisplayContext>: the None arm is not an empty fragment list")
    if "Matches::CharRange(start, end) => { AnsiString::new_str(context.text, vec![(context.highlight_attr, (start as u32, end as u32))]) }" not in b:
        raise R.Unsupported("From<DisplayContext>: the CharRange arm is not understood")
    # site 2: DefaultSkimItem::display
    m = re.search(r"Matches::CharIndices\(indices\) => indices\.iter\(\)\.map\(\|&idx\| \(context\.highlight_attr, \(([^,]*), ([^)]*)\)\)\)\.collect\(\),", item)
    if not m:
        raise R.Unsupported("DefaultSkimItem::display: the CharIndices arm is not understood")
    lo2, hi2 = off(m.group(1), "display"), off(m.group(2), "display")
    s2 = byte_arm(item, "DefaultSkimItem::display")
    if "Matches::None => vec![]," not in item or \
            "Matches::CharRange(start, end) => vec![(context.highlight_attr, (start as u32, end as u32))]," not in item:
        raise R.Unsupported("DefaultSkimItem::display: the None / CharRange arms are not understood")
    if not item.endswith("let mut ret = self.text.clone(); ret.override_attrs(new_fragments); ret"):
        raise R.Unsupported("DefaultSkimItem::display: the fragments are not handed to override_attrs")

    def site(name, lo, hi, s):
        return "def %s : Site := { idxLo := %d, idxHi := %d, startSlice := %s, endSlice := %s, endAddsStart := %s }" % (name, lo, hi, s[0], s[1], s[2])
    out = ["set_option linter.unusedVariables false", "namespace SkimModel.Generated.DisplayFns", "",
           "inductive Bound | open | start | stop", "  deriving DecidableEq, Repr", "",
           "/-- a matched char index `idx` becomes the fragment `(idx + idxLo, idx + idxHi)`; a byte range `(start, end)` becomes",
           "    `(chars of text[a..b], [that +] chars of text[c..d])`; `Matches::None` yields no fragment (checked by the translator) -/",
           "structure Site where", "  idxLo : Nat", "  idxHi : Nat", "  startSlice : Bound × Bound", "  endSlice : Bound × Bound",
           "  endAddsStart : Bool", "  deriving DecidableEq, Repr", "",
           "/-- `From<DisplayContext> for AnsiString` (src/lib.rs) with `From<(&str, &[usize], Attr)>` (src/ansi.rs) -/",
           site("fromContext", lo1, hi1, s1), "",
           "/-- `DefaultSkimItem::display` (src/helper/item.rs) -/", site("displayItem", lo2, hi2, s2), "",
           ]
    # AnsiStringIterator::next: which characters carry the current fragment's attribute
    i = ansi.find("impl<'a> Iterator for AnsiStringIterator<'a>")
    nb = norm(R.fn_body(open(os.path.join(repo, "src", "ansi.rs")).read()[open(os.path.join(repo, "src", "ansi.rs")).read().find("impl<'a> Iterator for AnsiStringIterator<'a>"):], "next")[0]) if i >= 0 else ""
    m = re.fullmatch(r"match self\.chars_iter\.next\(\) \{ Some\(\(char_idx, char\)\) => \{ "
                     r"loop \{ if self\.fragment_idx >= self\.fragments\.len\(\) \{ break; \} "
                     r"let \(_attr, \(_start, end\)\) = self\.fragments\[self\.fragment_idx\]; "
                     r"if ([^{]*?) \{ break; \} else \{ self\.fragment_idx \+= 1; \} \} "
                     r"let \(attr, \(start, end\)\) = if self\.fragment_idx >= self\.fragments\.len\(\) \{ "
                     r"\(Attr::default\(\), \(char_idx as u32, 1 \+ char_idx as u32\)\) \} else \{ self\.fragments\[self\.fragment_idx\] \}; "
                     r"if ([^{]*?) \{ Some\(\(char, attr\)\) \} else \{ Some\(\(char, Attr::default\(\)\)\) \} \} None => None, \}", nb)
    if not m:
        raise R.Unsupported("AnsiStringIterator::next: not `skip fragments that ended; pick the current one or a default; attr iff inside`")
    L = {"char_idx": "Nat", "start": "Nat", "end": "Nat"}
    stays = R.translate(m.group(1), {}, locals_=L)
    hit = R.translate(m.group(2), {}, locals_=L)
    out += ["/-- `AnsiStringIterator::next`: the fragment at `fragment_idx` stays the current one (the skipping loop breaks) -/",
            "def iterStays (char_idx start end_v : Nat) : Bool :=", "  decide %s" % stays[0], "",
            "/-- ... and the character carries its attribute -/",
            "def iterHit (char_idx start end_v : Nat) : Bool :=", "  decide %s" % hit[0], "",
            "end SkimModel.Generated.DisplayFns", ""]
    return "\n".join(out)


if __name__ == "__main__":
    print(extract(sys.argv[1] if len(sys.argv) > 1 else "/repo"))
