"""src/engine/{all,exact,regexp,fuzzy}.rs: what each leaf engine hands to `RankBuilder::build_rank(score, begin, end, length)` and
which `MatchRange` it reports next to it, TRANSLATED into a table of sources (zero / the byte span's begin, end, width / the first and
last matched character index / the matcher's score / the byte length of the item text).  Props/RankFeedTables.lean proves that the
tuple built from this table has, as begin and end, the `rankKeys` of the reported range (the C08 model) and the span width resp. the
matcher's score as score — the third mechanism of property C13, which was covered by the engine stream only."""
import os, re, sys
sys.path.insert(0, os.path.dirname(os.path.abspath(__file__)))
import _rustfn as R

NAME = "RankFeed"


def norm(b):
    b = re.sub(r"//[^\n]*", "", b)
    return re.sub(r"\s+", " ", b).strip()


def let_of(body, name, what):
    """the binding in scope at the call: the last `let name = ..;` before it (an earlier one inside a loop body is shadowed)"""
    m = re.findall(r"let %s = ([^;]*);" % re.escape(name), body[:body.find("rank: self.rank_builder.build_rank(")])
    if not m:
        raise R.Unsupported("%s: no `let %s = ..;` before the call" % (what, name))
    return m[-1]


def one_engine(repo, fname, what):
    src = norm(R.fn_body(open(os.path.join(repo, "src", "engine", fname)).read(), "match_item")[0])
    m = re.findall(r"rank: self\.rank_builder\.build_rank\(([^()]*(?:\([^()]*\))?[^()]*)\), matched_range: MatchRange::(\w+)\(([^)]*)\),? \}", src)
    if len(m) != 1:
        raise R.Unsupported("%s: expected exactly one `MatchResult { rank: ..build_rank(..), matched_range: .. }`" % what)
    args = [a.strip() for a in m[0][0].split(",")]
    if len(args) != 4:
        raise R.Unsupported("%s: build_rank takes %d arguments" % (what, len(args)))
    kind, rargs = m[0][1], [a.strip() for a in m[0][2].split(",")]
    DES = "let (begin, end) = matched_result?;"
    span = DES in src
    if span:
        # nothing may rebind or assign `begin` / `end` / `score` between the destructuring and the call, or the names read below lie
        seg = src[src.index(DES) + len(DES):src.index("rank: self.rank_builder.build_rank(")]
        seg = seg.replace("let score = (end - begin) as i32;", "", 1)
        if re.search(r"\b(begin|end|score)\b\s*(?:[-+*/]?=)(?!=)", seg) or re.search(r"let (?:mut )?\(?\s*(?:begin|end|score)\b", seg):
            raise R.Unsupported("%s: `begin` / `end` / `score` is rebound between `matched_result?` and the call" % what)

    def key(a, which):
        """an argument in a key position, resolved by its own name (so that swapped arguments are READ as swapped)"""
        if a == "0":
            return ".zero"
        if a == "item_len":
            return ".textLen"
        if a in ("begin", "end") and span:
            return ".spanBegin" if a == "begin" else ".spanEnd"
        if a in ("begin", "end"):
            d = let_of(src, a, what)
            if d == "*matched_range.first().unwrap_or(&0)":
                return ".firstIdx"
            if d == "*matched_range.last().unwrap_or(&0)":
                return ".lastIdx"
        raise R.Unsupported("%s: the `%s` handed to build_rank is not understood: %s" % (what, which, a))
    if args[0] == "0":
        score = ".zero"
    elif args[0] == "score" and let_of(src, "score", what) == "(end - begin) as i32" and span:
        score = ".spanWidth"
    elif args[0] == "score as i32" and "let (score, matched_range) = matched_result.unwrap();" in src:
        D2 = "let (score, matched_range) = matched_result.unwrap();"
        seg = src[src.index(D2) + len(D2):src.index("rank: self.rank_builder.build_rank(")]
        if re.search(r"\b(score|matched_range)\b\s*(?:[-+*/]?=)(?!=)", seg) or re.search(r"let (?:mut )?\(?\s*(?:score|matched_range)\b", seg) \
                or re.search(r"matched_range\.(?!first\(\)|last\(\))\w+\(", seg):
            raise R.Unsupported("%s: `score` / `matched_range` is rebound or modified between `matched_result.unwrap()` and the call" % what)
        score = ".matcher"
    else:
        raise R.Unsupported("%s: the score handed to build_rank is not understood: %s" % (what, args[0]))
    if not (args[3] == "item_len" and let_of(src, "item_len", what) in ("item_text.len()", "item.text().len()")):
        raise R.Unsupported("%s: the length handed to build_rank is not the byte length of the item text" % what)
    if kind == "ByteRange" and rargs == ["0", "0"]:
        rng = ".empty"
    elif kind == "ByteRange" and rargs == ["begin", "end"] and span:
        rng = ".span"
    elif kind == "Chars" and rargs == ["matched_range"]:
        rng = ".indices"
    else:
        raise R.Unsupported("%s: reported range not understood: %s(%s)" % (what, kind, ", ".join(rargs)))
    return "{ score := %s, begin := %s, «end» := %s, range := %s }" % (score, key(args[1], "begin"), key(args[2], "end"), rng)


def extract(repo):
    out = ["namespace SkimModel.Generated.RankFeed", "",
           "inductive ScoreSrc | zero | spanWidth | matcher", "  deriving DecidableEq, Repr", "",
           "inductive KeySrc | zero | spanBegin | spanEnd | firstIdx | lastIdx | textLen", "  deriving DecidableEq, Repr", "",
           "inductive RangeSrc | empty | span | indices", "  deriving DecidableEq, Repr", "",
           "/-- the arguments of `build_rank` (the length is always the byte length of the item text) and the reported `matched_range` -/",
           "structure Feed where", "  score : ScoreSrc", "  begin : KeySrc", "  «end» : KeySrc", "  range : RangeSrc",
           "  deriving DecidableEq, Repr", ""]
    for lean, fname, what in (("all", "all.rs", "MatchAllEngine"), ("exact", "exact.rs", "ExactEngine"),
                              ("regex", "regexp.rs", "RegexEngine"), ("fuzzy", "fuzzy.rs", "FuzzyEngine")):
        out += ["/-- `%s::match_item` (src/engine/%s) -/" % (what, fname), "def %s : Feed := %s" % (lean, one_engine(repo, fname, what)), ""]
    out += ["end SkimModel.Generated.RankFeed", ""]
    return "\n".join(out)


if __name__ == "__main__":
    print(extract(sys.argv[1] if len(sys.argv) > 1 else "/repo"))
