"""SGR table: the `match code[0] { ... }` arms of `csi_dispatch` in src/ansi.rs -> SkimModel/Generated/Sgr.lean

One row per match arm, in source order (Rust takes the first arm that matches).  Every arm body is
rendered FAITHFULLY (e.g. `attr.effect |= !Effect::BOLD` becomes `.orEffect (.compl .bold)`), so the table
theorem `c16_table` is about what the code says now.  Anything the extractor does not recognise raises.
"""
import os, re

NAME = "Sgr"

EFFECTS = {"BOLD": "bold", "DIM": "dim", "UNDERLINE": "underline", "BLINK": "blink", "REVERSE": "reverse"}

EXT_TEMPLATE = (
    "match iter.next() { "
    "Some(&[2]) => { let (r, g, b) = match (iter.next(), iter.next(), iter.next()) { "
    "(Some(r), Some(g), Some(b)) => (r[0] as u8, g[0] as u8, b[0] as u8), _ => { continue; } }; "
    "attr.@L = Color::Rgb(r, g, b); } "
    "Some(&[5]) => { let color = match iter.next() { Some(color) => color[0] as u8, None => { continue; } }; "
    "attr.@L = Color::AnsiValue(color); } "
    "_ => { } }")


def strip_comments(s):
    return re.sub(r"//[^\n]*", "", s)


def strip_trace(s):
    # trace!( ... ); statements carry no behaviour (log crate macro); arguments never contain ';'
    return re.sub(r"trace!\([^;]*\);", "", s)


def norm(s):
    return re.sub(r"\s+", " ", s).strip()


def balanced(s, i):
    """s[i] == '{' -> index just after the matching '}'"""
    assert s[i] == "{"
    d = 0
    j = i
    while j < len(s):
        if s[j] == "{":
            d += 1
        elif s[j] == "}":
            d -= 1
            if d == 0:
                return j + 1
        j += 1
    raise ValueError("unbalanced braces")


def split_arms(block):
    """block = text between the braces of the match; returns [(pattern, body)]"""
    arms = []
    i = 0
    n = len(block)
    while True:
        while i < n and block[i] in " \t\r\n,":
            i += 1
        if i >= n:
            break
        k = block.find("=>", i)
        if k < 0:
            raise ValueError("match arm without '=>' near: %r" % block[i:i + 60])
        pat = norm(block[i:k])
        j = k + 2
        while j < n and block[j] in " \t\r\n":
            j += 1
        if block[j] == "{":
            e = balanced(block, j)
            body = block[j:e]
        elif block.startswith("match", j):
            b = block.find("{", j)
            e = balanced(block, b)
            body = block[j:e]
        else:
            d = 0
            e = j
            while e < n and not (block[e] == "," and d == 0):
                if block[e] in "([{":
                    d += 1
                elif block[e] in ")]}":
                    d -= 1
                e += 1
            body = block[j:e]
        arms.append((pat, norm(body)))
        i = e
    return arms


def render_pattern(pat):
    if pat == "_":
        return ".wild", None
    if re.fullmatch(r"\d+", pat):
        return ".lit %d" % int(pat), None
    m = re.fullmatch(r"(\w+) @ (\d+)\.\.=(\d+)", pat)
    if m:
        lo, hi = int(m.group(2)), int(m.group(3))
        if lo > hi:
            raise ValueError("empty range pattern %r" % pat)
        return ".range %d %d" % (lo, hi), m.group(1)
    raise ValueError("pattern not understood: %r" % pat)


def render_body(body, binder):
    if body == "attr = Attr::default()":
        return ".reset"
    m = re.fullmatch(r"attr\.effect \|= (!?)Effect::(\w+)", body)
    if m:
        if m.group(2) not in EFFECTS:
            raise ValueError("unknown effect %r" % m.group(2))
        return ".orEffect (.%s .%s)" % ("compl" if m.group(1) else "lit", EFFECTS[m.group(2)])
    m = re.fullmatch(r"attr\.(fg|bg) = Color::AnsiValue\(\((\w+) - (\d+)\) as u8\)", body)
    if m:
        if binder is None or m.group(2) != binder:
            raise ValueError("arm uses %r but the pattern binds %r" % (m.group(2), binder))
        return ".setAnsiSub .%s %d" % (m.group(1), int(m.group(3)))
    m = re.fullmatch(r"attr\.(fg|bg) = Color::Default", body)
    if m:
        return ".setDefault .%s" % m.group(1)
    if body.startswith("match iter.next()"):
        b = norm(strip_trace(body))
        for layer in ("fg", "bg"):
            if b == EXT_TEMPLATE.replace("@L", layer):
                return ".ext .%s" % layer
        raise ValueError("extended-colour arm no longer has the shape the model mirrors: %r" % b)
    if body.startswith("{") and norm(strip_trace(body)) in ("{ }", "{}"):
        return ".ignore"
    raise ValueError("arm body not understood: %r" % body)


def extract(repo):
    src = open(os.path.join(repo, "src", "ansi.rs")).read()
    m = re.search(r"fn csi_dispatch\s*\(", src)
    if not m:
        raise ValueError("csi_dispatch not found")
    b = src.find("{", m.end())
    fn = strip_comments(src[b:balanced(src, b)])
    flat = norm(strip_trace(fn))
    # the frame around the table that Model/Ansi.lean `csiDispatch` mirrors by hand
    frame = [
        r"^\{ if action != 'm' \{ return; \} ",
        r"let mut attr = if params\.is_empty\(\) \{ Attr::default\(\) \} else \{ self\.last_attr \}; ",
        r"let mut iter = params\.iter\(\); while let Some\(code\) = iter\.next\(\) \{ match code\[0\] \{",
        r"\} \} self\.attr_change\(attr\); \}$",
    ]
    for f in frame:
        if not re.search(f, flat):
            raise ValueError("csi_dispatch frame changed, expected /%s/" % f)
    k = fn.find("match code[0]")
    mb = fn.find("{", k)
    block = fn[mb + 1:balanced(fn, mb) - 1]
    rows = []
    for pat, body in split_arms(block):
        p, binder = render_pattern(pat)
        rows.append("  (%s, %s)" % (p, render_body(body, binder)))
    if not rows or not rows[-1].startswith("  (.wild"):
        raise ValueError("the match must end with a wildcard arm")
    return ("import SkimModel.Model.AnsiTypes\n"
            "namespace SkimModel.Generated\nopen SkimModel.Ansi\n\n"
            "/-- rows of `match code[0]` in `csi_dispatch` (src/ansi.rs), source order, first match wins -/\n"
            "def sgrTable : List (Pat × Act) := [\n" + ",\n".join(rows) + "\n]\n\n"
            "end SkimModel.Generated\n")
