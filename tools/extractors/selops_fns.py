"""src/selection.rs: the four selection actions (`act_toggle`, `act_toggle_all`, `act_select_all`, `act_deselect_all`) TRANSLATED into
(guard, scope, operation) triples: is the action ignored in single-selection mode / on an empty list, does it act on the item under
the cursor or on every listed item, does it insert, toggle or clear; the key is `(current_run_num(), item_idx)` of the item acted on.
Props/SelOpsTables.lean proves that interpreting each triple IS the C10 model's action.  Fails closed on any other shape."""
import os, re, sys
sys.path.insert(0, os.path.dirname(os.path.abspath(__file__)))
import _rustfn as R

NAME = "SelOps"

GUARD = r"if !self\.multi_selection \|\| self\.items\.is_empty\(\) \{ return; \}"
TOGGLE = (r"if !self\.selected\.contains_key\(&index\) \{ self\.selected\.insert\(index, current_item\.item\.clone\(\)\); \} "
          r"else \{ self\.selected\.remove\(&index\); \}")


def norm(b):
    b = re.sub(r"//[^\n]*", "", b)
    b = re.sub(r"#\[allow\([^\]]*\)\]", "", b)
    return re.sub(r"\s+", " ", b).strip()


KEY = r"\((?:run_num|current_run_num\(\)), current_item\.item_idx\)"
INNER = [
    (r"let index = " + KEY + r"; " + TOGGLE, ".toggle"),
    (r"let index = " + KEY + r"; self\.selected\.insert\(index, current_item\.item\.clone\(\)\);", ".insert"),
    (r"let item = current_item\.item\.clone\(\); self\.selected\.insert\(" + KEY + r", item\);", ".insert"),
    (r"self\.selected\.insert\(" + KEY + r", current_item\.item\.clone\(\)\);", ".insert"),
]
CURSOR = (r"let cursor = self\.item_cursor \+ self\.line_cursor; let current_item = self \.items \.get\(cursor\) "
          r"\.unwrap_or_else\(\|\| panic!\([^;]*\)\); ")
LOOP = r"(?:let run_num = current_run_num\(\); )?for current_item in self\.items\.iter\(\) \{ (.*) \}"


def one(src, name):
    """(guarded, scope, kind) of one action: an optional guard, then the item under the cursor / a loop over the listed items / a
    clear of the whole map, then what is done with the key `(run, item_idx)` of that item"""
    b = norm(R.fn_body(src, name)[0])
    guarded = "false"
    m = re.match(GUARD + r" ?", b)
    if m:
        guarded, b = "true", b[m.end():]
    if b == "self.selected.clear();":
        return (name, guarded, ".all", ".clear")
    m = re.fullmatch(LOOP, b)
    if m:
        scope, inner = ".all", m.group(1)
        if re.search(r"(?<!current_)run_num", inner) and "let run_num = current_run_num();" not in b:
            raise R.Unsupported(name + ": run_num is not current_run_num()")
    else:
        m = re.match(CURSOR, b)
        if not m:
            raise R.Unsupported(name + ": neither a clear, a loop over the listed items nor the item under the cursor")
        scope, inner = ".cursor", b[m.end():]
    for pat, kind in INNER:
        if re.fullmatch(pat, inner):
            return (name, guarded, scope, kind)
    raise R.Unsupported(name + ": the operation on the key (run, item_idx) is not a toggle or an insert: " + inner[:80])


def extract(repo):
    src = open(os.path.join(repo, "src", "selection.rs")).read()
    rows = [one(src, n) for n in ("act_toggle", "act_toggle_all", "act_select_all", "act_deselect_all")]
    out = ["namespace SkimModel.Generated.SelOps", "",
           "inductive Scope | cursor | all", "  deriving DecidableEq, Repr", "",
           "inductive Kind | toggle | insert | clear", "  deriving DecidableEq, Repr", "",
           "structure Act where", "  guarded : Bool      -- `if !self.multi_selection || self.items.is_empty() { return; }`",
           "  scope : Scope       -- the item under the cursor / every listed item", "  kind : Kind", "  deriving DecidableEq, Repr", ""]
    for name, g, sc, k in rows:
        out += ["/-- `fn %s` -/" % name, "def %s : Act := { guarded := %s, scope := %s, kind := %s }" % (name, g, sc, k), ""]
    # src/global.rs: the run-number table
    g = open(os.path.join(repo, "src", "global.rs")).read()
    m1 = re.search(r"static ref RUN_NUM: AtomicU32 = AtomicU32::new\((\d+)\);", g)
    m2 = re.search(r"static ref SEQ: AtomicU32 = AtomicU32::new\((\d+)\);", g)
    m3 = re.search(r"static ref NUM_MAP: Mutex<HashMap<String, u32>> = \{ let mut m = HashMap::new\(\); ((?:m\.insert\([^;]*\); )*)Mutex::new\(m\) \};",
                   norm(g))
    if not (m1 and m2 and m3):
        raise R.Unsupported("global.rs: RUN_NUM / SEQ / NUM_MAP initialisers not understood")
    entries = re.findall(r'm\.insert\("([^"\\]*)"\.to_string\(\), (\d+)\);', m3.group(1))
    if len(entries) != m3.group(1).count("m.insert("):
        raise R.Unsupported("global.rs: NUM_MAP initial entries not understood")
    b = norm(R.fn_body(g, "mark_new_run")[0])
    m4 = re.fullmatch(r"let mut map = NUM_MAP\.lock\(\)\.expect\([^;]*\); let query = query\.to_string\(\); "
                      r"let run_num = \*map\.entry\(query\)\.or_insert_with\(\|\| SEQ\.fetch_add\((\d+), Ordering::\w+\)\); "
                      r"(RUN_NUM\.store\(run_num, Ordering::\w+\); )?run_num", b)
    if not m4:
        raise R.Unsupported("global.rs: mark_new_run is not `lock; entry(query).or_insert_with(SEQ.fetch_add(k)); [store]; run_num`")
    if norm(R.fn_body(g, "current_run_num")[0]) not in ("RUN_NUM.load(Ordering::SeqCst)", "RUN_NUM.load(Ordering::Acquire)"):
        raise R.Unsupported("global.rs: current_run_num is not a load of RUN_NUM")
    out += ["/-! src/global.rs -/", "",
            "/-- the entries `NUM_MAP` starts with -/",
            "def runInitMap : List (String × Nat) := [%s]" % ", ".join('("%s", %s)' % e for e in entries),
            "/-- `SEQ` starts at -/", "def runInitSeq : Nat := %s" % m2.group(1),
            "/-- `RUN_NUM` starts at -/", "def runInitCur : Nat := %s" % m1.group(1),
            "/-- `SEQ.fetch_add(k)` for a command string not seen before -/", "def runSeqStep : Nat := %s" % m4.group(1),
            "/-- `mark_new_run` stores the number into `RUN_NUM` (what `current_run_num` loads) -/",
            "def runStores : Bool := %s" % ("true" if m4.group(2) else "false"), ""]
    out += ["end SkimModel.Generated.SelOps", ""]
    return "\n".join(out)


if __name__ == "__main__":
    print(extract(sys.argv[1] if len(sys.argv) > 1 else "/repo"))
