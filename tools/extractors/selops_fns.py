"""src/selection.rs: the four selection actions (`act_toggle`, `act_toggle_all`, `act_select_all`, `act_deselect_all`) TRANSLATED into
(guard, scope, operation) triples: is the action ignored in single-selection mode / on an empty list, does it act on the item under
the cursor or on every listed item, does it insert, toggle or clear; the key is `(current_run_num(), item_idx)` of the item acted on.
Props/SelOpsTables.lean proves that interpreting each triple IS the C10 model's action.  Fails closed on any other shape."""
import os, re, sys
sys.path.insert(0, os.path.dirname(os.path.abspath(__file__)))
import _rustfn as R

NAME = "SelOps"

GUARD = r"if !self\.multi_selection \|\| self\.items\.is_empty\(\) \{ return; \}"
TOGGLE = (r"if !self\.selected\.contains_key\(&index\) \{ self\.selected\.insert\(index, current_item\.item\.clone\(\)\); \} "
          r"else \{ self\.selected\.remove\(&index\); \}")


def norm(b):
    b = re.sub(r"//[^\n]*", "", b)
    b = re.sub(r"#\[allow\([^\]]*\)\]", "", b)
    return re.sub(r"\s+", " ", b).strip()


KEY = r"\((?:run_num|current_run_num\(\)), current_item\.item_idx\)"
INNER = [
    (r"let index = " + KEY + r"; " + TOGGLE, ".toggle"),
    (r"let index = " + KEY + r"; self\.selected\.insert\(index, current_item\.item\.clone\(\)\);", ".insert"),
    (r"let item = current_item\.item\.clone\(\); self\.selected\.insert\(" + KEY + r", item\);", ".insert"),
    (r"self\.selected\.insert\(" + KEY + r", current_item\.item\.clone\(\)\);", ".insert"),
]
CURSOR = (r"let cursor = self\.item_cursor \+ self\.line_cursor; let current_item = self \.items \.get\(cursor\) "
          r"\.unwrap_or_else\(\|\| panic!\([^;]*\)\); ")
LOOP = r"(?:let run_num = current_run_num\(\); )?for current_item in self\.items\.iter\(\) \{ (.*) \}"


def one(src, name):
    """(guarded, scope, kind) of one action: an optional guard, then the item under the cursor / a loop over the listed items / a
    clear of the whole map, then what is done with the key `(run, item_idx)` of that item"""
    b = norm(R.fn_body(src, name)[0])
    guarded = "false"
    m = re.match(GUARD + r" ?", b)
    if m:
        guarded, b = "true", b[m.end():]
    if b == "self.selected.clear();":
        return (name, guarded, ".all", ".clear")
    m = re.fullmatch(LOOP, b)
    if m:
        scope, inner = ".all", m.group(1)
        if re.search(r"(?<!current_)run_num", inner) and "let run_num = current_run_num();" not in b:
            raise R.Unsupported(name + ": run_num is not current_run_num()")
    else:
        m = re.match(CURSOR, b)
        if not m:
            raise R.Unsupported(name + ": neither a clear, a loop over the listed items nor the item under the cursor")
        scope, inner = ".cursor", b[m.end():]
    for pat, kind in INNER:
        if re.fullmatch(pat, inner):
            return (name, guarded, scope, kind)
    raise R.Unsupported(name + ": the operation on the key (run, item_idx) is not a toggle or an insert: " + inner[:80])


def extract(repo):
    src = open(os.path.join(repo, "src", "selection.rs")).read()
    rows = [one(src, n) for n in ("act_toggle", "act_toggle_all", "act_select_all", "act_deselect_all")]
    out = ["namespace SkimModel.Generated.SelOps", "",
           "inductive Scope | cursor | all", "  deriving DecidableEq, Repr", "",
           "inductive Kind | toggle | insert | clear", "  deriving DecidableEq, Repr", "",
           "structure Act where", "  guarded : Bool      -- `if !self.multi_selection || self.items.is_empty() { return; }`",
           "  scope : Scope       -- the item under the cursor / every listed item", "  kind : Kind", "  deriving DecidableEq, Repr", ""]
    for name, g, sc, k in rows:
        out += ["/-- `fn %s` -/" % name, "def %s : Act := { guarded := %s, scope := %s, kind := %s }" % (name, g, sc, k), ""]
    out += ["end SkimModel.Generated.SelOps", ""]
    return "\n".join(out)


if __name__ == "__main__":
    print(extract(sys.argv[1] if len(sys.argv) > 1 else "/repo"))
