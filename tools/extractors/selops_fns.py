"""src/selection.rs, src/global.rs, src/helper/selector.rs — the selection-set level (C10), TRANSLATED:
  * `act_toggle`, `act_toggle_all`, `act_select_all`, `act_deselect_all` as (guard, scope, operation) triples keyed by
    `(current_run_num(), item_idx)`,
  * the watermark bookkeeping of `append_sorted_items`, the guards of `pre_select` / `act_select_raw_item` and
    `DefaultSkimSelector::should_select`, statement by statement (_rustfn),
  * the initial `NUM_MAP` / `SEQ` / `RUN_NUM` and `mark_new_run` of global.rs.
Props/SelOpsTables.lean proves that interpreting each IS the C10 model's function, for all states.  Fails closed on any other shape."""
import os, re, sys
sys.path.insert(0, os.path.dirname(os.path.abspath(__file__)))
import _rustfn as R

NAME = "SelOps"

GUARD = r"if (?:!self\.multi_selection \|\| self\.items\.is_empty\(\)|self\.items\.is_empty\(\) \|\| !self\.multi_selection) \{ return; \}"
TOGGLE = (r"if !self\.selected\.contains_key\(&index\) \{ self\.selected\.insert\(index, current_item\.item\.clone\(\)\); \} "
          r"else \{ self\.selected\.remove\(&index\); \}")


def norm(b):
    b = re.sub(r"//[^\n]*", "", b)
    b = re.sub(r"#\[allow\([^\]]*\)\]", "", b)
    return re.sub(r"\s+", " ", b).strip()


KEY = r"\((?:run_num|current_run_num\(\)), current_item\.item_idx\)"
TOGGLE_INV = (r"if self\.selected\.contains_key\(&index\) \{ self\.selected\.remove\(&index\); \} "
              r"else \{ self\.selected\.insert\(index, current_item\.item\.clone\(\)\); \}")
INNER = [
    (r"let index = " + KEY + r"; " + TOGGLE, ".toggle"),
    (r"let index = " + KEY + r"; " + TOGGLE_INV, ".toggle"),
    (r"let index = " + KEY + r"; self\.selected\.insert\(index, current_item\.item\.clone\(\)\);", ".insert"),
    (r"let item = current_item\.item\.clone\(\); self\.selected\.insert\(" + KEY + r", item\);", ".insert"),
    (r"self\.selected\.insert\(" + KEY + r", current_item\.item\.clone\(\)\);", ".insert"),
]
CURSOR = (r"let cursor = self\.item_cursor \+ self\.line_cursor; let current_item = self \.items \.get\(cursor\) "
          r"\.unwrap_or_else\(\|\| panic!\([^;]*\)\); ")
LOOP = r"(?:let run_num = current_run_num\(\); )?for current_item in self\.items\.iter\(\) \{ (.*) \}"


def one(src, name):
    """(guarded, scope, kind) of one action: an optional guard, then the item under the cursor / a loop over the listed items / a
    clear of the whole map, then what is done with the key `(run, item_idx)` of that item"""
    b = norm(R.fn_body(src, name)[0])
    guarded = "false"
    m = re.match(GUARD + r" ?", b)
    if m:
        guarded, b = "true", b[m.end():]
    if b == "self.selected.clear();":
        return (name, guarded, ".all", ".clear")
    m = re.fullmatch(LOOP, b)
    if m:
        scope, inner = ".all", m.group(1)
        if re.search(r"(?<!current_)run_num", inner) and "let run_num = current_run_num();" not in b:
            raise R.Unsupported(name + ": run_num is not current_run_num()")
    else:
        m = re.match(CURSOR, b)
        if not m:
            raise R.Unsupported(name + ": neither a clear, a loop over the listed items nor the item under the cursor")
        scope, inner = ".cursor", b[m.end():]
    for pat, kind in INNER:
        if re.fullmatch(pat, inner):
            return (name, guarded, scope, kind)
    raise R.Unsupported(name + ": the operation on the key (run, item_idx) is not a toggle or an insert: " + inner[:80])


def extract(repo):
    src = open(os.path.join(repo, "src", "selection.rs")).read()
    rows = [one(src, n) for n in ("act_toggle", "act_toggle_all", "act_select_all", "act_deselect_all")]
    out = ["set_option linter.unusedVariables false", "namespace SkimModel.Generated.SelOps", "",
           "inductive Scope | cursor | all", "  deriving DecidableEq, Repr", "",
           "inductive Kind | toggle | insert | clear", "  deriving DecidableEq, Repr", "",
           "structure Act where", "  guarded : Bool      -- `if !self.multi_selection || self.items.is_empty() { return; }`",
           "  scope : Scope       -- the item under the cursor / every listed item", "  kind : Kind", "  deriving DecidableEq, Repr", ""]
    for name, g, sc, k in rows:
        out += ["/-- `fn %s` -/" % name, "def %s : Act := { guarded := %s, scope := %s, kind := %s }" % (name, g, sc, k), ""]
    # EventHandler::handle: which method each selection event calls
    i = src.find("impl EventHandler for Selection")
    hb = norm(R.fn_body(src[i:], "handle")[0]) if i >= 0 else ""
    arms = dict(re.findall(r"EvAct(Toggle|ToggleAll|SelectAll|DeselectAll) => \{ self\.(act_\w+)\(\); \}", hb))
    methods = [r[0] for r in rows]
    if sorted(arms) != ["DeselectAll", "SelectAll", "Toggle", "ToggleAll"] or any(v not in methods for v in arms.values()):
        raise R.Unsupported("Selection::handle: the arms of EvActToggle / ToggleAll / SelectAll / DeselectAll are not understood")
    out += ["/-- the selection events of `EventHandler::handle` -/",
            "inductive Ev | toggle | toggleAll | selectAll | deselectAll", "  deriving DecidableEq, Repr", "",
            "/-- the method each of them calls -/", "def handleArm : Ev → Act",
            "  | .toggle => %s" % arms["Toggle"], "  | .toggleAll => %s" % arms["ToggleAll"],
            "  | .selectAll => %s" % arms["SelectAll"], "  | .deselectAll => %s" % arms["DeselectAll"], ""]
    # append_sorted_items: the watermark bookkeeping around `pre_select` and the append (statement by statement, _rustfn)
    A = {"current_run_num()": ("run", "Nat"), "items.is_empty()": ("batchEmpty", "Bool"),
         "self.latest_select_run_num": ("latest", "Nat"), "self.pre_selected_watermark": ("wm", "Nat"),
         "self.items.len()": ("n", "Nat"), "self.selector.is_none()": ("selectorNone", "Bool"),
         "self.multi_selection": ("multi", "Bool")}
    body = R.fn_body(src, "append_sorted_items")[0]
    i = body.find("let current_run_num")
    m = re.search(r"if ([^{]*?) \{\s*self\.pre_select\(&items\);\s*\}\s*self\.items\.append\(items\);(.*?)\n\s*if ", body, re.S)
    if i < 0 or not m or m.start() < i:
        raise R.Unsupported("append_sorted_items: not `let current_run_num ..; if c { pre_select }; append; ..; if ..`")
    head = R.translate(body[i:m.start()], A, result="(latest, wm)")
    # what follows the append up to the first `if` of the cursor fix-up: the watermark update (the height is C09's business)
    tail_src = re.sub(r"//[^\n]*", "", m.group(2)).replace("let height = self.known_height();", "")
    # the update may itself be spelled as an `if` (`if len > wm { wm = len }`): then it sits before `let height = ..`
    after = re.sub(r"//[^\n]*", "", body[m.start(2):])
    ih = after.find("let height = self.known_height();")
    if "self.pre_selected_watermark" not in tail_src and ih > 0 and "self.pre_selected_watermark" in after[:ih]:
        tail_src = after[:ih]
    if "self.pre_selected_watermark" not in tail_src:
        if "self.pre_selected_watermark" in after:
            raise R.Unsupported("append_sorted_items: the watermark is updated inside or after the cursor fix-up")
        tail_src = "self.pre_selected_watermark = self.pre_selected_watermark;"     # never updated after the append: read as such
    cond = R.translate(m.group(1), A)
    tail = R.translate(tail_src, A, result="wm")
    # pre_select
    b = norm(R.fn_body(src, "pre_select")[0])
    b = re.sub(r"debug!\([^;]*\); ?", "", b)
    b = re.sub(r" ?\. ?", ".", b).strip()
    m = re.fullmatch(r"if ([^{]*?) \{ return; \} let current_run_num = current_run_num\(\); for item in items \{ "
                     r"if self\.selector\.as_ref\(\)\.map\(\|s\| s\.should_select\(item\.item_idx as usize, item\.item\.as_ref\(\)\)\)"
                     r"\.unwrap_or\(false\) \{ self\.act_select_raw_item\(current_run_num, item\.item_idx, item\.item\.clone\(\)\); \} \}", b)
    if not m:
        raise R.Unsupported("pre_select: not `if c { return; } for item in items { if selector says so { act_select_raw_item(run, idx, item) } }`")
    skips = R.translate(m.group(1), A)
    # act_select_raw_item / act_select_matched
    b = norm(R.fn_body(src, "act_select_raw_item")[0])
    m = re.fullmatch(r"(?:if ([^{]*?) \{ return; \} )?self\.selected\.insert\(\(run_num, item_index\), item\);", b)
    if not m:
        raise R.Unsupported("act_select_raw_item: not `[if c { return; }] insert((run_num, item_index), item)`")
    raw_skips = R.translate(m.group(1), A) if m.group(1) else ("False", "Prop")
    # DefaultSkimSelector::should_select
    sel = open(os.path.join(repo, "src", "helper", "selector.rs")).read()
    b = re.sub(r" ?\. ?", ".", norm(R.fn_body(sel, "should_select")[0]))
    for text, name in (("self.preset.as_ref().map(|preset| preset.contains(item.text().as_ref())).unwrap_or(false)", "inPreset"),
                       ("self.regex.as_ref().map(|re| re.is_match(&item.text())).unwrap_or(false)", "regexMatches")):
        if b.count(text) != 1:
            raise R.Unsupported("should_select: `%s` not found exactly once" % text)
        b = b.replace(text, name)
    SA = {"self.first_n": ("firstN", "Nat"), "self.preset.is_some()": ("presetSome", "Bool"), "self.regex.is_some()": ("regexSome", "Bool")}
    should = R.translate(b, SA, locals_={"index": "Nat", "inPreset": "Bool", "regexMatches": "Bool"})
    if should[1] != "Bool":
        raise R.Unsupported("should_select: type %s" % should[1])

    def ind(e):
        return "\n".join("  " + l for l in e.split("\n"))
    out += ["/-! the watermark bookkeeping of `append_sorted_items`, `pre_select`, `act_select_raw_item`, `should_select` -/", "",
            "/-- from `let current_run_num = current_run_num();` to the `if` around `pre_select`: (latest_select_run_num, pre_selected_watermark) -/",
            "def appendHead (run latest wm n : Nat) (batchEmpty : Bool) : Nat × Nat :=", ind(head[0]), "",
            "/-- the condition under which `append_sorted_items` calls `pre_select` -/",
            "def appendPreselects (wm n : Nat) : Bool :=", "  decide %s" % cond[0], "",
            "/-- the watermark after `self.items.append(items)` (`n` = the length AFTER the append) -/",
            "def appendTail (wm n : Nat) : Nat :=", ind(tail[0]), "",
            "/-- the condition under which `pre_select` returns at once -/",
            "def preSelectSkips (selectorNone multi : Bool) : Bool :=", "  decide %s" % skips[0], "",
            "/-- the condition under which `act_select_raw_item` returns at once -/",
            "def selectRawSkips (multi : Bool) : Bool :=", "  decide %s" % raw_skips[0], "",
            "/-- `DefaultSkimSelector::should_select` -/",
            "def shouldSelect (firstN index : Nat) (presetSome inPreset regexSome regexMatches : Bool) : Bool :=", ind(should[0]), ""]
    # get_selected_indices_and_items: what an accept returns
    b = norm(R.fn_body(src, "get_selected_indices_and_items")[0])
    b = re.sub(r" ?\. ?", ".", b)
    m = re.fullmatch(r"let select_cursor = ([^;]*); "
                     r"let mut selected: Vec<Arc<dyn SkimItem>> = self\.selected\.values\(\)\.cloned\(\)\.collect\(\); "
                     r"let mut item_indices: Vec<usize> = self\.selected\.keys\(\)\.map\(\|\(_run, idx\)\| \*idx as usize\)\.collect\(\); "
                     r"if ([^{]*?) \{ let cursor = self\.item_cursor \+ self\.line_cursor; "
                     r"let current_item = self\.items\.get\(cursor\)\.unwrap_or_else\(\|\| panic!\([^;]*\)\); "
                     r"let item = current_item\.item\.clone\(\); item_indices\.push\((current_item\.item_idx as usize|cursor)\); "
                     r"selected\.push\(item\); \} \(item_indices, selected\)", b)
    if not m:
        raise R.Unsupported("get_selected_indices_and_items: not `select_cursor; values; key indices; if c { push the cursor item }; (indices, items)`")
    AA = {"self.multi_selection": ("multi", "Bool"), "self.selected.is_empty()": ("selectedEmpty", "Bool"),
          "self.items.is_empty()": ("listedEmpty", "Bool")}
    sc = R.translate(m.group(1), AA)
    pushes = R.translate(m.group(2), AA, locals_={"select_cursor": "Bool"})
    out += ["/-! `get_selected_indices_and_items` -/", "",
            "inductive PushIdx | itemIdx | cursor", "  deriving DecidableEq, Repr", "",
            "/-- `let select_cursor = ..` -/",
            "def acceptSelectCursor (multi selectedEmpty : Bool) : Bool :=", "  decide %s" % sc[0], "",
            "/-- the condition under which the item under the cursor is pushed after the selected ones -/",
            "def acceptPushes (select_cursor listedEmpty : Bool) : Bool :=", "  decide %s" % pushes[0], "",
            "/-- the index pushed for it: its own `item_idx` (or the row of the cursor) -/",
            "def acceptPushedIndex : PushIdx := %s" % (".itemIdx" if "item_idx" in m.group(3) else ".cursor"), ""]
    # src/global.rs: the run-number table
    g = open(os.path.join(repo, "src", "global.rs")).read()
    m1 = re.search(r"static ref RUN_NUM: AtomicU32 = AtomicU32::new\((\d+)\);", g)
    m2 = re.search(r"static ref SEQ: AtomicU32 = AtomicU32::new\((\d+)\);", g)
    m3 = re.search(r"static ref NUM_MAP: Mutex<HashMap<String, u32>> = \{ let mut m = HashMap::new\(\); ((?:m\.insert\([^;]*\); )*)Mutex::new\(m\) \};",
                   norm(g))
    if not (m1 and m2 and m3):
        raise R.Unsupported("global.rs: RUN_NUM / SEQ / NUM_MAP initialisers not understood")
    entries = re.findall(r'm\.insert\("([^"\\]*)"\.to_string\(\), (\d+)\);', m3.group(1))
    if len(entries) != m3.group(1).count("m.insert("):
        raise R.Unsupported("global.rs: NUM_MAP initial entries not understood")
    b = norm(R.fn_body(g, "mark_new_run")[0])
    m4 = re.fullmatch(r"let mut map = NUM_MAP\.lock\(\)\.expect\([^;]*\); let query = query\.to_string\(\); "
                      r"let run_num = \*map\.entry\(query\)\.or_insert_with\(\|\| SEQ\.fetch_add\((\d+), Ordering::\w+\)\); "
                      r"(RUN_NUM\.store\(run_num, Ordering::\w+\); )?run_num", b)
    if not m4:
        raise R.Unsupported("global.rs: mark_new_run is not `lock; entry(query).or_insert_with(SEQ.fetch_add(k)); [store]; run_num`")
    if norm(R.fn_body(g, "current_run_num")[0]) not in ("RUN_NUM.load(Ordering::SeqCst)", "RUN_NUM.load(Ordering::Acquire)"):
        raise R.Unsupported("global.rs: current_run_num is not a load of RUN_NUM")
    out += ["/-! src/global.rs -/", "",
            "/-- the entries `NUM_MAP` starts with -/",
            "def runInitMap : List (String × Nat) := [%s]" % ", ".join('("%s", %s)' % e for e in entries),
            "/-- `SEQ` starts at -/", "def runInitSeq : Nat := %s" % m2.group(1),
            "/-- `RUN_NUM` starts at -/", "def runInitCur : Nat := %s" % m1.group(1),
            "/-- `SEQ.fetch_add(k)` for a command string not seen before -/", "def runSeqStep : Nat := %s" % m4.group(1),
            "/-- `mark_new_run` stores the number into `RUN_NUM` (what `current_run_num` loads) -/",
            "def runStores : Bool := %s" % ("true" if m4.group(2) else "false"), ""]
    out += ["end SkimModel.Generated.SelOps", ""]
    return "\n".join(out)


if __name__ == "__main__":
    print(extract(sys.argv[1] if len(sys.argv) > 1 else "/repo"))
