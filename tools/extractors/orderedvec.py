"""src/orderedvec.rs -> SkimModel/Generated/OrderedVec.lean : the two thresholds of OrderedVec.

Fails (raises) when the constants are missing, duplicated, not plain decimal literals, or when the places the
model relies on (the movement loop bound, the demotion test) no longer mention them."""
import os, re

NAME = "OrderedVec"


def _const(src, name):
    ms = re.findall(r"^\s*(?:pub(?:\([a-z]+\))?\s+)?const\s+%s\s*:\s*usize\s*=\s*([0-9_]+)\s*;" % name, src, re.M)
    if len(ms) != 1:
        raise ValueError("orderedvec.rs: expected exactly one `const %s: usize = <decimal>;`, found %d" % (name, len(ms)))
    return int(ms[0].replace("_", ""))


def extract(repo):
    path = os.path.join(repo, "src", "orderedvec.rs")
    src = open(path).read()
    code = re.sub(r"//.*", "", src)
    ordered_size = _const(code, "ORDERED_SIZE")
    max_movement = _const(code, "MAX_MOVEMENT")
    if not re.search(r"while\s+items_smaller\.len\(\)\s*<\s*MAX_MOVEMENT\b", code):
        raise ValueError("orderedvec.rs: the movement loop `while items_smaller.len() < MAX_MOVEMENT` was not found")
    if len(re.findall(r"\bMAX_MOVEMENT\b", code)) != 2:
        raise ValueError("orderedvec.rs: MAX_MOVEMENT is used in a place the model does not know")
    n_os = len(re.findall(r"\bORDERED_SIZE\b", code))
    if n_os != 2 or not re.search(r"Vec::with_capacity\(ORDERED_SIZE\)", code):
        raise ValueError("orderedvec.rs: ORDERED_SIZE is expected only as the initial capacity of `sorted` (found %d uses)" % n_os)
    return (
        "namespace SkimModel.Generated.OrderedVec\n\n"
        "/-- `const ORDERED_SIZE: usize` of src/orderedvec.rs (only a capacity hint in the fixed code) -/\n"
        "def orderedSize : Nat := %d\n\n"
        "/-- `const MAX_MOVEMENT: usize` of src/orderedvec.rs (bound of the movement loop in `append`) -/\n"
        "def maxMovement : Nat := %d\n\n"
        "end SkimModel.Generated.OrderedVec\n" % (ordered_size, max_movement))
