"""A translator for the integer cores of skim: straight-line Rust with `let`, assignment, `+=`/`-=`, `if / else if / else`
(as statement and as tail expression), `max`/`min`, `as i32`/`as usize` casts, tuples, `Some`/`None` — to a Lean 4 term.

It is not an extractor itself (tools/extract.py skips files whose name starts with `_`); `cursor_fns.py`, `field_fns.py` and
`scroll_fns.py` use it.  The translator FAILS (raises) on anything outside this subset; it never guesses.

Typing: every source atom (parameter, `self.field`, method call) is given by the caller as (lean name, type) with type in
{Int, Nat, Bool}.  i32 values are Lean `Int`, usize values are Lean `Nat` (`-` is truncated subtraction: the models' theorems
show it is never reached with a negative result, the debug-profile harness would panic), `x as i32` is `Int.ofNat x`, `x as usize`
is `Int.toNat x` (the models prove the operand non-negative), `/` on i32 is `Int.tdiv`.
Imperative updates become shadowing `let`s; an `if` statement that assigns variables becomes a tuple-valued `if`.
"""
import re


class Unsupported(Exception):
    pass


TOK = re.compile(r"\s*(?:(\d+)|([A-Za-z_][A-Za-z_0-9]*(?:(?:::|\.)[A-Za-z_][A-Za-z_0-9]*)*)|(\|\||&&|<=|>=|==|!=|\+=|-=|=>|[-+*/%<>=!(),;{}]))")


def tokenize(src):
    src = re.sub(r"//[^\n]*", "", src)
    toks, i = [], 0
    while i < len(src):
        if src[i].isspace():
            i += 1
            continue
        m = TOK.match(src, i)
        if not m or m.end() == i:
            raise Unsupported("cannot tokenize at %r" % src[i:i + 30])
        if m.group(1) is not None:
            toks.append(("num", m.group(1)))
        elif m.group(2) is not None:
            toks.append(("id", m.group(2)))
        else:
            toks.append(("op", m.group(3)))
        i = m.end()
    return toks


LEAN_KEYWORDS = set("""end at from fun have show then else if do in let match with where by open namespace section variable theorem
def instance structure class inductive deriving extends import export private protected mutual universe attribute local macro syntax
notation prefix infix infixl infixr postfix calc Type Prop Sort suffices using for unless return break continue try catch finally
abbrev example axiom opaque partial unsafe noncomputable nomatch nofun this""".split())


def lname(n):
    """a Rust local as a Lean identifier"""
    return n + "_v" if n in LEAN_KEYWORDS else n


class Tr:
    def __init__(self, src, atoms, funcs=None):
        """atoms: {source text: (lean, type)} for `self.x`, `self.x.len()`, parameters ...; funcs: {rust name: (lean name, [arg types], ret type)}"""
        self.t = tokenize(src)
        self.p = 0
        self.atoms = dict(atoms)
        self.funcs = dict(funcs or {})
        self.env = {}          # local variable -> type

    # ---- token helpers
    def peek(self, k=0):
        return self.t[self.p + k] if self.p + k < len(self.t) else (None, None)

    def at(self, v):
        return self.peek() == ("op", v)

    def eat(self, v):
        if not self.at(v):
            raise Unsupported("expected %r, found %r" % (v, self.peek()))
        self.p += 1

    def at_id(self, v):
        return self.peek() == ("id", v)

    # ---- expressions: returns (lean text, type)
    def expr(self):
        return self.p_or()

    def p_or(self):
        e = self.p_and()
        while self.at("||"):
            self.p += 1
            r = self.p_and()
            e = ("(%s ∨ %s)" % (self.prop(e), self.prop(r)), "Prop")
        return e

    def p_and(self):
        e = self.p_cmp()
        while self.at("&&"):
            self.p += 1
            r = self.p_cmp()
            e = ("(%s ∧ %s)" % (self.prop(e), self.prop(r)), "Prop")
        return e

    def prop(self, e):
        if e[1] == "Prop":
            return e[0]
        if e[1] == "Bool":
            return "(%s = true)" % e[0]
        raise Unsupported("not a condition: %r" % (e,))

    def unify(self, a, b):
        """numeric literals adapt to the other side"""
        if a[1] == b[1]:
            return a, b
        if a[1] == "Lit" and b[1] in ("Int", "Nat"):
            return (a[0], b[1]), b
        if b[1] == "Lit" and a[1] in ("Int", "Nat"):
            return a, (b[0], a[1])
        raise Unsupported("type mismatch: %r vs %r" % (a, b))

    def p_cmp(self):
        e = self.p_add()
        for op, lop in (("<=", "≤"), (">=", "≥"), ("==", "="), ("!=", "≠"), ("<", "<"), (">", ">")):
            if self.at(op):
                self.p += 1
                r = self.p_add()
                e, r = self.unify(e, r)
                if e[1] == "Lit":
                    e, r = (e[0], "Nat"), (r[0], "Nat")
                return ("(%s %s %s)" % (self.num(e), lop, self.num(r)), "Prop")
        return e

    def num(self, e):
        if e[1] not in ("Int", "Nat", "Lit"):
            raise Unsupported("not a number: %r" % (e,))
        return e[0]

    def p_add(self):
        e = self.p_mul()
        while self.at("+") or self.at("-"):
            op = self.peek()[1]
            self.p += 1
            r = self.p_mul()
            e, r = self.unify(e, r)
            e = ("(%s %s %s)" % (self.num(e), op, self.num(r)), e[1])
        return e

    def p_mul(self):
        e = self.p_unary()
        while self.at("*") or self.at("/") or self.at("%"):
            op = self.peek()[1]
            self.p += 1
            r = self.p_unary()
            e, r = self.unify(e, r)
            if op == "/":
                if e[1] == "Int":
                    e = ("(Int.tdiv %s %s)" % (e[0], r[0]), "Int")
                else:
                    e = ("(%s / %s)" % (self.num(e), self.num(r)), e[1])
            elif op == "%":
                if e[1] == "Int":
                    e = ("(Int.tmod %s %s)" % (e[0], r[0]), "Int")
                else:
                    e = ("(%s %% %s)" % (self.num(e), self.num(r)), e[1])
            else:
                e = ("(%s * %s)" % (self.num(e), self.num(r)), e[1])
        return e

    def p_unary(self):
        if self.at("-"):
            self.p += 1
            e = self.p_unary()
            if e[1] == "Lit":
                return ("(-%s)" % e[0], "Int")
            if e[1] != "Int":
                raise Unsupported("negation of %r" % (e,))
            return ("(-%s)" % e[0], "Int")
        if self.at("!"):
            self.p += 1
            e = self.p_unary()
            return ("(¬ %s)" % self.prop(e), "Prop")
        return self.p_cast()

    def p_cast(self):
        e = self.p_primary()
        while self.at_id("as"):
            self.p += 1
            k, ty = self.peek()
            self.p += 1
            if ty in ("i32", "i64", "isize"):
                if e[1] == "Nat":
                    e = ("(Int.ofNat %s)" % e[0], "Int")
                elif e[1] == "Lit":
                    e = ("(%s : Int)" % e[0], "Int")
                elif e[1] != "Int":
                    raise Unsupported("cast of %r to %s" % (e, ty))
            elif ty in ("usize", "u32", "u64"):
                if e[1] == "Int":
                    e = ("(Int.toNat %s)" % e[0], "Nat")
                elif e[1] == "Lit":
                    e = ("(%s : Nat)" % e[0], "Nat")
                elif e[1] != "Nat":
                    raise Unsupported("cast of %r to %s" % (e, ty))
            else:
                raise Unsupported("cast to %s" % ty)
        return e

    def call_args(self):
        self.eat("(")
        args = []
        while not self.at(")"):
            args.append(self.expr())
            if self.at(","):
                self.p += 1
        self.eat(")")
        return args

    def p_primary(self):
        k, v = self.peek()
        if k == "num":
            self.p += 1
            return (v, "Lit")
        if k == "op" and v == "(":
            self.p += 1
            first = self.expr()
            if self.at(","):
                items = [first]
                while self.at(","):
                    self.p += 1
                    if self.at(")"):
                        break
                    items.append(self.expr())
                self.eat(")")
                items = [(i[0], "Nat") if i[1] == "Lit" else i for i in items]
                return ("(%s)" % ", ".join(i[0] for i in items), "(" + " × ".join(i[1] for i in items) + ")")
            self.eat(")")
            return ("(%s)" % first[0], first[1]) if first[1] != "Lit" else first
        if k == "op" and v == "{":
            return self.block_expr()
        if k == "id":
            if v == "if":
                return self.if_expr()
            if v == "None":
                self.p += 1
                return ("none", "Option ?")
            if v == "Some":
                self.p += 1
                a = self.call_args()
                if len(a) != 1:
                    raise Unsupported("Some/arity")
                return ("(some %s)" % a[0][0], "Option " + a[0][1])
            # a known atom, possibly followed by `()` / `.len()` that is part of the atom text
            # longest match against the atom table over the following tokens
            best = None
            for text, (lean, ty) in self.atoms.items():
                tt = tokenize(text)
                if self.t[self.p:self.p + len(tt)] == tt and (best is None or len(tt) > best[0]):
                    best = (len(tt), lean, ty)
            if best:
                self.p += best[0]
                return (best[1], best[2])
            if v in ("max", "min", "std::cmp::max", "std::cmp::min", "cmp::max", "cmp::min"):
                self.p += 1
                a = self.call_args()
                if len(a) != 2:
                    raise Unsupported("max/min arity")
                x, y = self.unify(a[0], a[1])
                if x[1] == "Lit":
                    x, y = (x[0], "Nat"), (y[0], "Nat")
                return ("(%s %s %s)" % (v.split("::")[-1], self.num(x), self.num(y)), x[1])
            if v in self.funcs:
                self.p += 1
                lean, argtys, ret = self.funcs[v]
                a = self.call_args()
                if len(a) != len(argtys):
                    raise Unsupported("arity of %s" % v)
                outs = []
                for x, ty in zip(a, argtys):
                    if x[1] == "Lit":
                        x = (x[0], ty)
                    if x[1] != ty:
                        raise Unsupported("argument type of %s: %r vs %s" % (v, x, ty))
                    outs.append(x[0])
                return ("(%s %s)" % (lean, " ".join(outs)), ret)
            if v in self.env:
                self.p += 1
                return (lname(v), self.env[v])
            if v in ("true", "false"):
                self.p += 1
                return (v, "Bool")
            raise Unsupported("unknown identifier %r" % v)
        raise Unsupported("unexpected token %r" % ((k, v),))

    # ---- blocks
    def block_expr(self):
        """`{ stmts; tail }` as an expression"""
        self.eat("{")
        saved = dict(self.env)
        out = self.stmts(tail_needed=True, result=None)
        self.eat("}")
        self.env = saved
        return out

    def if_expr(self):
        """if as a VALUE: every branch is a block with a tail expression"""
        self.p += 1   # if
        c = self.expr()
        a = self.block_expr()
        if not self.at_id("else"):
            raise Unsupported("if expression without else")
        self.p += 1
        b = self.if_expr() if self.at_id("if") else self.block_expr()
        if a[1] == "Lit" and b[1] in ("Int", "Nat"):
            a = (a[0], b[1])
        if b[1] == "Lit" and a[1] in ("Int", "Nat"):
            b = (b[0], a[1])
        if a[1] == "Lit" and b[1] == "Lit":
            a, b = (a[0], "Nat"), (b[0], "Nat")
        ty = a[1] if "?" not in a[1] else b[1]
        if a[1] != b[1] and "?" not in a[1] and "?" not in b[1]:
            raise Unsupported("branches of different type: %s / %s" % (a[1], b[1]))
        return ("(if %s then %s else %s)" % (self.prop(c), a[0], b[0]), ty)

    def assigned_in_block(self, start):
        """names assigned (not declared) in the brace block starting at token index `start` (and its else-chain)"""
        names, declared, depth, i = [], set(), 0, start
        while i < len(self.t):
            k, v = self.t[i]
            if (k, v) == ("op", "{"):
                depth += 1
            elif (k, v) == ("op", "}"):
                depth -= 1
                if depth == 0:
                    # continue over `else` / `else if`
                    if i + 1 < len(self.t) and self.t[i + 1] == ("id", "else"):
                        i += 2
                        while self.t[i] != ("op", "{"):
                            i += 1
                        continue
                    break
            elif k == "id" and v == "let":
                j = i + 1
                if self.t[j] == ("id", "mut"):
                    j += 1
                declared.add(self.t[j][1])
            elif k == "id" and i + 1 < len(self.t) and self.t[i + 1][0] == "op" and self.t[i + 1][1] in ("=", "+=", "-="):
                tgt = self.target_name(v)
                if tgt not in declared and tgt not in names:
                    names.append(tgt)
            i += 1
        return names

    def target_name(self, v):
        if v in self.atoms:
            return self.atoms[v][0]
        return lname(v)

    def target_type(self, v):
        if v in self.atoms:
            return self.atoms[v][1]
        if v in self.env:
            return self.env[v]
        raise Unsupported("assignment to unknown %r" % v)

    def stmts(self, tail_needed, result):
        """translate statements up to the closing brace (not consumed) / end of input.
        result: a Lean term text for the value when the block has no tail expression (state functions)."""
        k, v = self.peek()
        if k is None or (k, v) == ("op", "}"):
            if result is None:
                raise Unsupported("block without a value")
            return (result, "State")
        if k == "id" and v == "let" and self.peek(1) == ("op", "("):
            # `let (a, b) = EXPR;`
            self.p += 2
            names = []
            while not self.at(")"):
                if self.at_id("mut"):
                    self.p += 1
                names.append(self.peek()[1])
                self.p += 1
                if self.at(","):
                    self.p += 1
            self.eat(")")
            self.eat("=")
            e = self.expr()
            self.eat(";")
            if not (e[1].startswith("(") and e[1].endswith(")")):
                raise Unsupported("tuple pattern bound to %r" % (e,))
            tys = e[1][1:-1].split(" × ")
            if len(tys) != len(names):
                raise Unsupported("tuple pattern arity")
            self.tcount = getattr(self, "tcount", 0) + 1
            t = "tp%d_" % self.tcount
            lets = "let %s := %s;\n" % (t, e[0])
            for i, (n, ty) in enumerate(zip(names, tys)):
                proj = t + "".join(".2" for _ in range(i)) + (".1" if i < len(names) - 1 else "")
                if n != "_":
                    self.env[n] = ty
                    lets += "let %s := %s;\n" % (lname(n), proj)
            rest = self.stmts(tail_needed, result)
            return (lets + rest[0], rest[1])
        if k == "id" and v == "let":
            self.p += 1
            if self.at_id("mut"):
                self.p += 1
            name = self.peek()[1]
            self.p += 1
            self.eat("=")
            e = self.expr()
            self.eat(";")
            if e[1] == "Lit":
                e = (e[0], "Nat")
            self.env[name] = e[1]
            rest = self.stmts(tail_needed, result)
            return ("let %s : %s := %s;\n%s" % (lname(name), e[1], e[0], rest[0]), rest[1])
        if k == "id" and self.peek(1)[0] == "op" and self.peek(1)[1] in ("=", "+=", "-="):
            op = self.peek(1)[1]
            self.p += 2
            e = self.expr()
            self.eat(";")
            ty = self.target_type(v)
            if e[1] == "Lit":
                e = (e[0], ty)
            if e[1] != ty:
                raise Unsupported("assignment type: %s := %r" % (v, e))
            name = self.target_name(v)
            if op != "=":
                e = ("(%s %s %s)" % (name, op[0], e[0]), ty)
            rest = self.stmts(tail_needed, result)
            return ("let %s : %s := %s;\n%s" % (name, ty, e[0], rest[0]), rest[1])
        if k == "id" and v == "if":
            # statement-if when followed by more statements or when the enclosing block has no tail; otherwise a tail expression
            save = self.p
            # find out whether this `if` chain ends the block
            j = self.p
            depth = 0
            while True:
                kk, vv = self.t[j]
                if (kk, vv) == ("op", "{"):
                    depth += 1
                elif (kk, vv) == ("op", "}"):
                    depth -= 1
                    if depth == 0 and not (j + 1 < len(self.t) and self.t[j + 1] == ("id", "else")):
                        break
                j += 1
            ends_block = j + 1 >= len(self.t) or self.t[j + 1] == ("op", "}")
            if ends_block and result is None:
                e = self.if_expr()
                return e
            # early return: `if c { return; }` (state function) / `if c { return EXPR; }` — the rest of the block is the else branch
            self.p = save
            j = self.p
            while self.t[j] != ("op", "{"):
                j += 1
            if self.t[j + 1] == ("id", "return"):
                self.p += 1
                c = self.expr()
                self.eat("{")
                self.p += 1
                if self.at(";"):
                    if result is None:
                        raise Unsupported("`return;` in a function that returns a value")
                    val = (result, "State")
                    self.p += 1
                else:
                    val = self.expr()
                    self.eat(";")
                self.eat("}")
                if self.at_id("else"):
                    raise Unsupported("early return with an else branch")
                rest = self.stmts(tail_needed, result)
                ty = rest[1] if "?" not in rest[1] else val[1]
                return ("(if %s then\n%s\nelse\n%s)" % (self.prop(c), val[0], rest[0]), ty)
            # statement if: tuple of the assigned variables
            self.p = save
            ws = None
            # the first `{` of the chain
            j = self.p
            while self.t[j] != ("op", "{"):
                j += 1
            ws = self.assigned_in_block(j)
            if not ws:
                raise Unsupported("if statement that assigns nothing")
            tup = "(%s)" % ", ".join(ws) if len(ws) > 1 else ws[0]
            chain = self.if_stmt(tup)
            rest = self.stmts(tail_needed, result)
            if len(ws) == 1:
                return ("let %s := %s;\n%s" % (ws[0], chain, rest[0]), rest[1])
            lets = "let t_ := %s;\n" % chain
            for i, w in enumerate(ws):
                proj = "t_" + "".join(".2" for _ in range(i)) + (".1" if i < len(ws) - 1 else "")
                lets += "let %s := %s;\n" % (w, proj)
            return (lets + rest[0], rest[1])
        if k == "id" and v == "return":
            self.p += 1
            e = self.expr()
            self.eat(";")
            if not (self.peek()[0] is None or self.at("}")):
                raise Unsupported("statements after `return`")
            return e
        # tail expression
        e = self.expr()
        if self.at(";"):
            raise Unsupported("expression statement")
        return e

    def if_stmt(self, tup):
        self.p += 1   # if
        c = self.expr()
        self.eat("{")
        saved = dict(self.env)
        a = self.stmts(False, tup)
        self.eat("}")
        self.env = saved
        if self.at_id("else"):
            self.p += 1
            if self.at_id("if"):
                b = self.if_stmt(tup)
            else:
                self.eat("{")
                saved = dict(self.env)
                b = self.stmts(False, tup)[0]
                self.eat("}")
                self.env = saved
        else:
            b = tup
        return "(if %s then\n%s\nelse\n%s)" % (self.prop(c), a[0], b)


def fn_body(src, name):
    """text of the body of `fn <name>` (between its braces)"""
    m = re.search(r"fn\s+%s\s*(<[^>]*>)?\s*\(" % re.escape(name), src)
    if not m:
        raise Unsupported("fn %s not found" % name)
    i = src.index("{", m.end())
    depth, j = 0, i
    while j < len(src):
        if src[j] == "{":
            depth += 1
        elif src[j] == "}":
            depth -= 1
            if depth == 0:
                return src[i + 1:j], src[m.start():i]
        j += 1
    raise Unsupported("unbalanced braces in fn %s" % name)


def translate(body, atoms, result=None, funcs=None, locals_=None):
    tr = Tr(body, atoms, funcs)
    if locals_:
        tr.env.update(locals_)
    out = tr.stmts(True, result)
    if tr.p != len(tr.t):
        raise Unsupported("trailing tokens: %r" % (tr.t[tr.p:tr.p + 5],))
    return out
