"""src/util.rs `LinePrinter`: `reset`, the branch structure of `print_char_raw` (hidden / left dots / right dots / the character, and
how many dots) and the tab rule of `print_char`, TRANSLATED statement by statement to Lean (tools/extractors/_rustfn.py).
Props/PrinterFnsTables.lean proves them equal, for all inputs, to what the C11 model (`Model/LinePrinter.lean`) does."""
import os, re, sys
sys.path.insert(0, os.path.dirname(os.path.abspath(__file__)))
import _rustfn as R

NAME = "PrinterFns"

ATOMS = {
    "self.start": ("start", "Nat"), "self.end": ("stop", "Nat"), "self.current_pos": ("cur", "Int"), "self.screen_col": ("scol", "Nat"),
    "self.col": ("col", "Nat"), "self.tabstop": ("tabstop", "Nat"), "self.shift": ("shift", "Nat"), "self.text_width": ("textWidth", "Nat"),
    "self.container_width": ("cwidth", "Nat"), "self.hscroll_offset": ("hscroll", "Int"),
}


def indent(s, k=2):
    return "\n".join(" " * k + l for l in s.split("\n"))


def extract(repo):
    src = open(os.path.join(repo, "src", "util.rs")).read()
    impl = src[src.index("impl LinePrinter"):]
    out = ["namespace SkimModel.Generated.PrinterFns", ""]
    # reset
    body, _ = R.fn_body(impl, "reset")
    e = R.translate(body, ATOMS, result="(cur, scol, start, stop)")
    out += ["/-- `fn reset(&mut self)`: the new (current_pos, screen_col, start, end) -/",
            "def reset (col shift cwidth : Nat) (hscroll : Int) (cur : Int) (scol start stop : Nat) : Int × Nat × Nat × Nat :=", indent(e[0]), ""]
    # print_char_raw: which branch, and how many dots
    body, _ = R.fn_body(impl, "print_char_raw")
    if not re.search(r"let\s+w\s*=\s*ch\.width\(\)\.unwrap_or\(2\)\s*;", body):
        raise R.Unsupported("print_char_raw: `let w = ch.width().unwrap_or(2);` not found")
    b = re.sub(r"let\s+w\s*=\s*ch\.width\(\)\.unwrap_or\(2\)\s*;", "", body)
    b = re.sub(r"assert!\([^;]*\);", "", b)
    dots = r"for\s+_\s+in\s+0\s*\.\.\s*(?P<n>[^{]+?)\s*\{\s*self\.print_ch_to_canvas\(\s*canvas\s*,\s*'\.'\s*,\s*attr\s*,\s*skip\s*\)\s*;\s*\}"
    if len(re.findall(dots, b)) != 2:
        raise R.Unsupported("print_char_raw: expected two loops printing dots")
    b = re.sub(dots, lambda m: "kind = 1; dots = %s;" % m.group("n"), b)
    ch = r"self\.print_ch_to_canvas\(\s*canvas\s*,\s*ch\s*,\s*attr\s*,\s*skip\s*\)\s*;"
    if len(re.findall(ch, b)) != 1:
        raise R.Unsupported("print_char_raw: expected one branch printing the character")
    b = re.sub(ch, "kind = 2;", b)
    if "print_ch_to_canvas" in b or "canvas" in b:
        raise R.Unsupported("print_char_raw: a canvas write the translator does not understand")
    b = "let mut kind = 0; let mut dots = 0;\n" + b
    e = R.translate(b, ATOMS, result="(kind, dots, cur)", locals_={"w": "Nat"})
    out += ["/-- `fn print_char_raw`: (0 hidden | 1 dots | 2 the character, number of dots, new current_pos) for a character of width `w` -/",
            "def printCharRaw (start stop textWidth : Nat) (cur : Int) (w : Nat) : Nat × Nat × Int :=", indent(e[0]), ""]
    # the tab rule of print_char
    body, _ = R.fn_body(impl, "print_char")
    m = re.search(r"let\s+rest\s*=\s*(if.*?\})\s*;\s*for\s+_\s+in\s+0\s*\.\.\s*rest\s*\{\s*self\.print_char_raw\(\s*canvas\s*,\s*' '\s*,\s*attr\s*,\s*skip\s*\)\s*;\s*\}", body, re.S)
    if not m:
        raise R.Unsupported("print_char: the tab rule `let rest = ..; for _ in 0..rest { print_char_raw(' ') }` not found")
    e = R.translate(m.group(1), ATOMS)
    if e[1] != "Nat":
        raise R.Unsupported("print_char: rest has type %s" % e[1])
    out += ["/-- the number of blanks `fn print_char` prints for a tab -/",
            "def tabRest (tabstop : Nat) (cur : Int) : Nat :=", indent(e[0]), ""]
    out += ["end SkimModel.Generated.PrinterFns", ""]
    return "\n".join(out)


if __name__ == "__main__":
    print(extract(sys.argv[1] if len(sys.argv) > 1 else "/repo"))
