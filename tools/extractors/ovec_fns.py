"""src/orderedvec.rs TRANSLATED: `compare_item`, `sort_vector`, the index arithmetic of `get` (statement by statement, _rustfn), `len`,
and `append` as a parameterised statement sequence (which way the batch and the materialised prefix are sorted, what the movement loop
compares and when it stops, the demotion condition, what is pushed where).  Props/OVecFnsTables.lean proves that interpreting these
tables IS the C02 model (`OrderedVec.lt`, `sortVec`, `append`, the index of `get`) for every state and batch."""
import os, re, sys
sys.path.insert(0, os.path.dirname(os.path.abspath(__file__)))
import _rustfn as R

NAME = "OVecFns"


def norm(b):
    b = re.sub(r"//[^\n]*", "", b)
    b = re.sub(r"trace!\((?:[^()]|\([^()]*\))*\);", "", b)
    return re.sub(r"\s+", " ", b).strip()


def tf(b):
    return "true" if b else "false"


ORD = {"Less": ".less", "Greater": ".greater", "Equal": ".equal"}
LESS = r"self\.compare_item\(items\.last\(\)\.unwrap\(\), sorted\.last\(\)\.unwrap\(\)\) == Ordering::(\w+)"


def extract(repo):
    src = open(os.path.join(repo, "src", "orderedvec.rs")).read()
    # compare_item
    b = norm(R.fn_body(src, "compare_item")[0])
    m = re.fullmatch(r"if (!?)self\.tac \{ (a\.cmp\(b\)|b\.cmp\(a\)) \} else \{ (a\.cmp\(b\)|b\.cmp\(a\)) \}", b)
    if not m or m.group(2) == m.group(3):
        raise R.Unsupported("compare_item: not `if [!]self.tac { x.cmp(y) } else { y.cmp(x) }`")
    plain_is_ab = (m.group(2) == "a.cmp(b)") == (m.group(1) == "!")     # what is evaluated when tac is false
    # sort_vector: sort ascending, then reverse under a condition on (asc, tac) written in one of several ways
    b = norm(R.fn_body(src, "sort_vector")[0])
    m = re.fullmatch(r"(let (\w+) = asc (\^|==|!=) self\.tac; )?vec\.(?:par_sort|sort)\(\); if (!?)(\w+|asc (?:\^|==|!=) self\.tac) \{ vec\.reverse\(\); \}", b)
    if not m:
        raise R.Unsupported("sort_vector: not `[x = asc op tac;] sort; if [!]cond { reverse }`")
    OPS = {"^": "(asc != tac)", "!=": "(asc != tac)", "==": "(asc == tac)"}
    if m.group(1):
        if m.group(5) != m.group(2):
            raise R.Unsupported("sort_vector: the reverse condition is not the bound flag")
        cond = OPS[m.group(3)]
    else:
        mm = re.fullmatch(r"asc (\^|==|!=) self\.tac", m.group(5))
        if not mm:
            raise R.Unsupported("sort_vector: the reverse condition is not understood")
        cond = OPS[mm.group(1)]
    sort_rev = ("(!%s)" % cond) if m.group(4) else cond
    # get: the index read from `sorted` (None = the function returns None), statement by statement
    b = norm(R.fn_body(src, "get")[0])
    if not b.startswith("self.merge_till(index);"):
        raise R.Unsupported("get: does not start with merge_till(index)")
    b = b[len("self.merge_till(index);"):]
    b, nsub = re.subn(r"Some\(Ref::map\(self\.sorted\.borrow\(\), \|list\| &list\[(\w+)\]\)\)", r"Some(\1)", b)
    if nsub != 1:
        raise R.Unsupported("get: not exactly one `Some(Ref::map(self.sorted.borrow(), |list| &list[i]))`")
    A = {"self.tac": ("tac", "Bool"), "self.nosort": ("nosort", "Bool"), "self.len()": ("n", "Nat")}
    get_read = R.translate(b, A, locals_={"index": "Nat"})
    if get_read[1].strip("()") != "Option Nat":
        raise R.Unsupported("get: type %s" % get_read[1])
    # len
    b = norm(R.fn_body(src, "len")[0])
    SUM = r"self\.sub_vectors\.borrow\(\)\.iter\(\)\.map\((?:\|v\| v\.len\(\)|Vec::len)\)\.sum\(\)"
    if not (re.fullmatch(r"let (\w+) = self\.sorted\.borrow\(\)\.len\(\); let (\w+): usize = " + SUM + r"; (?:\1 \+ \2|\2 \+ \1)", b)
            or re.fullmatch(r"let (\w+): usize = " + SUM + r"; (?:self\.sorted\.borrow\(\)\.len\(\) \+ \1|\1 \+ self\.sorted\.borrow\(\)\.len\(\))", b)):
        raise R.Unsupported("len: not `sorted.len() + sum of the sub-vector lengths`")
    # append
    b = norm(R.fn_body(src, "append")[0])
    m = re.fullmatch(
        r"if self\.nosort \{ self\.sorted\.borrow_mut\(\)\.append\(&mut items\); return; \} "
        r"self\.sort_vector\(&mut items, (true|false)\); let mut sorted = self\.sorted\.borrow_mut\(\); "
        r"let mut items_smaller = Vec::new\(\); "
        r"(if !sorted\.is_empty\(\) \{ )?while items_smaller\.len\(\) < MAX_MOVEMENT && !items\.is_empty\(\) && " + LESS +
        r" \{ items_smaller\.push\(items\.pop\(\)\.unwrap\(\)\); \}( \})? "
        r"let too_many_moved = !items\.is_empty\(\) && !sorted\.is_empty\(\) && " + LESS + r"; "
        r"if !items\.is_empty\(\) \{ self\.sub_vectors\.borrow_mut\(\)\.push\(items\); \} "
        r"sorted\.append\(&mut items_smaller\); "
        r"if (!?)too_many_moved \{ (.*?) \} else \{ (.*?) \}", b)
    if not m or bool(m.group(2)) != bool(m.group(4)):
        raise R.Unsupported("append: statement sequence not understood")
    batch_asc, guarded, loop_ord, demote_ord, neg, br1, br2 = m.group(1), bool(m.group(2)), m.group(3), m.group(5), m.group(6), m.group(7), m.group(8)
    if neg:
        br1, br2 = br2, br1
    md = re.fullmatch(r"self\.sort_vector\(&mut sorted, (true|false)\); let old_vec = std::mem::take\(&mut \*\*sorted\); "
                      r"self\.sub_vectors\.borrow_mut\(\)\.push\(old_vec\);", br1)
    mk = re.fullmatch(r"self\.sort_vector\(&mut sorted, (true|false)\);", br2)
    if not md or not mk or loop_ord not in ORD or demote_ord not in ORD:
        raise R.Unsupported("append: the demote / keep branches are not understood")
    # merge_till
    b = norm(R.fn_body(src, "merge_till")[0])
    b = re.sub(r" ?\. ?", ".", b)
    mm = re.fullmatch(
        r"let mut sorted = self\.sorted\.borrow_mut\(\); let mut vectors = self\.sub_vectors\.borrow_mut\(\); "
        r"(?:if [^{]*\{ \} )?while ([^{]*?) \{ "
        r"let o_min_index = vectors\.iter\(\)\.map\(\|v\| v\.last\(\)\)\.enumerate\(\)\.filter\(\|\(_idx, item\)\| item\.is_some\(\)\)"
        r"\.(min_by|max_by)\(\|\(_, a\), \(_, b\)\| self\.compare_item\((a|b)\.unwrap\(\), (a|b)\.unwrap\(\)\)\)\.map\(\|\(idx, _\)\| idx\); "
        r"if o_min_index\.is_none\(\) \{ break; \} let min_index = o_min_index\.unwrap\(\); "
        r"let min_item = vectors\[min_index\]\.pop\(\); if min_item\.is_none\(\) \{ break; \} "
        r"(if vectors\[min_index\]\.is_empty\(\) \{ vectors\.remove\(min_index\); \} )?"
        r"sorted\.push\(min_item\.unwrap\(\)\); \}", b)
    if not mm or mm.group(3) == mm.group(4):
        raise R.Unsupported("merge_till: loop not understood")
    loop_cond = R.translate(mm.group(1), {"sorted.len()": ("sortedLen", "Nat")}, locals_={"index": "Nat"})
    out = ["set_option linter.unusedVariables false", "namespace SkimModel.Generated.OVecFns", "",
           "inductive Ord3 | less | greater | equal", "  deriving DecidableEq, Repr", "",
           "/-- `compare_item(a, b)` without `tac` is `a.cmp(b)` (with `tac` the operands are swapped) -/",
           "def comparePlainIsAB : Bool := %s" % tf(plain_is_ab), "",
           "/-- `sort_vector`: after the ascending sort, `vec.reverse()` runs under this condition -/",
           "def sortReverses (asc tac : Bool) : Bool := %s" % sort_rev, "",
           "/-- `get`: the index read from `sorted`, `none` = `None` is returned (`n` = `self.len()` after `merge_till`) -/",
           "def getRead (tac nosort : Bool) (n index : Nat) : Option Nat :=", "  " + get_read[0].replace("\n", "\n  "), "",
           "/-! `append` -/",
           "/-- `self.sort_vector(&mut items, asc)` of the batch -/", "def batchAsc : Bool := %s" % batch_asc,
           "/-- the movement loop runs only `if !sorted.is_empty()` -/", "def loopGuarded : Bool := %s" % tf(guarded),
           "/-- `compare_item(items.last(), sorted.last()) == Ordering::X` in the loop condition / in `too_many_moved` -/",
           "def loopOrd : Ord3 := %s" % ORD[loop_ord], "def demoteOrd : Ord3 := %s" % ORD[demote_ord],
           "/-- the `asc` of `sort_vector(&mut sorted, ..)` when the prefix is demoted / kept -/",
           "def demoteAsc : Bool := %s" % md.group(1), "def keepAsc : Bool := %s" % mk.group(1), "",
           "/-! `merge_till` -/",
           "/-- the condition of its `while` loop -/", "def mergeContinues (index sortedLen : Nat) : Bool :=", "  decide %s" % loop_cond[0],
           "/-- the head picked among the sub-vectors: `min_by` (not `max_by`) with `compare_item(a, b)` (not `(b, a)`) -/",
           "def pickIsMinBy : Bool := %s" % tf(mm.group(2) == "min_by"), "def pickComparesAB : Bool := %s" % tf(mm.group(3) == "a"),
           "/-- a sub-vector that became empty is removed -/", "def removesEmptied : Bool := %s" % tf(bool(mm.group(5))), "",
           "end SkimModel.Generated.OVecFns", ""]
    return "\n".join(out)


if __name__ == "__main__":
    print(extract(sys.argv[1] if len(sys.argv) > 1 else "/repo"))
