"""C07: constants of src/util.rs that the quoting proof depends on.

Emits SkimModel/Generated/Inject.lean with
  * fieldClass     the character class of RE_FIELDS  (`\\\\?(\\{ *-?[CLASS]*? *})`)
  * escapeClass    the character class of RE_ESCAPE
  * escapeTable    the arms of the `match` in escape_single_quote (matched text -> replacement)
  * escapeDefault  the `_ =>` arm
  * quoteOpen / quoteClose   the two halves of the `format!("'{}'", escape_single_quote(..))` wrapper
  * joinSep        the separator of the `{+..}` join
Fails (raises) when the source no longer has the shape it understands.
"""
import os, re

NAME = "Inject"


def rust_str(lit):
    """decode the inside of a normal (non-raw) Rust string literal"""
    out, i = [], 0
    while i < len(lit):
        c = lit[i]
        if c != "\\":
            out.append(ord(c))
            i += 1
            continue
        e = lit[i + 1]
        simple = {"n": 10, "t": 9, "r": 13, "0": 0, "\\": 92, "'": 39, '"': 34}
        if e in simple:
            out.append(simple[e])
            i += 2
        elif e == "x":
            out.append(int(lit[i + 2:i + 4], 16))
            i += 4
        elif e == "u":
            m = re.match(r"\{([0-9a-fA-F_]+)\}", lit[i + 2:])
            if not m:
                raise ValueError("bad \\u escape in %r" % lit)
            out.append(int(m.group(1).replace("_", ""), 16))
            i += 2 + m.end()
        else:
            raise ValueError("unknown escape \\%s in %r" % (e, lit))
    return out


def regex_class(body):
    """members of a simple regex character class body (literals, a-b ranges, \\x{..}/\\u{..}/\\U{..}, \\\\ \\] \\-)"""
    items, i = [], 0
    while i < len(body):
        c = body[i]
        if c == "\\":
            m = re.match(r"\\[xuU]\{([0-9a-fA-F]+)\}", body[i:])
            if m:
                items.append(int(m.group(1), 16))
                i += m.end()
                continue
            if body[i + 1] in "\\]-^[.":
                items.append(ord(body[i + 1]))
                i += 2
                continue
            raise ValueError("unsupported class escape in %r" % body)
        if c in "[]^&~":
            raise ValueError("unsupported class syntax in %r" % body)
        items.append(ord(c))
        i += 1
    # expand a-b ranges (a '-' that is neither first nor last)
    out, j = [], 0
    while j < len(items):
        if j + 2 < len(items) and items[j + 1] == ord("-"):
            lo, hi = items[j], items[j + 2]
            if lo > hi or hi - lo > 64:
                raise ValueError("unsupported range in %r" % body)
            out.extend(range(lo, hi + 1))
            j += 3
        else:
            out.append(items[j])
            j += 1
    seen, uniq = set(), []
    for x in out:
        if x not in seen:
            seen.add(x)
            uniq.append(x)
    return uniq


def lean_char(c):
    if c < 256:
        return "'\\x%02x'" % c
    if c < 0x10000:
        return "'\\u%04x'" % c
    raise ValueError("character U+%X outside the supported range" % c)


def lean_chars(cs):
    return "[" + ", ".join(lean_char(c) for c in cs) + "]"


def extract(repo):
    src = open(os.path.join(repo, "src", "util.rs")).read()

    m = re.search(r'static ref RE_FIELDS: Regex = Regex::new\(r"([^"]*)"\)\.unwrap\(\);', src)
    if not m:
        raise ValueError("RE_FIELDS not found")
    pat = m.group(1)
    sk = re.fullmatch(r"\\\\\?\(\\\{ \*-\?\[([^\]]*)\]\*\? \*\}\)", pat)
    if not sk:
        raise ValueError("RE_FIELDS no longer has the shape \\\\?(\\{ *-?[CLASS]*? *}) : %r" % pat)
    field_class = regex_class(sk.group(1))
    for forbidden in (ord(" "), ord("}"), ord("-"), ord("{"), ord("\\")):
        if forbidden in field_class:
            raise ValueError("RE_FIELDS class contains %r: the hand scanner's determinism argument no longer holds" % chr(forbidden))

    m = re.search(r'static ref RE_ESCAPE: Regex = Regex::new\(r"\[([^"]*)\]"\)\.unwrap\(\);', src)
    if not m:
        raise ValueError("RE_ESCAPE is not a single character class")
    escape_class = regex_class(m.group(1))

    m = re.search(r"pub fn escape_single_quote\(text: &str\) -> String \{\s*RE_ESCAPE\s*\.replace_all\(text, \|x: &Captures\| "
                  r"match x\.get\(0\)\.unwrap\(\)\.as_str\(\) \{(.*?)\}\)\s*\.to_string\(\)\s*\}", src, re.S)
    if not m:
        raise ValueError("escape_single_quote no longer has the shape RE_ESCAPE.replace_all(text, |x| match x.. { arms })")
    table, default = [], None
    arms = [a.strip() for a in m.group(1).strip().split("\n") if a.strip()]
    for a in arms:
        am = re.fullmatch(r'"((?:[^"\\]|\\.)*)" => "((?:[^"\\]|\\.)*)"\.to_string\(\),', a)
        dm = re.fullmatch(r'_ => "((?:[^"\\]|\\.)*)"\.to_string\(\),', a)
        if am:
            key = rust_str(am.group(1))
            if len(key) != 1:
                raise ValueError("escape arm key is not a single character: %r" % a)
            table.append((key[0], rust_str(am.group(2))))
        elif dm:
            default = rust_str(dm.group(1))
        else:
            raise ValueError("escape arm not understood: %r" % a)
    if default is None:
        raise ValueError("escape_single_quote: no default arm")

    body = re.search(r"pub fn inject_command<'a>\(.*?\n\}\n", src, re.S)
    if not body:
        raise ValueError("inject_command not found")
    body = body.group(0)
    wraps = re.findall(r'format!\("((?:[^"\\]|\\.)*)", escape_single_quote\(replacement\)\)', body)
    if len(wraps) != 2 or wraps[0] != wraps[1] or wraps[0].count("{}") != 1:
        raise ValueError("inject_command: expected two identical format!(\"..{}..\", escape_single_quote(replacement))")
    qo, qc = wraps[0].split("{}")
    if "{" in qo + qc or "}" in qo + qc:
        raise ValueError("inject_command: wrapper format has other format items")
    joins = re.findall(r'\.join\("((?:[^"\\]|\\.)*)"\)', body)
    if len(joins) != 1:
        raise ValueError("inject_command: expected exactly one .join(..)")
    for needle in ("RE_FIELDS.replace_all(cmd,", 'if &caps[0][0..1] == "\\\\"', "let range = range.trim();",
                   "if range.starts_with('+')", "let rest = &range[1..];", ".zip(indices.iter())"):
        if needle not in body:
            raise ValueError("inject_command: expected fragment missing: %s" % needle)

    L = ["namespace SkimModel.Generated.Inject", "",
         "/-- the character class of RE_FIELDS = `%s` -/" % pat.replace("/-", "/ -"),
         "def fieldClass : List Char := " + lean_chars(field_class), "",
         "/-- the character class of RE_ESCAPE -/",
         "def escapeClass : List Char := " + lean_chars(escape_class), "",
         "/-- arms of the `match` in `escape_single_quote`: matched character ↦ replacement -/",
         "def escapeTable : List (Char × List Char) := [" +
         ", ".join("(%s, %s)" % (lean_char(k), lean_chars(v)) for k, v in table) + "]", "",
         "/-- the `_ =>` arm -/",
         "def escapeDefault : List Char := " + lean_chars(default), "",
         "/-- `format!(\"%s\", …)` around every value -/" % wraps[0],
         "def quoteOpen : List Char := " + lean_chars(rust_str(qo)),
         "def quoteClose : List Char := " + lean_chars(rust_str(qc)), "",
         "/-- separator of the `{+…}` join -/",
         "def joinSep : List Char := " + lean_chars(rust_str(joins[0])), "",
         "end SkimModel.Generated.Inject", ""]
    return "\n".join(L)
