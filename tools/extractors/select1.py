"""The boolean conditions of handle_select1_or_exit0 (src/model.rs), translated to a small expression type.  Props/Select1Tables
proves (by cases over the atoms) that each is the condition the Session model uses, so a change of a condition in the source changes
the generated definition and a theorem stops checking.  Locals may be renamed and if/else may be re-oriented freely."""
import os, re, sys
sys.path.insert(0, os.path.dirname(os.path.abspath(__file__)))
import _rustcond as rc
from _rustcond import parse, body_of, strip_verif, cond_guarding, bound_name, one
NAME = "Select1"

BASE_ATOMS = {
    "self.matcher_control.is_none()": "mcNone", "self.matcher_control.is_some()": "mcSome",
    "self.select1": "select1", "self.exit0": "exit0", "self.sync": "sync",
}


def extract(repo):
    src = open(os.path.join(repo, "src", "model.rs")).read()
    s1 = strip_verif(body_of(src, "fn handle_select1_or_exit0(&mut self"))
    ic = bound_name(s1, r"num_not_taken\(\)\s*==\s*0", "num_not_taken() == 0")
    rs = bound_name(s1, r"is_done", "the reader's is_done()")
    ms = bound_name(s1, r"self\.matcher_control\.is_none\(\)", "`matcher_control.is_none()`")
    pr = bound_name(s1, r"&&", "the conjunction `processed`")
    nm = bound_name(s1, r"get_num_options\(\)", "the number of listed items")
    rc.ATOMS = dict(BASE_ATOMS)
    rc.ATOMS.update({rs: "rs", ic: "ic", ms: "ms", pr: "processed", "%s == 1" % nm: "one", "%s == 0" % nm: "zero"})
    defs = [
        ("s1Skip", cond_guarding(s1, "return;", "the early return of handle_select1_or_exit0")),
        ("s1MatcherStopped", one(r"let\s+%s\s*=\s*([^;]+);" % ms, s1, "the binding of `matcher finished`")),
        ("s1Processed", one(r"let\s+%s\s*=\s*([^;]+);" % pr, s1, "the binding of `processed`")),
        ("s1Accept", cond_guarding(s1, "Event::EvActAccept(None)", "the accept")),
        ("s1Abort", cond_guarding(s1, "Event::EvActAbort", "the abort")),
    ]
    # accept is tested before abort, and both (and the interactive fallback) only when `processed`
    if s1.index("Event::EvActAccept(None)") > s1.index("Event::EvActAbort"):
        raise Exception("select1: abort is now tested before accept")
    g = cond_guarding(s1, "self.select1 = false", "the interactive fallback")
    if "!" not in g:
        # the fallback is the ELSE of the abort test; cond_guarding reports it as the negation of that test
        raise Exception("select1: the interactive fallback is no longer the else-branch of the two tests")
    out = ["namespace SkimModel.Generated.Select1", "",
           "/-- the values the conditions of the select check are made of -/",
           "inductive Atom | rs | ic | ms | processed | mcNone | mcSome | select1 | exit0 | sync | one | zero",
           "  deriving DecidableEq, Repr", "",
           "inductive BExp | atom (a : Atom) | not (e : BExp) | and (a b : BExp) | or (a b : BExp)", "  deriving Repr", "",
           "def BExp.eval (v : Atom → Bool) : BExp → Bool",
           "  | .atom a => v a", "  | .not e => !(e.eval v)", "  | .and a b => a.eval v && b.eval v", "  | .or a b => a.eval v || b.eval v", ""]
    for name, rust in defs:
        rust = " ".join(rust.split())
        out.append("/-- `%s` -/" % rust)
        out.append("def %s : BExp := %s" % (name, parse(rust)))
        out.append("")
    # both decisions sit under `if processed`
    for needle in ("Event::EvActAccept(None)", "Event::EvActAbort"):
        outer = [c for c, t, e in rc.if_statements(s1) if needle in t and c.strip() == pr]
        if len(outer) != 1:
            raise Exception("select1: the decisions are no longer guarded by `if %s`" % pr)
    out += ["end SkimModel.Generated.Select1", ""]
    return "\n".join(out)


if __name__ == "__main__":
    print(extract(sys.argv[1] if len(sys.argv) > 1 else "/repo"))
