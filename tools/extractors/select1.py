"""The boolean conditions of handle_select1_or_exit0 (src/model.rs), translated to a
small expression type.  Props/C01 / C14 prove (by cases over the atoms) that each is the condition the Session model uses, so a
change of a condition in the source changes the generated definition and a theorem stops checking."""
import os, re
NAME = "Select1"
PROPS = ["C01", "C14"]

# Rust atoms -> Lean atoms
ATOMS = {
    "reader_stopped": "rs", "items_consumed": "ic", "matcher_stopped": "ms", "processed": "processed",
    "self.matcher_control.is_none()": "mcNone", "self.matcher_control.is_some()": "mcSome",
    "self.no_clear_if_empty": "nce", "matched.is_empty()": "resultEmpty",
    "self.select1": "select1", "self.exit0": "exit0", "self.sync": "sync",
    "num_matched == 1": "one", "num_matched == 0": "zero",
}


def tokenize(s):
    toks, i = [], 0
    s = s.strip()
    while i < len(s):
        c = s[i]
        if c.isspace():
            i += 1
        elif s.startswith("&&", i) or s.startswith("||", i):
            toks.append(s[i:i + 2]); i += 2
        elif c in "()!":
            # `!` of `!=` never occurs in these conditions; `(` may open a call `foo()` — those are inside atoms
            toks.append(c); i += 1
        else:
            # an atom: the longest known atom text starting here
            best = None
            for a in ATOMS:
                if s.startswith(a, i) and (best is None or len(a) > len(best)):
                    best = a
            if best is None:
                raise Exception("heartbeat: unknown atom at %r" % s[i:i + 40])
            toks.append(("atom", ATOMS[best])); i += len(best)
    return toks


def parse(s):
    toks = tokenize(s)
    pos = [0]

    def peek():
        return toks[pos[0]] if pos[0] < len(toks) else None

    def eat(t):
        if peek() != t:
            raise Exception("heartbeat: expected %r in %r" % (t, s))
        pos[0] += 1

    def p_or():
        e = p_and()
        while peek() == "||":
            pos[0] += 1
            e = "(.or %s %s)" % (e, p_and())
        return e

    def p_and():
        e = p_not()
        while peek() == "&&":
            pos[0] += 1
            e = "(.and %s %s)" % (e, p_not())
        return e

    def p_not():
        t = peek()
        if t == "!":
            pos[0] += 1
            return "(.not %s)" % p_not()
        if t == "(":
            pos[0] += 1
            e = p_or()
            eat(")")
            return e
        if isinstance(t, tuple):
            pos[0] += 1
            return "(.atom .%s)" % t[1]
        raise Exception("heartbeat: unexpected %r in %r" % (t, s))

    e = p_or()
    if pos[0] != len(toks):
        raise Exception("heartbeat: trailing tokens in %r" % s)
    return e


def body_of(src, sig):
    i = src.index(sig)
    j = src.index("{", i)
    depth, k = 0, j
    while True:
        if src[k] == "{":
            depth += 1
        elif src[k] == "}":
            depth -= 1
            if depth == 0:
                return src[j:k + 1]
        k += 1


def strip_verif(body):
    # drop the add-only hook lines (attribute line + the statement that follows it) and the comments
    body = re.sub(r"#\[cfg\(feature = \"verif\"\)\]\s*\n[^\n]*\n", "", body)
    return re.sub(r"//[^\n]*", "", body)


def one(pattern, text, what):
    ms = re.findall(pattern, text, re.S)
    if len(ms) != 1:
        raise Exception("heartbeat: expected exactly one %s, found %d" % (what, len(ms)))
    return ms[0]


def extract(repo):
    src = open(os.path.join(repo, "src", "model.rs")).read()
    s1 = strip_verif(body_of(src, "fn handle_select1_or_exit0(&mut self"))
    defs = []
    # handle_select1_or_exit0
    defs.append(("s1Skip", one(r"^\{\s*if ([^{]+)\{\s*return;", s1, "early return of handle_select1_or_exit0")))
    defs.append(("s1MatcherStopped", one(r"let matcher_stopped = ([^;]+);", s1, "`let matcher_stopped =`")))
    defs.append(("s1Processed", one(r"let processed = ([^;]+);", s1, "`let processed =` in handle_select1_or_exit0")))
    conds = re.findall(r"(?:if|else if) (num_matched == [01] && self\.\w+) \{", s1)
    if len(conds) != 2:
        raise Exception("heartbeat: expected the accept and the abort condition, found %r" % (conds,))
    defs.append(("s1Accept", conds[0]))
    defs.append(("s1Abort", conds[1]))
    if not re.search(r"if processed \{", s1):
        raise Exception("heartbeat: the decisions are no longer guarded by `if processed`")
    out = ["namespace SkimModel.Generated.Select1", "",
           "/-- the values the conditions of the heart-beat handler are made of -/",
           "inductive Atom | rs | ic | ms | processed | mcNone | mcSome | nce | resultEmpty | select1 | exit0 | sync | one | zero",
           "  deriving DecidableEq, Repr", "",
           "inductive BExp | atom (a : Atom) | not (e : BExp) | and (a b : BExp) | or (a b : BExp)", "  deriving Repr", "",
           "def BExp.eval (v : Atom → Bool) : BExp → Bool",
           "  | .atom a => v a", "  | .not e => !(e.eval v)", "  | .and a b => a.eval v && b.eval v", "  | .or a b => a.eval v || b.eval v", ""]
    for name, rust in defs:
        rust = " ".join(rust.split())
        out.append("/-- `%s` -/" % rust)
        out.append("def %s : BExp := %s" % (name, parse(rust)))
        out.append("")
    out += ["", "end SkimModel.Generated.Select1", ""]
    return "\n".join(out)


if __name__ == "__main__":
    import sys
    print(extract(sys.argv[1] if len(sys.argv) > 1 else "/repo"))
