"""src/util.rs `reshape_string` (which part of a too-wide line is shown: the shift handed to the line printer), TRANSLATED statement by
statement (tools/extractors/_rustfn.py).  `acc_width[i]` becomes `accAt acc i` (0 outside the vector), `usize` subtraction becomes
truncated subtraction; Props/ReshapeFnsTables.lean proves that wherever the hand-written models (`Positions.reshapeString`, C08, and
`LinePrinter.reshapeString`, C11) say "no panic, result r", the translated function returns r — and the models' no-panic theorems
(`c08_consumers_total`) cover the rest."""
import os, re, sys
sys.path.insert(0, os.path.dirname(os.path.abspath(__file__)))
import _rustfn as R

NAME = "ReshapeFns"


def extract(repo):
    src = open(os.path.join(repo, "src", "util.rs")).read()
    body, sig = R.fn_body(src, "reshape_string")
    if not re.search(r"container_width\s*:\s*usize\s*,\s*match_start\s*:\s*usize\s*,\s*match_end\s*:\s*usize", sig):
        raise R.Unsupported("reshape_string: signature %r" % sig)
    body = re.sub(r"//[^\n]*", "", body)
    call = "let acc_width = accumulate_text_width(text, tabstop);"
    if body.count(call) != 1 or body.count("acc_width") < 3:
        raise R.Unsupported("reshape_string: acc_width is not `accumulate_text_width(text, tabstop)`")
    body = body.replace(call, "")
    body = re.sub(r"acc_width\[([^\]]*)\]", r"acc_at(\1)", body)
    A = {"text.is_empty()": ("textEmpty", "Bool"), "acc_width.len()": ("len", "Nat")}
    e = R.translate(body, A, funcs={"acc_at": ("accAt acc", ["Nat"], "Nat")},
                    locals_={"container_width": "Nat", "match_start": "Nat", "match_end": "Nat"})
    if e[1] != "(Nat × Nat)":
        raise R.Unsupported("reshape_string: type %s" % e[1])
    out = ["set_option linter.unusedVariables false", "namespace SkimModel.Generated.ReshapeFns", "",
           "/-- `acc_width[i]` (0 where the Rust would panic) -/",
           "def accAt (acc : List Nat) (i : Nat) : Nat := acc[i]?.getD 0", "",
           "/-- `fn reshape_string(text, container_width, match_start, match_end, tabstop) -> (usize, usize)` with `acc` =",
           "    `accumulate_text_width(text, tabstop)`, `len = acc.len()`, `textEmpty = text.is_empty()` -/",
           "def reshape (textEmpty : Bool) (acc : List Nat) (len container_width match_start match_end : Nat) : Nat × Nat :=",
           "\n".join("  " + l for l in e[0].split("\n")), "",
           "end SkimModel.Generated.ReshapeFns", ""]
    return "\n".join(out)


if __name__ == "__main__":
    print(extract(sys.argv[1] if len(sys.argv) > 1 else "/repo"))
