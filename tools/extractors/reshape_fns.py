"""src/util.rs `accumulate_text_width` (initial width, loop body) and `reshape_string` (which part of a too-wide line is shown: the shift handed to the line printer), TRANSLATED statement by
statement (tools/extractors/_rustfn.py).  `acc_width[i]` becomes `accAt acc i` (0 outside the vector), `usize` subtraction becomes
truncated subtraction; Props/ReshapeFnsTables.lean proves that wherever the hand-written models (`Positions.reshapeString`, C08, and
`LinePrinter.reshapeString`, C11) say "no panic, result r", the translated function returns r — and the models' no-panic theorems
(`c08_consumers_total`) cover the rest."""
import os, re, sys
sys.path.insert(0, os.path.dirname(os.path.abspath(__file__)))
import _rustfn as R

NAME = "ReshapeFns"


def extract(repo):
    src = open(os.path.join(repo, "src", "util.rs")).read()
    body, sig = R.fn_body(src, "reshape_string")
    if not re.search(r"container_width\s*:\s*usize\s*,\s*match_start\s*:\s*usize\s*,\s*match_end\s*:\s*usize", sig):
        raise R.Unsupported("reshape_string: signature %r" % sig)
    body = re.sub(r"//[^\n]*", "", body)
    call = "let acc_width = accumulate_text_width(text, tabstop);"
    if body.count(call) != 1 or body.count("acc_width") < 3:
        raise R.Unsupported("reshape_string: acc_width is not `accumulate_text_width(text, tabstop)`")
    body = body.replace(call, "")
    body = re.sub(r"acc_width\[([^\]]*)\]", r"acc_at(\1)", body)
    A = {"text.is_empty()": ("textEmpty", "Bool"), "acc_width.len()": ("len", "Nat")}
    e = R.translate(body, A, funcs={"acc_at": ("accAt acc", ["Nat"], "Nat")},
                    locals_={"container_width": "Nat", "match_start": "Nat", "match_end": "Nat"})
    if e[1] != "(Nat × Nat)":
        raise R.Unsupported("reshape_string: type %s" % e[1])
    out = ["set_option linter.unusedVariables false", "namespace SkimModel.Generated.ReshapeFns", "",
           "/-- `acc_width[i]` (0 where the Rust would panic) -/",
           "def accAt (acc : List Nat) (i : Nat) : Nat := acc[i]?.getD 0", "",
           "/-- `fn reshape_string(text, container_width, match_start, match_end, tabstop) -> (usize, usize)` with `acc` =",
           "    `accumulate_text_width(text, tabstop)`, `len = acc.len()`, `textEmpty = text.is_empty()` -/",
           "def reshape (textEmpty : Bool) (acc : List Nat) (len container_width match_start match_end : Nat) : Nat × Nat :=",
           "\n".join("  " + l for l in e[0].split("\n")), "",
           ]
    # accumulate_text_width: `let mut ret = Vec::new(); let mut w = W0; for ch in text.chars() { BODY; ret.push(w); } ret`
    b = re.sub(r"\s+", " ", re.sub(r"//[^\n]*", "", R.fn_body(src, "accumulate_text_width")[0])).strip()
    m = re.fullmatch(r"let mut (\w+) = Vec::new\(\); let mut (\w+) = (\d+); for (\w+) in text\.chars\(\) \{ (.*) \1\.push\(\2\); \} \1", b)
    if not m:
        raise R.Unsupported("accumulate_text_width: not `ret = []; w = k; for ch in text.chars() { ..; ret.push(w); } ret`")
    # canonical local names (a renamed accumulator / loop variable is the same program)
    step = re.sub(r"(?<![.\w])%s\b(?!\()" % re.escape(m.group(2)), "w", m.group(5))
    step = re.sub(r"(?<![.\w])%s\b(?!\()" % re.escape(m.group(4)), "ch", step)
    init_w = m.group(3)
    step = step.replace("ch != '\\t'", "!(ch == '\\t')")
    for text, name in (("ch == '\\t'", "isTab"), ("ch.width().unwrap_or(2)", "chw")):
        if step.count(text) != 1:
            raise R.Unsupported("accumulate_text_width: `%s` not found exactly once in the loop body" % text)
        step = step.replace(text, name)
    if "ch" in re.findall(r"[A-Za-z_]+", step):
        raise R.Unsupported("accumulate_text_width: the loop body uses `ch` in another way")
    e2 = R.translate(step, {}, result="w", locals_={"w": "Nat", "tabstop": "Nat", "isTab": "Bool", "chw": "Nat"})
    out += ["/-- `let mut w = k` of `accumulate_text_width` -/", "def accInit : Nat := %s" % init_w, "",
            "/-- the body of its `for ch in text.chars()` loop up to `ret.push(w)`: the new `w` (`isTab` = `ch == '\\t'`, `chw` =",
            "    `ch.width().unwrap_or(2)`) -/",
            "def accStep (tabstop w : Nat) (isTab : Bool) (chw : Nat) : Nat :=",
            "\n".join("  " + l for l in e2[0].split("\n")), "",
            ]
    # src/selection.rs draw_item: the shift handed to the line printer, the container width
    sel = open(os.path.join(repo, "src", "selection.rs")).read()
    body = re.sub(r"//[^\n]*", "", R.fn_body(sel, "draw_item")[0])
    i = body.find("let shift = if")
    j = body.find("};", i)
    if i < 0 or j < 0 or "reshape_string(" not in body[:i] or ".shift(shift)" not in body[j:]:
        raise R.Unsupported("draw_item: `let shift = if .. ;` between reshape_string(..) and .shift(shift) not found")
    expr = body[i + len("let shift ="):j + 1]
    nbody = re.sub(r"\s+", " ", body)
    if "reshape_string( &item_text, container_width, match_start_char, match_end_char, self.tabstop, )" not in nbody \
            or nbody.count("let (shift, full_width) = reshape_string(") != 1:
        raise R.Unsupported("draw_item: reshape_string is not called as (&item_text, container_width, match_start_char, match_end_char, self.tabstop)")
    between = body[j + 2:body.find(".shift(shift)", j)]
    if re.search(r"\b(shift|full_width|container_width)\b\s*(?:[-+*/]?=)(?!=)", between) or re.search(r"let (?:mut )?\(?\s*(?:shift|full_width|container_width)\b", between):
        raise R.Unsupported("draw_item: shift / full_width / container_width is rebound before it is handed to the printer")
    if len(re.findall(r"let (?:mut )?container_width\b", body)) != 1 or not re.search(r"\.container_width\(container_width\)\s*\.shift\(shift\)\s*\.text_width\(full_width\)", body):
        raise R.Unsupported("draw_item: the printer is not built from container_width / shift / full_width")
    call = "self.calc_skip_width(&item_text)"
    if expr.count(call) > 1:
        raise R.Unsupported("draw_item: calc_skip_width called more than once")
    expr = expr.replace(call, "skip")
    e3 = R.translate(expr, {"self.no_hscroll": ("noHscroll", "Bool"), "self.keep_right": ("keepRight", "Bool")},
                     locals_={"skip": "Nat", "match_start_char": "Nat", "match_end_char": "Nat", "full_width": "Nat",
                              "container_width": "Nat", "shift": "Nat"})
    if e3[1] not in ("Nat", "Lit"):
        raise R.Unsupported("draw_item: shift has type %s" % e3[1])
    m = re.search(r"let container_width = ([^;]*);", body)
    if not m:
        raise R.Unsupported("draw_item: container_width not found")
    e4 = R.translate(m.group(1), {}, locals_={"screen_width": "Nat"})
    m = re.search(r"if screen_width < (\d+) \{\s*return Err\(", body)
    if not m:
        raise R.Unsupported("draw_item: the `screen width is too small` guard not found")
    out += ["/-- `draw_item`: the `shift` handed to the line printer (`skip` = `self.calc_skip_width(&item_text)`, `shift` / `full_width` =",
            "    what `reshape_string` returned) -/",
            "def drawShift (noHscroll keepRight : Bool) (skip match_start_char match_end_char full_width container_width shift : Nat) : Nat :=",
            "\n".join("  " + l for l in e3[0].split("\n")), "",
            "/-- `let container_width = ..` -/", "def containerWidth (screen_width : Nat) : Nat :=", "  " + e4[0], "",
            "/-- `if screen_width < k { return Err(..) }` -/", "def minScreenWidth : Nat := %s" % m.group(1), "",
            ]
    # draw_item: (match_start_char, match_end_char)
    nb = re.sub(r"\s+", " ", body)
    m = re.search(r"let \(match_start_char, match_end_char\) = match matched_item\.matched_range \{ "
                  r"Some\(MatchRange::Chars\(ref matched_indices\)\) => \{ (.*?) \} "
                  r"Some\(MatchRange::ByteRange\(match_start, match_end\)\) => \{ "
                  r"let match_start_char = item_text\[(\w*)\.\.(\w*)\]\.chars\(\)\.count\(\); "
                  r"let diff = item_text\[(\w*)\.\.(\w*)\]\.chars\(\)\.count\(\); "
                  r"\(match_start_char, match_start_char \+ diff\) \} None => \((\d+), (\d+)\), \};", nb)
    BOUND = {"": ".open", "match_start": ".start", "match_end": ".stop"}
    if not m or any(x not in BOUND for x in m.group(2, 3, 4, 5)):
        raise R.Unsupported("draw_item: (match_start_char, match_end_char) not understood")
    chars_arm = re.sub(r"matched_indices\[([^\]]*)\]", r"idx_at(\1)", m.group(1))
    e5 = R.translate(chars_arm, {"matched_indices.is_empty()": ("isEmpty", "Bool"), "matched_indices.len()": ("len", "Nat")},
                     funcs={"idx_at": ("accAt v", ["Nat"], "Nat")})
    if e5[1] != "(Nat × Nat)":
        raise R.Unsupported("draw_item: the Chars arm has type %s" % e5[1])
    out += ["/-- a bound of a slice of `item_text`: absent, `match_start`, `match_end` -/",
            "inductive Bound | open | start | stop", "  deriving DecidableEq, Repr", "",
            "/-- `draw_item`, the `Chars(matched_indices)` arm of `(match_start_char, match_end_char)` -/",
            "def matchStartEndChars (isEmpty : Bool) (v : List Nat) (len : Nat) : Nat × Nat :=",
            "\n".join("  " + l for l in e5[0].split("\n")), "",
            "/-- the `ByteRange` arm: `match_start_char` = chars of `item_text[a..b]`, `diff` = chars of `item_text[c..d]`, result",
            "    `(match_start_char, match_start_char + diff)` -/",
            "def startSlice : Bound × Bound := (%s, %s)" % (BOUND[m.group(2)], BOUND[m.group(3)]),
            "def diffSlice : Bound × Bound := (%s, %s)" % (BOUND[m.group(4)], BOUND[m.group(5)]), "",
            "/-- the `None` arm -/", "def matchStartEndNone : Nat × Nat := (%s, %s)" % (m.group(6), m.group(7)), ""]
    # calc_skip_width
    b = re.sub(r"\s+", " ", re.sub(r"//[^\n]*", "", R.fn_body(sel, "calc_skip_width")[0])).strip()
    m = re.fullmatch(r"let skip = if self\.skip_to_pattern\.is_none\(\) \{ (\d+) \} else \{ let regex = self\.skip_to_pattern\.as_ref\(\)\.unwrap\(\); "
                     r"if let Some\(mat\) = regex\.find\(text\) \{ text\[\.\.mat\.start\(\)\]\.width_cjk\(\) \} else \{ (\d+) \} \}; (.*)", b)
    if not m:
        raise R.Unsupported("calc_skip_width: not `skip = no pattern ? k : (first match ? width before it : k'); tail`")
    e6 = R.translate(m.group(3), {}, locals_={"skip": "Nat"})
    if e6[1] not in ("Nat", "Lit"):
        raise R.Unsupported("calc_skip_width: tail has type %s" % e6[1])
    out += ["/-- `calc_skip_width`: `skip` without a pattern, without a match, and what is returned for a given `skip` -/",
            "def skipNoPattern : Nat := %s" % m.group(1), "def skipNoMatch : Nat := %s" % m.group(2),
            "def skipTail (skip : Nat) : Nat :=", "  " + e6[0], "",
            "end SkimModel.Generated.ReshapeFns", ""]
    return "\n".join(out)


if __name__ == "__main__":
    print(extract(sys.argv[1] if len(sys.argv) > 1 else "/repo"))
