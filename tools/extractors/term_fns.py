"""src/engine/factory.rs: `ExactOrFuzzyEngineFactory::create_engine_with_case` — the decoding of one search term (the leading `'`,
`!`, `^`, the trailing `$`, the empty term, exact mode) — TRANSLATED statement by statement to a small program (Generated/TermOps.lean).
Props/TermOpsTables.lean proves that interpreting the program IS the C03 model's `decodeTerm`, for every term and both exact modes.
Fails closed on any statement it does not recognise."""
import os, re, sys
sys.path.insert(0, os.path.dirname(os.path.abspath(__file__)))
import _rustfn as R

NAME = "TermOps"

SIMPLE = [
    (r"exact = true;", ".setExact"),
    (r"param\.inverse = true;", ".setInverse"),
    (r"param\.prefix = true;", ".setPrefix"),
    (r"param\.postfix = true;", ".setPostfix"),
    (r"query = &query\[1\.\.\];", ".dropFirst"),
    (r"query = &query\[\.\.\(?query\.len\(\) - 1\)?\];", ".dropLast"),
]
FUZZY_RET = (r"return Box::new\( FuzzyEngine::builder\(\) \.query\(&query\[1\.\.\]\) \.algorithm\(self\.fuzzy_algorithm\) \.case\(case\) "
             r"\.rank_builder\(self\.rank_builder\.clone\(\)\) \.build\(\), \);")
ALL_RET = r"return Box::new\( MatchAllEngine::builder\(\) \.rank_builder\(self\.rank_builder\.clone\(\)\) \.build\(\), \);"
FINISH = (r"if exact \{ Box::new\( ExactEngine::builder\(query, param\) \.rank_builder\(self\.rank_builder\.clone\(\)\) \.build\(\), \) \} else \{ "
          r"Box::new\( FuzzyEngine::builder\(\) \.query\(query\) \.algorithm\(self\.fuzzy_algorithm\) \.case\(case\) "
          r"\.rank_builder\(self\.rank_builder\.clone\(\)\) \.build\(\), \) \}")


def norm(body):
    b = re.sub(r"//[^\n]*", "", body)
    return re.sub(r"\s+", " ", b).strip()


def simples(t):
    """a block of simple statements -> list"""
    out, i = [], 0
    t = t.strip()
    while i < len(t):
        if t[i] == " ":
            i += 1
            continue
        for pat, op in SIMPLE:
            m = re.match(pat, t[i:])
            if m:
                out.append(op)
                i += m.end()
                break
        else:
            raise R.Unsupported("factory.rs: statement not understood: %r" % t[i:i + 70])
    return out


def block_at(t, i):
    """t[i] == '{': returns (inner text, index after the closing brace)"""
    depth, j = 0, i
    while j < len(t):
        if t[j] == "{":
            depth += 1
        elif t[j] == "}":
            depth -= 1
            if depth == 0:
                return t[i + 1:j], j + 1
        j += 1
    raise R.Unsupported("unbalanced braces")


def lchar(c):
    return {"\\'": "'\\''"}.get(c, "'%s'" % c)


def extract(repo):
    src = open(os.path.join(repo, "src", "engine", "factory.rs")).read()
    src = src[src.index("impl MatchEngineFactory for ExactOrFuzzyEngineFactory"):]
    body, sig = R.fn_body(src, "create_engine_with_case")
    t = norm(body)
    pre = r"let mut query = query; let mut exact = false; let mut param = ExactMatchingParam::default\(\); param\.case = case; "
    m = re.match(pre, t)
    if not m:
        raise R.Unsupported("factory.rs: the preamble of create_engine_with_case is not understood")
    i = m.end()
    prog = []
    while i < len(t):
        rest = t[i:]
        if rest[0] == " ":
            i += 1
            continue
        m = re.match(FINISH + r"$", rest)
        if m:
            prog.append(".finish")
            i += m.end()
            continue
        m = re.match(r"if query\.(starts_with|ends_with)\('(\\?.)'\) \{", rest)
        if m:
            inner, j = block_at(rest, m.end() - 1)
            inner = inner.strip()
            kind = ".ifStarts" if m.group(1) == "starts_with" else ".ifEnds"
            m2 = re.match(r"if self\.exact_mode \{ " + FUZZY_RET + r" \} else \{(.*)\}$", inner)
            if m2:
                if kind != ".ifStarts":
                    raise R.Unsupported("factory.rs: exact-mode early return under ends_with")
                prog.append("(.ifStartsFuzzyInExactMode %s [%s])" % (lchar(m.group(2)), ", ".join(simples(m2.group(1)))))
            else:
                prog.append("(%s %s [%s])" % (kind, lchar(m.group(2)), ", ".join(simples(inner))))
            i += j
            continue
        m = re.match(r"if query\.is_empty\(\) \{ " + ALL_RET + r" \}", rest)
        if m:
            prog.append(".ifEmptyReturnAll")
            i += m.end()
            continue
        m = re.match(r"if self\.exact_mode \{", rest)
        if m:
            inner, j = block_at(rest, m.end() - 1)
            prog.append("(.ifExactMode [%s])" % ", ".join(simples(inner)))
            i += j
            continue
        raise R.Unsupported("factory.rs: statement not understood: %r" % rest[:80])
    if not prog or prog[-1] != ".finish":
        raise R.Unsupported("factory.rs: create_engine_with_case does not end in `if exact { Exact } else { Fuzzy }`")
    out = ["namespace SkimModel.Generated.TermOps", "",
           "inductive Simple | setExact | setInverse | setPrefix | setPostfix | dropFirst | dropLast", "  deriving DecidableEq, Repr", "",
           "inductive Stmt",
           "  | ifStarts (c : Char) (body : List Simple)                    -- if query.starts_with(c) { body }",
           "  | ifEnds (c : Char) (body : List Simple)                      -- if query.ends_with(c) { body }",
           "  | ifStartsFuzzyInExactMode (c : Char) (body : List Simple)    -- if query.starts_with(c) { if self.exact_mode { return Fuzzy(&query[1..]) } else { body } }",
           "  | ifEmptyReturnAll                                           -- if query.is_empty() { return MatchAll }",
           "  | ifExactMode (body : List Simple)                           -- if self.exact_mode { body }",
           "  | finish                                                     -- if exact { Exact(query, param) } else { Fuzzy(query) }",
           "  deriving Repr", "",
           "/-- `ExactOrFuzzyEngineFactory::create_engine_with_case`, statement by statement -/",
           "def program : List Stmt := [", ",\n".join("  " + p for p in prog), "]", "",
           "end SkimModel.Generated.TermOps", ""]
    return "\n".join(out)


if __name__ == "__main__":
    print(extract(sys.argv[1] if len(sys.argv) > 1 else "/repo"))
