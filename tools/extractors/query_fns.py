"""src/query.rs: the editing actions of `Query` that are pure stack programs over the two halves of the line (`before` / `after`,
both `Vec<char>` with the cursor between their tops) TRANSLATED to a small instruction list (push / pop / move one / pop-while into
the kill vector / move-while / move all / take into the kill buffer / save the kill vector), plus the event -> method table of
`Query::handle`.  Props/QueryOpsTables.lean proves that interpreting each list IS the C18 model's action, for every editor state.
Fails closed on any statement it does not recognise."""
import os, re, sys
sys.path.insert(0, os.path.dirname(os.path.abspath(__file__)))
import _rustfn as R

NAME = "QueryOps"

METHODS = ["act_add_char", "act_backward_delete_char", "act_delete_char", "act_backward_char", "act_forward_char",
           "act_unix_word_rubout", "act_backward_kill_word", "act_kill_word", "act_backward_word", "act_forward_word",
           "act_beginning_of_line", "act_end_of_line", "act_kill_line", "act_line_discard"]
PRED = {"is_whitespace": ".ws", "is_alphanumeric": ".alnum"}


def norm(body):
    b = re.sub(r"//[^\n]*", "", body)
    return re.sub(r"\s+", " ", b).strip()


def ops_of(body):
    t = norm(body)
    names = {}          # local name -> ".before" / ".after"
    out = []
    i = 0
    MOVE1 = r"if let Some\((?P<c>\w+)\) = (?P<src>\w+)\.pop\(\) \{ (?P<dst>\w+)\.push\((?P=c)\); \}"

    def stk(n):
        if n not in names:
            raise R.Unsupported("query.rs: `%s` is not one of the two halves of the line" % n)
        return names[n]
    while i < len(t):
        rest = t[i:]
        if rest[0] in "{} ":
            i += 1
            continue
        m = re.match(r"let \((\w+), (\w+)\) = self\.get_query_ref\(\);", rest)
        if m:
            names = {}
            if m.group(1) != "_":
                names[m.group(1)] = ".before"
            if m.group(2) != "_":
                names[m.group(2)] = ".after"
            i += m.end(); continue
        m = re.match(r"let mut yank = Vec::new\(\);", rest)
        if m:
            i += m.end(); continue
        m = re.match(r"(\w+)\.push\(ch\);", rest)
        if m:
            out.append("(.push %s)" % stk(m.group(1))); i += m.end(); continue
        m = re.match(r"let _ = (\w+)\.pop\(\);", rest)
        if m:
            out.append("(.pop1 %s)" % stk(m.group(1))); i += m.end(); continue
        m = re.match(MOVE1, rest)
        if m:
            out.append("(.move1 %s %s)" % (stk(m.group("src")), stk(m.group("dst")))); i += m.end(); continue
        m = re.match(r"while !(\w+)\.is_empty\(\) && (!?)\1\[\1\.len\(\) - 1\]\.(is_whitespace|is_alphanumeric)\(\) \{ ", rest)
        if m:
            src, neg, pred = m.group(1), m.group(2) == "!", PRED[m.group(3)]
            inner = rest[m.end():]
            m2 = re.match(r"yank\.push\((\w+)\.pop\(\)\.unwrap\(\)\); \}", inner)
            if m2 and m2.group(1) == src:
                out.append("(.yankWhile %s %s %s)" % (stk(src), pred, "true" if neg else "false")); i += m.end() + m2.end(); continue
            m2 = re.match(MOVE1 + r" \}", inner)
            if m2 and m2.group("src") == src:
                out.append("(.moveWhile %s %s %s %s)" % (stk(src), stk(m2.group("dst")), pred, "true" if neg else "false")); i += m.end() + m2.end(); continue
            raise R.Unsupported("query.rs: loop body not understood: %r" % inner[:80])
        m = re.match(r"while !(?P<w>\w+)\.is_empty\(\) \{ " + MOVE1 + r" \}", rest)
        if m:
            if m.group("src") != m.group("w"):
                raise R.Unsupported("query.rs: move-all loop pops another vector than it tests")
            out.append("(.moveAll %s %s)" % (stk(m.group("w")), stk(m.group("dst")))); i += m.end(); continue
        m = re.match(r"let (\w+) = (?:std::)?mem::take\((\w+)\); self\.save_yank\(\1, (true|false)\);", rest)
        if m:
            out.append("(.takeYank %s %s)" % (stk(m.group(2)), m.group(3))); i += m.end(); continue
        m = re.match(r"self\.save_yank\(yank, (true|false)\);", rest)
        if m:
            out.append("(.saveYank %s)" % m.group(1)); i += m.end(); continue
        raise R.Unsupported("query.rs: statement not understood: %r" % rest[:80])
    return out


def extract(repo):
    src = open(os.path.join(repo, "src", "query.rs")).read()
    out = ["namespace SkimModel.Generated.QueryOps", "",
           "inductive Stk | before | after", "  deriving DecidableEq, Repr", "",
           "inductive Pred | ws | alnum", "  deriving DecidableEq, Repr", "",
           "/-- one statement of an editing action (see tools/extractors/query_fns.py for the Rust each stands for) -/",
           "inductive Op", "  | push (s : Stk)", "  | pop1 (s : Stk)", "  | move1 (src dst : Stk)",
           "  | yankWhile (src : Stk) (p : Pred) (neg : Bool)", "  | moveWhile (src dst : Stk) (p : Pred) (neg : Bool)",
           "  | moveAll (src dst : Stk)", "  | takeYank (src : Stk) (rev : Bool)", "  | saveYank (rev : Bool)", "  deriving DecidableEq, Repr", ""]
    for mth in METHODS:
        body, _ = R.fn_body(src, mth)
        ops = ops_of(body)
        out += ["/-- `fn %s` -/" % mth, "def %s : List Op := [%s]" % (mth, ", ".join(ops)), ""]
    # save_yank: empty vector => nothing; clear; reverse ? rev order : as is
    body, sig = R.fn_body(src, "save_yank")
    t = norm(body)
    if not re.fullmatch(r"if yank\.is_empty\(\) \{ return; \} self\.yank\.clear\(\); if reverse \{ self\.yank\.append\(&mut yank\.into_iter\(\)\.rev\(\)\.collect\(\)\); \} else \{ self\.yank\.append\(&mut yank\); \}", t):
        raise R.Unsupported("query.rs: save_yank is not `empty => return; clear; append (reversed if reverse)`")
    out += ["/-- `fn save_yank` has the shape the interpreter assumes (empty vector: nothing; else the kill buffer becomes the vector, reversed if asked) -/",
            "def saveYankShapeOk : Bool := true", ""]
    # the dispatch of Query::handle: event -> method
    hb, _ = R.fn_body(src[src.index("impl EventHandler for Query"):], "handle")
    table = []
    for m in re.finditer(r"((?:EvAct\w+\s*\|\s*)*EvAct\w+)\s*=>\s*\{?\s*self\.(\w+)\(\)\s*;?\s*\}?\s*,?", hb):
        for ev in re.split(r"\s*\|\s*", m.group(1)):
            table.append((ev.strip(), m.group(2)))
    if len(table) < 15:
        raise R.Unsupported("query.rs: the event table of Query::handle was not understood (%d arms)" % len(table))
    out += ["/-- `Query::handle`: event -> the method it calls (arms of the form `Ev => self.method()`) -/",
            "def dispatch : List (String × String) := [", ",\n".join('  ("%s", "%s")' % p for p in table), "]", ""]
    out += ["end SkimModel.Generated.QueryOps", ""]
    return "\n".join(out)


if __name__ == "__main__":
    print(extract(sys.argv[1] if len(sys.argv) > 1 else "/repo"))
