"""src/helper/item.rs: the glue of `DefaultSkimItem::new` (which text is kept as original, which is shown and matched — transformed
and / or ANSI-parsed — and ON WHICH TEXT the --nth ranges are computed) and `DefaultSkimItem::output`, TRANSLATED to Lean with the
library functions as parameters (tools/extractors/_rustfn.py).  Props/ItemFnsTables.lean proves the translated glue equal to the
item construction / output of the C06 model (`Reader.newDefault`, `Item.output`) and that the matching ranges are taken on the
stripped ITEM text (C12 / C06: --nth restricts matching on what is shown and matched)."""
import os, re, sys
sys.path.insert(0, os.path.dirname(os.path.abspath(__file__)))
import _rustfn as R

NAME = "ItemFns"
FUNCS = {"parse_ansi": ("parseAnsi", ["Str"], "Ansi"), "transform": ("transform", ["Str"], "Str"), "plain": ("plain", ["Str"], "Ansi"),
         "stripped": ("stripped", ["Ansi"], "Str"), "ranges": ("ranges", ["Str"], "Ranges"), "has_attrs": ("hasAttrs", ["Ansi"], "Bool"),
         "into_inner": ("stripped", ["Ansi"], "Str")}


def indent(s, k=2):
    return "\n".join(" " * k + l for l in s.split("\n"))


def extract(repo):
    src = open(os.path.join(repo, "src", "helper", "item.rs")).read()
    out = ["namespace SkimModel.Generated.ItemFns", ""]
    body, sig = R.fn_body(src[src.index("impl DefaultSkimItem"):], "new")
    if not re.search(r"orig_text\s*:\s*String\s*,\s*ansi_enabled\s*:\s*bool\s*,\s*trans_fields\s*:\s*&\[FieldRange\]\s*,\s*matching_fields\s*:\s*&\[FieldRange\]", sig):
        raise R.Unsupported("DefaultSkimItem::new: signature %r" % sig[:120])
    b = re.sub(r"//[^\n]*", "", body)
    b = re.sub(r"let\s+mut\s+ansi_parser\s*:\s*ANSIParser\s*=\s*Default::default\(\)\s*;", "", b)
    b = b.replace("!trans_fields.is_empty()", "use_trans").replace("!matching_fields.is_empty()", "use_match")
    b = re.sub(r"parse_transform_fields\(\s*delimiter\s*,\s*&\s*(\w+)\s*,\s*trans_fields\s*,?\s*\)", r"transform(\1)", b)
    b = re.sub(r"ansi_parser\.parse_ansi\(\s*&\s*", "parse_ansi(", b)
    b = re.sub(r"(transform\(\w+\)|\borig_text)\.into\(\)", r"plain(\1)", b)
    b = re.sub(r"(\w+)\.stripped\(\)", r"stripped(\1)", b)
    b = re.sub(r"parse_matching_fields\(\s*delimiter\s*,\s*(.*?)\s*,\s*matching_fields\s*,?\s*\)", r"ranges(\1)", b, flags=re.S)
    b = re.sub(r"Box::new\(\s*(ranges\(.*?\)\))\s*\)", r"\1", b, flags=re.S)
    b = re.sub(r"(?<!&)&\s*(?=[A-Za-z_])", "", b)        # borrows
    m = re.search(r"DefaultSkimItem\s*\{\s*orig_text\s*,\s*text\s*,\s*matching_ranges\s*,?\s*\}\s*$", b.strip())
    if not m:
        raise R.Unsupported("DefaultSkimItem::new does not end in `DefaultSkimItem { orig_text, text, matching_ranges }`")
    b = b.strip()[:m.start()] + "(orig_text, text, matching_ranges)"
    if "trans_fields" in b or "matching_fields" in b or "delimiter" in b or "ansi_parser" in b:
        raise R.Unsupported("DefaultSkimItem::new: a use of the options the translator does not understand")
    e = R.translate(b, {"use_trans": ("useTrans", "Bool"), "use_match": ("useMatch", "Bool"), "ansi_enabled": ("ansi", "Bool")},
                    funcs=FUNCS, locals_={"orig_text": "Str"})
    params = ("{Str Ansi Ranges : Type} (transform : Str → Str) (parseAnsi plain : Str → Ansi) (stripped : Ansi → Str) "
              "(hasAttrs : Ansi → Bool) (ranges : Str → Ranges)")
    out += ["/-- `DefaultSkimItem::new(orig_text, ansi_enabled, trans_fields, matching_fields, delimiter)`: (orig_text kept, text, matching_ranges);",
            "    `useTrans` = `!trans_fields.is_empty()`, `useMatch` = `!matching_fields.is_empty()`, `plain` = `.into()` -/",
            "def itemNew %s (orig_text : Str) (ansi useTrans useMatch : Bool) : Option Str × Ansi × Option Ranges :=" % params, indent(e[0]), ""]
    # output
    body, _ = R.fn_body(src[src.index("impl SkimItem for DefaultSkimItem"):], "output")
    b = re.sub(r"//[^\n]*", "", body)
    b = re.sub(r"let\s+mut\s+ansi_parser\s*:\s*ANSIParser\s*=\s*Default::default\(\)\s*;", "", b)
    b = re.sub(r"ansi_parser\.parse_ansi\(\s*self\.orig_text\.as_ref\(\)\.unwrap\(\)\s*\)", "parse_ansi(orig_unwrapped)", b)
    b = re.sub(r"Cow::Borrowed\(\s*self\.orig_text\.as_ref\(\)\.unwrap\(\)\s*\)", "orig_unwrapped", b)
    b = re.sub(r"Cow::Borrowed\(\s*self\.text\.stripped\(\)\s*\)", "stripped(self_text)", b)
    b = b.replace("self.orig_text.is_some()", "orig_is_some").replace("self.text.has_attrs()", "has_attrs(self_text)")
    b = re.sub(r"(\w+)\.into_inner\(\)", r"into_inner(\1)", b)
    if "self." in b or "Cow" in b:
        raise R.Unsupported("DefaultSkimItem::output: not understood: %r" % b.strip()[:100])
    e = R.translate(b, {"orig_is_some": ("origIsSome", "Bool"), "orig_unwrapped": ("orig", "Str"), "self_text": ("text", "Ansi")}, funcs=FUNCS)
    if e[1] != "Str":
        raise R.Unsupported("DefaultSkimItem::output: type %s" % e[1])
    out += ["/-- `DefaultSkimItem::output`: `orig` = the kept original (meaningful when `origIsSome`), `text` = the item text -/",
            "def itemOutput %s (origIsSome : Bool) (orig : Str) (text : Ansi) : Str :=" % params, indent(e[0]), "",
            "end SkimModel.Generated.ItemFns", ""]
    return "\n".join(out)


if __name__ == "__main__":
    print(extract(sys.argv[1] if len(sys.argv) > 1 else "/repo"))
