"""src/engine/andor.rs `AndEngine::merge_matched_items` and src/lib.rs `MatchResult::range_char_indices`, TRANSLATED:
  * which result's rank the conjunction reports (`items[N].rank`),
  * what each kind of result contributes to the collected positions (ByteRange: its `range_char_indices(text)`, Chars: the vector),
  * the passes run over the collected vector afterwards, in source order (`sort`, `dedup`, ...),
  * the two slices of `text` whose characters `range_char_indices` counts and whether the second count is added to the first.
Props/AndMergeTables.lean proves that interpreting these tables IS `Positions.mergeMatched` / `Positions.byteToCharRange`."""
import os, re, sys
sys.path.insert(0, os.path.dirname(os.path.abspath(__file__)))
import _rustfn as R

NAME = "AndMerge"


def norm(b):
    b = re.sub(r"//[^\n]*", "", b)
    return re.sub(r"\s+", " ", b).strip()


BOUND = {"": ".open", "start": ".start", "end": ".stop"}
PASSES = {"sort": ".sort", "sort_unstable": ".sort", "dedup": ".dedup", "reverse": ".reverse"}


def extract(repo):
    andor = open(os.path.join(repo, "src", "engine", "andor.rs")).read()
    lib = open(os.path.join(repo, "src", "lib.rs")).read()
    b = norm(R.fn_body(andor, "merge_matched_items")[0])
    m = re.fullmatch(r"let rank = items\[(\d+)\]\.rank; let mut ranges = vec!\[\]; for item in items \{ match item\.matched_range \{ "
                     r"MatchRange::ByteRange\((?:\.\.|[\w, ]*)\) => \{ (.*?) \} MatchRange::Chars\(vec\) => \{ (.*?) \} \} \} "
                     r"((?:ranges\.\w+\(\); )*)MatchResult \{ rank, matched_range: MatchRange::Chars\(ranges\), \}", b)
    if not m:
        raise R.Unsupported("merge_matched_items: not `rank of one result; collect per result; passes; Chars(ranges)`")
    rank_from, byte_arm, chars_arm, passes = m.group(1), m.group(2), m.group(3), m.group(4)
    if byte_arm == "ranges.extend(item.range_char_indices(text));":
        byte_kind = ".charIndices"
    else:
        raise R.Unsupported("merge_matched_items: the ByteRange arm is not `ranges.extend(item.range_char_indices(text))`")
    if chars_arm in ("ranges.extend(vec.iter());", "ranges.extend(vec);", "ranges.extend(vec.into_iter());",
                     "ranges.extend(vec.iter().copied());", "ranges.extend_from_slice(&vec);"):
        chars_kind = ".verbatim"
    else:
        raise R.Unsupported("merge_matched_items: the Chars arm does not extend by the vector")
    ps = []
    for name in re.findall(r"ranges\.(\w+)\(\);", passes):
        if name not in PASSES:
            raise R.Unsupported("merge_matched_items: pass `%s` not understood" % name)
        ps.append(PASSES[name])
    b = norm(R.fn_body(lib, "range_char_indices")[0])
    m = re.fullmatch(r"match &self\.matched_range \{ &MatchRange::ByteRange\(start, end\) => \{ "
                     r"let first = text\[(\w*)\.\.(\w*)\]\.chars\(\)\.count\(\); "
                     r"let last = (first \+ )?text\[(\w*)\.\.(\w*)\]\.chars\(\)\.count\(\); "
                     r"\(first\.\.last\)\.collect\(\) \} MatchRange::Chars\(vec\) => vec\.clone\(\), \}", b)
    if not m or any(x not in BOUND for x in (m.group(1), m.group(2), m.group(4), m.group(5))):
        raise R.Unsupported("range_char_indices: not `first = count(text[a..b]); last = [first +] count(text[c..d]); first..last`")
    out = ["namespace SkimModel.Generated.AndMerge", "",
           "inductive Pass | sort | dedup | reverse", "  deriving DecidableEq, Repr", "",
           "inductive ByteArm | charIndices", "  deriving DecidableEq, Repr", "",
           "inductive CharsArm | verbatim", "  deriving DecidableEq, Repr", "",
           "/-- a bound of a slice of `text`: absent, `start`, `end` -/",
           "inductive Bound | open | start | stop", "  deriving DecidableEq, Repr", "",
           "/-- `let rank = items[N].rank` -/", "def rankFrom : Nat := %s" % rank_from, "",
           "/-- the `MatchRange::ByteRange(..)` arm of the loop -/", "def byteArm : ByteArm := %s" % byte_kind, "",
           "/-- the `MatchRange::Chars(vec)` arm of the loop -/", "def charsArm : CharsArm := %s" % chars_kind, "",
           "/-- the passes over `ranges` after the loop, in source order -/",
           "def passes : List Pass := [%s]" % ", ".join(ps), "",
           "/-- `let first = text[a..b].chars().count()` -/",
           "def firstSlice : Bound × Bound := (%s, %s)" % (BOUND[m.group(1)], BOUND[m.group(2)]), "",
           "/-- `let last = [first +] text[c..d].chars().count()` -/",
           "def lastSlice : Bound × Bound := (%s, %s)" % (BOUND[m.group(4)], BOUND[m.group(5)]),
           "def lastAddsFirst : Bool := %s" % ("true" if m.group(3) else "false"), "",
           ]
    # AndEngine::match_item / OrEngine::match_item: the control flow around the leaf results
    i_or, i_and = andor.find("impl MatchEngine for OrEngine"), andor.find("impl MatchEngine for AndEngine")
    if i_or < 0 or i_and < 0:
        raise R.Unsupported("andor.rs: impl MatchEngine for OrEngine / AndEngine not found")
    ob = norm(R.fn_body(andor[i_or:], "match_item")[0])
    ab = norm(R.fn_body(andor[i_and:], "match_item")[0])
    mo = re.fullmatch(r"for engine in &self\.engines \{ let result = engine\.match_item\(Arc::clone\(&item\)\); "
                      r"if result\.is_(some|none)\(\) \{ return result; \} \} None", ob)
    if not mo:
        raise R.Unsupported("OrEngine::match_item: not `for engine { r = engine.match_item(..); if r.is_some() { return r; } } None`")
    ma = re.fullmatch(r"let mut results = vec!\[\]; for engine in &self\.engines \{ "
                      r"(?:let result = engine\.match_item\(Arc::clone\(&item\)\)(\?)?; results\.push\(result\);|"
                      r"if let Some\(result\) = engine\.match_item\(Arc::clone\(&item\)\) \{ results\.push\(result\); \}) \} "
                      r"(?:if results\.is_empty\(\) \{ None \} else \{ Some\(self\.merge_matched_items\(results, &item\.text\(\)\)\) \}|"
                      r"(Some\(self\.merge_matched_items\(results, &item\.text\(\)\)\)))", ab)
    if not ma or ("results.push(result);" in ab and "let result = engine" in ab and not ma.group(1)):
        raise R.Unsupported("AndEngine::match_item: control flow not understood")
    out += ["/-- `OrEngine::match_item` returns the result of the first alternative that matches (else `None`) -/",
            "def orReturnsFirstHit : Bool := %s" % ("true" if mo.group(1) == "some" else "false"), "",
            "/-- `AndEngine::match_item`: a term that does not match ends the conjunction with `None` (`?`); no term at all is `None` -/",
            "def andStopsOnMiss : Bool := %s" % ("true" if ma.group(1) else "false"),
            "def andEmptyIsNone : Bool := %s" % ("false" if ma.group(2) else "true"), "",
            "end SkimModel.Generated.AndMerge", ""]
    return "\n".join(out)


if __name__ == "__main__":
    print(extract(sys.argv[1] if len(sys.argv) > 1 else "/repo"))
