"""src/field.rs: the glue around `to_index_pair` — `get_ranges_by_delimiter` (how the delimiter matches tile the text), the begin / end
picked by `get_string_by_field` and by the loops of `parse_matching_fields` / `parse_transform_fields` — TRANSLATED into tables of
sources (which tuple component, which index, which default).  Props/FieldGlueTables.lean proves that interpreting them IS the C12
model (`Field.rangesByDelimiter`, `getStringByField`, `fieldSpan`) for every text, match list and field."""
import os, re, sys
sys.path.insert(0, os.path.dirname(os.path.abspath(__file__)))
import _rustfn as R

NAME = "FieldGlue"


def norm(b):
    b = re.sub(r"//[^\n]*", "", b)
    return re.sub(r"\s+", " ", b).strip()


MAT = {"mat.start()": ".matStart", "mat.end()": ".matEnd", "last": ".last", "text.len()": ".textLen", "0": ".zero"}


def pat(t):
    """`let &(a, _) = ..` / `let &(_, a) = ..`: which component is bound"""
    m = re.fullmatch(r"&\((\w+), (\w+)\)", t)
    if not m or (m.group(1) == "_") == (m.group(2) == "_"):
        raise R.Unsupported("tuple pattern not understood: " + t)
    return ".snd" if m.group(1) == "_" else ".fst"


def span(b, what, consumer):
    """`consumer`: what must FOLLOW the two reads at once (nothing may rebind begin / end in between)"""
    m = re.search(r"if let Some\(\(start, stop\)\) = field\.to_index_pair\(ranges\.len\(\)\) \{ "
                  r"let (&\(\w+, \w+\)) = &ranges\[start\]; "
                  r"let (&\(\w+, \w+\)) = ranges\.get\((stop(?: - 1)?)\)\.unwrap_or\(&\((text\.len\(\)|0), (text\.len\(\)|0)\)\); " + consumer, b)
    if not m:
        raise R.Unsupported(what + ": begin / end not understood")
    names = re.findall(r"\w+", m.group(1) + m.group(2))
    if sorted(n for n in names if n != "_") != ["begin", "end"] or "begin" not in m.group(1):
        raise R.Unsupported(what + ": the two reads do not bind `begin` then `end`")
    dflt = (m.group(4), m.group(5))
    endc = pat(m.group(2))
    return {"beginComp": pat(m.group(1)), "endComp": endc, "endMinusOne": "true" if m.group(3) != "stop" else "false",
            "endDefault": MAT[dflt[0] if endc == ".fst" else dflt[1]]}


def extract(repo):
    src = open(os.path.join(repo, "src", "field.rs")).read()
    b = norm(R.fn_body(src, "get_ranges_by_delimiter")[0])
    m = re.fullmatch(r"let mut ranges = Vec::new\(\); let mut last = (\d+); for mat in delimiter\.find_iter\(text\) \{ "
                     r"ranges\.push\(\((last|mat\.start\(\)|mat\.end\(\)), (last|mat\.start\(\)|mat\.end\(\))\)\); "
                     r"last = (mat\.start\(\)|mat\.end\(\)); \} "
                     r"ranges\.push\(\((last|0), (text\.len\(\)|last)\)\); ranges", b)
    if not m:
        raise R.Unsupported("get_ranges_by_delimiter: loop not understood")
    gs = span(norm(R.fn_body(src, "get_string_by_field")[0]), "get_string_by_field", r"Some\(&text\[begin\.\.end\]\) \} else \{ None \}")
    b = norm(R.fn_body(src, "get_string_by_field")[0])
    if not re.search(r"Some\(&text\[begin\.\.end\]\) \} else \{ None \}", b) or \
            not b.startswith("let ranges = get_ranges_by_delimiter(delimiter, text);"):
        raise R.Unsupported("get_string_by_field: not `ranges; if let .. { ..; Some(&text[begin..end]) } else { None }`")
    pm = span(norm(R.fn_body(src, "parse_matching_fields")[0]), "parse_matching_fields", r"ret\.push\(\(begin, end\)\); \}")
    pt = span(norm(R.fn_body(src, "parse_transform_fields")[0]), "parse_transform_fields", r"ret\.push_str\(&text\[begin\.\.end\]\); \}")
    b1 = norm(R.fn_body(src, "parse_matching_fields")[0])
    b2 = norm(R.fn_body(src, "parse_transform_fields")[0])
    if not re.fullmatch(r"let ranges = get_ranges_by_delimiter\(delimiter, text\); let mut ret = Vec::new\(\); for field in fields \{ "
                        r"if let .*? ret\.push\(\(begin, end\)\); \} \} ret", b1):
        raise R.Unsupported("parse_matching_fields: loop not understood")
    if not re.fullmatch(r"let ranges = get_ranges_by_delimiter\(delimiter, text\); let mut ret = String::new\(\); for field in fields \{ "
                        r"if let .*? ret\.push_str\(&text\[begin\.\.end\]\); \} \} ret", b2):
        raise R.Unsupported("parse_transform_fields: loop not understood")

    def spandef(name, d):
        return "def %s : Span := { beginComp := %s, endComp := %s, endMinusOne := %s, endDefault := %s }" % (
            name, d["beginComp"], d["endComp"], d["endMinusOne"], d["endDefault"])
    out = ["namespace SkimModel.Generated.FieldGlue", "",
           "inductive Src | zero | last | matStart | matEnd | textLen", "  deriving DecidableEq, Repr", "",
           "inductive Comp | fst | snd", "  deriving DecidableEq, Repr", "",
           "/-- `get_ranges_by_delimiter`: `last = k; for mat { push((a, b)); last = c; } push((d, e))` -/",
           "def rangesInit : Nat := %s" % m.group(1),
           "def rangesPush : Src × Src := (%s, %s)" % (MAT[m.group(2)], MAT[m.group(3)]),
           "def rangesNext : Src := %s" % MAT[m.group(4)],
           "def rangesFinal : Src × Src := (%s, %s)" % (MAT[m.group(5)], MAT[m.group(6)]), "",
           "/-- `let &(..) = &ranges[start]; let &(..) = ranges.get(stop [- 1]).unwrap_or(&(text.len(), 0))`: which component is the begin,",
           "    which the end, whether the end is read at `stop - 1`, and the value used past the last range -/",
           "structure Span where", "  beginComp : Comp", "  endComp : Comp", "  endMinusOne : Bool", "  endDefault : Src",
           "  deriving DecidableEq, Repr", "",
           spandef("getStringByField", gs), spandef("parseMatchingFields", pm), spandef("parseTransformFields", pt), "",
           "end SkimModel.Generated.FieldGlue", ""]
    return "\n".join(out)


if __name__ == "__main__":
    print(extract(sys.argv[1] if len(sys.argv) > 1 else "/repo"))
