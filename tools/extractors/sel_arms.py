"""src/selection.rs: the cursor-moving arms of `impl EventHandler for Selection` and the height floor
-> lean/SkimModel/Generated/SelArms.lean

For each of EvActUp/Down/PageUp/PageDown/HalfPageUp/HalfPageDown the arm must have one of the known
shapes `act_move_line_cursor(<factor> * diff [/ 2])`; anything else raises (fail closed)."""
import os, re

NAME = "SelArms"

EVENTS = ["EvActUp", "EvActDown", "EvActHalfPageDown", "EvActHalfPageUp", "EvActPageDown", "EvActPageUp"]
HSRC = r"(?:self\.known_height\(\)|self\.height\.load\(Ordering::Relaxed\))"


def norm(s):
    return re.sub(r"\s+", " ", s).strip()


def arm_body(src, ev):
    m = re.search(r"\b%s\(diff\) => \{(.*?)\n            \}" % ev, src, re.S)
    if not m:
        raise ValueError("arm %s(diff) not found in EventHandler::handle" % ev)
    return norm(m.group(1))


def classify(body):
    """-> (factor, neg, half, uses_known_height|None)"""
    if body == "self.act_move_line_cursor(*diff);":
        return ("one", False, False, None)
    if body == "self.act_move_line_cursor(-*diff);":
        return ("one", True, False, None)
    m = re.fullmatch(r"let height = (.+?); self\.act_move_line_cursor\(height \* \*diff( / 2)?\);", body)
    if not m:
        raise ValueError("unknown arm shape: %r" % body)
    h, half = m.group(1), bool(m.group(2))
    m1 = re.fullmatch(r"\((%s) as i32\) - 1" % HSRC, h)
    m2 = re.fullmatch(r"1 - \((%s) as i32\)" % HSRC, h)
    if m1:
        return ("hMinus1", False, half, "known_height" in m1.group(1))
    if m2:
        return ("oneMinusH", False, half, "known_height" in m2.group(1))
    raise ValueError("unknown height expression: %r" % h)


def extract(repo):
    src = open(os.path.join(repo, "src", "selection.rs")).read()
    i = src.find("impl EventHandler for Selection")
    if i < 0:
        raise ValueError("impl EventHandler for Selection not found")
    handler = src[i:]
    j = handler.find("\nimpl ", 10)
    handler = handler[:j] if j > 0 else handler
    rows = []
    for ev in EVENTS:
        f, neg, half, _ = classify(arm_body(handler, ev))
        rows.append((ev, f, neg, half))
    if not re.search(r"EvActSelectRow\(row\) => \{\s*self\.act_select_screen_row\(\*row\);\s*\}", handler):
        raise ValueError("EvActSelectRow arm has an unknown shape")
    # the height floor: fn known_height(&self) -> usize { max(self.height.load(..), N) }
    m = re.search(r"fn known_height\(&self\) -> usize \{\s*(?:max\(self\.height\.load\(Ordering::Relaxed\), (\d+)\)|"
                  r"self\.height\.load\(Ordering::Relaxed\)\.max\((\d+)\))\s*\}", src)
    if "fn known_height" in src and not m:
        raise ValueError("known_height() has a shape this translator does not understand")
    floor = int(m.group(1) or m.group(2)) if m else 0
    # reads of the stored height that bypass known_height(): everything outside that helper and
    # outside the feature-gated verification accessors
    body = src.replace(m.group(0), "") if m else src
    body = re.sub(r'#\[cfg\(feature = "verif"\)\]\s*impl Selection \{.*?\n\}', "", body, flags=re.S)
    raw_reads = len(re.findall(r"self\.height\.load\(", body))
    out = ["namespace SkimModel.Generated.SelArms", "",
           "inductive Factor where | one | hMinus1 | oneMinusH",
           "deriving Repr, DecidableEq", "",
           "structure Arm where",
           "  event : String",
           "  factor : Factor",
           "  neg : Bool",
           "  half : Bool",
           "deriving Repr, DecidableEq", "",
           "/-- the cursor-moving arms of `EventHandler::handle`, in source order -/",
           "def arms : List Arm := ["]
    out.append(",\n".join('  { event := "%s", factor := .%s, neg := %s, half := %s }' % (
        ev, f, "true" if neg else "false", "true" if half else "false") for ev, f, neg, half in rows))
    out += ["]", "",
            "/-- `known_height()` = max(height, heightFloor); 0 when the helper does not exist -/",
            "def heightFloor : Nat := %d" % floor, "",
            "/-- reads of `self.height` in the cursor code that bypass `known_height()` -/",
            "def rawHeightReads : Nat := %d" % raw_reads, "",
            "end SkimModel.Generated.SelArms", ""]
    return "\n".join(out)
