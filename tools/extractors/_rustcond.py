"""Shared by heartbeat.py and select1.py: a small parser for Rust boolean conditions over named atoms, and scanners for `let`
bindings and `if` statements that do not depend on how locals are called or how an if/else is oriented.  (Not an extractor itself:
tools/extract.py skips files whose name starts with `_`.)"""
import re

ATOMS = {}

def tokenize(s):
    toks, i = [], 0
    s = s.strip()
    while i < len(s):
        c = s[i]
        if c.isspace():
            i += 1
        elif s.startswith("&&", i) or s.startswith("||", i):
            toks.append(s[i:i + 2]); i += 2
        elif c in "()!":
            # `!` of `!=` never occurs in these conditions; `(` may open a call `foo()` — those are inside atoms
            toks.append(c); i += 1
        else:
            # an atom: the longest known atom text starting here
            best = None
            for a in ATOMS:
                if s.startswith(a, i) and (best is None or len(a) > len(best)):
                    best = a
            if best is None:
                raise Exception("rustcond: unknown atom at %r" % s[i:i + 40])
            toks.append(("atom", ATOMS[best])); i += len(best)
    return toks


def parse(s):
    toks = tokenize(s)
    pos = [0]

    def peek():
        return toks[pos[0]] if pos[0] < len(toks) else None

    def eat(t):
        if peek() != t:
            raise Exception("rustcond: expected %r in %r" % (t, s))
        pos[0] += 1

    def p_or():
        e = p_and()
        while peek() == "||":
            pos[0] += 1
            e = "(.or %s %s)" % (e, p_and())
        return e

    def p_and():
        e = p_not()
        while peek() == "&&":
            pos[0] += 1
            e = "(.and %s %s)" % (e, p_not())
        return e

    def p_not():
        t = peek()
        if t == "!":
            pos[0] += 1
            return "(.not %s)" % p_not()
        if t == "(":
            pos[0] += 1
            e = p_or()
            eat(")")
            return e
        if isinstance(t, tuple):
            pos[0] += 1
            return "(.atom .%s)" % t[1]
        raise Exception("rustcond: unexpected %r in %r" % (t, s))

    e = p_or()
    if pos[0] != len(toks):
        raise Exception("rustcond: trailing tokens in %r" % s)
    return e


def body_of(src, sig):
    i = src.index(sig)
    j = src.index("{", i)
    depth, k = 0, j
    while True:
        if src[k] == "{":
            depth += 1
        elif src[k] == "}":
            depth -= 1
            if depth == 0:
                return src[j:k + 1]
        k += 1


def strip_verif(body):
    # drop the add-only hook lines (attribute line + the statement that follows it) and the comments
    body = re.sub(r"#\[cfg\(feature = \"verif\"\)\]\s*\n[^\n]*\n", "", body)
    return re.sub(r"//[^\n]*", "", body)


def block_end(text, j):
    """index just behind the block that opens at text[j] == '{'"""
    depth, k = 0, j
    while True:
        if text[k] == "{":
            depth += 1
        elif text[k] == "}":
            depth -= 1
            if depth == 0:
                return k + 1
        k += 1


def if_statements(body):
    """every `if COND { THEN } [else { ELSE }]` of the body (nested ones too; `if let` excluded): (cond, then, else or None)"""
    out = []
    for m in re.finditer(r"\bif\s+(?!let\b)", body):
        j = body.find("{", m.end())
        if j < 0:
            continue
        cond = body[m.end():j].strip()
        e = block_end(body, j)
        then = body[j:e]
        els = None
        m2 = re.match(r"\s*else\s*\{", body[e:])
        if m2:
            j2 = e + m2.end() - 1
            els = body[j2:block_end(body, j2)]
        out.append((cond, then, els))
    return out


def cond_guarding(body, needle, what):
    """the condition under which the statement containing `needle` runs: COND of the innermost `if` whose THEN block holds it
    (and no nested `if` of that block does), or `!(COND)` when it sits in the ELSE block"""
    hits = []
    for cond, then, els in if_statements(body):
        inner = if_statements(then[1:-1])
        if needle in then and not any(needle in t or (e and needle in e) for _, t, e in inner):
            hits.append(cond)
        elif els and needle in els and not any(needle in t or (e and needle in e) for _, t, e in if_statements(els[1:-1])):
            hits.append("!(%s)" % cond)
    if len(hits) != 1:
        raise Exception("rustcond: expected exactly one `if` guarding %s, found %d" % (what, len(hits)))
    return hits[0]


def bound_name(body, rhs_pattern, what):
    """the local the body binds (`let NAME = …;`) to the expression matching rhs_pattern — locals may be renamed freely"""
    ms = [m.group(1) for m in re.finditer(r"let\s+(\w+)\s*=\s*([^;]+);", body, re.S) if re.search(rhs_pattern, m.group(2), re.S)]
    if len(ms) != 1:
        raise Exception("rustcond: expected exactly one local bound to %s, found %r" % (what, ms))
    return ms[0]


def one(pattern, text, what):
    ms = re.findall(pattern, text, re.S)
    if len(ms) != 1:
        raise Exception("rustcond: expected exactly one %s, found %d" % (what, len(ms)))
    return ms[0]


