"""C13 tables: src/item.rs (RankCriteria, parse_criteria, RankBuilder::{default,new,build_rank}),
src/model.rs (DEFAULT_CRITERION, the tiebreak split), src/lib.rs (type Rank) -> Generated/Rank.lean.

Fails closed: every regex below must match exactly the shape it was written for, otherwise an
exception is raised and the runner reports `extractor-broken`."""
import os, re

NAME = "Rank"


def _strip_comments(src):
    src = re.sub(r"/\*.*?\*/", "", src, flags=re.S)
    return re.sub(r"//[^\n]*", "", src)


def _one(pat, src, what, flags=re.S):
    ms = list(re.finditer(pat, src, flags))
    if len(ms) != 1:
        raise ValueError("rank.py: expected exactly one %s, found %d" % (what, len(ms)))
    return ms[0]


def _body(src, start):
    """text between the brace at/after `start` and its matching closing brace"""
    i = src.index("{", start)
    depth, j = 0, i
    while j < len(src):
        if src[j] == "{":
            depth += 1
        elif src[j] == "}":
            depth -= 1
            if depth == 0:
                return src[i + 1:j]
        j += 1
    raise ValueError("rank.py: unbalanced braces")


def _crit_list(text, variants, what):
    items = [x.strip() for x in text.split(",") if x.strip()]
    out = []
    for it in items:
        m = re.fullmatch(r"RankCriteria::(\w+)", it)
        if not m or m.group(1) not in variants:
            raise ValueError("rank.py: unexpected element %r in %s" % (it, what))
        out.append(m.group(1))
    return out


def extract(repo):
    item = _strip_comments(open(os.path.join(repo, "src", "item.rs")).read())
    model = _strip_comments(open(os.path.join(repo, "src", "model.rs")).read())
    lib = _strip_comments(open(os.path.join(repo, "src", "lib.rs")).read())

    # ---- enum RankCriteria
    m = _one(r"pub enum RankCriteria\s*\{([^}]*)\}", item, "enum RankCriteria")
    variants = [v.strip() for v in m.group(1).split(",") if v.strip()]
    if not variants or any(not re.fullmatch(r"[A-Z]\w*", v) for v in variants) or len(set(variants)) != len(variants):
        raise ValueError("rank.py: enum RankCriteria has an unexpected shape: %r" % variants)

    # ---- parse_criteria
    m = _one(r"pub fn parse_criteria\(text: &str\) -> Option<RankCriteria>\s*\{", item, "fn parse_criteria")
    body = _body(item, m.start())
    mm = re.fullmatch(r"\s*match text\.(\w+)\(\)\.as_ref\(\)\s*\{(.*)\}\s*", body, re.S)
    if not mm:
        raise ValueError("rank.py: parse_criteria is no longer `match text.<fold>().as_ref() { .. }`")
    fold = mm.group(1)
    if fold != "to_lowercase":
        raise ValueError("rank.py: parse_criteria folds with %s, the model knows to_lowercase only" % fold)
    arms = [a.strip() for a in mm.group(2).split(",\n") if a.strip()]
    arms = [a.rstrip(",").strip() for a in arms]
    table, saw_default = [], False
    for a in arms:
        if saw_default:
            raise ValueError("rank.py: arm after the wildcard arm in parse_criteria")
        if re.fullmatch(r"_\s*=>\s*None", a):
            saw_default = True
            continue
        am = re.fullmatch(r'"([^"\\]*)"\s*=>\s*Some\(RankCriteria::(\w+)\)', a)
        if not am or am.group(2) not in variants:
            raise ValueError("rank.py: parse_criteria arm not understood: %r" % a)
        if any(ord(c) < 0x20 or ord(c) > 0x7e for c in am.group(1)):
            raise ValueError("rank.py: non-printable/non-ASCII name in parse_criteria: %r" % am.group(1))
        table.append((am.group(1), am.group(2)))
    if not saw_default or not table:
        raise ValueError("rank.py: parse_criteria without `_ => None` arm or without names")

    # ---- RankBuilder::default
    m = _one(r"impl Default for RankBuilder\s*\{", item, "impl Default for RankBuilder")
    body = _body(item, m.start())
    mm = re.fullmatch(r"\s*fn default\(\) -> Self\s*\{\s*Self\s*\{\s*criterion:\s*vec!\[([^\]]*)\],?\s*\}\s*\}\s*", body, re.S)
    if not mm:
        raise ValueError("rank.py: RankBuilder::default not understood")
    builder_default = _crit_list(mm.group(1), variants, "RankBuilder::default")

    # ---- RankBuilder::new
    m = _one(r"pub fn new\(mut criterion: Vec<RankCriteria>\) -> Self\s*\{", item, "RankBuilder::new")
    body = _body(item, m.start())
    mm = re.fullmatch(
        r"\s*if ((?:!criterion\.contains\(&RankCriteria::\w+\)(?:\s*&&\s*)?)+)\s*\{\s*"
        r"criterion\.insert\(0, RankCriteria::(\w+)\);\s*\}\s*criterion\.dedup\(\);\s*Self\s*\{\s*criterion\s*\}\s*",
        body, re.S)
    if not mm:
        raise ValueError("rank.py: RankBuilder::new not understood")
    unless = re.findall(r"!criterion\.contains\(&RankCriteria::(\w+)\)", mm.group(1))
    implicit = mm.group(2)
    if implicit not in variants or any(u not in variants for u in unless) or not unless:
        raise ValueError("rank.py: RankBuilder::new mentions unknown criteria")

    # ---- build_rank
    m = _one(r"pub fn build_rank\(&self, score: i32, begin: usize, end: usize, length: usize\) -> Rank\s*\{", item,
             "RankBuilder::build_rank(score: i32, begin: usize, end: usize, length: usize)")
    body = _body(item, m.start())
    mm = re.fullmatch(
        r"\s*let mut rank = \[0; (\d+)\];\s*"
        r"let begin = begin as i32;\s*let end = end as i32;\s*let length = length as i32;\s*"
        r"for \(index, criteria\) in self\.criterion\.iter\(\)\.take\((\d+)\)\.enumerate\(\)\s*\{\s*"
        r"let value = match criteria\s*\{(.*?)\};\s*rank\[index\] = value;\s*\}\s*rank\s*", body, re.S)
    if not mm:
        raise ValueError("rank.py: build_rank body not understood")
    rank_len, take_n = int(mm.group(1)), int(mm.group(2))
    arms = [a.strip() for a in mm.group(3).split(",") if a.strip()]
    arm = {}
    for a in arms:
        am = re.fullmatch(r"RankCriteria::(\w+)\s*=>\s*(-?)(score|begin|end|length)", a)
        if not am or am.group(1) not in variants or am.group(1) in arm:
            raise ValueError("rank.py: build_rank arm not understood: %r" % a)
        arm[am.group(1)] = (am.group(2) == "-", am.group(3))
    if set(arm) != set(variants):
        raise ValueError("rank.py: build_rank match does not list every RankCriteria variant exactly once")

    # ---- type Rank
    m = _one(r"pub type Rank = \[i32; (\d+)\];", lib, "type Rank = [i32; N]")
    rank_type_len = int(m.group(1))

    # ---- model.rs: default + split
    m = _one(r"static ref DEFAULT_CRITERION: Vec<RankCriteria> =\s*vec!\[([^\]]*)\];", model, "DEFAULT_CRITERION")
    model_default = _crit_list(m.group(1), variants, "DEFAULT_CRITERION")
    m = _one(r"let criterion = if let Some\(ref tie_breaker\) = options\.tiebreak\s*\{\s*"
             r"tie_breaker\.split\('(.)'\)\.filter_map\(parse_criteria\)\.collect\(\)\s*\}\s*else\s*\{\s*"
             r"DEFAULT_CRITERION\.clone\(\)\s*\};\s*let rank_builder = Arc::new\(RankBuilder::new\(criterion\)\);",
             model, "tiebreak split in Model::new")
    split_char = m.group(1)
    if ord(split_char) > 0x7e or ord(split_char) < 0x20 or split_char in "'\\":
        raise ValueError("rank.py: unexpected separator %r" % split_char)

    def lst(xs):
        return "[" + ", ".join("." + x for x in xs) + "]"

    fld = {"score": ".score", "begin": ".begin", "end": ".«end»", "length": ".length"}
    o = []
    o.append("/-! Tables of `src/item.rs`, `src/model.rs`, `src/lib.rs` that property C13 depends on. -/")
    o.append("namespace SkimModel.Generated.Rank")
    o.append("")
    o.append("/-- `pub enum RankCriteria` (src/item.rs), variants in source order -/")
    o.append("inductive Criterion where")
    for v in variants:
        o.append("  | %s" % v)
    o.append("  deriving DecidableEq, Repr, Inhabited")
    o.append("")
    o.append("def Criterion.all : List Criterion := %s" % lst(variants))
    o.append("")
    o.append("/-- parameters of `build_rank(&self, score: i32, begin: usize, end: usize, length: usize)` -/")
    o.append("inductive Field where")
    o.append("  | score | begin | «end» | length")
    o.append("  deriving DecidableEq, Repr, Inhabited")
    o.append("")
    o.append("/-- string arms of `parse_criteria` (matched against `text.to_lowercase()`), in source order;")
    o.append("    the wildcard arm yields `None` -/")
    o.append("def parseCriteriaTable : List (String × Criterion) :=")
    o.append("  [" + ",\n   ".join('("%s", .%s)' % (n, v) for n, v in table) + "]")
    o.append("")
    o.append("/-- arms of the `match criteria` in `build_rank`: (is the value negated, which quantity) -/")
    o.append("def rankArm : Criterion → Bool × Field")
    for v in variants:
        o.append("  | .%s => (%s, %s)" % (v, "true" if arm[v][0] else "false", fld[arm[v][1]]))
    o.append("")
    o.append("/-- `DEFAULT_CRITERION` of src/model.rs (used when `options.tiebreak` is `None`) -/")
    o.append("def modelDefault : List Criterion := %s" % lst(model_default))
    o.append("/-- `RankBuilder::default()` (engines built without an explicit rank builder) -/")
    o.append("def builderDefault : List Criterion := %s" % lst(builder_default))
    o.append("/-- `RankBuilder::new`: `criterion.insert(0, ·)` … -/")
    o.append("def implicitCriterion : Criterion := .%s" % implicit)
    o.append("/-- … unless the list contains one of these -/")
    o.append("def implicitUnless : List Criterion := %s" % lst(unless))
    o.append("/-- separator in `tie_breaker.split(·)` (src/model.rs) -/")
    o.append("def splitChar : Char := '%s'" % split_char)
    o.append("/-- `.take(N)` in `build_rank` -/")
    o.append("def takeN : Nat := %d" % take_n)
    o.append("/-- `let mut rank = [0; N]` in `build_rank` -/")
    o.append("def rankLen : Nat := %d" % rank_len)
    o.append("/-- `pub type Rank = [i32; N]` (src/lib.rs) -/")
    o.append("def rankTypeLen : Nat := %d" % rank_type_len)
    o.append("")
    o.append("end SkimModel.Generated.Rank")
    return "\n".join(o) + "\n"
