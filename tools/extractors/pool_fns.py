"""src/item.rs `ItemPool`: `append`, `take` (+ the slice its guard derefs to), `reset`, `clear`, `len`, `num_taken`, `num_not_taken`
TRANSLATED statement by statement to Lean (tools/extractors/_rustfn.py with list operations), and the lock discipline read off: every
operation that writes takes the pool lock before it touches a counter.  Props/PoolFnsTables.lean proves the translated functions
equal, for all inputs, to the operations of the C15 model (`Model/Pool.lean`)."""
import os, re, sys
sys.path.insert(0, os.path.dirname(os.path.abspath(__file__)))
import _rustfn as R

NAME = "PoolFns"
L = "List α"
FUNCS = {"lappend": ("lappend", [L, L], L), "ltake": ("ltake", [L, "Nat"], L), "ldrop": ("ldrop", [L, "Nat"], L), "lnil": ("lnil", [], L)}
FIELDS = {"self.pool.lock()": "pool", "self.reserved_items.lock()": "reserved"}


def indent(s, k=2):
    return "\n".join(" " * k + l for l in s.split("\n"))


def prep(body):
    """returns (rewritten body, atoms for the guards, pool lock taken first?)"""
    b = re.sub(r"//[^\n]*", "", body)
    b = re.sub(r"trace!\([^;]*\);", "", b)
    atoms = {"self.lines_to_reserve": ("nres", "Nat"), "self.taken": ("takenC", "Nat"), "self.length": ("lengthC", "Nat"),
             "self.taken.load(Ordering::SeqCst)": ("takenC", "Nat"), "self.length.load(Ordering::SeqCst)": ("lengthC", "Nat"),
             "self.len()": ("lengthC", "Nat"), "self.num_taken()": ("takenC", "Nat"),
             "items": ("items", L), "items.len()": ("items.length", "Nat")}
    first_lock = None
    for m in re.finditer(r"let\s+(?:mut\s+)?(\w+)\s*=\s*self\.(pool|reserved_items)\.lock\(\)\s*;", b):
        name, field = m.group(1), {"pool": "poolV", "reserved_items": "reservedV"}[m.group(2)]
        atoms[name] = (field, L)
        atoms[name + ".len()"] = (field + ".length", "Nat")
        if first_lock is None:
            first_lock = (field, m.start())
    b = re.sub(r"let\s+(?:mut\s+)?\w+\s*=\s*self\.(pool|reserved_items)\.lock\(\)\s*;", "", b)
    # the first access to a counter must come after the pool lock
    mc = re.search(r"self\.(taken|length)\.", body)
    pool_first = first_lock is not None and first_lock[0] == "poolV" and (mc is None or first_lock[1] < mc.start())
    b = re.sub(r"(\w+)\.extend_from_slice\(\s*&\s*items\[\s*\.\.\s*(\w+)\s*\]\s*\)\s*;", r"\1 = lappend(\1, ltake(items, \2));", b)
    b = re.sub(r"(\w+)\.extend_from_slice\(\s*&\s*items\[\s*(\w+)\s*\.\.\s*\]\s*\)\s*;", r"\1 = lappend(\1, ldrop(items, \2));", b)
    b = re.sub(r"(\w+)\.append\(\s*&mut\s+items\s*\)\s*;", r"\1 = lappend(\1, items);", b)
    b = re.sub(r"(\w+)\.clear\(\)\s*;", r"\1 = lnil();", b)
    b = re.sub(r"self\.(taken|length)\.store\(\s*(.*?)\s*,\s*Ordering::SeqCst\s*\)\s*;", r"self.\1 = \2;", b)
    b = re.sub(r"let\s+(\w+)\s*=\s*self\.taken\.swap\(\s*(.*?)\s*,\s*Ordering::SeqCst\s*\)\s*;", r"let \1 = self.taken; self.taken = \2;", b)
    b = re.sub(r"let\s+len\s*=\s*items\.len\(\)\s*;", "", b)
    return b, atoms, pool_first


def extract(repo):
    src = open(os.path.join(repo, "src", "item.rs")).read()
    impl = src[src.index("impl ItemPool"):src.index("pub struct ItemPoolGuard")]
    out = ["namespace SkimModel.Generated.PoolFns", "", "variable {α : Type}", "",
           "def lappend (a b : List α) : List α := a ++ b",
           "/-- `&l[..n]` panics when `n > l.len()`: the sentinel `[]` makes every theorem about a reachable out-of-range slice fail -/",
           "def ltake (l : List α) (n : Nat) : List α := if n ≤ l.length then l.take n else []",
           "/-- `&l[n..]` panics when `n > l.len()` (sentinel as above) -/",
           "def ldrop (l : List α) (n : Nat) : List α := if n ≤ l.length then l.drop n else []", "def lnil : List α := []", ""]
    sig = "(nres : Nat) (reservedV poolV : List α) (takenC lengthC : Nat)"
    locks = []
    # append
    body, _ = R.fn_body(impl, "append")
    b, atoms, pf = prep(body)
    locks.append(("append", pf))
    m = re.search(r"(\w+)\.len\(\)\s*$", b.strip())
    if not m:
        raise R.Unsupported("ItemPool::append does not end in `<pool>.len()`")
    b = b.strip()[:m.start()] + "let ret = %s.len();" % m.group(1)
    e = R.translate(b, atoms, result="(reservedV, poolV, takenC, lengthC, ret)", funcs=FUNCS)
    out += ["/-- `fn append(&self, items) -> usize`: new (reserved, pool, taken, length) and the returned size -/",
            "def append %s (items : List α) : List α × List α × Nat × Nat × Nat :=" % sig, indent(e[0]), ""]
    # take
    body, _ = R.fn_body(impl, "take")
    b, atoms, pf = prep(body)
    locks.append(("take", pf))
    m = re.search(r"ItemPoolGuard\s*\{\s*(\w+)\s*,\s*start\s*:\s*(\w+)\s*\}\s*$", b.strip())
    if not m or atoms.get(m.group(1), ("", ""))[0] != "poolV":
        raise R.Unsupported("ItemPool::take does not end in `ItemPoolGuard { <pool guard>, start: .. }`")
    b = b.strip()[:m.start()] + "let start = %s;" % m.group(2)
    e = R.translate(b, atoms, result="(takenC, start)", funcs=FUNCS)
    out += ["/-- `fn take(&self)`: (new `taken`, `start` of the guard) -/", "def take %s : Nat × Nat :=" % sig, indent(e[0]), ""]
    gsrc = src[src.index("for ItemPoolGuard"):]
    dbody, _ = R.fn_body(gsrc, "deref")
    if not re.fullmatch(r"&self\.guard\[self\.start\.\.\]", re.sub(r"\s+", "", dbody)):
        raise R.Unsupported("ItemPoolGuard::deref is not `&self.guard[self.start..]`")
    out += ["/-- `ItemPoolGuard::deref`: the slice a guard stands for -/", "def guardSlice (guard : List α) (start : Nat) : List α := ldrop guard start", ""]
    # reset / clear
    for name in ("reset", "clear"):
        body, _ = R.fn_body(impl, name)
        b, atoms, pf = prep(body)
        locks.append((name, pf))
        e = R.translate(b, atoms, result="(reservedV, poolV, takenC, lengthC)", funcs=FUNCS)
        out += ["/-- `fn %s(&self)` -/" % name, "def %s %s : List α × List α × Nat × Nat :=" % (name, sig), indent(e[0]), ""]
    # readers
    for name, lean in (("len", "len"), ("num_taken", "numTaken"), ("num_not_taken", "numNotTaken")):
        body, _ = R.fn_body(impl, name)
        b, atoms, _ = prep(body)
        e = R.translate(b, atoms, funcs=FUNCS)
        if e[1] != "Nat":
            raise R.Unsupported("ItemPool::%s: type %s" % (name, e[1]))
        out += ["/-- `fn %s(&self) -> usize` (usize subtraction: truncated here, a panic in the debug profile) -/" % name,
                "def %s (takenC lengthC : Nat) : Nat :=" % lean, indent(e[0]), ""]
    out += ["/-- every writing operation takes the pool lock before it touches a counter -/",
            "def poolLockFirst : List (String × Bool) := [%s]" % ", ".join('("%s", %s)' % (n, "true" if v else "false") for n, v in locks), "",
            "end SkimModel.Generated.PoolFns", ""]
    return "\n".join(out)


if __name__ == "__main__":
    print(extract(sys.argv[1] if len(sys.argv) > 1 else "/repo"))
