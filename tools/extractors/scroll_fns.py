"""src/previewer.rs: `act_scroll_down` and `act_scroll_right` TRANSLATED to Lean (tools/extractors/_rustfn.py), and the lock discipline
of `act_scroll_down` checked (the content lock is taken before the offset is read and is still held when it is stored: the preview
callback replaces content and offset under the same lock).  Props/ScrollFnsTables.lean proves the translated arithmetic equal to the
C20 model's `clampScroll (scrollBy v d) len`."""
import os, re, sys
sys.path.insert(0, os.path.dirname(os.path.abspath(__file__)))
import _rustfn as R

NAME = "ScrollFns"


def indent(s, k=2):
    return "\n".join(" " * k + l for l in s.split("\n"))


def strip_hooks(b):
    # `#[cfg(feature = "verif")]` + the statement it guards
    return re.sub(r"#\[cfg\(feature\s*=\s*\"verif\"\)\]\s*[^;]*;", "", b)


def extract(repo):
    src = open(os.path.join(repo, "src", "previewer.rs")).read()
    out = ["namespace SkimModel.Generated.ScrollFns", ""]
    body, sig = R.fn_body(src, "act_scroll_down")
    if not re.search(r"diff\s*:\s*i32", sig):
        raise R.Unsupported("act_scroll_down: signature %r" % sig)
    b = strip_hooks(body)
    # lock discipline
    mlock = re.search(r"let\s+(\w+)\s*=\s*self\.content_lines\.lock\(\)\s*;", b)
    mload = re.search(r"self\.vscroll_offset\.load\(", b)
    mstore = re.search(r"self\.vscroll_offset\.store\(", b)
    if not (mload and mstore):
        raise R.Unsupported("act_scroll_down: load / store of vscroll_offset not found")
    held = bool(mlock) and mlock.start() < mload.start() and not re.search(r"drop\(\s*%s\s*\)" % (mlock.group(1) if mlock else "x"), b[:mstore.start()]) \
        and b[:mstore.start()].count("{") == b[:mstore.start()].count("}")
    guard = mlock.group(1) if mlock else None
    if guard:
        b = b.replace(mlock.group(0), "")
        lenatom = {"%s.len()" % guard: ("len", "Nat")}
    else:
        # the length is read some other way: find `let X = self.content_lines.lock().len();`
        m2 = re.search(r"let\s+(\w+)\s*=\s*self\.content_lines\.lock\(\)\.len\(\)\s*;", b)
        if not m2:
            raise R.Unsupported("act_scroll_down: how the content length is read is not understood")
        b = b.replace(m2.group(0), "")
        lenatom = {m2.group(1): ("len", "Nat")}
    b = re.sub(r"self\.vscroll_offset\.store\(\s*(.*?)\s*,\s*Ordering::\w+\s*\)\s*;", lambda m: "self.vscroll_offset = %s;" % m.group(1), b, flags=re.S)
    atoms = {"self.vscroll_offset.load(Ordering::SeqCst)": ("v", "Nat"), "self.vscroll_offset": ("v", "Nat")}
    atoms.update(lenatom)
    e = R.translate(b, atoms, result="v", locals_={"diff": "Int"})
    out += ["/-- `fn act_scroll_down(&mut self, diff: i32)`: the offset it stores (`v` = the offset it loaded, `len` = number of content lines) -/",
            "def actScrollDown (v len : Nat) (diff : Int) : Nat :=", indent(e[0]), "",
            "/-- the content lock is taken before the offset is loaded and is still held when the new offset is stored -/",
            "def scrollDownHoldsContentLock : Bool := %s" % ("true" if held else "false"), ""]
    body, sig = R.fn_body(src, "act_scroll_right")
    b = strip_hooks(body)
    b = re.sub(r"self\.hscroll_offset\.store\(\s*(.*?)\s*,\s*Ordering::\w+\s*\)\s*;", lambda m: "self.hscroll_offset = %s;" % m.group(1), b, flags=re.S)
    e = R.translate(b, {"self.hscroll_offset.load(Ordering::SeqCst)": ("v", "Nat"), "self.hscroll_offset": ("v", "Nat")}, result="v", locals_={"diff": "Int"})
    out += ["/-- `fn act_scroll_right(&mut self, diff: i32)`: the offset it stores -/",
            "def actScrollRight (v : Nat) (diff : Int) : Nat :=", indent(e[0]), ""]
    out += ["end SkimModel.Generated.ScrollFns", ""]
    return "\n".join(out)


if __name__ == "__main__":
    print(extract(sys.argv[1] if len(sys.argv) > 1 else "/repo"))
