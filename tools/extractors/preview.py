"""Constants of src/previewer.rs used by the C20 model: initial pane size and scroll offsets, and the
shape of the two clamp expressions (the model's `clampScroll` mirrors them; if they change the
extractor fails closed and the model has to be looked at again)."""
import os, re

NAME = "Preview"


def _atomic(src, var):
    m = re.findall(r"let\s+%s\s*=\s*Arc::new\(AtomicUsize::new\((\d+)\)\);" % var, src)
    if len(m) != 1:
        raise ValueError("previewer.rs: expected exactly one `let %s = Arc::new(AtomicUsize::new(N));`, found %d" % (var, len(m)))
    return int(m[0])


def extract(repo):
    src = open(os.path.join(repo, "src", "previewer.rs")).read()
    vals = {v: _atomic(src, v) for v in ("width", "height", "hscroll_offset", "vscroll_offset")}
    body = re.search(r"fn act_scroll_down\(&mut self, diff: i32\) \{(.*?)\n    \}\n", src, re.S)
    if not body:
        raise ValueError("previewer.rs: act_scroll_down not found")
    b = re.sub(r"\s+", " ", body.group(1))
    need = [
        "vscroll_offset + diff as usize",
        "vscroll_offset - min((-diff) as usize, vscroll_offset)",
        "let new_offset = min(new_offset, max(content.len(), 1) - 1);",
        "self.vscroll_offset.store(max(new_offset, 1), Ordering::SeqCst);",
    ]
    for n in need:
        if n not in b:
            raise ValueError("previewer.rs: act_scroll_down no longer contains `%s`" % n)
    cb = re.sub(r"\s+", " ", src)
    for n in ["let vscroll = pos.v_scroll.calc_fixed_size(usize::MAX, 0);",
              "let voffset = pos.v_offset.calc_fixed_size(height, 0);",
              "let vscroll = min(max(vscroll, voffset) - voffset, max(lines.len(), 1) - 1);",
              "vscroll_offset_clone.store(max(1, vscroll), Ordering::SeqCst);"]:
        if n not in cb:
            raise ValueError("previewer.rs: the preview callback no longer contains `%s`" % n)
    return ("namespace SkimModel.Generated.Preview\n\n"
            "/-- `Previewer::new`: pane size assumed before the first `draw` -/\n"
            "def defaultWidth : Nat := %d\n"
            "def defaultHeight : Nat := %d\n"
            "/-- initial (1-based) scroll offsets -/\n"
            "def initialHScroll : Nat := %d\n"
            "def initialVScroll : Nat := %d\n\n"
            "end SkimModel.Generated.Preview\n") % (vals["width"], vals["height"], vals["hscroll_offset"], vals["vscroll_offset"])
