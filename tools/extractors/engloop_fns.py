"""src/engine/{exact,regexp,fuzzy}.rs: the loop of `match_item` over the matching ranges (`--nth`), TRANSLATED into a table per engine:
the default range, how a range is clamped to the text, what is returned without a compiled expression, what is added to the byte
offsets (resp. char indices) found inside the slice, how `inverse` is applied, and that the first range with a result ends the loop.
Props/EngineLoopTables.lean proves that interpreting the tables IS `Field.matchBytes` / `Field.matchChars` (C08 / C12)."""
import os, re, sys
sys.path.insert(0, os.path.dirname(os.path.abspath(__file__)))
import _rustfn as R

NAME = "EngineLoop"

V = {"start": ".start", "end": ".stop", "0": ".zero"}


def norm(b):
    b = re.sub(r"//[^\n]*", "", b)
    b = re.sub(r"\s+", " ", b).strip()
    return re.sub(r" ?\. ?", ".", b)


HEAD = (r"let mut matched_result = None; let item_text = item\.text\(\); let default_range = \[\((\d+), item_text\.len\(\)\)\]; "
        r"for &\(start, end\) in item\.get_matching_ranges\(\)\.unwrap_or\(&default_range\) \{ "
        r"let start = (min\(start, item_text\.len\(\)\)|start); let end = (min\(end, item_text\.len\(\)\)|end); ")
NOREGEX = r"if self\.query_regex\.is_none\(\) \{ matched_result = Some\(\((\d+), (\d+)\)\); break; \} "
FIND = (r"matched_result = regex_match\(&item_text\[(start|end|0)\.\.(start|end)\], &self\.query_regex\)"
        r"\.map\(\|\(s, e\)\| \(s(?: \+ (start|end))?, e(?: \+ (start|end))?\)\); ")
INVERSE = r"(if self\.inverse \{ matched_result = matched_result\.xor\(Some\(\((\d+), (\d+)\)\)\);? \} )?"
BREAK = r"if matched_result\.is_some\(\) \{ break; \} \}"


def bytes_engine(repo, fname, what):
    b = norm(R.fn_body(open(os.path.join(repo, "src", "engine", fname)).read(), "match_item")[0])
    m = re.match(HEAD + NOREGEX + FIND + INVERSE + BREAK + r" let \(begin, end\) = matched_result\?;", b)
    if not m:
        raise R.Unsupported(what + ": the loop over the matching ranges is not understood")
    g = m.groups()
    return ("{ defaultFrom := %s, clampStart := %s, clampEnd := %s, noRegex := (%s, %s), sliceFrom := %s, sliceTo := %s, "
            "addBegin := %s, addEnd := %s, inverse := %s, inverseXor := (%s, %s) }" % (
                g[0], "true" if g[1] != "start" else "false", "true" if g[2] != "end" else "false", g[3], g[4], V[g[5]], V[g[6]],
                V[g[7]] if g[7] else ".zero", V[g[8]] if g[8] else ".zero", "true" if g[9] else "false", g[10] or "0", g[11] or "0"))


def extract(repo):
    b = norm(R.fn_body(open(os.path.join(repo, "src", "engine", "fuzzy.rs")).read(), "match_item")[0])
    m = re.match(HEAD + r"matched_result = self\.fuzzy_match\(&item_text\[(start|end|0)\.\.(start|end)\], &self\.query\)\.map\(\|\(s, vec\)\| \{ "
                 r"if start != 0 \{ let start_char = &item_text\[\.\.(start|end)\]\.chars\(\)\.count\(\); "
                 r"\(s, vec\.iter\(\)\.map\(\|x\| x \+ start_char\)\.collect\(\)\) \} else \{ \(s, vec\) \} \}\); " + BREAK, b)
    if not m:
        raise R.Unsupported("FuzzyEngine: the loop over the matching ranges is not understood")
    g = m.groups()
    out = ["namespace SkimModel.Generated.EngineLoop", "",
           "inductive V | zero | start | stop", "  deriving DecidableEq, Repr", "",
           "/-- ExactEngine / RegexEngine: `default_range = [(defaultFrom, len)]`; `start` / `end` clamped by `min(.., len)`; without a compiled",
           "    expression the result is `noRegex`; `regex_match(&text[sliceFrom..sliceTo])` mapped to `(s + addBegin, e + addEnd)`; with",
           "    `inverse` the result is xor-ed with `Some(inverseXor)`; the first range with a result ends the loop -/",
           "structure BytesLoop where", "  defaultFrom : Nat", "  clampStart : Bool", "  clampEnd : Bool", "  noRegex : Nat × Nat",
           "  sliceFrom : V", "  sliceTo : V", "  addBegin : V", "  addEnd : V", "  inverse : Bool", "  inverseXor : Nat × Nat",
           "  deriving DecidableEq, Repr", "",
           "def exact : BytesLoop := " + bytes_engine(repo, "exact.rs", "ExactEngine"),
           "def regex : BytesLoop := " + bytes_engine(repo, "regexp.rs", "RegexEngine"), "",
           "/-- FuzzyEngine: the slice handed to the matcher, and the prefix whose characters are added to every index when `start != 0` -/",
           "structure CharsLoop where", "  defaultFrom : Nat", "  clampStart : Bool", "  clampEnd : Bool", "  sliceFrom : V", "  sliceTo : V",
           "  prefixTo : V", "  deriving DecidableEq, Repr", "",
           "def fuzzy : CharsLoop := { defaultFrom := %s, clampStart := %s, clampEnd := %s, sliceFrom := %s, sliceTo := %s, prefixTo := %s }" % (
               g[0], "true" if g[1] != "start" else "false", "true" if g[2] != "end" else "false", V[g[3]], V[g[4]], V[g[5]]), "",
           "end SkimModel.Generated.EngineLoop", ""]
    return "\n".join(out)


if __name__ == "__main__":
    print(extract(sys.argv[1] if len(sys.argv) > 1 else "/repo"))
