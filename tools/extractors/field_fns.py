"""src/field.rs: `FieldRange::translate_neg` and the four arms of `FieldRange::to_index_pair`, TRANSLATED statement by statement to
Lean definitions (tools/extractors/_rustfn.py).  Props/FieldFnsTables.lean proves each equal, for all inputs, to what the C12 model
(`Field.translateNeg`, `Field.toIndexPair`) computes for that constructor."""
import os, re, sys
sys.path.insert(0, os.path.dirname(os.path.abspath(__file__)))
import _rustfn as R

NAME = "FieldFns"


def indent(s, k=2):
    return "\n".join(" " * k + l for l in s.split("\n"))


def arm_body(body, head):
    m = re.search(re.escape(head) + r"\s*=>\s*\{", body)
    if not m:
        raise R.Unsupported("to_index_pair: arm %s not found" % head)
    i = m.end() - 1
    depth, j = 0, i
    while j < len(body):
        if body[j] == "{":
            depth += 1
        elif body[j] == "}":
            depth -= 1
            if depth == 0:
                return body[i + 1:j]
        j += 1
    raise R.Unsupported("unbalanced arm %s" % head)


def extract(repo):
    src = open(os.path.join(repo, "src", "field.rs")).read()
    out = ["namespace SkimModel.Generated.FieldFns", ""]
    body, sig = R.fn_body(src, "translate_neg")
    if not re.search(r"idx\s*:\s*i32\s*,\s*length\s*:\s*usize", sig):
        raise R.Unsupported("translate_neg: signature %r" % sig)
    e = R.translate(body, {}, locals_={"idx": "Int", "length": "Nat"})
    if e[1] != "Nat":
        raise R.Unsupported("translate_neg: type %s" % e[1])
    out += ["/-- `fn translate_neg(idx: i32, length: usize) -> usize` -/", "def translateNeg (idx : Int) (length : Nat) : Nat :=", indent(e[0]), ""]
    body, sig = R.fn_body(src, "to_index_pair")
    if not re.search(r"length\s*:\s*usize", sig):
        raise R.Unsupported("to_index_pair: signature %r" % sig)
    funcs = {"FieldRange::translate_neg": ("translateNeg", ["Int", "Nat"], "Nat"), "Self::translate_neg": ("translateNeg", ["Int", "Nat"], "Nat")}
    arms = [("Single(num)", "single", ["num"]), ("LeftInf(right)", "leftInf", ["right"]), ("RightInf(left)", "rightInf", ["left"]),
            ("Both(left, right)", "both", ["left", "right"])]
    if len(re.findall(r"=>\s*\{", body)) != len(arms):
        raise R.Unsupported("to_index_pair: expected exactly %d arms" % len(arms))
    for head, name, params in arms:
        ab = arm_body(body, head)
        loc = {p: "Int" for p in params}
        loc["length"] = "Nat"
        e = R.translate(ab, {}, funcs=funcs, locals_=loc)
        if not e[1].startswith("Option"):
            raise R.Unsupported("to_index_pair arm %s: type %s" % (head, e[1]))
        out += ["/-- arm `%s` of `fn to_index_pair(&self, length: usize) -> Option<(usize, usize)>` -/" % head,
                "def %s %s (length : Nat) : Option (Nat × Nat) :=" % (name, " ".join("(%s : Int)" % p for p in params)), indent(e[0]), ""]
    out += ["end SkimModel.Generated.FieldFns", ""]
    return "\n".join(out)


if __name__ == "__main__":
    print(extract(sys.argv[1] if len(sys.argv) > 1 else "/repo"))
