"""C19 tables: parse_event (src/event.rs), Event enum (src/event.rs), get_default_key_map (src/input.rs),
the three conditional arms of Model::start (src/model.rs), the input thread loop (src/lib.rs) and the key-name
table of tuikit::key::from_keyname (dependency source in the cargo registry, version from Cargo.lock).

Everything fails closed: a line of a table that does not have one of the understood shapes raises."""
import glob, os, re

NAME = "Keymap"


def _read(p):
    with open(p, encoding="utf-8") as f:
        return f.read()


def _body_after(src, head_re, what):
    """text between the '{' that follows head_re and its matching '}' (string/char literals are skipped)"""
    m = re.search(head_re, src)
    if not m:
        raise ValueError("cannot find %s" % what)
    i = src.index("{", m.end() - 1)
    depth, j, n = 0, i, len(src)
    while j < n:
        c = src[j]
        if c == '"':
            j += 1
            while src[j] != '"':
                j += 2 if src[j] == "\\" else 1
        elif c == "'" and j + 2 < n and (src[j + 2] == "'" or (src[j + 1] == "\\" and src[j + 3] == "'")):
            j += 3 if src[j + 2] == "'" else 4
            continue
        elif c == "/" and src[j + 1] == "/":
            j = src.index("\n", j)
            continue
        elif c == "{":
            depth += 1
        elif c == "}":
            depth -= 1
            if depth == 0:
                return src[i + 1:j]
        j += 1
    raise ValueError("unbalanced braces in %s" % what)


# ---------------------------------------------------------------- parse_event
def action_table(repo):
    src = _read(os.path.join(repo, "src", "event.rs"))
    body = _body_after(src, r"pub fn parse_event\(action: &str, arg: Option<String>\) -> Option<Event>\s*\{", "parse_event")
    body = _body_after(body, r"match action\s*\{", "match action")
    rows, saw_default = [], False
    for raw in body.split("\n"):
        line = raw.strip()
        if not line or line.startswith("//"):
            continue
        if re.fullmatch(r"_\s*=>\s*None,?", line):
            saw_default = True
            continue
        m = re.fullmatch(r'"([A-Za-z-]+)"\s*=>\s*Some\(Event::(\w+)(?:\((.*)\))?\),', line)
        if not m:
            raise ValueError("parse_event: line not understood: %r" % line)
        if saw_default:
            raise ValueError("parse_event: arm after the default arm")
        name, ctor, payload = m.group(1), m.group(2), m.group(3)
        if payload is None:
            kind, msg = "none", ""
        elif payload == "arg":
            kind, msg = "optStr", ""
        elif payload == "arg.and_then(|s|s.parse().ok()).unwrap_or(1)":
            kind, msg = "int1", ""
        else:
            m2 = re.fullmatch(r'arg\.expect\("([^"\\]*)"\)', payload)
            if not m2:
                raise ValueError("parse_event: payload not understood: %r" % payload)
            kind, msg = "reqStr", m2.group(1)
        rows.append((name, ctor, kind, msg))
    if not saw_default or len(rows) < 10:
        raise ValueError("parse_event: no default arm / too few arms")
    if len(set(r[0] for r in rows)) != len(rows):
        raise ValueError("parse_event: duplicate action name (later arm unreachable)")
    return rows


def event_enum(repo):
    src = _read(os.path.join(repo, "src", "event.rs"))
    body = _body_after(src, r"pub enum Event\s*\{", "enum Event")
    rows = []
    for raw in body.split("\n"):
        line = raw.strip()
        if not line or line.startswith("//") or line.startswith("#["):
            continue
        m = re.fullmatch(r"(\w+)(?:\(([\w<>]+)\))?,", line)
        if not m:
            raise ValueError("enum Event: line not understood: %r" % line)
        rows.append((m.group(1), m.group(2) or ""))
    return rows


# ---------------------------------------------------------------- keys
def _lean_char(ch):
    if len(ch) != 1:
        raise ValueError("bad char %r" % ch)
    o = ord(ch)
    if 0x20 <= o < 0x7F and ch not in "'\\":
        return "'%s'" % ch
    return "(Char.ofNat %d)" % o


def _rust_char(lit):
    """contents between the quotes of a Rust char literal"""
    if len(lit) == 1:
        return lit
    esc = {"\\'": "'", "\\\\": "\\", "\\n": "\n", "\\t": "\t", "\\r": "\r", "\\0": "\0"}
    if lit in esc:
        return esc[lit]
    raise ValueError("char literal not understood: %r" % lit)


PAYLOAD_KEYS = {"Ctrl": "ctrl", "CtrlAlt": "ctrlAlt", "Alt": "alt", "Char": "char"}


def _lean_key(variant, payload):
    if payload is None:
        return "(.named %s)" % _lean_str(variant)
    if variant in PAYLOAD_KEYS:
        m = re.fullmatch(r"'(.*)'", payload)
        if not m:
            raise ValueError("key payload not understood: %s(%s)" % (variant, payload))
        return "(.%s %s)" % (PAYLOAD_KEYS[variant], _lean_char(_rust_char(m.group(1))))
    if variant == "F" and re.fullmatch(r"\d+", payload):
        return "(.f %s)" % payload
    raise ValueError("key not understood: %s(%s)" % (variant, payload))


def _lean_str(s):
    """a `List Char` literal (explicit characters: the kernel evaluates `decide` over the tables much faster than
    through `String.toList`)"""
    for ch in s:
        if not (0x20 <= ord(ch) < 0x7F):
            raise ValueError("non-ASCII text in a table: %r" % s)
    if not s:
        return "[]"
    return "[" + ",".join(_lean_char(ch) for ch in s) + "]"


def _tuikit_key_rs(repo):
    lock = _read(os.path.join(repo, "Cargo.lock"))
    m = re.search(r'name = "tuikit"\nversion = "([^"]+)"', lock)
    if not m:
        raise ValueError("tuikit not in Cargo.lock")
    home = os.environ.get("CARGO_HOME") or os.path.expanduser("~/.cargo")
    cands = sorted(glob.glob(os.path.join(home, "registry", "src", "*", "tuikit-" + m.group(1), "src", "key.rs")))
    if not cands:
        raise ValueError("source of tuikit %s not found under %s" % (m.group(1), home))
    return cands[0]


def key_names(repo):
    src = _read(_tuikit_key_rs(repo))
    body = _body_after(src, r"pub fn from_keyname\(keyname: &str\) -> Option<Key>\s*\{", "from_keyname")
    if not re.search(r"match keyname\.to_lowercase\(\)\.as_ref\(\)\s*\{", body):
        raise ValueError("from_keyname: the match head is not `keyname.to_lowercase().as_ref()`")
    body = _body_after(body, r"match keyname\.to_lowercase\(\)\.as_ref\(\)\s*\{", "match keyname")
    # the two trailing arms: single-character fallback and the default
    norm = re.sub(r"\s+", " ", body)
    tail = ('ch if ch.chars().count() == 1 => { Some(Char(ch.chars().next().expect("input:parse_key: no key is specified"))) }, '
            "_ => None,")
    if not norm.strip().endswith(tail):
        raise ValueError("from_keyname: fallback arms not understood")
    head = body[:body.index("ch if ch.chars()")]
    rows = []
    for raw in head.split("\n"):
        line = raw.strip()
        if not line or line.startswith("//"):
            continue
        m = re.fullmatch(r'((?:"[^"\\]+"\s*\|\s*)*"[^"\\]+")\s*=>\s*Some\((\w+)(?:\((.*)\))?\),', line)
        if not m:
            raise ValueError("from_keyname: line not understood: %r" % line)
        names = re.findall(r'"([^"]+)"', m.group(1))
        for n in names:
            if n != n.lower():
                raise ValueError("from_keyname: arm %r can never match a lower-cased name" % n)
            rows.append((n, _lean_key(m.group(2), m.group(3))))
    if len(rows) < 100:
        raise ValueError("from_keyname: too few arms")
    if len(set(r[0] for r in rows)) != len(rows):
        raise ValueError("from_keyname: a name occurs in two arms (the later one is unreachable)")
    return rows


# ---------------------------------------------------------------- default key map
def default_keymap(repo, enum):
    src = _read(os.path.join(repo, "src", "input.rs"))
    body = _body_after(src, r"fn get_default_key_map\(\) -> HashMap<Key, ActionChain>\s*\{", "get_default_key_map")
    types = dict(enum)
    rows, state = [], 0
    for raw in body.split("\n"):
        line = raw.strip()
        if not line or line.startswith("//"):
            continue
        if state == 0 and line == "let mut ret = HashMap::new();":
            state = 1
            continue
        if state == 1 and line == "ret":
            state = 2
            continue
        m = re.fullmatch(r"ret\.insert\(Key::(\w+)(?:\(([^)]*)\))?,\s*vec!\[(.*)\]\);", line)
        if state != 1 or not m:
            raise ValueError("get_default_key_map: line not understood: %r" % line)
        key = _lean_key(m.group(1), m.group(2))
        evs = []
        for e in [x.strip() for x in m.group(3).split(",") if x.strip()]:
            m2 = re.fullmatch(r"Event::(\w+)(?:\((.*)\))?", e)
            if not m2 or m2.group(1) not in types:
                raise ValueError("get_default_key_map: event not understood: %r" % e)
            ctor, pl, ty = m2.group(1), m2.group(2), types[m2.group(1)]
            if pl is None and ty == "":
                evs.append("(.plain %s)" % _lean_str(ctor))
            elif ty == "i32" and pl is not None and re.fullmatch(r"-?\d+", pl):
                evs.append("(.int %s (%s))" % (_lean_str(ctor), pl))
            elif ty == "Option<String>" and pl == "None":
                evs.append("(.optStr %s none)" % _lean_str(ctor))
            else:
                raise ValueError("get_default_key_map: event payload not understood: %r" % e)
        rows.append((key, evs))
    if state != 2 or len(rows) < 10:
        raise ValueError("get_default_key_map: shape not understood")
    return rows


# ---------------------------------------------------------------- conditional arms of Model::start
COND_SHAPES = {
    "queryEmpty": r"Event::(\w+)\(ref arg_str\) => \{ if env\.query\.is_empty\(\) \{ next_event = parse_action_arg\(arg_str\)\.map\(\|ev\| \(key, ev\)\); continue; \} \}",
    "queryNotEmpty": r"Event::(\w+)\(ref arg_str\) => \{ if !env\.query\.is_empty\(\) \{ next_event = parse_action_arg\(arg_str\)\.map\(\|ev\| \(key, ev\)\); continue; \} \}",
    "nonMatched": r"Event::(\w+)\(ref arg_str\) => \{ let matched = self\.num_options \+ self\.matcher_control\.as_ref\(\)\.map\(\|c\| c\.get_num_matched\(\)\)\.unwrap_or\(0\); if matched == 0 \{ next_event = parse_action_arg\(arg_str\)\.map\(\|ev\| \(key, ev\)\); continue; \} \}",
}


def cond_arms(repo):
    src = _read(os.path.join(repo, "src", "model.rs"))
    norm = re.sub(r"\s+", " ", src)
    # every arm that calls parse_action_arg must be one of the three understood shapes
    n_calls = len(re.findall(r"parse_action_arg\(", norm))
    rows = []
    for cond, shape in COND_SHAPES.items():
        for m in re.finditer(shape, norm):
            rows.append((m.group(1), cond))
    if len(rows) != n_calls or len(rows) < 3:
        raise ValueError("model.rs: %d calls of parse_action_arg but %d arms of an understood shape" % (n_calls, len(rows)))
    if len(set(r[0] for r in rows)) != len(rows):
        raise ValueError("model.rs: two conditional arms for the same event")
    return sorted(rows)


# ---------------------------------------------------------------- input thread (src/lib.rs)
def input_thread(repo):
    norm = re.sub(r"\s+", " ", _read(os.path.join(repo, "src", "lib.rs")))
    a = re.search(r"let mut input = input::Input::new\(\); input\.parse_keymaps\(&options\.bind\); "
                  r"input\.parse_expect_keys\(options\.expect\.as_deref\(\)\);", norm)
    b = re.search(r"let \(key, action_chain\) = input\.translate_event\(key\); for event in action_chain\.into_iter\(\) \{ "
                  r"let _ = tx_clone\.send\(\(key, event\)\); \}", norm)
    if not a or not b:
        raise ValueError("lib.rs: input set-up / input thread loop not of the understood shape")
    return True


def extract(repo):
    acts = action_table(repo)
    enum = event_enum(repo)
    keys = key_names(repo)
    dflt = default_keymap(repo, enum)
    conds = cond_arms(repo)
    input_thread(repo)
    o = []
    o.append("import SkimModel.Model.KeyTypes")
    o.append("namespace SkimModel.Generated.Keymap")
    o.append("open SkimModel.Keymap")
    o.append("")
    o.append("/-- `parse_event` (src/event.rs): action name, constructor, argument kind, `.expect` message -/")
    o.append("def actionTable : List ActionRow := [")
    o.append(",\n".join("  ⟨%s, %s, .%s, %s⟩" % (_lean_str(n), _lean_str(c), k, _lean_str(m)) for n, c, k, m in acts))
    o.append("]")
    o.append("")
    o.append("/-- `enum Event` (src/event.rs): constructor, payload type (empty = none) -/")
    o.append("def eventEnum : List (List Char × List Char) := [")
    o.append(",\n".join("  (%s, %s)" % (_lean_str(c), _lean_str(t)) for c, t in enum))
    o.append("]")
    o.append("")
    o.append("/-- `tuikit::key::from_keyname` match arms (the name is lower-cased first; a name of exactly one")
    o.append("    character that is in no arm is `Char(c)`; anything else is `None`) -/")
    o.append("def keyNameTable : List (List Char × Key) := [")
    o.append(",\n".join("  (%s, %s)" % (_lean_str(n), k) for n, k in keys))
    o.append("]")
    o.append("")
    o.append("/-- `get_default_key_map` (src/input.rs), in source order (a later insert of the same key wins) -/")
    o.append("def defaultKeyRows : List (Key × List Event) := [")
    o.append(",\n".join("  (%s, [%s])" % (k, ", ".join(es)) for k, es in dflt))
    o.append("]")
    o.append("")
    o.append("/-- conditional arms of `Model::start` (src/model.rs): event constructor, condition under which")
    o.append("    `next_event = parse_action_arg(arg)` -/")
    o.append("def condTable : List (List Char × Cond) := [")
    o.append(",\n".join("  (%s, .%s)" % (_lean_str(c), k) for c, k in conds))
    o.append("]")
    o.append("")
    o.append("end SkimModel.Generated.Keymap")
    return "\n".join(o) + "\n"


if __name__ == "__main__":
    import sys
    print(extract(sys.argv[1]))
