"""src/previewer.rs `Previewer::on_item_change`: the condition under which a request is NOT re-sent (C20: "a request identical to the
previous one is not re-run unless refresh is forced") TRANSLATED to Lean, with the definitions of the four `*_changed` flags and the
update of the four `prev_*` fields checked to have the shape the C20 model's `onItemChange` mirrors.  Props/DedupeFnsTables.lean proves
the translated condition equal to the model's."""
import os, re, sys
sys.path.insert(0, os.path.dirname(os.path.abspath(__file__)))
import _rustfn as R

NAME = "DedupeFns"

OPT_MATCH = (r"let %s = match \(self\.%s\.as_ref\(\), %s\.as_ref\(\)\) \{ \(None, None\) => false, \(None, Some\(_\)\) => true, "
             r"\(Some\(_\), None\) => true, (?:#\[allow\([\w:]+\)\] )?\(Some\((\w+)\), Some\((\w+)\)\) => %s, \};")


def extract(repo):
    src = open(os.path.join(repo, "src", "previewer.rs")).read()
    body, _ = R.fn_body(src, "on_item_change")
    t = re.sub(r"//[^\n]*", "", body)
    t = re.sub(r"\s+", " ", t)
    for flag, prev, new, cmp in (("item_changed", "prev_item", "new_item", r"!Arc::ptr_eq\(\1, \2\)"),
                                 ("query_changed", "prev_query", "new_query", r"\1 != \2"),
                                 ("cmd_query_changed", "prev_cmd_query", "new_cmd_query", r"\1 != \2")):
        if not re.search(OPT_MATCH % (flag, prev, new, cmp), t):
            raise R.Unsupported("on_item_change: `%s` is not the four-arm comparison of self.%s with %s" % (flag, prev, new))
    if not re.search(r"let selected_items_changed = self\.prev_num_selected != num_selected;", t):
        raise R.Unsupported("on_item_change: selected_items_changed is not `self.prev_num_selected != num_selected`")
    m = re.search(r"if ([^{]*?) \{ return; \} self\.prev_item = new_item\.clone\(\); self\.prev_query = new_query; "
                  r"self\.prev_cmd_query = new_cmd_query; self\.prev_num_selected = num_selected;", t)
    if not m:
        raise R.Unsupported("on_item_change: `if <cond> { return; }` followed by the update of the four prev_* fields not found")
    tr = R.Tr(m.group(1), {"force": ("force", "Bool"), "item_changed": ("itemChanged", "Bool"), "query_changed": ("queryChanged", "Bool"),
                           "cmd_query_changed": ("cmdQueryChanged", "Bool"), "selected_items_changed": ("selectedItemsChanged", "Bool")})
    c = tr.expr()
    if tr.p != len(tr.t):
        raise R.Unsupported("on_item_change: the skip condition is not understood")
    return "\n".join(["namespace SkimModel.Generated.DedupeFns", "",
                      "/-- `Previewer::on_item_change` returns without sending a request iff this holds -/",
                      "def skip (force itemChanged queryChanged cmdQueryChanged selectedItemsChanged : Bool) : Prop :=",
                      "  " + tr.prop(c), "",
                      "/-- the four flags compare the remembered request with the new one (item by identity, queries by text, selection by COUNT),",
                      "    and a request that is sent becomes the remembered one -/",
                      "def flagsAndUpdateShapeOk : Bool := true", "",
                      "end SkimModel.Generated.DedupeFns", ""])


if __name__ == "__main__":
    print(extract(sys.argv[1] if len(sys.argv) > 1 else "/repo"))
