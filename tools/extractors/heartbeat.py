"""The boolean conditions of act_heart_beat and the step sequences of the restart handlers (src/model.rs), translated to a
small expression type.  Props/C01 / C14 prove (by cases over the atoms) that each is the condition the Session model uses, so a
change of a condition in the source changes the generated definition and a theorem stops checking."""
import os, re, sys
sys.path.insert(0, os.path.dirname(os.path.abspath(__file__)))
import _rustcond as rc
from _rustcond import parse, body_of, strip_verif, block_end, if_statements, cond_guarding, bound_name, one
NAME = "HeartBeat"
PROPS = ["C01", "C14"]

# Rust atoms -> Lean atoms
BASE_ATOMS = {
    "self.matcher_control.is_none()": "mcNone", "self.matcher_control.is_some()": "mcSome",
    "self.no_clear_if_empty": "nce", "matched.is_empty()": "resultEmpty",
    "self.select1": "select1", "self.exit0": "exit0", "self.sync": "sync",
    "num_matched == 1": "one", "num_matched == 0": "zero",
}


def extract(repo):
    src = open(os.path.join(repo, "src", "model.rs")).read()
    hb = strip_verif(body_of(src, "fn act_heart_beat(&mut self"))
    defs = []
    # the locals, whatever they are called: identified by what they are bound to
    rs = bound_name(hb, r"is_done", "the reader's is_done()")
    ms = bound_name(hb, r"\.stopped\(\)", "the matcher's stopped()")
    ic = bound_name(hb, r"num_not_taken\(\)\s*==\s*0", "num_not_taken() == 0")
    pr = bound_name(hb, r"\b%s\b\s*&&\s*\b%s\b|\b%s\b\s*&&\s*\b%s\b" % (rs, ic, ic, rs), "`<is_done> && <consumed>`")
    rc.ATOMS = dict(BASE_ATOMS)
    rc.ATOMS.update({rs: "rs", ic: "ic", ms: "ms", pr: "processed"})
    defs.append(("hbProcessed", one(r"let\s+%s\s*=\s*([^;]+);" % pr, hb, "the binding of `processed` in act_heart_beat")))
    m = re.search(r"ClearStrategy::ClearIfNotNull\s*=>\s*\{", hb)
    if not m:
        raise Exception("heartbeat: no ClearIfNotNull arm in act_heart_beat")
    arm = hb[m.end() - 1:block_end(hb, m.end() - 1)]
    defs.append(("hbClearIfNotNull", cond_guarding(arm, "self.selection.clear()", "the clear of the ClearIfNotNull arm")))
    defs.append(("hbRestart", cond_guarding(hb, "self.restart_matcher()", "restart_matcher()")))
    defs.append(("hbArm", cond_guarding(hb, "schedule_with_delay", "the timer")))
    # the order of the reads and of the three actions (harvest, restart, arm) in act_heart_beat
    order = [hb.index(x) for x in ("let %s" % rs, "let %s" % ms, "into_items()", "let %s" % ic,
                                   "let %s" % pr, "self.restart_matcher()", "schedule_with_delay")]
    if order != sorted(order):
        raise Exception("heartbeat: act_heart_beat no longer reads is_done, stopped, (harvest), num_not_taken and then restarts / arms in that order")
    if hb.count("is_done") != 1:
        raise Exception("heartbeat: act_heart_beat reads is_done %d times" % hb.count("is_done"))
    # the harvest happens only under the `stopped` reading
    if cond_guarding(hb, "into_items()", "the harvest").strip() != ms:
        raise Exception("heartbeat: the harvest is no longer guarded by the `stopped` reading alone")
    # the order of the steps of the three handlers that restart the matching (on_query_change, act_rotate_mode, on_cmd_query_change)
    STEPS = [("killReader", r"self\.reader_control\.take\(\)\s*\{\s*ctrl\.kill\(\);"),
             ("killMatcher", r"self\.matcher_control\.take\(\)\s*\{\s*ctrl\.kill\(\);"),
             ("clearAll", r"env\.clear_selection = ClearStrategy::Clear;"),
             ("clearIfNotNull", r"env\.clear_selection = ClearStrategy::ClearIfNotNull;"),
             ("resetPool", r"self\.item_pool\.reset\(\);"),
             ("clearPool", r"self\.item_pool\.clear\(\);"),
             ("zeroOptions", r"self\.num_options = 0;"),
             ("startReader", r"self\.reader_control\.replace\(self\.reader\.run\("),
             ("restartMatcher", r"self\.restart_matcher\(\);")]
    handlers = []
    for lean_name, sig in (("onQueryChange", "fn on_query_change(&mut self"), ("rotateMode", "fn act_rotate_mode(&mut self"),
                           ("onCmdQueryChange", "fn on_cmd_query_change(&mut self")):
        body = strip_verif(body_of(src, sig))
        # a call of a method of the model that is not one of the known steps may hide any of them: not understood
        unknown = sorted(set(re.findall(r"self\.(\w+)\(", body)) - {"restart_matcher"})
        if unknown:
            raise Exception("heartbeat: %s calls self.%s(), whose effect on matcher / reader / pool this translator does not know" % (lean_name, unknown[0]))
        found = []
        for name, pat in STEPS:
            for m in re.finditer(pat, body):
                found.append((m.start(), name))
        found.sort()
        handlers.append((lean_name, [n for _, n in found]))
    out = ["namespace SkimModel.Generated.HeartBeat", "",
           "/-- the values the conditions of the heart-beat handler are made of -/",
           "inductive Atom | rs | ic | ms | processed | mcNone | mcSome | nce | resultEmpty | select1 | exit0 | sync | one | zero",
           "  deriving DecidableEq, Repr", "",
           "inductive BExp | atom (a : Atom) | not (e : BExp) | and (a b : BExp) | or (a b : BExp)", "  deriving Repr", "",
           "def BExp.eval (v : Atom → Bool) : BExp → Bool",
           "  | .atom a => v a", "  | .not e => !(e.eval v)", "  | .and a b => a.eval v && b.eval v", "  | .or a b => a.eval v || b.eval v", ""]
    for name, rust in defs:
        rust = " ".join(rust.split())
        out.append("/-- `%s` -/" % rust)
        out.append("def %s : BExp := %s" % (name, parse(rust)))
        out.append("")
    out += ["/-- the steps of a handler that restarts the matching, in source order -/",
            "inductive HStep | killReader | killMatcher | clearAll | clearIfNotNull | resetPool | clearPool | zeroOptions | startReader | restartMatcher",
            "  deriving DecidableEq, Repr", ""]
    for lean_name, steps in handlers:
        out.append("def %s : List HStep := [%s]" % (lean_name, ", ".join("." + x for x in steps)))
    out += ["", "end SkimModel.Generated.HeartBeat", ""]
    return "\n".join(out)


if __name__ == "__main__":
    import sys
    print(extract(sys.argv[1] if len(sys.argv) > 1 else "/repo"))
