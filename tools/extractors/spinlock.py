"""Memory orderings written in src/spinlock.rs (lock / unlock CAS) and src/item.rs (pool counters)."""
import os, re
NAME = "SpinLock"

ORD = {"Relaxed": "relaxed", "Acquire": "acquire", "Release": "release", "AcqRel": "acqRel", "SeqCst": "seqCst"}

def _one(kind, hits):
    if len(hits) != 1:
        raise Exception("spinlock.rs: expected exactly one %s operation on `locked`, found %r" % (kind, hits))
    return hits[0]


def extract(repo):
    import sys
    sys.path.insert(0, os.path.dirname(os.path.abspath(__file__)))
    import _rustfn as R
    src = open(os.path.join(repo, "src", "spinlock.rs")).read()
    # the ACQUIRING operation: inside `fn lock`, in a loop, a CAS false->true (strong or weak) or a swap(true); its orderings
    lock_body, _ = R.fn_body(src, "lock")
    if not re.search(r"\b(while|loop)\b", lock_body):
        raise Exception("spinlock.rs: lock() no longer spins in a loop")
    acq = [(m.group(1), m.group(2)) for m in re.finditer(
        r"compare_exchange(?:_weak)?\(\s*false\s*,\s*true\s*,\s*Ordering::(\w+)\s*,\s*Ordering::(\w+)\s*\)", lock_body)]
    acq += [(m.group(1), m.group(1)) for m in re.finditer(r"\.swap\(\s*true\s*,\s*Ordering::(\w+)\s*\)", lock_body)]
    lock = _one("acquiring", acq)
    # the RELEASING operation: inside the guard's `fn drop`: a CAS true->false, a store(false) or a swap(false)
    drop_body, _ = R.fn_body(src, "drop")
    rel = [(m.group(1), m.group(2)) for m in re.finditer(
        r"compare_exchange(?:_weak)?\(\s*true\s*,\s*false\s*,\s*Ordering::(\w+)\s*,\s*Ordering::(\w+)\s*\)", drop_body)]
    rel += [(m.group(1), m.group(1)) for m in re.finditer(r"\.(?:store|swap)\(\s*false\s*,\s*Ordering::(\w+)\s*\)", drop_body)]
    unlock = _one("releasing", rel)
    lock = [("false", "true", lock[0], lock[1])]
    unlock = [("true", "false", unlock[0], unlock[1])]
    item = open(os.path.join(repo, "src", "item.rs")).read()
    # only the ItemPool part
    pool_src = item[item.index("pub struct ItemPool"):item.index("pub struct ItemPoolGuard")]
    pool_ords = re.findall(r"self\.(length|taken)\.(load|store|swap)\([^;]*?Ordering::(\w+)\)", pool_src)
    if len(pool_ords) < 8:
        raise Exception("item.rs: expected the ItemPool atomics, found %r" % (pool_ords,))
    out = ["namespace SkimModel.Generated.SpinLock", "",
           "inductive Ord | relaxed | acquire | release | acqRel | seqCst", "  deriving DecidableEq, Repr", "",
           "def lockSuccess : Ord := .%s" % ORD[lock[0][2]],
           "def lockFailure : Ord := .%s" % ORD[lock[0][3]],
           "def unlockSuccess : Ord := .%s" % ORD[unlock[0][2]],
           "def unlockFailure : Ord := .%s" % ORD[unlock[0][3]],
           "", "/-- (field, operation, ordering) for every atomic access inside `impl ItemPool` -/",
           "def poolAtomics : List (String × String × Ord) := ["]
    out.append(",\n".join('  ("%s", "%s", .%s)' % (f, op, ORD[o]) for f, op, o in pool_ords))
    out += ["]", "", "end SkimModel.Generated.SpinLock", ""]
    return "\n".join(out)
