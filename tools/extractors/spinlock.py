"""Memory orderings written in src/spinlock.rs (lock / unlock CAS) and src/item.rs (pool counters)."""
import os, re
NAME = "SpinLock"

ORD = {"Relaxed": "relaxed", "Acquire": "acquire", "Release": "release", "AcqRel": "acqRel", "SeqCst": "seqCst"}

def extract(repo):
    src = open(os.path.join(repo, "src", "spinlock.rs")).read()
    cas = re.findall(r"compare_exchange(?:_weak)?\(\s*(true|false)\s*,\s*(true|false)\s*,\s*Ordering::(\w+)\s*,\s*Ordering::(\w+)\s*\)", src)
    lock = [c for c in cas if c[0] == "false" and c[1] == "true"]
    unlock = [c for c in cas if c[0] == "true" and c[1] == "false"]
    if len(cas) != 2 or len(lock) != 1 or len(unlock) != 1:
        raise Exception("spinlock.rs: expected exactly one lock CAS (false->true) and one unlock CAS (true->false), found %r" % (cas,))
    # the lock loop must spin until the CAS succeeds, the guard's drop must perform the unlock
    if not re.search(r"pub fn lock\(&self\)[^{]*\{\s*while\s+self\s*\.locked\s*\.compare_exchange", src):
        raise Exception("spinlock.rs: lock() is no longer `while self.locked.compare_exchange(..).is_err() {}`")
    if not re.search(r"fn drop\(&mut self\)\s*\{\s*while\s+self\s*\.__lock\s*\.locked\s*\.compare_exchange", src):
        raise Exception("spinlock.rs: SpinLockGuard::drop no longer releases with a CAS loop")
    item = open(os.path.join(repo, "src", "item.rs")).read()
    # only the ItemPool part
    pool_src = item[item.index("pub struct ItemPool"):item.index("pub struct ItemPoolGuard")]
    pool_ords = re.findall(r"self\.(length|taken)\.(load|store|swap)\([^;]*?Ordering::(\w+)\)", pool_src)
    if len(pool_ords) < 8:
        raise Exception("item.rs: expected the ItemPool atomics, found %r" % (pool_ords,))
    out = ["namespace SkimModel.Generated.SpinLock", "",
           "inductive Ord | relaxed | acquire | release | acqRel | seqCst", "  deriving DecidableEq, Repr", "",
           "def lockSuccess : Ord := .%s" % ORD[lock[0][2]],
           "def lockFailure : Ord := .%s" % ORD[lock[0][3]],
           "def unlockSuccess : Ord := .%s" % ORD[unlock[0][2]],
           "def unlockFailure : Ord := .%s" % ORD[unlock[0][3]],
           "", "/-- (field, operation, ordering) for every atomic access inside `impl ItemPool` -/",
           "def poolAtomics : List (String × String × Ord) := ["]
    out.append(",\n".join('  ("%s", "%s", .%s)' % (f, op, ORD[o]) for f, op, o in pool_ords))
    out += ["]", "", "end SkimModel.Generated.SpinLock", ""]
    return "\n".join(out)
