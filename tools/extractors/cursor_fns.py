"""src/selection.rs: the integer cores of the list cursor — `known_height`, `act_move_line_cursor`, the `diff` of
`act_select_screen_row`, and the cursor fix-up at the end of `append_sorted_items` — TRANSLATED statement by statement to Lean
definitions (tools/extractors/_rustfn.py).  Props/CursorFnsTables.lean proves each equal, for all inputs, to the function the C09
model uses at that place: a change of the arithmetic in the source changes the generated definition and breaks that proof."""
import os, re, sys
sys.path.insert(0, os.path.dirname(os.path.abspath(__file__)))
import _rustfn as R

NAME = "CursorFns"

ATOMS = {
    "self.reverse": ("rev", "Bool"),
    "self.line_cursor": ("lc", "Nat"),
    "self.item_cursor": ("ic", "Nat"),
    "self.items.len()": ("n", "Nat"),
    "self.known_height()": ("H", "Nat"),
}


def indent(s, k=2):
    return "\n".join(" " * k + l for l in s.split("\n"))


def extract(repo):
    src = open(os.path.join(repo, "src", "selection.rs")).read()
    out = ["namespace SkimModel.Generated.CursorFns", ""]
    # known_height
    body, _ = R.fn_body(src, "known_height")
    e = R.translate(body, {"self.height.load(Ordering::Relaxed)": ("h", "Nat")})
    if e[1] != "Nat":
        raise R.Unsupported("known_height: type %s" % e[1])
    out += ["/-- `fn known_height(&self) -> usize` -/", "def knownHeight (h : Nat) : Nat :=", indent(e[0]), ""]
    # act_move_line_cursor
    body, sig = R.fn_body(src, "act_move_line_cursor")
    if not re.search(r"diff\s*:\s*i32", sig):
        raise R.Unsupported("act_move_line_cursor: signature %r" % sig)
    e = R.translate(body, ATOMS, result="(ic, lc)", locals_={"diff": "Int"})
    out += ["/-- `fn act_move_line_cursor(&mut self, diff: i32)`: the new (item_cursor, line_cursor) -/",
            "def actMoveLineCursor (rev : Bool) (lc ic n H : Nat) (diff : Int) : Nat × Nat :=", indent(e[0]), ""]
    # act_select_screen_row: everything before the final call is the computation of `diff`
    body, sig = R.fn_body(src, "act_select_screen_row")
    if not re.search(r"rows_to_top\s*:\s*usize", sig):
        raise R.Unsupported("act_select_screen_row: signature %r" % sig)
    m = re.search(r"self\.act_move_line_cursor\(\s*diff\s*\)\s*;\s*$", body.strip())
    if not m:
        raise R.Unsupported("act_select_screen_row does not end in act_move_line_cursor(diff)")
    pre = body.strip()[:m.start()]
    e = R.translate(pre + "\ndiff", ATOMS, locals_={"rows_to_top": "Nat"})
    if e[1] != "Int":
        raise R.Unsupported("act_select_screen_row: diff has type %s" % e[1])
    out += ["/-- the `diff` that `fn act_select_screen_row(&mut self, rows_to_top: usize)` hands to act_move_line_cursor -/",
            "def selectScreenRowDiff (rev : Bool) (lc H : Nat) (rows_to_top : Nat) : Int :=", indent(e[0]), ""]
    # append_sorted_items: the fix-up after `self.items.append(items)` (from `let height = self.known_height();` to the end)
    body, _ = R.fn_body(src, "append_sorted_items")
    i = body.find("let height = self.known_height();")
    if i < 0 or "self.items.append(items);" not in body[:i]:
        raise R.Unsupported("append_sorted_items: cursor fix-up not found after the append")
    e = R.translate(body[i:], ATOMS, result="(ic, lc)")
    out += ["/-- the cursor fix-up at the end of `fn append_sorted_items` (`n` = the length AFTER the append): the new (item_cursor, line_cursor) -/",
            "def appendFixup (lc ic n H : Nat) : Nat × Nat :=", indent(e[0]), ""]
    out += ["end SkimModel.Generated.CursorFns", ""]
    return "\n".join(out)


if __name__ == "__main__":
    print(extract(sys.argv[1] if len(sys.argv) > 1 else "/repo"))
