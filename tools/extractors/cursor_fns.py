"""src/selection.rs: the integer cores of the list cursor — `known_height`, `act_move_line_cursor`, the `diff` of
`act_select_screen_row`, and the cursor fix-up at the end of `append_sorted_items` — TRANSLATED statement by statement to Lean
definitions (tools/extractors/_rustfn.py).  Props/CursorFnsTables.lean proves each equal, for all inputs, to the function the C09
model uses at that place: a change of the arithmetic in the source changes the generated definition and breaks that proof."""
import os, re, sys
sys.path.insert(0, os.path.dirname(os.path.abspath(__file__)))
import _rustfn as R

NAME = "CursorFns"

ATOMS = {
    "self.reverse": ("rev", "Bool"),
    "self.line_cursor": ("lc", "Nat"),
    "self.item_cursor": ("ic", "Nat"),
    "self.items.len()": ("n", "Nat"),
    "self.known_height()": ("H", "Nat"),
}


def indent(s, k=2):
    return "\n".join(" " * k + l for l in s.split("\n"))


def extract(repo):
    src = open(os.path.join(repo, "src", "selection.rs")).read()
    out = ["namespace SkimModel.Generated.CursorFns", ""]
    # known_height
    body, _ = R.fn_body(src, "known_height")
    e = R.translate(body, {"self.height.load(Ordering::Relaxed)": ("h", "Nat")})
    if e[1] != "Nat":
        raise R.Unsupported("known_height: type %s" % e[1])
    out += ["/-- `fn known_height(&self) -> usize` -/", "def knownHeight (h : Nat) : Nat :=", indent(e[0]), ""]
    # act_move_line_cursor
    body, sig = R.fn_body(src, "act_move_line_cursor")
    if not re.search(r"diff\s*:\s*i32", sig):
        raise R.Unsupported("act_move_line_cursor: signature %r" % sig)
    e = R.translate(body, ATOMS, result="(ic, lc)", locals_={"diff": "Int"})
    out += ["/-- `fn act_move_line_cursor(&mut self, diff: i32)`: the new (item_cursor, line_cursor) -/",
            "def actMoveLineCursor (rev : Bool) (lc ic n H : Nat) (diff : Int) : Nat × Nat :=", indent(e[0]), ""]
    # act_select_screen_row: everything before the final call is the computation of `diff`
    body, sig = R.fn_body(src, "act_select_screen_row")
    if not re.search(r"rows_to_top\s*:\s*usize", sig):
        raise R.Unsupported("act_select_screen_row: signature %r" % sig)
    m = re.search(r"self\.act_move_line_cursor\(\s*diff\s*\)\s*;\s*$", body.strip())
    if not m:
        raise R.Unsupported("act_select_screen_row does not end in act_move_line_cursor(diff)")
    pre = body.strip()[:m.start()]
    e = R.translate(pre + "\ndiff", ATOMS, locals_={"rows_to_top": "Nat"})
    if e[1] != "Int":
        raise R.Unsupported("act_select_screen_row: diff has type %s" % e[1])
    out += ["/-- the `diff` that `fn act_select_screen_row(&mut self, rows_to_top: usize)` hands to act_move_line_cursor -/",
            "def selectScreenRowDiff (rev : Bool) (lc H : Nat) (rows_to_top : Nat) : Int :=", indent(e[0]), ""]
    # append_sorted_items: the fix-up after `self.items.append(items)` (from `let height = self.known_height();` to the end)
    body, _ = R.fn_body(src, "append_sorted_items")
    i = body.find("let height = self.known_height();")
    if i < 0 or "self.items.append(items);" not in body[:i]:
        raise R.Unsupported("append_sorted_items: cursor fix-up not found after the append")
    e = R.translate(body[i:], ATOMS, result="(ic, lc)")
    out += ["/-- the cursor fix-up at the end of `fn append_sorted_items` (`n` = the length AFTER the append): the new (item_cursor, line_cursor) -/",
            "def appendFixup (lc ic n H : Nat) : Nat × Nat :=", indent(e[0]), ""]
    # Draw::draw of the list: the range of items painted, the row of each, where the pointer goes
    body, _ = R.fn_body(src, "draw")
    i, j = body.find("let item_idx_lower"), body.find("clear_canvas(canvas)")
    if i < 0 or j < i:
        raise R.Unsupported("draw: the item range is not computed before clear_canvas")
    e = R.translate(body[i:j] + "\n(item_idx_lower, item_idx_upper)", ATOMS, locals_={"screen_height": "Nat"})
    out += ["/-- `Draw::draw`: the half-open range of item indices it paints on a canvas of height `screen_height` -/",
            "def drawRange (ic n screen_height : Nat) : Nat × Nat :=", indent(e[0]), ""]
    m = re.search(r"for\s+item_idx\s+in\s+item_idx_lower\s*\.\.\s*item_idx_upper\s*\{", body)
    if not m:
        raise R.Unsupported("draw: loop `for item_idx in item_idx_lower..item_idx_upper` not found")
    loop = body[m.end():]
    m2 = re.search(r"let\s+line_cursor\s*=.*?let\s+line_no\s*=\s*if.*?\}\s*else\s*\{.*?\}\s*;", loop, re.S)
    if not m2 or m2.start() > 5 and loop[:m2.start()].strip():
        raise R.Unsupported("draw: `let line_cursor = ..; let line_no = if ..;` not at the top of the loop")
    e = R.translate(m2.group(0) + "\n(line_cursor, line_no)", ATOMS, locals_={"screen_height": "Nat", "item_idx": "Nat", "item_idx_lower": "Nat"})
    out += ["/-- `Draw::draw`, one iteration: (row of the window, screen row) of item `item_idx` -/",
            "def drawRow (rev : Bool) (item_idx_lower screen_height item_idx : Nat) : Nat × Nat :=", indent(e[0]), ""]
    m3 = re.search(r"let\s+label\s*=\s*if\s+(.*?)\s*\{\s*\">\"\s*\}\s*else\s*\{\s*\" \"\s*\}\s*;", loop, re.S)
    if not m3:
        raise R.Unsupported("draw: the pointer label `if .. { \">\" } else { \" \" }` not found")
    tr = R.Tr(m3.group(1), ATOMS)
    tr.env.update({"line_cursor": "Nat"})
    c = tr.expr()
    if tr.p != len(tr.t):
        raise R.Unsupported("draw: pointer condition not understood")
    out += ["/-- `Draw::draw`: the row of the window that gets the pointer label `>` -/",
            "def pointerHere (line_cursor lc : Nat) : Prop :=", indent(tr.prop(c)), ""]
    out += ["end SkimModel.Generated.CursorFns", ""]
    return "\n".join(out)


if __name__ == "__main__":
    print(extract(sys.argv[1] if len(sys.argv) > 1 else "/repo"))
