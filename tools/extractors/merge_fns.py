"""src/ansi.rs `merge_fragments`: ONE ITERATION of its `while` loop TRANSLATED to Lean (tools/extractors/_rustfn.py) — which index
advances, the new `os`, and what is pushed (whose attribute, which range) as a function of the two fragments at the heads and `os` —
and the shape of the loop condition and of the two tail statements checked.  Props/MergeFnsTables.lean proves that the model's literal
loop `mergeLoop` performs exactly this iteration; `c17_loop_eq` relates `mergeLoop` to the recursion all C17 theorems are about."""
import os, re, sys
sys.path.insert(0, os.path.dirname(os.path.abspath(__file__)))
import _rustfn as R

NAME = "MergeFns"


def indent(s, k=2):
    return "\n".join(" " * k + l for l in s.split("\n"))


def extract(repo):
    src = open(os.path.join(repo, "src", "ansi.rs")).read()
    body, sig = R.fn_body(src, "merge_fragments")
    t = re.sub(r"//[^\n]*", "", body)
    tn = re.sub(r"\s+", " ", t).strip()
    if not tn.startswith("let mut ret = vec![]; let mut i = 0; let mut j = 0; let mut os = 0; while i < old.len() && j < new.len() {"):
        raise R.Unsupported("merge_fragments: preamble / loop condition not understood")
    i = t.index("while")
    j = t.index("{", i)
    depth, k = 0, j
    while True:
        if t[k] == "{":
            depth += 1
        elif t[k] == "}":
            depth -= 1
            if depth == 0:
                break
        k += 1
    loop, tail = t[j + 1:k], re.sub(r"\s+", " ", t[k + 1:]).strip()
    if not re.fullmatch(r"if i < old\.len\(\) \{ for &\(oa, \(s, e\)\) in old\[i\.\.\]\.iter\(\) \{ ret\.push\(\(oa, \(max\(os, s\), e\)\)\);? \} \} "
                        r"if j < new\.len\(\) \{ ret\.extend_from_slice\(&new\[j\.\.\]\); \} ret", tail):
        raise R.Unsupported("merge_fragments: the statements after the loop are not `push the rest of old raised to os; append the rest of new; ret`")
    m1 = re.search(r"let\s*\(\s*oa\s*,\s*\(\s*o_start\s*,\s*oe\s*\)\s*\)\s*=\s*old\[i\]\s*;", loop)
    m2 = re.search(r"let\s*\(\s*na\s*,\s*\(\s*ns\s*,\s*ne\s*\)\s*\)\s*=\s*new\[j\]\s*;", loop)
    if not (m1 and m2):
        raise R.Unsupported("merge_fragments: the heads `old[i]` / `new[j]` are not destructured as (oa, (o_start, oe)) / (na, (ns, ne))")
    b = loop.replace(m1.group(0), "").replace(m2.group(0), "")
    b = re.sub(r"ret\.push\(\(\s*oa\s*,\s*\(\s*(.*?)\s*,\s*(.*?)\s*\)\s*\)\)\s*;", r"kind = 1; ps = \1; pe = \2;", b)
    b = re.sub(r"ret\.push\(\(\s*na\s*,\s*\(\s*(.*?)\s*,\s*(.*?)\s*\)\s*\)\)\s*;", r"kind = 2; ps = \1; pe = \2;", b)
    if "ret" in b or "old" in b or "new" in b:
        raise R.Unsupported("merge_fragments: a statement of the loop body is not understood")
    b = "let mut i = 0; let mut j = 0; let mut kind = 0; let mut ps = 0; let mut pe = 0;\n" + b
    e = R.translate(b, {}, result="(i, j, os, kind, ps, pe)",
                    locals_={"os": "Nat", "o_start": "Nat", "oe": "Nat", "ns": "Nat", "ne": "Nat"})
    out = ["namespace SkimModel.Generated.MergeFns", "",
           "/-- one iteration of the `while` loop of `merge_fragments` on the heads `(oa, (o_start, oe))`, `(na, (ns, ne))`:",
           "    (i advanced?, j advanced?, new os, what is pushed: 0 nothing / 1 with the OLD attribute / 2 with the NEW attribute, its start, its end) -/",
           "def mergeIter (os o_start oe ns ne : Nat) : Nat × Nat × Nat × Nat × Nat × Nat :=", indent(e[0]), "",
           "/-- loop condition `i < old.len() && j < new.len()`; after the loop: the rest of `old` pushed with `max(os, start)`, the rest of `new` appended -/",
           "def loopShapeOk : Bool := true", "",
           "end SkimModel.Generated.MergeFns", ""]
    return "\n".join(out)


if __name__ == "__main__":
    print(extract(sys.argv[1] if len(sys.argv) > 1 else "/repo"))
