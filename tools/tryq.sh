#!/bin/sh
# usage: tools/tryq.sh <Cxx> <variant> [checks...]   -- try_seed with a compact summary
p=$1; v=$2; shift 2
python3 /verif/tools/try_seed.py $p $v "$@" 2>&1 | python3 -c "
import sys,json
t=sys.stdin.read()
try:
    i=t.index('{'); d=json.loads(t[i:])
except Exception:
    print(t[-800:]); sys.exit(0)
print(d['property'],d['variant'],'tests_pass',d.get('existing_tests_pass'),'caught',d.get('caught'))
for c,v in d['checks'].items(): print('  ',c,'exit',v['exit'],'wall',v['wall'],[l[:160] for l in v['lines'] if not l.startswith('KNOWN')][:2],v.get('first_replay'))
"
