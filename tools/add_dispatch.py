#!/usr/bin/env python3
"""usage: tools/add_dispatch.py <Cxx> handle|answer  -- add the dispatch arms for a merged property"""
import sys
pid, form = sys.argv[1], sys.argv[2]
p='/verif/lean/Main.lean'
s=open(p).read()
if "Driver.%s\n"%pid not in s:
    s=s.replace("import SkimModel.Driver.C15\n","import SkimModel.Driver.%s\nimport SkimModel.Driver.C15\n"%pid,1)
    if form=='handle':
        arm='''    | "%s" =>
      match %s.handle case impl with
      | .ok (m, v) => m ++ "\\t" ++ v
      | .error e => "error:" ++ e ++ "\\terror"
'''%(pid,pid)
    else:
        arm='    | "%s" => %s.answer case impl\n'%(pid,pid)
    s=s.replace('    | "C15" => C15.answer case impl\n', arm+'    | "C15" => C15.answer case impl\n',1)
    open(p,'w').write(s)
p='/verif/harness/src/main.rs'
s=open(p).read()
m=pid.lower()
if "mod %s;"%m not in s:
    s=s.replace("mod c15;\n","mod %s;\nmod c15;\n"%m,1)
    s=s.replace('        "C15" => c15::run(case),','        "%s" => %s::run(case),\n        "C15" => c15::run(case),'%(pid,m),1)
    open(p,'w').write(s)
