#!/bin/sh
# usage: tools/wsdiff.sh <name>  -- list files that differ between the workspace copy and /verif
W=/tmp/w/$1/verif
diff -rq "$W" /verif -x .git -x target -x .lake -x .audit -x replay -x evidence -x __pycache__ -x '.lock-*' -x Cargo.lock 2>/dev/null | grep -v "Only in /verif"
