#!/usr/bin/env python3
"""Prepare a seeding job for a fresh sub-agent: scratch worktree of /repo under /tmp/seed/<Cxx>/repo and a prompt that contains ONLY the
property text and one-line descriptions of the variants that already exist (so that the new ones differ).
usage: tools/mkseedprompt.py <Cxx> <v1> <v2>     (e.g.  C01 e f)"""
import json, os, subprocess, sys, glob

prop, v1, v2 = sys.argv[1], sys.argv[2], sys.argv[3]
ROOT = os.path.dirname(os.path.dirname(os.path.abspath(__file__)))
P = None
for l in open(os.path.join(ROOT, "properties.jsonl")):
    p = json.loads(l)
    if p["id"] == prop:
        P = p
d = "/tmp/seed/%s" % prop
os.makedirs(d + "/out", exist_ok=True)
if not os.path.isdir(d + "/repo"):
    subprocess.check_call(["git", "-C", "/repo", "worktree", "add", "--detach", d + "/repo", "HEAD"], stdout=subprocess.DEVNULL)
prev = []
for m in sorted(glob.glob(os.path.join(ROOT, "seeded", prop + "-*", "meta.json"))):
    j = json.load(open(m))
    prev.append("   - variant %s: %s (files: %s)" % (j.get("variant"), str(j.get("what_breaks"))[:700], j.get("files")))
anchors = ", ".join(P["anchors"]["files"])
txt = f"""You are helping to evaluate a verification framework for lotabout/skim (a Rust terminal fuzzy finder, an fzf clone).
Your job: write a realistic CHANGE to skim's source that BREAKS the property below, while the crate still compiles and its
existing test suite still passes. You are given ONLY the property text and your own scratch git worktree of skim.

Your scratch worktree: {d}/repo   (a git worktree of skim at its current HEAD; work ONLY there; do not read or touch /verif,
/repo or any other directory outside {d} — what you write must be independent of any existing checks).

THE PROPERTY ({prop} — {P['title']}):
{P['statement']}

It is quantified over: {P['quantifier']['text']}

Anchors in the code (where the mechanism lives): {anchors}

Requirements for the change:
 * It must make skim violate the property for SOME input / schedule / history, i.e. a real semantic bug — not a crash on
   every run and not something ordinary use would expose at once. Prefer a bug that needs something SPECIFIC to manifest:
   a particular interleaving, a fault or completion at a particular point, a multi-step sequence of operations, an unusual
   input (boundary size, multi-byte text, ties, empty values), or two cooperating sites that each look fine alone.
 * It must look like a plausible maintainer mistake or "optimisation" (a few lines; no dead giveaways, no comments saying it is a bug).
 * `cd {d}/repo && cargo build --offline` must succeed and `cargo test --offline` must still pass (37 unit tests + 1 doctest),
   with the change applied. Note: the crate has a cargo feature `verif` with `#[cfg(feature = "verif")]` hook lines (logging /
   accessors used by external tooling). Leave those lines alone and keep them compiling: also run
   `cargo build --offline --features verif` and make sure it still builds.
 * Produce TWO different, independent changes if you can (variant {v1} and variant {v2}), each breaking the property in a different way.
   Earlier variants were already written by others — do NOT repeat them or close relatives of them; look for DIFFERENT
   code sites, clauses of the property, or triggering conditions:
{chr(10).join(prev)}

For each variant X in {{{v1}, {v2}}} deliver, under {d}/out/X/ :
   patch.diff      `git -C {d}/repo diff` of that variant alone (relative to HEAD; apply/revert cleanly with git apply)
   demo.*          a demonstration that FAILS with the change and PASSES without it: either a Rust test file that can be dropped
                   into the crate (say where; e.g. a `#[cfg(test)]` module appended to a source file, or an example under examples/)
                   or a small shell script driving the built `sk` binary (`cargo build --release --offline`; note a DEBUG build
                   of the `sk` binary panics at startup inside clap, so use --release for the binary). Actually run it both ways.
   meta.json       {{"property": "{prop}", "variant": "X", "what_breaks": "...", "needs_to_manifest": "...", "files": [...],
                    "how_demonstrated": "exact commands you ran and what you observed with / without the change"}}
After producing a variant's files, revert the worktree (`git -C {d}/repo checkout -- . && git -C {d}/repo clean -fd`) before
starting the next one, and leave the worktree clean at the end. There is no network. Do not spend more than about 60-90 minutes.
Finish with a short summary of the two variants."""
open(d + "/PROMPT.md", "w").write(txt)
print(d + "/PROMPT.md")
