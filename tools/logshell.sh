#!/bin/sh
# Stand-in for $SHELL in the pty stream: skim runs `$SHELL -c <expanded command>`; the command is NOT executed, its bytes are
# appended (hex, one line per invocation) to $VERIF_EXEC_LOG, so that the check sees exactly what the Model handed to the shell.
[ "$1" = "-c" ] || exit 0
printf '%s' "$2" | od -An -v -tx1 | tr -d ' \n' >> "$VERIF_EXEC_LOG"
printf '\n' >> "$VERIF_EXEC_LOG"
