#!/usr/bin/env python3
"""Prepare a job for a fresh sub-agent that writes BEHAVIOUR-PRESERVING rewrites of the code a property is anchored in (to measure
how often the checks alarm on code where the property still holds).  usage: tools/mkharmlessprompt.py <Cxx>"""
import json, os, subprocess, sys
prop = sys.argv[1]
ROOT = os.path.dirname(os.path.dirname(os.path.abspath(__file__)))
P = [json.loads(l) for l in open(os.path.join(ROOT, "properties.jsonl")) if json.loads(l)["id"] == prop][0]
d = "/tmp/seed/%s" % prop
os.makedirs(d + "/out", exist_ok=True)
if not os.path.isdir(d + "/repo"):
    subprocess.check_call(["git", "-C", "/repo", "worktree", "add", "--detach", d + "/repo", "HEAD"], stdout=subprocess.DEVNULL)
anchors = ", ".join(P["anchors"]["files"])
mech = "\n".join("   - %s (%s)" % (m["name"], m["where"]) for m in P["anchors"]["mechanism"])
txt = f"""You are helping to evaluate a verification framework for lotabout/skim (a Rust terminal fuzzy finder, an fzf clone).
Your job this time: write realistic BEHAVIOUR-PRESERVING changes to skim's source — the kind of refactor, clean-up or optimisation a
maintainer commits every week — in the code the property below depends on. The property must STILL HOLD after each change, and no
observable behaviour of skim may change at all. (The framework should stay quiet on such changes; we measure whether it does.)

Your scratch worktree: {d}/repo   (a git worktree of skim at its current HEAD; work ONLY there; do not read or touch /verif,
/repo or any other directory outside {d}).

THE PROPERTY ({prop} — {P['title']}):
{P['statement']}

Where its mechanism lives: {anchors}
{mech}

Write THREE different, independent behaviour-preserving changes (variants h1, h2, h3), each touching the functions named above
(not unrelated code). Make them DIFFERENT IN KIND, for example:
   * rename local variables / reorder independent statements / merge or split `let` bindings / invert an `if`/`else`,
   * extract a helper function or inline one, turn a loop into an iterator chain or back, replace a `match` by `if let` (same arms),
   * change a comment-only or formatting-only region, reorder `match` arms that do not overlap, reorder struct fields or methods,
   * a micro-optimisation that provably computes the same values (capacity hints, avoiding a clone, early `continue`).
Each must be something a reviewer would accept as a pure refactor. Rules:
 * `cd {d}/repo && cargo build --offline`, `cargo build --offline --features verif` and `cargo test --offline` (37 unit tests + 1 doctest) must pass.
 * Keep every line that belongs to the cargo feature `verif` (`#[cfg(feature = "verif")]` attribute + the statement or item it guards)
   exactly as it is and at the same place relative to the statements around it (they are logging hooks of external tooling);
   do not change public signatures.
 * Convince yourself that behaviour is unchanged (reason about it, and where cheap compare the release binary's output before/after
   on a few inputs, e.g. `printf 'a\\nb\\nab\\n' | ./target/release/sk -f a`).
For each variant X in {{h1, h2, h3}} deliver under {d}/out/X/ :
   patch.diff   `git -C {d}/repo diff` of that variant alone (relative to HEAD; must apply with git apply)
   meta.json    {{"property": "{prop}", "variant": "X", "kind": "harmless", "what_changes": "...", "why_behaviour_is_unchanged": "...", "files": [...]}}
Revert the worktree between variants (`git -C {d}/repo checkout -- . && git -C {d}/repo clean -fd`) and leave it clean at the end.
There is no network. Do not spend more than about 45-60 minutes. Finish with a short summary."""
open(d + "/PROMPT.md", "w").write(txt)
print(d + "/PROMPT.md")
