#!/usr/bin/env python3
"""Regenerate /verif/MANIFEST.json from the property modules under vlib/props (single source of truth)."""
import importlib, json, os, subprocess, sys
ROOT = os.path.dirname(os.path.dirname(os.path.abspath(__file__)))
sys.path.insert(0, ROOT)
props = [json.loads(l)["id"] for l in open(os.path.join(ROOT, "properties.jsonl"))]
checks, na = [], []
for p in props:
    path = os.path.join(ROOT, "vlib", "props", p.lower() + ".py")
    if not os.path.exists(path):
        na.append(dict(property_id=p, reason="check not built yet (work in progress; planned per DESIGN.md section 5)"))
        continue
    m = importlib.import_module("vlib.props." + p.lower())
    if getattr(m, "NOT_APPLICABLE", None):
        na.append(dict(property_id=p, reason=m.NOT_APPLICABLE))
        continue
    checks.append(dict(
        property_id=p,
        quick_cmd="./check %s --tier quick" % p,
        thorough_cmd="./check %s --tier thorough" % p,
        evidence_file="/verif/evidence/%s.json" % p,
        replay_cmd_template="./check %s --replay {path}" % p,
        engine="lean4-proof+correspondence",
        level_claimed=dict(category="proof", text=m.LEVEL_TEXT, design_ref=getattr(m, "DESIGN_REF", "DESIGN.md §5 " + p)),
        level_note=m.LEVEL_NOTE,
        technique=m.TECHNIQUE))
hooks = subprocess.run(["git", "-C", "/repo", "log", "--format=%h %s", "--grep=^verif hooks"], capture_output=True, text=True).stdout.strip().split("\n")
man = dict(
    version=1,
    setup_cmd="./setup.sh",
    hooks=dict(guard="cargo feature `verif` (off by default)",
               enable="harness/Cargo.toml depends on skim { path = \"/repo\", features = [\"verif\"] }; every check runs `cargo build --offline` there, which rebuilds /repo's working tree",
               baseline_off_cmd="cd /repo && cargo test --workspace --no-fail-fast --offline",
               source_commits=[h.split(" ")[0] for h in hooks if h],
               add_only=True),
    engines=[dict(name="lean4-proof+correspondence", path="/verif/check",
                  serves_properties=[c["property_id"] for c in checks],
                  kind_free_text="Lean 4 model + theorems (lean/SkimModel), tables regenerated from /repo/src by tools/extract.py, hand-written models tied to the code by a differential correspondence harness (harness/) driven by vlib/")],
    checks=checks,
    notes="See DESIGN.md. Known findings: known_findings.json. `fixed` entries correspond to `fix:` commits in /repo.",
    not_applicable=na)
json.dump(man, open(os.path.join(ROOT, "MANIFEST.json"), "w"), indent=1)
print("checks:", [c["property_id"] for c in checks], "not_applicable:", [n["property_id"] for n in na])
