"""C12 — field ranges (--nth, --with-nth, {N}) select exactly the designated fields."""
ID = "C12"
EXTRA_PROPS = ["FieldFnsTables", "ItemFnsTables", "C12Translated", "FieldGlueTables", "EngineLoopTables"]
SUBMODULES = ["c12cli"]   # the field cases of the pty stream: {N} placeholders under -d / --with-nth at the Model's call sites   # translate_neg / to_index_pair as TRANSLATED from src/field.rs = the model's functions (Props/FieldFnsTables.lean)
N_QUICK, N_THOROUGH = 6000, 400000
RULE = ("lines assembled from fields (empty, ASCII, 2/3/4-byte characters) and instances of the delimiter regex "
        "(13 regexes incl. ones that match empty: x*, \\b, ^, $), leading/trailing/adjacent delimiters; range "
        "expressions N, N.., ..M, N..M with N, M in -k-2..k+2 (exhaustive per line in the exh-* streams), malformed "
        "and overflowing expressions; ops w (--with-nth) n (--nth) g ({N}) t (to_index_pair(len), len 0..8); nine "
        "engine modes with needles cut from the line (inside a field, across a delimiter, scattered over fields). "
        "Every case also builds the item through SkimItemReader from the option strings; the thorough tier runs the real "
        "`sk --filter` binary on a sample (~1500 cases). "
        "non-trivial = the line contains at least one delimiter instance or the case has a t op with len >= 1, and at "
        "least one range expression parses; distinct by sha1 of the case line")
ASSUMPTIONS = [
    "Regex::find_iter of the delimiter yields matches in order, non-overlapping, inside the text, on char boundaries "
    "(checked on every case by the driver: okMatches on m1 and m2; a breach is reported as bad:delimiter-contract)",
    "regex class \\d on the generated alphabet = ASCII digits + U+0663 U+FF13 U+0967 (shared table, driver isD)",
    "numbers outside i32 are outside the property (the code falls back to 1 / -1; the model mirrors that)",
    "exact/regex engines: Regex::find of an escaped literal (optionally anchored) = leftmost occurrence; "
    "fuzzy engine (skim_v2, case respected): verdict = case-sensitive char subsequence, indices validated not predicted",
]
TRUSTED = ["regex crate (delimiter find_iter, engine find) and fuzzy-matcher are parameters of the model (see assumptions)"]

DELIMS = [
    (",", [","]),
    ("\\t", ["\t"]),
    ("[\\t\\n ]+", [" ", "  ", "\t", " \t ", "\n"]),
    ("x*", ["x", "xx", "xxx", ""]),
    (",|;", [",", ";"]),
    ("中", ["中"]),
    (", ", [", "]),
    ("a|ab", ["a", "ab"]),
    ("(?i)x", ["x", "X"]),
    ("\\b", [" ", ""]),
    ("^", [""]),
    ("$", [""]),
    (".", ["a", "é", "中"]),
]
FIELD_ALPHA = list("abcXx") + ["é", "中", "😀", "'", " ", ",", ";", "b", "a", "\u3000", "\u00a0", "\x0c", "\x0b"]
NEEDLE_OK = set("abcXx,; é中😀\t")
MODES = ["e", "p", "s", "b", "i", "f", "r", "rp", "rs", "x"]
MALFORMED = ["", "..", "...", "1...2", "a", "1..b", "a..1", "-", "--1", "1-2", "-1-2", "+1", " 1", "1 ", "٣", "３..",
             "..१", "1٣..2", "99999999999", "-99999999999", "2147483647", "2147483648", "-2147483648",
             "-2147483649", "1..2..3", "1.2", ".1", "1.", "007", "-0", "-00", "1\n", "1..99999999999", "99999999999..2",
             "-..", "..-", "1..-", "0", "0..0", "٣٣"]


import os, sys

SK_SAMPLE = 1500   # thorough tier: this many generated cases also go through the real `sk --filter` binary


def run(tier, seed, replay=None):
    """thorough tier (or VERIF_C12_SK=1): build the real `sk` binary (release profile: a debug build of the
    binary panics in clap's debug assertions) into /repo/target/release and let the harness call it."""
    from vlib import core
    want_binary = tier == "thorough" or bool(os.environ.get("VERIF_C12_SK"))
    if replay:
        try:
            import json
            want_binary = want_binary or ";k|" in json.load(open(replay)).get("case", "")
        except Exception:
            pass
    if want_binary:
        try:
            core.build_sk()          # sets VERIF_SK_BIN for the harness
        except core.BuildError as e:
            path = core.write_replay(ID, seed, "build", dict(kind="harness-build-broken",
                                     theorem_or_stream="cargo build of the sk binary", detail=e.detail))
            print("VIOLATION property=%s replay=%s no-failing-input-found" % (ID, path))
            return 1
    return core.run_property(sys.modules[__name__], tier, seed, replay)


def enc(s):
    return ".".join(str(ord(c)) for c in s) if s else "-"


def dec(s):
    return "" if s in ("-", "") else "".join(chr(int(t)) for t in s.split("."))


def rfield(rng):
    r = rng.random()
    if r < 0.22:
        return ""
    n = rng.choice([1, 1, 2, 3, 5])
    return "".join(rng.choice(FIELD_ALPHA) for _ in range(n))


def rline(rng):
    """returns (delimiter regex, text, list of field texts as assembled)"""
    d, inst = rng.choice(DELIMS)
    k = rng.choice([1, 2, 2, 3, 3, 4, 5, 6, 8])
    fields = [rfield(rng) for _ in range(k)]
    text = ""
    for i, f in enumerate(fields):
        text += f
        if i + 1 < k:
            text += rng.choice(inst)
    if rng.random() < 0.2:
        text = rng.choice(inst) + text
    if rng.random() < 0.2:
        text = text + rng.choice(inst)
    return d, text, fields


def rnum(rng, k):
    return rng.randint(-k - 2, k + 2)


def rrange(rng, k):
    r = rng.random()
    if r < 0.06:
        return rng.choice(MALFORMED)
    form = rng.randint(0, 3)
    a, b = rnum(rng, k), rnum(rng, k)
    if r < 0.12:
        a = rng.choice([a, 2147483647, -2147483648, 1000, -1000])
    if form == 0:
        return "%d" % a
    if form == 1:
        return "%d.." % a
    if form == 2:
        return "..%d" % b
    return "%d..%d" % (a, b)


def all_ranges(k):
    lo, hi = -k - 2, k + 2
    out = []
    for a in range(lo, hi + 1):
        out += ["%d" % a, "%d.." % a, "..%d" % a]
    for a in range(lo, hi + 1):
        for b in range(lo, hi + 1):
            out.append("%d..%d" % (a, b))
    return out


def rneedle(rng, text, fields, mode):
    cand = [c for c in text if c in NEEDLE_OK]
    r = rng.random()
    s = ""
    if text and r < 0.45:
        # a contiguous piece of the line (may cross a delimiter)
        i = rng.randrange(len(text))
        j = min(len(text), i + rng.choice([1, 1, 2, 3]))
        s = text[i:j]
    elif fields and r < 0.7:
        f = rng.choice(fields)
        s = f if rng.random() < 0.6 else f[:rng.randint(0, len(f))]
    elif cand and r < 0.92:
        # scattered characters in line order (for the fuzzy engine: spread over several fields)
        idx = sorted(rng.sample(range(len(cand)), min(len(cand), rng.choice([1, 2, 2, 3]))))
        s = "".join(cand[i] for i in idx)
    else:
        s = "".join(rng.choice("abXq中") for _ in range(rng.randint(0, 2)))
    s = "".join(c for c in s if c in NEEDLE_OK)
    if mode == "f":
        s = s.strip("'!^$")
    if not s and mode in ("e", "i", "f"):   # an empty query gives MatchAllEngine (no ranges involved)
        s = rng.choice(["a", "b", "中"])
    return s


def mkcase(text, d, mode, needle, ops, binary=False):
    return "%s;%s;%s;%s%s|%s" % (enc(text), enc(d), mode, enc(needle), ";k" if binary else "", " ".join(ops))


def gen(rng, tier, n):
    cap = 90 if tier == "quick" else 400
    pk = 1.0 if os.environ.get("VERIF_C12_SK") else (min(1.0, 3.0 * SK_SAMPLE / n) if tier == "thorough" else 0.0)
    for i in range(n):
        d, text, fields = rline(rng)
        k = len(fields)
        mode = rng.choice(MODES)
        needle = rneedle(rng, text, fields, mode) if mode != "x" else ""
        r = rng.random()
        ops = []
        if r < 0.6:
            nw = rng.choice([0, 0, 0, 1, 2, 3])
            for _ in range(nw):
                ops.append("w:" + enc(rrange(rng, k)))
            for _ in range(rng.choice([0, 1, 1, 2, 3])):
                ops.append("n:" + enc(rrange(rng, k if nw == 0 else k + 2)))
            for _ in range(rng.choice([0, 1, 2])):
                ops.append("g:" + enc(rrange(rng, k)))
            for _ in range(rng.choice([0, 0, 1])):
                ops.append("t:%s:%d" % (enc(rrange(rng, k)), rng.randint(0, 8)))
            rng.shuffle(ops)
        elif r < 0.72:
            rs = all_ranges(k)
            rng.shuffle(rs)
            ops = ["g:" + enc(x) for x in rs[:cap]]
        elif r < 0.84:
            rs = all_ranges(k)
            rng.shuffle(rs)
            kind = rng.choice(["n", "n", "w"])
            ops = [kind + ":" + enc(x) for x in rs[:cap if kind == "n" else 12]]
        elif r < 0.93:
            ln = rng.randint(0, 8)
            rs = all_ranges(ln)
            rng.shuffle(rs)
            ops = ["t:%s:%d" % (enc(x), ln) for x in rs[:cap]]
        else:
            ms = list(MALFORMED)
            rng.shuffle(ms)
            for x in ms[:rng.randint(3, 14)]:
                kind = rng.choice("wngt")
                ops.append("t:%s:%d" % (enc(x), rng.randint(0, 5)) if kind == "t" else kind + ":" + enc(x))
        # the binary is only asked on small cases of the mixed stream (about a third of the flagged ones are eligible)
        binary = pk > 0 and r < 0.6 and mode != "x" and rng.random() < pk
        yield mkcase(text, d, mode, needle, ops, binary)


def _parts(case):
    hd, ops = case.rsplit("|", 1)
    text, d, mode, needle = hd.split(";")[:4]
    return dec(text), dec(d), mode, dec(needle), ops.split()


def _plausible(r):
    import re
    return re.match(r"^(-?\d+)?(\.\.)?(-?\d+)?$", r, re.A) is not None


def nontrivial(case):
    text, d, mode, needle, ops = _parts(case)
    if not ops:
        return False
    import re
    try:
        has_delim = any(True for _ in re.finditer(d, text)) if text else False
    except re.error:
        has_delim = False
    t_ok = any(o.startswith("t:") and int(o.split(":")[2]) >= 1 for o in ops)
    parses = any(_plausible(dec(o.split(":")[1])) for o in ops)
    return (has_delim or t_ok) and parses


def histogram_keys(case):
    text, d, mode, needle, ops = _parts(case)
    ks = ["delim=" + d.replace("\t", "\\t"), "mode=" + mode]
    kinds = sorted(set(o[0] for o in ops))
    ks += ["op=" + k for k in kinds]
    ks.append("ops<=%d" % next((b for b in (0, 1, 3, 8, 30, 100, 1000) if len(ops) <= b), 1000))
    if any(ord(c) > 127 for c in text):
        ks.append("multibyte-text")
    if not text:
        ks.append("empty-text")
    if any(not _plausible(dec(o.split(":")[1])) for o in ops):
        ks.append("malformed-range")
    if "w" in kinds and "n" in kinds:
        ks.append("with-nth+nth")
    if mode != "x" and "n" in kinds:
        ks.append("engine+nth")
    if mode != "x" and not needle:
        ks.append("empty-needle")
    if case.rsplit("|", 1)[0].endswith(";k"):
        ks.append("sk-binary")
    return ks


def classify(r):
    return None


TECHNIQUE = ("Lean 4 proofs about a byte-level model of field.rs (range grammar, to_index_pair, delimiter scan, the three consumers, "
             "the engines' loop over matching ranges) with the delimiter match list as a parameter + differential correspondence "
             "against skim::field, DefaultSkimItem and the engines")
LEVEL_TEXT = ("Theorems c12_* prove, for every line, every delimiter match list satisfying the find_iter contract and every range: "
              "to_index_pair = the set {lo..hi} clipped to 1..k; the ranges tile the line (field i owns delimiter i); with-nth = "
              "concatenation of the selected fields in the order written; {N} = the selected fields without the trailing delimiter; "
              "nth = byte spans on char boundaries inside the line; no panic; the engines report positions relative to the whole line "
              "inside the first selected span in which the term matches. The model is tied to the code by running skim::field, "
              "DefaultSkimItem::new and the engine factories on generated lines/delimiters/ranges and diffing every output; the "
              "option-string path (SkimItemReaderOption -d/--with-nth/--nth) is compared with the directly built item on every case "
              "and the real `sk --filter` binary on a sample of the thorough tier.")
LEVEL_NOTE = ("Trusted: Lean kernel + propext/Classical.choice/Quot.sound; regex crate and fuzzy-matcher are parameters (contract checked per case); "
              "the hand model of field.rs is tied to the code by the correspondence only; i32 overflow outside the property.")

TECHNIQUE += ' + translator tie: translate_neg / to_index_pair (src/field.rs) and the item glue (src/helper/item.rs) translated and proved equal to the model (Props/FieldFnsTables.lean, ItemFnsTables.lean, C12Translated.lean)'
TECHNIQUE += '; get_ranges_by_delimiter and the begin/end reads of get_string_by_field / parse_matching_fields / parse_transform_fields translated into source tables and proved equal to the model (Props/FieldGlueTables.lean)'
TECHNIQUE += '; the --nth loop of the leaf engines translated (Props/EngineLoopTables.lean)'
