"""C03 — each search term matches by its documented rule (fuzzy, ' ^ $ !, case, regex)."""
import itertools

ID = "C03"
EXTRA_PROPS = ["TermOpsTables"]   # create_engine_with_case as TRANSLATED from src/engine/factory.rs = decodeTerm (Props/TermOpsTables.lean)
N_QUICK, N_THOROUGH = 5000, 60000
STRICT_MODEL = True
RULE = ("one term (or one regex) x a list of texts per case; terms = operator prefix x body x '$' suffix over "
        "{a b z A B Z k s 1 ' ^ $ ! \\ blank tab . * ( | [ + ? - é Ж 中 😀} (Ж = an upper-case letter that is not ASCII: it must not switch smart case on; its lower-case partner is never generated); texts derived from the body (equal, case-flipped, "
        "embedded, interleaved, truncated, reversed) plus random ones; x exact-mode x case {smart,respect,ignore} x "
        "algo {skim_v1,skim_v2,clangd}; regex mode: generated valid and invalid expressions; thorough tier adds the exhaustive "
        "enumeration of all terms of length <= 4 over {a B ' ^ $ ! \\ blank} x all texts of length <= 3 over {a A b B blank 中} "
        "x 18 configurations. non-trivial = term non-empty and at least one text non-empty; distinct by sha1 of the case line")
ASSUMPTIONS = [
    "fuzzy-matcher 0.3.7: verdict of fuzzy_indices = its cheap_matches pre-filter (greedy in-order scan, ASCII folding by the case rule)",
    "regex 1.6: find() of [(?i)][^]escape(lit)[$] = infix/prefix/suffix/equality of the literal; (?i) = ASCII folding on the generated alphabet "
    "(of the cased non-ASCII letters only é and Ж are generated, never their partners É / ж; U+212A and U+017F are not generated: the property claims case-insensitivity for ASCII only)",
    "regex mode: the regex crate is an oracle (harness reports compile/find for `q` and `(?i)q`); only skim's wrapper is modelled",
]

LOW, UP = "abzks", "ABZ"
OTHER = ["1", "Ж", "é", "中", "😀", ".", "*", "(", "|", "[", "+", "?", "-", "\\", "'", "^", "$", "!", " ", "\t", "#", ")"]
OPS_PRE = ["", "", "", "", "'", "'", "!", "!", "^", "^", "'!", "!^", "'^", "'!^", "!'", "^!", "''", "!!", "^^", "'^!"]
OPS_POST = ["", "", "", "$", "$", "$$", "\\$"]
CASES, ALGOS = "sri", "12c"


def enc(s):
    return ".".join(str(ord(c)) for c in s) if s else "-"


def dec(s):
    return "" if s in ("-", "") else "".join(chr(int(t)) for t in s.split("."))


def rbody(rng):
    n = rng.choice([0, 1, 1, 2, 2, 3, 3, 4, 5, 8])
    style = rng.random()
    out = []
    for _ in range(n):
        r = rng.random()
        if style < 0.12:            # lower-case ASCII plus a non-ASCII upper-case letter (smart case must stay insensitive)
            out.append(rng.choice(LOW) if r < 0.7 else "Ж")
        elif style < 0.45:            # lower-case only (smart case => insensitive)
            out.append(rng.choice(LOW) if r < 0.85 else rng.choice(OTHER))
        elif style < 0.8:           # mixed case
            out.append(rng.choice(LOW + UP) if r < 0.85 else rng.choice(OTHER))
        else:                       # anything
            out.append(rng.choice(list(LOW + UP) + OTHER))
    return "".join(out)


def flipcase(rng, s, p=0.5):
    return "".join((c.swapcase() if c.isascii() and c.isalpha() and rng.random() < p else c) for c in s)


def rtext(rng, lo=0, hi=8):
    return "".join(rng.choice(list(LOW + UP) * 2 + OTHER) for _ in range(rng.randint(lo, hi)))


def texts_for(rng, body, term):
    """texts aimed at the verdict boundaries of `body`"""
    out = []
    k = rng.randint(3, 8)
    for _ in range(k):
        r = rng.random()
        b = body if rng.random() < 0.6 else flipcase(rng, body)
        if r < 0.12:
            t = b
        elif r < 0.24:
            t = b + rtext(rng, 1, 3)
        elif r < 0.36:
            t = rtext(rng, 1, 3) + b
        elif r < 0.46:
            t = rtext(rng, 1, 3) + b + rtext(rng, 1, 3)
        elif r < 0.62:              # interleaved: a subsequence but (mostly) not a substring
            t = "".join(c + (rtext(rng, 0, 2) if rng.random() < 0.6 else "") for c in b)
            if rng.random() < 0.5:
                t = rtext(rng, 0, 2) + t
        elif r < 0.70 and b:        # one character missing
            i = rng.randrange(len(b))
            t = b[:i] + b[i + 1:] + rtext(rng, 0, 2)
        elif r < 0.76:
            t = b[::-1]
        elif r < 0.80:
            t = ""
        elif r < 0.85:
            t = term                # the raw term itself (operators are text here)
        elif r < 0.90:
            t = b + b
        else:
            t = rtext(rng)
        out.append(t)
    return out


RE_PIECES = ["a", "b", "A", "B", ".", "a*", "b+", "z?", "[ab]", "[A-Z]", "(a|b)", "^", "$", "\\d", "\\w", "a{2}", "\\.", " ", "中",
             "(?i)", "(?-i)", "\\b", "[^a]", "(", ")", "[", "]", "{", "*", "+", "?", "\\", "a{", "(?P<", "|", "é"]


def rregex(rng):
    return "".join(rng.choice(RE_PIECES) for _ in range(rng.choice([0, 1, 1, 2, 2, 3, 4, 6])))


def line(kind, exact, cm, algo, term, texts):
    return "%s;%d;%s;%s;%s;%s" % (kind, int(exact), cm, algo, enc(term), ",".join(enc(t) for t in texts))


EX_TERM = ["a", "B", "'", "^", "$", "!", "\\", " "]
EX_TEXT = ["a", "A", "b", "B", " ", "中"]


def exhaustive():
    texts = [""]
    for n in (1, 2, 3):
        texts += ["".join(p) for p in itertools.product(EX_TEXT, repeat=n)]
    texts += ["aB", "Ba", "ab", "a B", "aB中", "'aB", "^aB$", "aB$", "!aB", "\\aB\\", "a'B", "aaBB", "a^B", "a$B", "a!B"]
    for n in range(0, 5):
        for p in itertools.product(EX_TERM, repeat=n):
            term = "".join(p)
            for exact in (0, 1):
                for cm in CASES:
                    for algo in ALGOS:
                        yield line("t", exact, cm, algo, term, texts)


def gen(rng, tier, n):
    if tier == "thorough":
        for c in exhaustive():
            yield c
    for i in range(n):
        exact = rng.random() < 0.35
        cm = rng.choice(CASES)
        algo = rng.choice(ALGOS)
        r = rng.random()
        if r < 0.12:
            q = rregex(rng)
            texts = [rtext(rng) for _ in range(rng.randint(2, 6))] + [flipcase(rng, q)]
            yield line("r", exact, cm, algo, q, texts)
            continue
        if r < 0.22:                 # malformed / raw stream: any characters
            term = rtext(rng, 0, 6)
            body = term.strip("'!^$")
        else:
            body = rbody(rng)
            if rng.random() < 0.12:      # a blank at an edge of the body (typed as an escaped blank, see kind w)
                body = rng.choice([" " + body, body + " ", " " + body + " "])
            term = rng.choice(OPS_PRE) + body + rng.choice(OPS_POST)
        # kind w: the same term as it is TYPED inside a query (blanks escaped), through the and/or splitter on top of the term factory;
        # valid when the splitter leaves exactly this one term: no bar at either end (bars there are stray bars, C04)
        kind = "w" if rng.random() < 0.2 and term and not (term[0] == "|" or term[-1] == "|") else "t"
        yield line(kind, exact, cm, algo, term, texts_for(rng, body, term))


def fields(case):
    return case.split(";")


def nontrivial(case):
    f = fields(case)
    return f[4] != "-" and any(t != "-" for t in f[5].split(","))


def histogram_keys(case):
    f = fields(case)
    term = dec(f[4])
    ks = ["kind=" + f[0], "exact=" + f[1], "case=" + f[2], "algo=" + f[3]]
    if f[0] in ("t", "w"):
        i = 0
        while i < len(term) and term[i] in "'!^":
            i += 1
        j = len(term)
        while j > i and term[j - 1] == "$":
            j -= 1
        ks.append("ops=%s_%s" % (term[:i][:3], term[j:][:2]))
        ks.append("bodylen<=%d" % next(b for b in (0, 1, 2, 3, 5, 8, 10 ** 6) if j - i <= b))
        ks.append("upper" if any(c.isascii() and c.isupper() for c in term) else "noupper")
        if any(ord(c) > 127 for c in term):
            ks.append("multibyte-term")
    return ks


def shrink_candidates(case):
    f = fields(case)
    term, texts = f[4], f[5].split(",")
    out = []

    def mk(tm, tx):
        return ";".join(f[:4] + [tm, ",".join(tx)])
    if len(texts) > 1:
        for t in texts:
            out.append(mk(term, [t]))
    tl = [] if term == "-" else term.split(".")
    for i in range(len(tl)):
        out.append(mk(".".join(tl[:i] + tl[i + 1:]) or "-", texts))
    if len(texts) == 1:
        xl = [] if texts[0] == "-" else texts[0].split(".")
        for i in range(len(xl)):
            out.append(mk(term, [".".join(xl[:i] + xl[i + 1:]) or "-"]))
    return out


def classify(r):
    f = fields(r["case"])
    # specific signature: V1 algorithm, and the implementation's verdicts equal the spec's verdicts with the case
    # option forced to `ignore` (computed by the driver) while differing from the spec's verdicts for the real option
    if f[0] in ("t", "w") and f[3] == "1" and r["verdict"] == "bad:v1-ignores-case":
        return "C03-skimv1-ignores-case"
    return None


TECHNIQUE = ("Lean 4 proof that the engine model (term decoding, greedy fuzzy scan, anchored literal search, case rule) equals a declarative "
             "spec (Sublist / prefix / suffix / infix / equality on ASCII-folded texts) for all terms and texts + verdict and engine-structure "
             "correspondence against the real engines built by the public factories")
LEVEL_TEXT = ("c03_term proves for every configuration (algo != skim_v1), term and text that the model's verdict is the documented rule; "
              "c03_greedy_iff_sublist proves the greedy scan complete for all patterns/texts; exact terms are proved to be infix/prefix/suffix/"
              "equality with inversion; smart case, the exact-mode quote flip and empty bodies are separate theorems. The model is tied to the "
              "code by running the same (term, texts, configuration) through ExactOrFuzzyEngineFactory / RegexEngineFactory and comparing the "
              "verdicts and the canonicalised engine structure (Display).")
LEVEL_NOTE = ("fuzzy-matcher and regex are parameters of the model (assumed behaviour stated in Model/Engine.lean, exercised by the correspondence "
              "run only). Known finding: skim_v1 ignores the case option (c03_v1_counterexample).")


# ---- CLI level (thorough tier): sk --filter on a sample ----------------------------------------------------------
N_CLI = 250


def cli_item(case):
    """a C03 case as a CLI invocation, or None when the CLI (which always goes through AndOrEngineFactory) would parse
    the term as something else than one term"""
    f = fields(case)
    term, texts = dec(f[4]), [dec(t) for t in f[5].split(",")]
    if f[0] == "w":
        return None
    if f[0] == "t" and (not term.strip() or any(c in term for c in " |\0") or term != term.strip()):
        return None
    return (case, f[0] == "r", f[1] == "1", f[2], f[3], term, texts)


def run(tier, seed, replay):
    import json, random, sys
    from vlib import core
    from vlib.props import _skcli
    mod = sys.modules[__name__]
    if replay and json.load(open(replay)).get("kind") == "cli-mismatch":
        it = cli_item(json.load(open(replay))["case"])
        bad, n = _skcli.check(ID, seed, [it] if it else [])
        return 1 if bad else 0
    rc = core.run_property(mod, tier, seed, replay)
    if tier == "thorough" and not replay:
        rng = random.Random(seed + 1000003)
        items = [cli_item(c) for c in core.corpus_cases(ID) + list(gen(rng, "quick", 4 * N_CLI))]
        items = [i for i in items if i is not None][:3 * N_CLI]
        bad, n = _skcli.check(ID, seed, items[:N_CLI * 2])
        _skcli.annotate(ID, n, bad)
        print("%s cli-level: %d sk --filter invocations, %d mismatches" % (ID, n, bad))
        if bad:
            rc = 1
    return rc

TECHNIQUE += ' + translator tie: create_engine_with_case translated statement by statement from src/engine/factory.rs and proved equal to decodeTerm (Props/TermOpsTables.lean)'
