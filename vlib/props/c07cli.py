"""Sub-stream of C07: the pty stream of c05cli.py (real `sk` binary, stand-in $SHELL recording the commands of execute-silent), judged on
the recorded commands ONLY (stream id C07CLI -> Driver/C05Cli.answerWith execOnly): what the session prints at its end is C05's and
C19's subject."""
from .c05cli import *          # noqa: F401,F403  (generator, python_harness, shrinker, histogram)
from . import c05cli as _base
ID = "C07"
HARNESS_PROP = "C07CLI"
NEEDS_SK = True
N_QUICK, N_THOROUGH = _base.N_QUICK, _base.N_THOROUGH
STRICT_MODEL = False
SHRINK_ROUNDS, SHRINK_BATCH, PY_PARALLEL = _base.SHRINK_ROUNDS, _base.SHRINK_BATCH, _base.PY_PARALLEL
RULE = _base.RULE + " — judged on the commands handed to $SHELL only"
python_harness = _base.python_harness
gen = _base.gen
