"""C19 — key bindings: --bind / --expect parsing, key map override, translate_event, conditional arguments."""
import importlib.util, os, re

ID = "C19"
SUBMODULES = ["c05cli"]     # end-to-end: bindings, expect keys, chains and conditionals on the real `sk` binary under a pty
N_QUICK, N_THOROUGH = 3000, 120000
STRICT_MODEL = True

_HERE = os.path.dirname(os.path.abspath(__file__))
_ROOT = os.path.dirname(os.path.dirname(_HERE))
_REPO = os.environ.get("VERIF_REPO", "/repo")


def _tables():
    spec = importlib.util.spec_from_file_location("ex_keymap", os.path.join(_ROOT, "tools", "extractors", "keymap.py"))
    m = importlib.util.module_from_spec(spec)
    spec.loader.exec_module(m)
    acts = m.action_table(_REPO)           # (name, ctor, kind, msg)
    keys = [n for n, _ in m.key_names(_REPO)]
    return acts, keys


_CACHE = os.path.join(_HERE, "_c19_tables.json")
try:
    ACTS, KEYNAMES = _tables()
    try:
        import json as _json
        _txt = _json.dumps({"acts": [list(a) for a in ACTS], "keys": KEYNAMES}, indent=0, sort_keys=True)
        if not os.path.exists(_CACHE) or open(_CACHE).read() != _txt:
            open(_CACHE, "w").write(_txt)
    except Exception:
        pass
except Exception:
    # the translator does not understand the current source (the runner says so): the generator keeps using the tables of the
    # last tree it understood (committed cache), so that the correspondence stream still exercises the whole action / key table
    import json as _json
    _c = _json.load(open(_CACHE))
    ACTS, KEYNAMES = [tuple(a) for a in _c["acts"]], _c["keys"]

PLAIN = [a[0] for a in ACTS if a[2] == "none"]
INTS = [a[0] for a in ACTS if a[2] == "int1"]
REQ = [a[0] for a in ACTS if a[2] == "reqStr"]
OPT = [a[0] for a in ACTS if a[2] == "optStr"]

RULE = ("0-3 --bind strings rendered from random specifications (1-4 bindings, chains of 1-3 actions over the full action table "
        "read from parse_event, keys over the full tuikit key-name table incl. aliases, upper-case spellings, single characters "
        "and invalid names; arguments in the five forms with commas, colons, plus signs, brackets of the other kinds, quotes, "
        "placeholders, blanks, newlines, multi-byte text; integer arguments around the i32 limits) + a malformed stream "
        "(mutations with syntax characters, empty/missing arguments, unknown actions, blanks between actions) + --expect lists "
        "+ parse_action_arg arguments + translate_event probes of every named key, default keys, unbound and printable keys (incl. characters of display width 0); "
        "at most 10 ':' per string; non-trivial = at least one --bind string containing ':' and at least two probes; distinct by sha1 of the case line")
ASSUMPTIONS = [
    "str::to_lowercase in tuikit::from_keyname is modelled for ASCII only (generated key names contain no cased non-ASCII letter)",
    "regex crate semantics enter only through the correspondence check: the matchers of Model/Keymap.lean are a hand compilation of the two regexes of parse_key_action",
    "the conditional arms of Model::start and the input-thread loop of lib.rs are tied by shape extraction (tools/extractors/keymap.py fails closed), not yet by a headless session",
    "std::sync::mpsc channel is FIFO without loss (chain order)",
    "generated strings contain at most 10 ':' each: the executable model's search for the end of a lazy `:arg` is exponential in the number of ':' of a non-matching text (its result is unaffected; the regex crate is linear)",
]
TRUSTED = ["tuikit 0.5.0 key-name table: extracted from the dependency's source in the cargo registry (version from Cargo.lock)"]

ARG_ATOMS = list("abcxyzAZ09") + [" ", " ", "{}", "{q}", "{+}", "{1..}", "{n}", ",", ":", "+", "(", ")", "[", "]", '"', "'",
                                  "|", "$", "-", "=", "\n", "\t", "é", "中", "😀", "\\", "%", ";", "&"]
SAFE_ATOMS = list("abcxyz09") + [" ", "{}", "{q}", "-", "|", "$", "é", "中", "."]
INT_ARGS = ["0", "1", "3", "10", "-2", "+5", "007", "2147483647", "2147483648", "-2147483648", "-2147483649", "abc", "1x", " 1",
            "-", "+", "１"]
SINGLE_KEYS = list("abzAZ09") + [",", "+", "(", ")", "[", '"', "'", " ", "/", "-", "é", "中", "😀", "?", "!"]
BAD_KEYS = ["foo", "ctrl-1", "f13", "alt-shift-1", "ctrl-", "xx", "shift-tab-x"]
CANON_PROBES = ["Char.97", "Char.65", "Char.32", "Char.44", "Char.20013", "Ctrl.97", "Ctrl.32", "Tab", "Enter", "Null", "ESC",
                "F.1", "F.13", "Alt.98", "Alt.66", "AltEnter", "CtrlAlt.97", "BracketedPasteStart", "Insert", "BackTab",
                "AltBackTab", "Char.233",
                # characters of display width 0 (combining accent, zero-width joiner, variation selector, Thai vowel sign):
                # later code points of a grapheme arrive as keys of their own and must be inserted like any other character
                "Char.769", "Char.8205", "Char.65039", "Char.3633"]
CLOSER = {"(": ")", "[": "]", '"': '"', "'": "'"}
NAMECH = re.compile(r"[A-Za-z-]")


def enc(s):
    return ".".join(str(ord(c)) for c in s) if s else "-"


def dec(t):
    return "" if t in ("-", "") else "".join(chr(int(x)) for x in t.split("."))


def enc_list(l):
    return ",".join(enc(x) for x in l) if l else "_"


def dec_list(t):
    return [] if t in ("_", "") else [dec(x) for x in t.split(",")]


def colon_ok(a):
    if not a or any(c in a for c in ":+,"):
        return False
    return not any(NAMECH.fullmatch(a[i]) and a[i + 1] in "\"'([" for i in range(len(a) - 1))


def rand_arg(rng):
    n = rng.choice([1, 1, 2, 3, 5, 8, 13, 40])
    atoms = ARG_ATOMS if rng.random() < 0.7 else SAFE_ATOMS
    return "".join(rng.choice(atoms) for _ in range(n))


def render_arg(rng, a, wf=True):
    """put the argument into a form; when wf the text is repaired so that the form can carry it"""
    form = rng.choice(["(", "(", "[", '"', "'", ":", ":"])
    if form == ":":
        if wf and not colon_ok(a):
            a = "".join(c for c in a if c not in ":+,\"'([") or "x"
        return ":" + a
    cl = CLOSER[form]
    if wf:
        a = a.replace(cl, "") or "y"
    return form + a + cl


def rand_action(rng, wf=True):
    r = rng.random()
    if r < 0.40:
        return rng.choice(PLAIN)
    if r < 0.55:
        n = rng.choice(INTS)
        if rng.random() < 0.3:
            return n
        return n + render_arg(rng, rng.choice(INT_ARGS), wf)
    if r < 0.90:
        n = rng.choice(REQ)
        a = rand_arg(rng)
        if rng.random() < 0.15:          # a conditional whose argument is itself an action
            a = rng.choice(PLAIN + ["up:2", "execute(ls {})", "accept:k"])
        return n + render_arg(rng, a, wf)
    if r < 0.96:
        n = rng.choice(OPT)
        return n if rng.random() < 0.4 else n + render_arg(rng, rand_arg(rng), wf)
    return rng.choice(PLAIN) + render_arg(rng, rand_arg(rng), wf)     # argument on an action that ignores it


def rand_key(rng):
    r = rng.random()
    if r < 0.55:
        k = rng.choice(KEYNAMES)
    elif r < 0.80:
        k = rng.choice(SINGLE_KEYS)
    elif r < 0.90:
        k = rng.choice(["ctrl-a", "ctrl-c", "enter", "tab", "esc", "ctrl-j", "up", "btab"])     # default keys
    else:
        k = rng.choice(BAD_KEYS)
    if rng.random() < 0.1 and k.isascii():
        k = k.upper() if rng.random() < 0.5 else k.capitalize()
    return k


def rand_binding(rng, keys, wf=True):
    k = rand_key(rng)
    keys.append(k)
    n = rng.choice([1, 1, 1, 2, 2, 3])
    return k + ":" + "+".join(rand_action(rng, wf) for _ in range(n))


SYNTAX = list(",:+()[]\"' \n\t-") + ["a", "Z", "{}", "!", "up", "execute", "::", ",,", "++", "()", "[]", '""', ": ", " +", "+ ", " ,",
                                    "\u00a0", "\u0085", "\u2003", "\u3000", "\u200b", "\u001c", "\x0b", "\x0c", "\r",
                                    "\u1680", "\u2028", "\u2029", "\u202f", "\u205f", "\u180e", "\ufeff", "\u2000", "\u200a"]


def mutate(rng, s):
    k = rng.randint(1, 3)
    for _ in range(k):
        r = rng.random()
        i = rng.randint(0, len(s))
        if r < 0.45:
            s = s[:i] + rng.choice(SYNTAX) + s[i:]
        elif r < 0.75 and s:
            j = min(len(s), i + rng.choice([1, 1, 2, 4]))
            s = s[:i] + s[j:]
        elif s:
            i = min(i, len(s) - 1)
            s = s[:i] + rng.choice(SYNTAX) + s[i + 1:]
    return s


MAX_COLONS = 10


def cap_colons(s):
    """the model's search for the end of a lazy `:arg` is exponential in the number of ':' of a NON-matching text
    (the regex crate is linear); keep generated strings where the model is fast"""
    while s.count(":") > MAX_COLONS:
        i = s.rindex(":")
        s = s[:i] + ";" + s[i + 1:]
    return s


def rand_bind_string(rng, keys, malformed):
    return cap_colons(_rand_bind_string(rng, keys, malformed))


def _rand_bind_string(rng, keys, malformed):
    if malformed and rng.random() < 0.15:
        return "".join(rng.choice(SYNTAX + ["k", "ctrl-a", "abort"]) for _ in range(rng.randint(0, 10)))
    n = rng.choice([1, 1, 2, 2, 3, 4])
    s = ",".join(rand_binding(rng, keys, wf=not (malformed and rng.random() < 0.5)) for _ in range(n))
    if malformed:
        r = rng.random()
        if r < 0.15:
            s = s + ":" + rng.choice(REQ)             # required argument missing -> .expect panics
        elif r < 0.25:
            s = s + "," + rand_key(rng) + ":" + rng.choice(REQ) + rng.choice(["()", "[]", '""', "''", ":"])
        elif r < 0.35:
            s = s + "," + rand_key(rng) + ":" + rng.choice(["nosuch", "Abort", "toggle up", "toggle +up", "toggle+ up", "up(1)(2)"])
        else:
            s = mutate(rng, s)
    return s


def rand_cond(rng):
    return cap_colons(_rand_cond(rng))


def _rand_cond(rng):
    r = rng.random()
    if r < 0.35:
        return rng.choice(PLAIN)
    if r < 0.7:
        return rand_action(rng, True)
    if r < 0.8:
        return rand_action(rng, True) + "+" + rand_action(rng, True)
    if r < 0.9:
        return mutate(rng, rand_action(rng, False))
    return rng.choice(["", "!", "execute", ",a:up", "x,ctrl-a:abort", ":", "up:", " up", "nosuch"])


def gen(rng, tier, n):
    for i in range(n):
        malformed = rng.random() < 0.25
        keys = []
        nb = rng.choice([0, 1, 1, 1, 2, 2, 3])
        binds = [rand_bind_string(rng, keys, malformed and (j == 0 or rng.random() < 0.5)) for j in range(nb)]
        if rng.random() < 0.15 and keys:                      # rebinding the same key later must win
            binds.append(rng.choice(keys) + ":" + rand_action(rng, True))
        expect = None
        if rng.random() < 0.4:
            ek = [rand_key(rng) for _ in range(rng.choice([1, 1, 2, 3]))]
            if keys and rng.random() < 0.3:
                ek.append(rng.choice(keys))
            if rng.random() < 0.15:
                ek.insert(rng.randint(0, len(ek)), "")
            keys.extend(ek)
            expect = ",".join(ek)
        conds = [rand_cond(rng) for _ in range(rng.choice([0, 0, 1, 1, 2]))]
        probes = ["n" + enc(k) for k in keys if k]
        probes += ["n" + enc(rand_key(rng)) for _ in range(rng.randint(0, 2))]
        probes += ["k" + rng.choice(CANON_PROBES) for _ in range(rng.randint(1, 3))]
        if rng.random() < 0.1:
            probes.append(rng.choice(["r", "o"]))
        rng.shuffle(probes)
        yield "%s;%s;%s|%s" % (enc_list(binds), "~" if expect is None else enc(expect), enc_list(conds), " ".join(probes))


def _split(case):
    hd, pr = case.rsplit("|", 1)
    b, e, c = hd.split(";")
    return dec_list(b), (None if e == "~" else dec(e)), dec_list(c), [p for p in pr.split(" ") if p]


def nontrivial(case):
    try:
        binds, _, _, probes = _split(case)
    except Exception:
        return False
    return any(":" in b for b in binds) and len(probes) >= 2


_NAME = r"[A-Za-z-]+"
_ARG = r"(?:\([^)]+\)|\[[^\]]+\]|\"[^\"]+\"|'[^']+'|:[^:+,]+)"
_ACT = _NAME + _ARG + "?"
_CHAIN = _ACT + r"(?:\+" + _ACT + ")*"
_WF = re.compile(r"[^:]+:" + _CHAIN + r"(?:,[^:]+:" + _CHAIN + ")*", re.S)


def histogram_keys(case):
    try:
        binds, expect, conds, probes = _split(case)
    except Exception:
        return ["unparsable-case"]
    ks = ["binds=%d" % len(binds), "expect" if expect is not None else "no-expect", "conds=%d" % min(len(conds), 2)]
    for b in binds:
        ks.append("wf-like" if _WF.fullmatch(b) else "malformed-like")
        for ch, nm in (("(", "paren"), ("[", "brack"), ('"', "dq"), ("'", "sq"), ("+", "plus"), (",", "comma"), ("\n", "newline"),
                       ("{", "placeholder")):
            if ch in b:
                ks.append("has-" + nm)
        if b.count(":") > b.count(",") + 1:
            ks.append("has-colon-arg-or-colon-in-arg")
        if any(ord(c) > 127 for c in b):
            ks.append("has-multibyte")
    return sorted(set(ks))


def shrink_candidates(case):
    binds, expect, conds, probes = _split(case)

    def mk(b, e, c, p):
        return "%s;%s;%s|%s" % (enc_list(b), "~" if e is None else enc(e), enc_list(c), " ".join(p))
    out = []
    for i in range(len(binds)):
        out.append(mk(binds[:i] + binds[i + 1:], expect, conds, probes))
    if expect is not None:
        out.append(mk(binds, None, conds, probes))
        parts = expect.split(",")
        for i in range(len(parts)):
            if len(parts) > 1:
                out.append(mk(binds, ",".join(parts[:i] + parts[i + 1:]), conds, probes))
    for i in range(len(conds)):
        out.append(mk(binds, expect, conds[:i] + conds[i + 1:], probes))
    for i in range(len(probes)):
        out.append(mk(binds, expect, conds, probes[:i] + probes[i + 1:]))
    for i, b in enumerate(binds):
        parts = b.split(",")
        for j in range(len(parts)):
            if len(parts) > 1:
                out.append(mk(binds[:i] + [",".join(parts[:j] + parts[j + 1:])] + binds[i + 1:], expect, conds, probes))
        parts = b.split("+")
        for j in range(len(parts)):
            if len(parts) > 1:
                out.append(mk(binds[:i] + ["+".join(parts[:j] + parts[j + 1:])] + binds[i + 1:], expect, conds, probes))
        if len(b) <= 60:
            for j in range(len(b)):
                out.append(mk(binds[:i] + [b[:j] + b[j + 1:]] + binds[i + 1:], expect, conds, probes))
    for i, c in enumerate(conds):
        if len(c) <= 40:
            for j in range(len(c)):
                out.append(mk(binds, expect, conds[:i] + [c[:j] + c[j + 1:]] + conds[i + 1:], probes))
    return out


def classify(r):
    return None


TECHNIQUE = ("Lean 4 proof about a hand-compiled model of the two binding regexes, the key map and the conditional arms "
             "(round trip of the grammar, override, expect, translate, chain order, conditionals) + differential correspondence "
             "against the real parse_key_action / Input / parse_action_arg on rendered and malformed binding strings")
LEVEL_TEXT = ("Theorems c19_* prove for EVERY well-formed specification that parsing its rendering returns exactly the listed keys, "
              "action names and arguments (verbatim), that binding replaces exactly the bound key and leaves all others unchanged, "
              "that expect keys become accept(key), that translate_event returns the bound chain / add-char / input-key, that a chain "
              "is enqueued in order, and that the three conditional actions fire exactly when their condition holds. The model is tied "
              "to the code by running the same strings through the real functions and comparing all results.")
LEVEL_NOTE = ("The two regexes of parse_key_action are NOT interpreted in Lean by a regex semantics: Model/Keymap.lean is a hand compilation "
              "(leftmost-first priorities) and its agreement with the regex crate rests on the correspondence check alone, on well-formed "
              "and malformed strings alike. The conditional arms of Model::start and the input thread loop are tied by fail-closed shape "
              "extraction, not yet by a headless session. Tables (actions, default keys, key names) are regenerated from source each run.")
