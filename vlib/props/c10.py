"""C10 (selection-set level) — the selected map of selection.rs vs. set semantics on (run, index) keys."""
ID = "C10"
SUBMODULES = ["c10s"]          # session-level stream: real Model sessions, see c10s.py / session.py
EXTRA_PROPS = ["C10Session", "SelOpsTables", "C10Translated"]   # session-level theorems; the four selection actions as TRANSLATED from src/selection.rs = the model
N_QUICK, N_THOROUGH = 6000, 300000
RULE = ("random selection histories (<= 80 ops) over run changes (4 command strings incl. the empty one), clear, batches of "
        "matched items (unique text per (run, index), unique ranks, sorted / --no-sort / --tac lists, optional "
        "pre-selection by first_n / preset), toggle / accept at a cursor inside the list, toggle-all, select-all, "
        "deselect-all, select-matched; a smaller stream lists the same index twice or acts while the list still belongs "
        "to another run (model-only comparison there); non-trivial = multi mode, >= 3 ops, and at least one "
        "toggle/toggle-all/select-all issued on a non-empty list; distinct by sha1 of the case line")
ASSUMPTIONS = [
    "cursor position is an input (placed with a verif setter before toggle/accept); cursor arithmetic is property C09",
    "the list order of OrderedVec is taken as: append order (--no-sort, reversed by --tac) or rank order for pairwise different ranks (property C02)",
    "fewer than 2^32 command strings / items (u32 run numbers and indices are modelled as Nat)",
]
RUN_NAMES = ["-", "a", "b", "c"]


def item_id(rname, idx):
    return (RUN_NAMES.index(rname) + 1) * 1000 + idx


class G:
    """generator state for one case: tracks what is listed so that cursors stay inside the list"""

    def __init__(self, rng, malformed):
        self.rng = rng
        self.malformed = malformed
        self.run = "-"
        self.listed = 0          # number of listed items
        self.listed_idx = []     # their indices (for duplicates in the malformed stream)
        self.pool = {}           # run name -> pool size
        self.used_ranks = set()
        self.ops = []

    def rank(self):
        """ranks are pairwise different within a case (the order of equal ranks is OrderedVec's business, C02)"""
        while True:
            r = self.rng.randint(-40, 4000)
            if r not in self.used_ranks:
                self.used_ranks.add(r)
                return r

    def pool_size(self):
        if self.run not in self.pool:
            self.pool[self.run] = self.rng.choice([1, 2, 3, 5, 8, 12, 12, 30])
        return self.pool[self.run]

    def batch(self, idxs):
        if not idxs:
            self.ops.append("app:_")
            return
        ms = ["%d.%d.%d" % (i, item_id(self.run, i), self.rank()) for i in idxs]
        self.listed += len(ms)
        self.listed_idx += idxs
        self.ops.append("app:" + ",".join(ms))

    def refilter(self):
        """a new matcher run: clear, then a subset of the pool (ascending index) in 1..3 batches"""
        rng = self.rng
        self.ops.append("clr")
        self.listed, self.listed_idx = 0, []
        n = self.pool_size()
        p = rng.choice([0.0, 0.3, 0.6, 0.6, 0.9, 1.0, 1.0, 1.0, 1.0, 1.0])
        sub = [i for i in range(n) if rng.random() < p]
        if rng.random() < 0.25:
            rng.shuffle(sub)       # rank order is independent of the index anyway
        k = rng.choice([1, 1, 2, 3]) if sub else 1
        cuts = sorted(rng.randint(0, len(sub)) for _ in range(k - 1))
        prev = 0
        for c in cuts + [len(sub)]:
            self.batch(sub[prev:c])
            prev = c

    def cursor(self):
        rng = self.rng
        if self.listed == 0:
            c = rng.choice([0, 0, 1, 5])
        else:
            c = rng.choice([0, self.listed - 1, rng.randrange(self.listed), rng.randrange(self.listed)])
        lc = rng.randint(0, c)
        return "%d:%d" % (c - lc, lc)

    def step(self):
        rng = self.rng
        x = rng.random()
        if x < 0.30:
            self.ops.append("tog:" + self.cursor())
        elif x < 0.42:
            self.ops.append("acc:" + self.cursor())
        elif x < 0.49:
            self.ops.append("tall")
        elif x < 0.56:
            self.ops.append("sall")
        elif x < 0.59:
            self.ops.append("dall")
        elif x < 0.74:
            self.refilter()
        elif x < 0.80:
            # one more batch of the same run: indices not listed yet (or, malformed, any)
            n = self.pool_size()
            rest = [i for i in range(n) if i not in self.listed_idx]
            if self.malformed and rng.random() < 0.5:
                rest = [rng.randrange(n) for _ in range(rng.randint(1, 3))]
            rng.shuffle(rest)
            self.batch(sorted(rest[:rng.randint(0, 4)]))
        elif x < 0.90:
            self.run = rng.choice(RUN_NAMES)
            self.ops.append("run:" + self.run)
            if not (self.malformed and rng.random() < 0.5):
                self.refilter()
        elif x < 0.94:
            i = rng.randrange(self.pool_size() + 2)
            self.ops.append("selm:%d:%d" % (i, item_id(self.run, i)))
        elif x < 0.96:
            self.ops.append("app:_")
        else:
            self.ops.append("tog:" + self.cursor())


def gen_case(rng):
    malformed = rng.random() < 0.12
    multi = rng.random() < 0.88
    nosort = rng.random() < 0.3
    tac = rng.random() < 0.3
    fn, pre = "-", "_"
    if rng.random() < 0.25:
        fn = str(rng.choice([0, 1, 2, 5]))
        if rng.random() < 0.5:
            pre = ",".join(str(item_id(rng.choice(RUN_NAMES), rng.randrange(12))) for _ in range(rng.randint(1, 4)))
    g = G(rng, malformed)
    if rng.random() < 0.3:
        g.run = rng.choice(RUN_NAMES)
        g.ops.append("run:" + g.run)
    g.refilter()
    g.ops.remove("clr")   # the initial clear is not needed
    k = rng.choice([3, 8, 20, 40, 80])
    for _ in range(rng.randint(1, k)):
        g.step()
    return "%d;%d;%d;%s;%s|%s" % (multi, nosort, tac, fn, pre, " ".join(g.ops))


def gen(rng, tier, n):
    for _ in range(n):
        yield gen_case(rng)


def _walk(case):
    """light replay of the case line: (multi, [(op name, listed count before the op, dup listed, foreign list)])"""
    hd, ops = case.rsplit("|", 1)
    multi = hd.split(";")[0] == "1"
    out, listed, runs, run = [], [], set(), "-"
    for o in ops.split():
        f = o.split(":")
        idxs = [i for i, _ in listed]
        out.append((f[0], len(listed), len(set(idxs)) != len(idxs), any(r != run for _, r in listed)))
        if f[0] == "clr":
            listed = []
        elif f[0] == "app" and f[1] != "_":
            listed += [(m.split(".")[0], run) for m in f[1].split(",")]
        elif f[0] == "run":
            run = f[1]
    return multi, out


def nontrivial(case):
    multi, w = _walk(case)
    return multi and len(w) >= 3 and any(n in ("tog", "tall", "sall") and k > 0 for n, k, _, _ in w)


def histogram_keys(case):
    hd = case.split("|")[0].split(";")
    multi, w = _walk(case)
    ks = ["len<=%d" % b for b in (3, 8, 20, 40, 80, 160, 10 ** 6) if len(w) <= b][:1]
    ks.append("multi" if multi else "single")
    if hd[1] == "1":
        ks.append("nosort")
    if hd[2] == "1":
        ks.append("tac")
    if hd[3] != "-":
        ks.append("selector")
    ks += sorted(set(n for n, _, _, _ in w))
    ks += sorted(set("%s-on-empty-list" % n for n, k, _, _ in w if k == 0 and n in ("tog", "tall", "sall", "acc")))
    if any(d and n in ("tall", "sall", "tog") for n, _, d, _ in w):
        ks.append("action-on-duplicate-index")
    if any(fo and n in ("tall", "sall", "tog", "acc") for n, _, _, fo in w):
        ks.append("action-on-list-of-another-run")
    if len(set(o.split(":")[1] for o in case.rsplit("|", 1)[1].split() if o.startswith("run:"))) >= 2:
        ks.append("runs>=2")
    if sum(1 for n, _, _, _ in w if n == "clr") >= 2:
        ks.append("refilter>=2")
    return ks


def classify(r):
    return None


TECHNIQUE = ("Lean 4 proof that the BTreeMap-based selection code of selection.rs implements set semantics on (run, index) keys "
             "(all actions, all histories) + op-sequence correspondence against the real Selection and global::mark_new_run")
LEVEL_TEXT = ("Session level (Props/C10Session.lean on the Session transition system): c10s_survives_refilter — only a selection action changes the selected set, whatever reader/matcher/heart-beat/query/command steps interleave; c10s_same_identity + c10s_positions_stable — a listed entry is keyed by its input position in the current command run and positions never move; tied by real multi-selection sessions whose traces the model must accept and whose selected keys it must predict after every loop iteration. Selection-set level: Theorems c10_* prove on a line-by-line model of selection.rs (selected = key-sorted, "
              "key-unique association list): toggle = symmetric difference with the cursor item's key, select-all = union and "
              "toggle-all = symmetric difference with the listed keys (parity law when an index is listed twice), deselect-all = "
              "empty, everything ignored in single mode and on an empty list, count = cardinality, accept order = ascending "
              "(run, index), keys of other runs are never touched, mark_new_run gives one number per distinct command, and "
              "a history-level refinement to the set-valued reference semantics. The model is tied to the code by driving the "
              "real Selection with the same op sequences and diffing count, the selected map and accept output after every op. "
              "The session-level part (same item_idx on re-matching, survival across query edits in a running Model) is checked separately.")
LEVEL_NOTE = ("Trusted: Lean kernel + propext/Classical.choice/Quot.sound; the hand-written model of selection.rs/global.rs is tied to "
              "the code only by the differential correspondence; cursor position is an input (C09), the list order of OrderedVec is "
              "assumed (C02); u32 arithmetic is modelled with unbounded naturals.")
TECHNIQUE += ' + translator tie: act_toggle / act_toggle_all / act_select_all / act_deselect_all translated from src/selection.rs into (guard, scope, operation) triples and proved equal to the model actions (Props/SelOpsTables.lean)'
