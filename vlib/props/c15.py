"""C15 — ItemPool hand-off (sequential object under the lock), header lines, SpinLock."""
ID = "C15"
EXTRA_PROPS = ["C15Lock", "PoolFnsTables"]   # c15_lock_orderings_ok: the orderings extracted from spinlock.rs / item.rs (own file: see there)
N_QUICK, N_THOROUGH = 3000, 150000
RULE = ("P-cases: random operation sequences over {append k, take, reset, clear, len, num_taken, num_not_taken, reserved} on the real "
        "ItemPool with header_lines N in {0,1,2,3,5,40}; batch sizes aimed at N-1,N,N+1; L-cases: the real SpinLock with 2..8 threads doing "
        "a non-atomic read/yield/write increment; X-cases: one thread appending 2 000..6 000 items in chunks of 1..3 while another thread loops on num_taken()/take(): every item must be handed out exactly once, in order, at its own index; M-cases: the real Matcher::run (rayon workers) once per appended batch of 1..2000 items: every matched item carries its source position as item_idx, each position once. non-trivial = >= 2 appends and >= 2 takes (P) or >= 2 threads (L); distinct by sha1")
ASSUMPTIONS = ["atomics are sequentially consistent (orderings extracted from source and table-checked; weak-memory reorderings below that are not modelled)",
               "pool operations are atomic because each holds the pool lock for its whole body (lock theorem) — the trait-level reasoning is by reading item.rs"]
TRUSTED = ["tools/extractors/spinlock.py (regex over the two CAS loops of spinlock.rs and the atomics of impl ItemPool; fails closed)"]


def gen(rng, tier, n):
    nl = 6 if tier == "quick" else 40
    for i in range(nl):
        yield "L|%d|%d" % (rng.randint(2, 8), rng.choice([500, 2000, 5000]))
    for i in range(nl):
        # appends on one thread overlapping takes on another (the matcher's `num_taken(); take()`)
        yield "X|%d|%d" % (rng.choice([2000, 4000, 6000]), rng.choice([1, 1, 2, 3]))
    for i in range(nl):
        # the real Matcher::run (rayon workers) once per appended batch: positions as identities, each once
        yield "M|%s" % ",".join(str(rng.choice([1, 2, 5, 40, 300, 2000])) for _ in range(rng.randint(1, 4)))
    for i in range(nl * 4):
        # the Header widget over the real pool: header lines arriving in several chunks with draws in between, command re-runs (clear)
        N = rng.choice([1, 2, 3, 5])
        ops = []
        for _ in range(rng.randint(2, 10)):
            r = rng.random()
            ops.append("a:%d" % rng.choice([0, 1, 1, 2, N, N + 1]) if r < 0.5 else ("d" if r < 0.85 else "c"))
        yield "H|%d|%s d" % (N, " ".join(ops))
    # one append of more than 2^20 items (a batch beyond any plausible internal chunk size), takes summarised
    yield "P|%d|a:%d ts nn ts a:3 nn ts r ts" % (rng.choice([0, 2]), (1 << 20) + rng.choice([1, 5, 4097]))
    for i in range(n - 7 * nl - 1):
        N = rng.choice([0, 0, 1, 2, 3, 5, 40])
        ops = []
        for _ in range(rng.randint(1, rng.choice([4, 10, 30, 80]))):
            r = rng.random()
            if r < 0.35:
                k = rng.choice([0, 1, 2, 3, max(N - 1, 0), N, N + 1, rng.randint(0, 12)])
                ops.append("a:%d" % k)
            elif r < 0.6:
                ops.append("t")
            elif r < 0.68:
                ops.append("r")
            elif r < 0.73:
                ops.append("c")
            else:
                ops.append(rng.choice(["l", "nt", "nn", "h"]))
        yield "P|%d|%s" % (N, " ".join(ops))


def nontrivial(case):
    if case.startswith("L|"):
        return int(case.split("|")[1]) >= 2
    if case.startswith("X|"):
        return True
    if case.startswith("M|"):
        return sum(int(x) for x in case.split("|")[1].split(",")) >= 5
    if case.startswith("H|"):
        ops = case.rsplit("|", 1)[1].split()
        return len([o for o in ops if o.startswith("a:")]) >= 2 and ops.count("d") >= 2
    ops = case.rsplit("|", 1)[1].split()
    return len([o for o in ops if o.startswith("a:")]) >= 2 and ops.count("t") >= 2


def histogram_keys(case):
    if case.startswith("L|"):
        return ["lock"]
    if case.startswith("X|"):
        return ["append-overlapping-take"]
    if case.startswith("M|"):
        return ["matcher-runs"]
    if case.startswith("H|"):
        return ["header-widget"] + (["header-widget-rerun"] if " c" in case else [])
    hd, ops = case.rsplit("|", 1)
    ops = ops.split()
    return ["N=" + hd.split("|")[1]] + sorted(set(o.split(":")[0] for o in ops))


TECHNIQUE = "Lean 4 invariant proofs (pool ghost-history refinement by induction over all op sequences; N-thread spin-lock mutual exclusion and no-lost-update by induction over all schedules; orderings table from source by decide) + op-sequence correspondence on the real ItemPool and a contention run of the real SpinLock"
LEVEL_TEXT = ("c15_takes_partition/c15_takes_chain/c15_header/c15_header_chunking hold for every operation sequence (= every interleaving, the operations being atomic "
              "under the lock); c15_lock_mutex/c15_lock_no_lost_update hold for any number of threads and every schedule of the SC transition system; "
              "c15_lock_orderings_ok is re-proved against the orderings extracted from spinlock.rs/item.rs on every run. The Session-level identity "
              "theorem (matcher's num_taken+index) is part of C01's model. Tie: the same op sequences run on the real ItemPool, plus contention runs of the real SpinLock.")
LEVEL_NOTE = ("Partial w.r.t. weak memory: the lock/pool models interleave atomic steps under sequential consistency; the written orderings are extracted and "
              "checked to be >= acquire/release/SeqCst, hardware reordering below that is not modelled. Trusted: Lean kernel, extractor, harness.")

TECHNIQUE += ' + translator tie: ItemPool::{append,take,reset,clear,len,num_taken,num_not_taken} translated from src/item.rs and proved equal to Model/Pool (Props/PoolFnsTables.lean)'
