"""C13 — the sort key follows the --tiebreak criteria in order."""
import itertools, os

ID = "C13"
EXTRA_PROPS = ["RankFeedTables"]   # what every engine hands to build_rank, as TRANSLATED from src/engine/*.rs
NEEDS_SK = True     # the binary-level tiebreak stream (below) runs the real `sk` under a pty
N_QUICK, N_THOROUGH = 6000, 120000
STRICT_MODEL = True
RULE = ("tiebreak strings = comma-joined words over the 8 names, letter-case variants, junk words, empty words, "
        "blanks, U+212A/U+0130/U+017F look-alikes (quick: random lists of 0..9 words; thorough: additionally EVERY list "
        "of <= 4 words over the 8 names + 2 junk words, every list of 5 and of 6 words over the 8 names and every list of <= 3 words "
        "over the names spelled lower/UPPER/Capitalized), no option, "
        "RankBuilder::default, single-word parse_criteria, engine stream (exact/regex/fuzzy/all engines, and the engines the ExactOrFuzzy / Regex factories build for "
        "terms with ' ^ ! $ in both exact modes, on short texts with "
        "multi-byte characters, built with the configured and with a probe rank builder); tuples = probe (1,2,3,4) + random (score,begin,end,length) "
        "drawn from small pools so that ties on 1..3 leading criteria are frequent, plus i32/usize boundary values; "
        "non-trivial = a builder case with >= 2 tuples of which two adjacent ones differ, or an engine case with non-empty text and query; distinct by sha1 of the case line")
ASSUMPTIONS = [
    "str::to_lowercase agrees with ASCII lower-casing as far as equality with the eight ASCII names is concerned "
    "(exercised with U+212A, U+0130, U+017F and other non-ASCII letters, not proved)",
    "Ord for [i32; 4] is lexicographic (Rust std); the harness calls the real MatchedItem::cmp and the model's cmpRank is compared with it",
    "engines' own matching (which range, which fuzzy score) is the subject of C08; the engine stream checks only that the tuple fed "
    "to build_rank is (score, begin, end, byte length) of the reported match and that the rank is its configured key; for the fuzzy "
    "engine score and indices are taken from a probe run of the same engine",
    "row order of a whole session (sorting by MatchedItem::cmp) is the subject of C02; here MatchedItem::cmp itself is exercised",
]
TRUSTED = ["tools/extractors/rank.py (regex over item.rs/model.rs/lib.rs; fails closed)"]

NAMES = ["score", "begin", "end", "-score", "-begin", "-end", "length", "-length"]
JUNK = ["", "x", "scor", "scores", "--score", "+score", " score", "score ", "len", "index", "-", "begin-", "ſcore",
        "Kend", "İndex", "lengtħ", "scöre", "-−end", "énd", "sco re", "SCORĖ"]
I32MAX, I32MIN = 2 ** 31 - 1, -2 ** 31
PROBE = "1,2,3,4"


def enc(s):
    return ".".join(str(ord(c)) for c in s) if s else "-"


def opt(s):
    return "N" if s is None else "S" + enc(s)


def casevar(rng, w):
    r = rng.random()
    if r < 0.55:
        return w
    if r < 0.7:
        return w.upper()
    if r < 0.8:
        return w.capitalize()
    return "".join(c.upper() if rng.random() < 0.5 else c for c in w)


def rword(rng):
    r = rng.random()
    if r < 0.82:
        return casevar(rng, rng.choice(NAMES))
    return rng.choice(JUNK)


def rtuples(rng, k, boundary=False):
    """tuples from small pools: many ties on leading criteria"""
    sp = rng.sample([0, 1, 2, 3, 5, 8, 13, 100, -1, -7, 4096, 65535], rng.randint(1, 3))
    bp = rng.sample([0, 1, 2, 3, 5, 9, 40, 255, 256], rng.randint(1, 3))
    ep = rng.sample([0, 1, 2, 3, 6, 10, 41, 300, 1000], rng.randint(1, 3))
    lp = rng.sample([0, 1, 2, 3, 7, 11, 80, 4096, 100000], rng.randint(1, 3))
    if boundary:
        sp += rng.sample([I32MAX, I32MIN, I32MIN + 1, I32MAX - 1], 2)
        big = [I32MAX, I32MAX + 1, 2 ** 32 - 1, 2 ** 32, 2 ** 32 + 5, 2 ** 63, 2 ** 64 - 1, I32MAX - 1, 3 * 2 ** 31]
        bp += rng.sample(big, 2)
        ep += rng.sample(big, 2)
        lp += rng.sample(big, 2)
    out = []
    for _ in range(k):
        if out and rng.random() < 0.25:
            # perturb one coordinate of the previous tuple: an exact tie on all the others
            t = list(out[-1])
            i = rng.randrange(4)
            t[i] = rng.choice([sp, bp, ep, lp][i])
            out.append(tuple(t))
        else:
            out.append((rng.choice(sp), rng.choice(bp), rng.choice(ep), rng.choice(lp)))
    return out


def tstr(ts):
    return " ".join("%d,%d,%d,%d" % t for t in ts)


def case(kind, o, ts, probe=True):
    return "%s;%s|%s" % (kind, opt(o), ((PROBE + " ") if probe else "") + tstr(ts))


TEXT_ALPHA = list("abcabcABC") + ["é", "中", " ", "_"]
ENGINES = ["exact", "regex", "fuzzy", "all"]


def rtiebreak(rng):
    if rng.random() < 0.1:
        return None
    return ",".join(rword(rng) for _ in range(rng.choice([0, 1, 1, 2, 2, 3, 4, 5])))


def engine_case(rng):
    text = "".join(rng.choice(TEXT_ALPHA) for _ in range(rng.choice([0, 1, 3, 5, 8, 12, 20])))
    r = rng.random()
    if r < 0.08 or not text:
        q = ""
    elif r < 0.6:
        i = rng.randrange(len(text))
        q = text[i:i + rng.randint(1, 3)]
    elif r < 0.8:
        idx = sorted(rng.sample(range(len(text)), min(len(text), rng.randint(1, 3))))
        q = "".join(text[i] for i in idx)          # a subsequence: fuzzy matches, exact mostly does not
    else:
        q = "".join(rng.choice("abcA") for _ in range(rng.randint(1, 3)))
    if rng.random() < 0.08:
        # the regex engine with an expression that does not compile (matches everything at (0,0)): the tuple it feeds must
        # still carry the item's length
        return "e;%s;regexbad;%s;%s|" % (opt(rtiebreak(rng)), enc(rng.choice(["(", "[a", "a(", "*a", "a{2"])), enc(text))
    if rng.random() < 0.3:
        # through the engine factories, as Model::new builds them: the prefix / suffix characters of the term choose the engine
        # (exact, inverse, anchored, fuzzy), and every one of them must carry the configured builder
        kind = rng.choice(["fx0", "fx1", "fx1", "frx"])
        if kind != "frx":
            q = rng.choice(["", "", "'", "'", "^", "!", "'^", "!'"]) + q + rng.choice(["", "", "$"])
        return "e;%s;%s;%s;%s|" % (opt(rtiebreak(rng)), kind, enc(q), enc(text))
    if rng.random() < 0.25 and len(text) >= 2:
        # the item limits matching to a range that starts at its middle character (as --nth does): begin / end of the key are
        # positions in the ITEM, not in the range
        tail = text[len(text) // 2:]
        i = rng.randrange(len(tail))
        q = tail[i:i + rng.randint(1, 3)] if rng.random() < 0.8 else q
        return "e;%s;%s@;%s;%s|" % (opt(rtiebreak(rng)), rng.choice(["exact", "regex", "fuzzy", "fuzzy"]), enc(q), enc(text))
    return "e;%s;%s;%s;%s|" % (opt(rtiebreak(rng)), rng.choice(ENGINES), enc(q), enc(text))


def exhaustive(rng):
    """every list of <= 4 words over names + 2 junk words, every list of 5 and 6 names, every list of <= 3 words over
    the names in three spellings (thorough tier)"""
    alpha = NAMES + ["x", ""]
    for k in range(0, 5):
        for ws in itertools.product(alpha, repeat=k):
            yield case("m", ",".join(ws), rtuples(rng, 2))
    for k in (5, 6):
        for ws in itertools.product(NAMES, repeat=k):
            yield case("m", ",".join(ws), rtuples(rng, 1))
    spell = NAMES + [w.upper() for w in NAMES] + [w.capitalize() if w[0] != "-" else "-" + w[1:].capitalize() for w in NAMES]
    for k in range(1, 4):
        for ws in itertools.product(spell, repeat=k):
            yield case("m", ",".join(ws), rtuples(rng, 1))


def gen(rng, tier, n):
    # fixed part: every single name in three spellings, every pair of names
    for w in NAMES + JUNK:
        for v in (w, w.upper(), w.capitalize()):
            yield "p;%s|" % opt(v)
            yield case("m", v, rtuples(rng, 4))
    for a in NAMES:
        for b in NAMES:
            yield case("m", a + "," + b, rtuples(rng, 4))
    yield case("m", None, rtuples(rng, 6))
    yield case("d", None, rtuples(rng, 6))
    if tier == "thorough":
        for c in exhaustive(rng):
            yield c
    for i in range(n):
        r = rng.random()
        boundary = rng.random() < 0.12
        k = rng.choice([1, 2, 3, 5, 8, 12])
        if r < 0.03:
            yield case("m", None, rtuples(rng, k, boundary))
        elif r > 0.85:
            yield engine_case(rng)
        elif r < 0.06:
            yield case("d", None, rtuples(rng, k, boundary))
        elif r < 0.10:
            yield "p;%s|" % opt(rword(rng))
        else:
            nw = rng.choice([0, 1, 1, 2, 2, 3, 3, 4, 4, 5, 5, 6, 7, 9])
            ws = []
            for _ in range(nw):
                if ws and rng.random() < 0.25:
                    ws.append(casevar(rng, ws[-1]))     # adjacent repeat (possibly in another case)
                else:
                    ws.append(rword(rng))
            sep = "," if rng.random() < 0.97 else rng.choice([", ", ";", " ", ",,"])
            yield case("m", sep.join(ws), rtuples(rng, k, boundary))


def _parts(case_line):
    hd, ts = case_line.rsplit("|", 1)
    f = hd.split(";")
    return f[0], f[1], [t for t in ts.split(" ") if t]


def _engine_parts(case_line):
    f = case_line.rsplit("|", 1)[0].split(";")
    return f[2], _dec("S" + f[3]), _dec("S" + f[4])


def _dec(o):
    if o == "N":
        return None
    body = o[1:]
    return "" if body in ("-", "") else "".join(chr(int(x)) for x in body.split("."))


def nontrivial(case_line):
    kind, o, ts = _parts(case_line)
    if kind == "e":
        eng, q, text = _engine_parts(case_line)
        return bool(text) and (eng == "all" or bool(q))
    return kind in ("m", "d") and len(ts) >= 2 and any(a != b for a, b in zip(ts, ts[1:]))


def histogram_keys(case_line):
    kind, o, ts = _parts(case_line)
    ks = ["kind=" + kind]
    if kind == "e":
        eng, q, text = _engine_parts(case_line)
        ks.append("engine=" + eng)
        ks.append("query-empty" if not q else ("query-substring" if q in text else "query-not-substring"))
        if any(ord(c) > 127 for c in text):
            ks.append("text-multibyte")
    if kind in ("m", "e"):
        s = _dec(o)
        if s is None:
            ks.append("opt=none")
        else:
            ws = s.split(",")
            known = [w.lower() for w in ws if w.lower() in NAMES]
            ks.append("words=%s" % (len(ws) if len(ws) < 6 else "6+"))
            ks.append("known=%s" % (len(known) if len(known) < 6 else "6+"))
            if len(known) < len(ws):
                ks.append("has-unknown")
            if any(w != w.lower() for w in ws):
                ks.append("has-uppercase")
            if any(a == b for a, b in zip(known, known[1:])):
                ks.append("adjacent-repeat")
            if len(set(known)) < len(known):
                ks.append("repeat")
            if not ("score" in known or "-score" in known):
                ks.append("implicit-score")
            if any(ord(c) > 127 for c in s):
                ks.append("non-ascii")
    if kind in ("m", "d"):
        ks.append("tuples=%s" % (len(ts) if len(ts) < 4 else "4+"))
        tt = [tuple(int(x) for x in t.split(",")) for t in ts]
        for a, b in zip(tt, tt[1:]):
            same = sum(1 for x, y in zip(a, b) if x == y)
            ks.append("pair-equal-coords=%d" % same)
        if any(t[0] in (I32MIN,) or max(t[1:]) > I32MAX for t in tt):
            ks.append("out-of-range-tuple")
    return ks


def shrink_candidates(case_line):
    """drop tuples; drop words of the tiebreak string; engine cases: drop characters of text / query"""
    kind, o, ts = _parts(case_line)
    out = []
    if kind == "e":
        eng, q, text = _engine_parts(case_line)
        for i in range(len(text)):
            out.append("e;%s;%s;%s;%s|" % (o, eng, enc(q), enc(text[:i] + text[i + 1:])))
        for i in range(len(q)):
            out.append("e;%s;%s;%s;%s|" % (o, eng, enc(q[:i] + q[i + 1:]), enc(text)))
        s = _dec(o)
        if s:
            ws = s.split(",")
            for i in range(len(ws)):
                out.append("e;%s;%s;%s;%s|" % (opt(",".join(ws[:i] + ws[i + 1:])), eng, enc(q), enc(text)))
        return out
    for i in range(len(ts)):
        out.append("%s;%s|%s" % (kind, o, " ".join(ts[:i] + ts[i + 1:])))
    s = _dec(o)
    if s:
        ws = s.split(",")
        for i in range(len(ws)):
            out.append("%s;%s|%s" % (kind, opt(",".join(ws[:i] + ws[i + 1:])), " ".join(ts)))
        if s != s.lower():
            out.append("%s;%s|%s" % (kind, opt(s.lower()), " ".join(ts)))
    return out


def classify(r):
    return None          # no known findings for C13


TECHNIQUE = ("Lean 4 proof over a code-shaped model of parse_criteria / Model::new's split / RankBuilder::new / build_rank / "
             "[i32;4] ordering whose tables are regenerated from the source, + correspondence against the real Model::new, "
             "RankBuilder::build_rank and MatchedItem::cmp")
LEVEL_TEXT = ("Theorems c13_* prove for every tiebreak string and every in-range tuple pair that the rank arrays built by the model of "
              "build_rank compare exactly as 'the first configured criterion that distinguishes decides', that the configured list is "
              "take 4 (collapse-adjacent (implicit score (known words))), the default, the table (names and signs) and the exact panic "
              "condition. The model is tied to the code by running the same option strings and tuples through the real Model::new, "
              "build_rank and MatchedItem::cmp.")
LEVEL_NOTE = ("Trusted: Lean kernel + propext/Classical.choice/Quot.sound; extractor rank.py; str::to_lowercase vs ASCII folding and "
              "[i32;4]::cmp are assumptions exercised by the harness; engines' (score, begin, end) computation belongs to C08.")


# ---- binary level: the --tiebreak plumbing of src/bin/main.rs, metamorphic -------------------------------------------
# Two tiebreak lists with the SAME effective key (c13_effective: known words, score prepended unless listed, adjacent repeats collapsed,
# first four) must rank every input the same way: the item accepted with Enter (the top-ranked one) is the same.  The lists differ only
# in what lies behind the fourth slot, or in how the option is spelled (one flag / several flags).
KNOWN = ["score", "begin", "end", "length", "-score", "-begin", "-end", "-length"]


def effective(words):
    ws = [w.lower() for w in words if w.lower() in KNOWN]
    if "score" not in ws and "-score" not in ws:
        ws = ["score"] + ws
    out = []
    for w in ws:
        if not out or out[-1] != w:
            out.append(w)
    return out[:4]


def cli_pairs(rng, n):
    from .c05cli import enc
    pairs = []
    tries = 0
    while len(pairs) < n and tries < 2000:
        tries += 1
        head = [rng.choice(["begin", "end", "length", "-length", "-begin", "index"]) for _ in range(rng.randint(3, 5))]
        a = head + [rng.choice(["length", "-end", "begin"])]
        b = head + [rng.choice(["-length", "end", "-begin"])]
        if effective(a) != effective(b) or a == b:
            continue
        items = rng.sample(["abcd", "abcdefgh", "abcdef", "xabcd", "abcdx y"], rng.choice([2, 3]))
        mk = lambda tb: "K|sort,tb=%s,q=%s|%s|%s" % (enc(",".join(tb)), enc("abcd"), ",".join(enc(i) for i in items), " ".join(enc(k) for k in ["enter", "ctrl-c"]))
        pairs.append((mk(a), mk(b), ",".join(a), ",".join(b)))
    return pairs


def run(tier, seed, replay):
    import json, random, sys
    from vlib import core
    from vlib.props import c05cli
    mod = sys.modules[__name__]
    rc = core.run_property(mod, tier, seed, replay)
    if replay:
        return rc
    rng = random.Random(seed + 77)
    pairs = cli_pairs(rng, 8 if tier == "quick" else 60)
    outs = c05cli.python_harness([p[0] for p in pairs] + [p[1] for p in pairs])
    bad = 0
    refused = 0          # pairs in which sk did not accept its arguments (exit status 2, nothing printed): they compare nothing
    for i, p in enumerate(pairs):
        oa, ob = outs[i], outs[len(pairs) + i]
        if oa.startswith("rc=2 out= ") and ob.startswith("rc=2 out= "):
            refused += 1
        if oa != ob:
            # once more, slowly (keystroke timing is the only non-determinism)
            oa, ob = c05cli.python_harness([p[0], p[1]], attempt=1)
        if oa != ob:
            bad += 1
            path = core.write_replay(ID, seed, "tb%d" % i, dict(kind="cli-mismatch", stream="binary-level tiebreak pairs", case=p[0], other_case=p[1],
                                     impl_output=oa, other_output=ob, spec_verdict="bad:same-effective-key-different-ranking:%s vs %s" % (p[2], p[3])))
            print("VIOLATION property=%s replay=%s" % (ID, path))
    try:
        ep = os.path.join(core.ROOT, "evidence", ID + ".json")
        ev = json.load(open(ep))
        ev["coverage"]["binary_level_tiebreak_pairs"] = dict(pairs=len(pairs), mismatches=bad, refused_by_sk=refused,
            what="sk (sorting on) under a pty with two --tiebreak lists of the same effective key: the accepted top item must be the same")
        if bad:
            ev["violations"] = ev.get("violations", 0) + bad
        json.dump(ev, open(ep, "w"), indent=1, ensure_ascii=False)
    except Exception:
        pass
    print("%s binary-level: %d tiebreak pairs (%d compared), %d mismatches" % (ID, len(pairs), len(pairs) - refused, bad))
    return 1 if (rc or bad) else 0
TECHNIQUE += ' + translator tie: the build_rank call sites of the four leaf engines translated into a table of sources and proved to feed the rankKeys of the reported range, the span width / matcher score and the byte length (Props/RankFeedTables.lean)'
