"""Session-level part of C20 (the Model's wiring of the previewer): real headless Model sessions with a preview pane; at the end of
every event-loop iteration the most recent preview request must be the one for the item under the cursor — used by c20.py's combined run."""
from . import session
from .c01 import histogram_keys, shrink_candidates   # noqa
ID = "C20"
HARNESS_PROP = "C20S"
N_QUICK, N_THOROUGH = 120, 4000
PARALLEL = 16
HARNESS_TIMEOUT = 600
STRICT_MODEL = False
SHRINK_BATCH = 48
SHRINK_ROUNDS = 10
postprocess = session.postprocess
RULE = ("session-level: headless Model sessions with --preview (a cheap real command), cursor moves, query edits, interactive command re-runs "
        "incl. --no-clear-if-empty with commands that print nothing (a clear stays pending while the old list is kept)")


def gen(rng, tier, n):
    for i in range(n):
        yield session.gen_session(rng, "c20")


def nontrivial(case):
    opts, cmds, order, events, rules = session.parse_case(case)
    return sum(cmds.values()) >= 2 and any(e.split(":")[0] in ("up", "down") for e in events)


def classify(r):
    return None
