"""C11 — what is drawn is what the state says: rows, pointer, markers, highlight (src/selection.rs, src/util.rs)."""
import re

ID = "C11"
EXTRA_PROPS = ["PrinterFnsTables", "CursorFnsTables", "ReshapeFnsTables"]   # LinePrinter reset / print_char_raw branches / tab rule as TRANSLATED from src/util.rs = the model (Props/PrinterFnsTables.lean)
N_QUICK, N_THOROUGH = 2500, 120000
STRICT_MODEL = True
PARALLEL = 4
RULE = ("random histories (<= 14 ops) over {append batch of items (text over ASCII / 2-byte width-1 / wide CJK / emoji / tab / '.' / the skip "
        "character, match = none | valid char indices (runs aimed at start / middle / end / single / all / empty) | valid byte range on char "
        "boundaries incl. empty ones), cursor moves and clicks (C09 events), toggle / toggle-all / select-all / deselect-all, scroll "
        "left/right, clear, draw at W x H} with W in 3..40 aimed at text width + {-3..+3} + 2 and at 3..8, H in 1..10, both layouts, tabstop "
        "in {1,2,4,8}, keep_right, no_hscroll, skip_to_pattern (one literal character), 7 themes; a smaller stream with W < 3 / H = 0 and a "
        "stream with INVALID match positions (indices beyond the text, unsorted, byte offsets inside a character or beyond the end, start > "
        "end) where only model agreement (incl. the predicted panic) is required; non-trivial = a draw with W >= 3, H >= 1 that paints at "
        "least one item with non-empty text; distinct by sha1 of the case line")
ASSUMPTIONS = ["items are plain strings (default SkimItem::display); custom display implementations (second LinePrinter branch of draw_item) are outside the property",
               "characters: unicode-width as the driver instance knows it (ASCII 1, U+00E4 1, CJK / fullwidth / emoji 2, tab by tabstop); no control characters other than tab, no zero-width or ambiguous-width characters",
               "skip_to_pattern: patterns that are one literal character (regex find = first occurrence)",
               "text narrower than 2^31 columns, char indices < 2^32 (i32 / u32 casts exact); items appended in rank order (list order is C02's business)",
               "match positions are valid (C08): strictly increasing char indices < length, byte ranges start <= end on char boundaries"]
TRUSTED = ["recording canvas harness/src/canvas.rs (tuikit's public Canvas trait; out-of-area writes are counted and ignored like tuikit's Screen)",
           "the six theme attributes are read from the real ColorTheme object (header of the harness answer); tuikit's Attr::extend is modelled"]

THEMES = ["dark", "bw", "molokai", "light", "16", "c1", "c2"]
TAB, AE, ZH, GUO, EMO, FWA = 9, 228, 20013, 22269, 128512, 65313
WIDE = (ZH, GUO, EMO, FWA)
AMBI = (1072, 945, 9472)   # East-Asian ambiguous width (Cyrillic, Greek, box drawing): width() = 1 but width_cjk() = 2
SKIPCH = 47  # '/'


def cw(c):
    return 2 if c in WIDE else 1


def utf8len(c):
    return 1 if c < 0x80 else 2 if c < 0x800 else 3 if c < 0x10000 else 4


def text_width(cps, tab):
    w = 0
    for c in cps:
        w += (tab - w % tab) if c == TAB else cw(c)
    return w


def _text(rng, kind, ln):
    out = []
    for _ in range(ln):
        r = rng.random()
        if kind == "ascii":
            c = rng.choice([97, 98, 99, 100, 101, 120, 121, 122, 46, 32, 47, 45])
        elif kind == "tabs":
            c = TAB if r < 0.25 else rng.choice([97, 98, 99, 120, 46, 32, 47])
        elif kind == "wide":
            c = rng.choice(WIDE) if r < 0.4 else rng.choice([97, 98, 99, 120, 46, AE, 47])
        elif kind == "ambi":
            c = rng.choice(AMBI) if r < 0.7 else rng.choice([97, 98, 46, 32, 47])
        else:
            c = TAB if r < 0.12 else rng.choice(WIDE) if r < 0.4 else rng.choice(AMBI) if r < 0.5 else rng.choice([97, 98, 99, 120, 121, 46, 32, AE, 47])
        out.append(c)
    return out


def _valid_match(rng, cps):
    n = len(cps)
    r = rng.random()
    if r < 0.22:
        return "n"
    if r < 0.70:
        if n == 0:
            return "c_"
        t = rng.random()
        if t < 0.08:
            idx = []
        elif t < 0.2:
            idx = [rng.randrange(n)]
        elif t < 0.3:
            idx = list(range(n))
        elif t < 0.45:   # run at the start
            idx = list(range(0, rng.randint(1, min(n, 4))))
        elif t < 0.6:    # run at the end
            idx = list(range(n - rng.randint(1, min(n, 4)), n))
        elif t < 0.8:    # run in the middle
            a = rng.randrange(n)
            idx = list(range(a, min(n, a + rng.randint(1, 5))))
        else:            # scattered
            idx = sorted(rng.sample(range(n), rng.randint(1, min(n, 5))))
        return "c" + (",".join(map(str, idx)) if idx else "_")
    # byte range on char boundaries
    offs = [0]
    for c in cps:
        offs.append(offs[-1] + utf8len(c))
    i = rng.randrange(len(offs))
    t = rng.random()
    if t < 0.1:
        j = i
    elif t < 0.2:
        i, j = 0, 0
    elif t < 0.3:
        j = len(offs) - 1
    else:
        j = min(len(offs) - 1, i + rng.randint(1, 5))
    return "b%d,%d" % (offs[i], offs[j])


def _invalid_match(rng, cps):
    n = len(cps)
    offs = [0]
    for c in cps:
        offs.append(offs[-1] + utf8len(c))
    total = offs[-1]
    t = rng.random()
    if t < 0.2:
        return "c%d" % (n + rng.randint(0, 3))
    if t < 0.35:
        return "c%d,%d" % (max(n - 1, 0), n + rng.randint(0, 2))
    if t < 0.5 and n >= 2:
        a, b = sorted(rng.sample(range(n), 2))
        return "c%d,%d" % (b, a)
    if t < 0.6 and n >= 1:
        a = rng.randrange(n)
        return "c%d,%d" % (a, a)
    if t < 0.75:
        inside = [o for o in range(total) if o not in offs]
        if inside:
            o = rng.choice(inside)
            return rng.choice(["b%d,%d" % (o, total), "b0,%d" % o])
    if t < 0.9:
        return "b%d,%d" % (rng.randint(0, total), total + rng.randint(1, 3))
    if total >= 1:
        return "b%d,%d" % (total, rng.randint(0, total - 1))
    return "c3"


def enc(cps):
    return ".".join(map(str, cps)) if cps else "-"


class Shadow:
    def __init__(self):
        self.items = []   # list of code point lists
        self.next_idx = 0


def _item(rng, sh, W, tab, invalid=False):
    kind = rng.choice(["ascii", "ascii", "tabs", "wide", "mix", "mix", "ambi"])
    r = rng.random()
    cwid = max(W - 2, 1)
    if r < 0.06:
        ln = 0
    elif r < 0.35:
        ln = rng.randint(1, max(1, cwid))           # mostly fits
    elif r < 0.75:
        ln = rng.randint(max(1, cwid - 2), cwid + 6)  # around the threshold
    else:
        ln = rng.randint(cwid, 2 * cwid + 8)
    if kind in ("wide", "mix") and ln > 3 and rng.random() < 0.5:
        ln = max(1, ln * 2 // 3)
    cps = _text(rng, kind, ln)
    if rng.random() < 0.1 and cps:
        cps[rng.randrange(len(cps))] = SKIPCH
    m = _invalid_match(rng, cps) if invalid else _valid_match(rng, cps)
    if rng.random() < 0.07 and sh.next_idx > 0:
        idx = rng.randrange(sh.next_idx)      # a duplicate item index (same selection key)
    else:
        idx = sh.next_idx
        sh.next_idx += 1
    sh.items.append(cps)
    return "%d/%s/%s" % (idx, enc(cps), m)


def _pick_w(rng, sh, tab, base):
    r = rng.random()
    if r < 0.25 and sh.items:
        tw = text_width(rng.choice(sh.items), tab)
        return min(40, max(3, tw + 2 + rng.choice([-3, -2, -1, 0, 0, 1, 2])))
    if r < 0.5:
        return rng.choice([3, 4, 5, 6, 7, 8])
    if r < 0.8:
        return base
    return rng.randint(3, 40)


def _case(rng, mode):
    rev = rng.choice([0, 0, 1, 2])     # 1 = --layout=reverse, 2 = --layout=reverse-list
    tab = rng.choice([1, 2, 4, 4, 8, 8])
    nh = 1 if rng.random() < 0.12 else 0
    kr = 1 if rng.random() < 0.2 else 0
    sk = SKIPCH if rng.random() < 0.15 else 0
    theme = rng.choice(THEMES)
    base_w = rng.choice([3, 4, 5, 6, 7, 8, 9, 10, 12, 14, 16, 20, 24, 30, 40])
    sh = Shadow()
    ops = []
    if mode == "main" and rng.random() < 0.1:
        # go to one command string, then BACK to another one (its run number may be lower: run numbers are handed out
        # per command string), select there and draw: the marks must follow the CURRENT run
        a, b = rng.sample([0, 1, 2, 3], 2)
        ops += ["rn:%d" % a, "a:" + _item(rng, sh, base_w, tab, False), "t", "c", "rn:%d" % b]
        sh.items = []
    nb = rng.choice([1, 1, 2, 3, 5, 8])
    ops.append("a:" + ";".join(_item(rng, sh, base_w, tab, mode == "invalid" and rng.random() < 0.6) for _ in range(nb)))
    H = rng.choice([1, 2, 3, 4, 5, 7, 10])
    nops = rng.randint(2, 12)
    n = nb
    for _ in range(nops):
        r = rng.random()
        if r < 0.33:
            if mode == "small" and rng.random() < 0.6:
                ops.append("w:%d,%d" % (rng.choice([0, 1, 2, 2, 3]), rng.choice([0, 1, 2, H])))
            else:
                if rng.random() < 0.3:
                    H = rng.choice([1, 2, 3, 4, 5, 7, 10])
                ops.append("w:%d,%d" % (_pick_w(rng, sh, tab, base_w), H))
        elif r < 0.5:
            m = rng.choice(["u", "d", "u", "d", "pu", "pd", "hu", "hd"])
            k = rng.choice([1, 1, 1, 2, 3, H - 1, H, n - 1, n, 0, -1])
            ops.append("%s:%d" % (m, k))
        elif r < 0.55:
            ops.append("r:%d" % rng.randint(0, H))
        elif r < 0.72:
            ops.append(rng.choice(["t", "t", "t", "t", "ta", "sa", "da"]))
        elif r < 0.84:
            k = rng.choice([1, 1, 2, 3, 5, 10, -1, 0, rng.randint(1, 30)])
            ops.append("%s:%d" % (rng.choice(["sl", "sr", "sr"]), k))
        elif r < 0.95:
            nb = rng.choice([1, 1, 2, 3])
            ops.append("a:" + ";".join(_item(rng, sh, base_w, tab, mode == "invalid" and rng.random() < 0.5) for _ in range(nb)))
            n += nb
        elif r < 0.975:
            ops.append("c")
            n = 0
            sh.items = []
        else:
            # the command is re-run under another command string (run number): usually the list is replaced, sometimes a
            # selection action comes while the old list is still shown
            ops.append("rn:%d" % rng.randint(0, 3))
            if rng.random() < 0.8:
                ops.append("c")
                n = 0
                sh.items = []
                nb = rng.choice([1, 2, 3])
                ops.append("a:" + ";".join(_item(rng, sh, base_w, tab, False) for _ in range(nb)))
                n += nb
                ops.append(rng.choice(["t", "t", "sa", "u:1 t"]))
    if not ops[-1].startswith("w:"):
        ops.append("w:%d,%d" % (_pick_w(rng, sh, tab, base_w), H))
    return "%d,%d,%d,%d,%d,%s|%s" % (rev, tab, nh, kr, sk, theme, " ".join(ops))


def gen(rng, tier, n):
    for i in range(n):
        r = rng.random()
        mode = "small" if r < 0.05 else "invalid" if r < 0.13 else "main"
        yield _case(rng, mode)


def _parse(case):
    hd, ops = case.rsplit("|", 1)
    return hd.split(","), [o for o in ops.split(" ") if o]


def _dec(t):
    return [] if t in ("-", "") else [int(x) for x in t.split(".")]


def _match_valid(cps, m):
    n = len(cps)
    if m == "n":
        return True
    if m.startswith("c"):
        if m == "c_":
            return True
        idx = [int(x) for x in m[1:].split(",")]
        return all(a < b for a, b in zip(idx, idx[1:])) and all(i < n for i in idx)
    offs = [0]
    for c in cps:
        offs.append(offs[-1] + utf8len(c))
    a, b = [int(x) for x in m[1:].split(",")]
    return a <= b and a in offs and b in offs


def nontrivial(case):
    cfg, ops = _parse(case)
    texts = []
    for o in ops:
        if o.startswith("a:"):
            for it in o[2:].split(";"):
                if it:
                    texts.append(_dec(it.split("/")[1]))
        elif o == "c":
            texts = []
        elif o.startswith("w:"):
            w, h = [int(x) for x in o[2:].split(",")]
            if w >= 3 and h >= 1 and any(texts):
                return True
    return False


def histogram_keys(case):
    cfg, ops = _parse(case)
    tab = max(1, int(cfg[1]))
    ks = set()
    ks.add({"1": "reverse", "2": "reverse-list"}.get(cfg[0], "bottom-up"))
    ks.add("tabstop=%s" % cfg[1])
    if cfg[2] == "1":
        ks.add("no_hscroll")
    if cfg[3] == "1":
        ks.add("keep_right")
    if cfg[4] != "0":
        ks.add("skip_to_pattern")
    ks.add("theme=" + cfg[5])
    items = []
    hs = 0
    nsel = False
    for o in ops:
        nm, _, a = o.partition(":")
        if nm == "a":
            for it in a.split(";"):
                if not it:
                    continue
                idx, tx, m = it.split("/")
                cps = _dec(tx)
                items.append((cps, m))
                if not cps:
                    ks.add("text:empty")
                if TAB in cps:
                    ks.add("text:tab")
                if any(c in WIDE for c in cps):
                    ks.add("text:wide")
                if cps and all(c < 128 and c != TAB for c in cps):
                    ks.add("text:plain-ascii")
                ks.add("match:" + ("none" if m == "n" else "chars" if m.startswith("c") else "bytes"))
                if not _match_valid(cps, m):
                    ks.add("match:INVALID")
        elif nm == "c":
            items = []
            ks.add("clear")
        elif nm in ("sl", "sr"):
            hs += int(a) if nm == "sr" else -int(a)
            ks.add("scroll")
        elif nm in ("t", "ta", "sa"):
            nsel = True
            ks.add("toggle/select")
        elif nm == "da":
            ks.add("deselect-all")
        elif nm in ("u", "d", "pu", "pd", "hu", "hd", "r"):
            ks.add("move")
        elif nm == "w":
            w, h = [int(x) for x in a.split(",")]
            if w < 3:
                ks.add("draw:width<3")
                continue
            if h == 0:
                ks.add("draw:height=0")
                continue
            ks.add("draw:W<=8" if w <= 8 else "draw:W<=20" if w <= 20 else "draw:W>20")
            if len(items) > h:
                ks.add("draw:more-items-than-rows")
            if hs != 0:
                ks.add("draw:hscroll!=0")
            for cps, m in items:
                tw = text_width(cps, tab)
                if tw <= w - 2:
                    ks.add("draw:text-fits")
                    if tw == w - 2:
                        ks.add("draw:text-fits-exactly")
                else:
                    ks.add("draw:text-clipped")
                    if any(c in WIDE for c in cps):
                        ks.add("draw:clipped-with-wide")
                    if TAB in cps:
                        ks.add("draw:clipped-with-tab")
                    if m != "n" and m not in ("c_", "b0,0"):
                        ks.add("draw:clipped-with-match")
    return sorted(ks)


def postprocess(case, impl):
    return re.sub(r"panic!\S*", "panic", impl)


def classify(r):
    # the one recorded finding: a line scrolled out of the window leaves a blank row (the driver names exactly that situation)
    if "text-scrolled-out-of-the-window-and-no-dots-mark-the-cut" in r["verdict"]:
        return "C11-scrolled-out-line-leaves-a-blank-row"
    return None


TECHNIQUE = ("Lean 4 proofs over a branch-by-branch model of Draw::draw / draw_item / LinePrinter / reshape_string / AnsiString iteration "
             "+ cell-by-cell differential correspondence of the real Selection drawn on a recording canvas against the model grid")


LEVEL_TEXT = ("Theorems over a branch-by-branch Lean model of Draw::draw / draw_item (selection.rs), LinePrinter / print_item / reshape_string / "
              "accumulate_text_width / clear_canvas (util.rs, with fix-1), From<DisplayContext> for AnsiString (lib.rs), AnsiStringIterator (ansi.rs) and "
              "tuikit's Attr::extend, for ALL views (cursor, items, selected map, options), canvas sizes and width functions: c11_rows (row r shows result "
              "item_cursor + r top-down in reverse layouts, bottom-up otherwise, blanks where no result belongs), c11_row_writes (pointer label, marker, then the "
              "window over the tab-expanded highlighted text on consecutive columns), c11_pointer ('>' in column 0 on exactly the cursor row = "
              "SelCursor.pointerRow of C09), c11_marker ('>' in column 1 on exactly the rows whose (run, item_idx) is selected), c11_highlight (exactly the "
              "matched characters carry base.extend(hl)), c11_fits (text not wider than width-2, not scrolled: shown in full), c11_clipped (all widths: "
              "contiguous run of the text's cells in order, <= 3 dots before, <= 2 after, dots only on cut sides, left cut always marked), "
              "c11_clipped_exact_partial (width-1 characters and tabs: exactly '..' + cells + '..'), c11_in_area (every put_cell inside the w x h area), "
              "c11_reshape_total / c11_reshape_width / c11_match_positions_in_range (no index outside acc_width, no underflow, for valid positions), "
              "c11_no_panic (valid positions => draw does not panic), c11_len_invariant.  The model is tied to the code by drawing the real Selection on a "
              "recording canvas and comparing every cell (char + attr), the out-of-area write count and the cursor state with the model grid; the driver's "
              "verdict re-checks the implementation's grid against the executable form of the same statements (rowCheck).")
LEVEL_NOTE = ("Partial: for double-width characters at a cut the exact dot counts and 'the right cut is always marked' are not proved (the general form, the "
              "bounds and the left side are).  Trusted: Lean kernel + propext/Classical.choice/Quot.sound; the hand-written model is tied to the code only by "
              "the differential correspondence; unicode-width enters as a parameter cw (driver instance: ASCII/U+00E4 1, CJK/fullwidth/emoji 2); "
              "skip_to_pattern is modelled for one-literal-character patterns; tuikit's Canvas is replaced by the recording canvas; custom SkimItem::display "
              "implementations are outside the property.")


def shrink_candidates(case):
    """drop ops, drop items of a batch, shorten texts, make numbers smaller"""
    from vlib import core
    out = core.default_shrink_candidates(case)
    hd, ops = case.rsplit("|", 1)
    ops = [o for o in ops.split(" ") if o]

    def put(i, new):
        out.append(hd + "|" + " ".join(ops[:i] + [new] + ops[i + 1:]))
    for i, o in enumerate(ops):
        nm, _, a = o.partition(":")
        if nm == "a":
            its = [x for x in a.split(";") if x]
            if len(its) > 1:
                for j in range(len(its)):
                    put(i, "a:" + ";".join(its[:j] + its[j + 1:]))
            for j, it in enumerate(its):
                idx, tx, m = it.split("/")
                cps = _dec(tx)
                if m != "n":
                    put(i, "a:" + ";".join(its[:j] + ["%s/%s/n" % (idx, tx)] + its[j + 1:]))
                if m == "n" and cps:
                    for k in range(len(cps)):
                        put(i, "a:" + ";".join(its[:j] + ["%s/%s/n" % (idx, enc(cps[:k] + cps[k + 1:]))] + its[j + 1:]))
                    for k, c in enumerate(cps):
                        if c != 97 and c != TAB and c not in WIDE:
                            put(i, "a:" + ";".join(its[:j] + ["%s/%s/n" % (idx, enc(cps[:k] + [97] + cps[k + 1:]))] + its[j + 1:]))
        elif nm == "w":
            w, h = [int(x) for x in a.split(",")]
            if h > 1:
                put(i, "w:%d,%d" % (w, h - 1))
            if w > 3:
                put(i, "w:%d,%d" % (w - 1, h))
        elif a:
            try:
                v = int(a)
            except ValueError:
                continue
            for nv in sorted(set([0, 1, v // 2, v - 1 if v > 0 else v + 1]), key=abs):
                if abs(nv) < abs(v):
                    put(i, "%s:%d" % (nm, nv))
    cfg = hd.split(",")
    for k, dv in ((0, "0"), (2, "0"), (3, "0"), (4, "0"), (5, "dark")):
        if cfg[k] != dv:
            c2 = list(cfg)
            c2[k] = dv
            out.append(",".join(c2) + "|" + " ".join(ops))
    return out

TECHNIQUE += ' + translator tie: LinePrinter::reset / print_char_raw branches / tab rule (src/util.rs) and the row mapping of Draw::draw translated and proved equal to the model (Props/PrinterFnsTables.lean, CursorFnsTables.lean)'
TECHNIQUE += '; reshape_string translated and proved to return the value of LinePrinter.reshapeString wherever that says no panic (reshape_is_printer_model, Props/ReshapeFnsTables.lean)'
