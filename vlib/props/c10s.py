"""Session-level part of C10 (selection survives re-filtering; identity = input position) — used by c10.py's combined run."""
from . import session
from .c01 import histogram_keys, shrink_candidates   # noqa
ID = "C10"
HARNESS_PROP = "C10S"
N_QUICK, N_THOROUGH = 240, 8000
PARALLEL = 16
HARNESS_TIMEOUT = 600
STRICT_MODEL = False
SHRINK_BATCH = 48
SHRINK_ROUNDS = 10
postprocess = session.postprocess
RULE = "session-level: multi-selection sessions interleaving toggles/select-all/toggle-all with query edits, rotations and incoming batches"


def gen(rng, tier, n):
    for i in range(n):
        yield session.gen_session(rng, "c10")


def nontrivial(case):
    opts, cmds, order, events, rules = session.parse_case(case)
    return sum(cmds.values()) >= 2 and any(e.split(":")[0] in ("toggle", "selall", "togall") for e in events)


def classify(r):
    return None
