"""C09 — the cursor always designates an existing row inside the viewport (src/selection.rs)."""
ID = "C09"
EXTRA_PROPS = ["CursorFnsTables", "C09Translated"]   # the integer cores of the cursor as TRANSLATED from src/selection.rs = the model's functions (Props/CursorFnsTables.lean)
N_QUICK, N_THOROUGH = 6000, 400000
STRICT_MODEL = True
RULE = ("random histories (<= 60 events, a few up to 200) over {up/down(k), page-up/down(k), half-page-up/down(k), click on row r, "
        "append(batch), clear, draw at height h} for both layouts, k/r/batch/h aimed at the thresholds 0, 1, h-1, h, h+1, n-1, n, n+1 "
        "of a shadow (n, h) kept by the generator, negative and large k included, moves before the first draw, window shrink + clear + "
        "append; plus (quick: a sample of, thorough: all of) the exhaustive stream 'every single event from every state "
        "(n<=9, h<=6, every cursor position, optional window shrink) in both layouts'; non-trivial = at least 3 events, one of them a "
        "move/click issued while the list is non-empty; distinct by sha1 of the case line")
ASSUMPTIONS = ["i32 range: |k| * max(height-1, 1) + n + height < 2^31 (generated |k| <= 100000, heights <= 60, n <= a few thousand); "
               "the harness is compiled with overflow checks, so leaving the range would be reported as a panic",
               "click rows r < 2^31 (tuikit reports u16 rows); `usize as i32` casts are exact below 2^31",
               "items are appended in rank order (the list order itself is property C02's business)"]
TRUSTED = ["recording canvas harness/src/canvas.rs (tuikit's public Canvas trait; out-of-area writes are ignored like tuikit's Screen)"]

MOVES = ["u", "d", "pu", "pd", "hu", "hd"]


def _pick_k(rng, n, h):
    r = rng.random()
    if r < 0.35:
        return rng.choice([0, 1, 1, 1, 2, 3])
    if r < 0.60:
        return max(0, rng.choice([h - 2, h - 1, h, h + 1, 2 * h - 1, 2 * h]))
    if r < 0.80:
        return max(0, rng.choice([n - 2, n - 1, n, n + 1, n // 2]))
    if r < 0.90:
        return -rng.choice([1, 2, h, n + 1])
    return rng.choice([50, 100, 1000, 100000])


def _history(rng, maxlen):
    n, h = 0, 0            # shadow of list size and stored height
    ops = []
    style = rng.random()
    if style < 0.55:       # typical session: items, then a draw
        k = rng.choice([1, 2, 3, 5, 8, 13, 20, 40])
        hh = rng.choice([1, 2, 3, 4, 5, 7, 10, 12])
        ops += ["a:%d" % k, "w:%d" % hh]
        n, h = k, hh
    elif style < 0.70:     # draw of the empty list first (height stays unknown)
        ops += ["w:%d" % rng.choice([0, 1, 5, 10])]
    ln = rng.randint(1, maxlen)
    while len(ops) < ln:
        r = rng.random()
        if r < 0.45:
            m = rng.choice(MOVES)
            k = _pick_k(rng, n, max(h, 1))
            if m in ("pu", "pd", "hu", "hd"):
                k = rng.choice([1, 1, 1, 2, 3, 0, -1, k if abs(k) <= 1000 else 7])
            ops.append("%s:%d" % (m, k))
        elif r < 0.57:
            hh = max(h, 1)
            ops.append("r:%d" % max(0, rng.choice([0, 1, hh - 1, hh, hh + 3, rng.randint(0, hh), rng.randint(0, hh)])))
        elif r < 0.72:
            t = rng.random()
            if t < 0.35 and h > 1:
                hh = rng.randint(1, h - 1)       # shrink
            elif t < 0.5:
                hh = h + rng.randint(1, 8)       # grow
            elif t < 0.6:
                hh = rng.choice([0, 1])
            else:
                hh = rng.choice([1, 2, 3, 4, 5, 6, 8, 10, 12, 20, 40, 60])
            ops.append("w:%d" % hh)
            if n > 0 and hh >= 1:
                h = hh
        elif r < 0.90:
            t = rng.random()
            if t < 0.1:
                k = 0
            elif t < 0.5:
                k = rng.choice([1, 1, 2, 3, 5])
            elif t < 0.8:
                k = max(0, rng.choice([h - 1, h, h + 1, 2 * h, h // 2]))
            elif t < 0.97:
                k = rng.randint(0, 60)
            else:
                k = rng.choice([101, 150, 301, 700])
            ops.append("a:%d" % k)
            n += k
        else:
            ops.append("c")
            n = 0
            if rng.random() < 0.7:   # the matcher restarted: new results arrive
                k = rng.choice([0, 1, 2, max(h - 1, 0), h, h + 1, rng.randint(0, 30)])
                ops.append("a:%d" % k)
                n += k
    return ops


def exhaustive():
    """every single event from every small state, both layouts (validation only; the theorems are unbounded)"""
    for rev in (0, 1):
        for h in range(1, 7):
            for n in range(0, 10):
                for j in range(0, max(n, 1)):
                    for h2 in sorted(set([0, 1, h - 1, h + 2])):
                        pre = ["a:%d" % n, "w:%d" % h]
                        if j:
                            pre.append("u:%d" % j if not rev else "d:%d" % j)
                        if h2:
                            pre.append("w:%d" % h2)
                        hh = h2 or h
                        evs = []
                        for k in range(-2, n + 2):
                            evs += ["u:%d" % k, "d:%d" % k]
                        for k in (-1, 0, 1, 2, 3):
                            evs += ["pu:%d" % k, "pd:%d" % k, "hu:%d" % k, "hd:%d" % k]
                        evs += ["r:%d" % r for r in range(0, hh + 2)]
                        evs += ["a:%d" % k for k in (0, 1, 2, hh)]
                        evs += ["c a:%d" % k for k in range(0, n + 2)]
                        evs += ["w:%d" % k for k in range(0, hh + 2)]
                        for e in evs:
                            yield "%d|%s %s w:%d" % (rev, " ".join(pre), e, hh)


_EXH = None


def gen(rng, tier, n):
    global _EXH
    if _EXH is None:
        _EXH = list(exhaustive())
    if tier == "thorough":
        for c in _EXH:
            yield c
    else:
        for c in rng.sample(_EXH, min(3000, len(_EXH))):
            yield c
    # moves before the first draw / on the empty list
    for i in range(n // 20):
        rev = rng.randint(0, 1)
        ops = []
        if rng.random() < 0.7:
            ops.append("a:%d" % rng.choice([0, 1, 1, 2, 3, 10]))
        for _ in range(rng.randint(1, 6)):
            r = rng.random()
            if r < 0.6:
                ops.append("%s:%d" % (rng.choice(MOVES), rng.choice([0, 1, 1, 2, 5, -1, 100])))
            elif r < 0.75:
                ops.append("r:%d" % rng.randint(0, 4))
            elif r < 0.9:
                ops.append("a:%d" % rng.randint(0, 4))
            else:
                ops.append("c")
        ops.append("w:%d" % rng.choice([1, 3, 5]))
        yield "%d|%s" % (rev, " ".join(ops))
    for i in range(n):
        rev = rng.randint(0, 1)
        maxlen = rng.choice([4, 8, 16, 30, 60, 60]) if rng.random() < 0.97 else 200
        yield "%d|%s" % (rev, " ".join(_history(rng, maxlen)))


def _ops(case):
    return [o for o in case.rsplit("|", 1)[1].split(" ") if o]


def nontrivial(case):
    ops = _ops(case)
    n = 0
    moved = False
    for o in ops:
        nm, _, a = o.partition(":")
        if nm == "a":
            n += int(a)
        elif nm == "c":
            n = 0
        elif nm in MOVES or nm == "r":
            moved = moved or n > 0
    return len(ops) >= 3 and moved


def histogram_keys(case):
    ops = _ops(case)
    ks = ["len<=%d" % b for b in (4, 8, 16, 30, 60, 200) if len(ops) <= b][:1]
    ks.append("reverse" if case.startswith("1") else "bottom-up")
    n, h, drawn = 0, 0, False
    prev = None
    for o in ops:
        nm, _, a = o.partition(":")
        ks.append(nm)
        if nm == "a":
            n += int(a)
            if prev == "c":
                ks.append("clear-then-append")
        elif nm == "c":
            n = 0
        elif nm == "w":
            hh = int(a)
            if n > 0 and hh >= 1:
                if drawn and hh < h:
                    ks.append("window-shrinks")
                h, drawn = hh, True
        elif nm in MOVES or nm == "r":
            if not drawn:
                ks.append("move-before-first-draw")
            if n == 0:
                ks.append("move-on-empty-list")
            if nm in MOVES:
                k = abs(int(a))
                if n > 0 and k >= n:
                    ks.append("move-beyond-list-end")
                if drawn and k >= h:
                    ks.append("move>=height")
        prev = nm
    return sorted(set(ks))


def classify(r):
    return None


TECHNIQUE = ("Lean 4 invariant proof over all event histories of a branch-by-branch model of the cursor arithmetic of selection.rs "
             "+ event-arm table extracted from the source + event-history correspondence against the real Selection (handle / append_sorted_items / clear / Draw::draw on a recording canvas)")
LEVEL_TEXT = ("Theorems over a branch-by-branch Lean model of the (fixed) cursor arithmetic of selection.rs, for all event histories, list "
              "sizes, heights and both layouts: c09_valid / c09_never_panics (non-empty list => item_cursor+line_cursor < len, so "
              "get_current_item is Some and toggle/accept never hit 'failed to get item', also before the first draw and on an empty list); "
              "c09_in_window (cursor row inside the window unless a draw stored a smaller height since the last move), "
              "c09_in_window_growing_init, c09_in_window_after_move; c09_exact_k / c09_asked_rows / c09_up / c09_down / c09_page / "
              "c09_half_page (index changes by exactly k, (h-1)*k, tdiv((h-1)*k, 2), clamped to [0, n-1], sign by layout); c09_row, "
              "c09_row_selects_painted_item, c09_pointer (click selects the painted item; the pointer row shows the designated item); "
              "c09_casts_exact / c09_no_underflow / c09_i32_range (no partial arithmetic); c09_arms_match_source (the six event arms of "
              "EventHandler::handle and the height floor, re-extracted from src/selection.rs on every run by tools/extractors/sel_arms.py, "
              "are the model's). The model is tied to the code by running the "
              "same histories through the real Selection (EventHandler::handle, append_sorted_items, clear, Draw::draw on a recording "
              "canvas) and diffing (item_cursor, line_cursor, height, len, current index, current item, every drawn row) after every event; "
              "the driver's verdict re-checks the implementation's answers against the executable form of the same statements.")
LEVEL_NOTE = ("Trusted: Lean kernel + propext/Classical.choice/Quot.sound; the hand-written model of selection.rs is tied to the code only by the "
              "differential correspondence; unbounded Int/Nat in the model, the i32 range is a stated side condition (c09_i32_range); "
              "tuikit's Canvas is replaced by a recording canvas; OrderedVec is used with items arriving in rank order.")


def shrink_candidates(case):
    """drop chunks of events (default), then make single arguments smaller"""
    from vlib import core
    out = core.default_shrink_candidates(case)
    hd, ops = case.rsplit("|", 1)
    ops = [o for o in ops.split(" ") if o]
    for i, o in enumerate(ops):
        nm, _, a = o.partition(":")
        if not a:
            continue
        try:
            v = int(a)
        except ValueError:
            continue
        for nv in sorted(set([0, 1, v // 2, v - 1 if v > 0 else v + 1]), key=abs):
            if abs(nv) < abs(v) or (nv >= 0 > v and abs(nv) <= abs(v)):
                out.append(hd + "|" + " ".join(ops[:i] + ["%s:%d" % (nm, nv)] + ops[i + 1:]))
    return out

TECHNIQUE += " + translator tie: known_height / act_move_line_cursor / act_select_screen_row / the append fix-up / Draw::draw's row mapping translated from src/selection.rs and proved equal to the model's functions for all inputs (Props/CursorFnsTables.lean, C09Translated.lean)"
