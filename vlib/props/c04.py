"""C04 — query composition: space = AND, ' | ' = OR of alternatives, '\\ ' = literal space."""
ID = "C04"
EXTRA_PROPS = ["AndMergeTables"]   # the control flow of AndEngine / OrEngine::match_item as TRANSLATED from src/engine/andor.rs
N_QUICK, N_THOROUGH = 5000, 150000
STRICT_MODEL = True
RULE = ("70% queries rendered from a generated AST (1-4 alternatives x 1-4 terms; terms over {a b c A B 1 ' ^ $ ! \\ | blank(escaped) tab é 中}; "
        "random blank padding, glued stray bars, leading/trailing bar, leading/trailing empty alternative) whose AST is handed to the spec checker; "
        "25% raw random strings over {a b A blank | \\ ' ^ $ ! 中 tab NUL}; 5% blank-only queries (outside the property, model only); texts built "
        "from the bodies of one alternative (all terms / one missing / shuffled) plus random ones; x exact-mode x case x algo {skim_v2, clangd}. "
        "non-trivial = the query has a non-blank character, contains a blank or a bar, and some text is non-empty; distinct by sha1 of the case line")
ASSUMPTIONS = [
    "regex 1.6: RE_OR.split / RE_AND.find_iter return the leftmost, non-overlapping matches (modelled by a hand-written scanner for ` +\\| +` and blank runs)",
    "the first alternative of RE_AND never matches inside a piece produced by RE_OR.split (proved for the model: c04_piece_has_no_or_sep; "
    "the harness reports a nested Or inside an And as a structure the model can never produce)",
    "term verdicts as in C03 (fuzzy-matcher / regex are parameters); algo skim_v1 is not generated here (C03 known finding)",
]

LET = "abcAB1"
CASES, ALGOS = "sri", "2c"


def enc(s):
    return ".".join(str(ord(c)) for c in s) if s else "-"


def dec(s):
    return "" if s in ("-", "") else "".join(chr(int(t)) for t in s.split("."))


def wf_term(t):
    return bool(t) and "\0" not in t and t[0] != "|" and t[-1] != "|" and t[-1] != "\\"


def rterm(rng):
    while True:
        pre = rng.choice(["", "", "", "", "'", "!", "^", "!^", "'!"])
        post = rng.choice(["", "", "", "$"])
        n = rng.choice([1, 1, 2, 2, 3])
        body = []
        for _ in range(n):
            r = rng.random()
            if r < 0.78:
                body.append(rng.choice(LET))
            elif r < 0.86:
                body.append(" ")
            elif r < 0.90:
                body.append("|")
            elif r < 0.94:
                body.append("\\")
            else:
                body.append(rng.choice(["é", "中", "\t", "'", "$", "^"]))
        t = pre + "".join(body) + post
        if wf_term(t):
            return t


def esc(t):
    return t.replace(" ", "\\ ")


def sp(rng, lo=1):
    return " " * rng.choice([lo, lo, lo, lo + 1, lo + 2, lo + 4])


def render(rng, ast):
    """-> (query string, expected ast)"""
    alts = []
    for alt in ast:
        ws = []
        for t in alt:
            w = esc(t)
            if rng.random() < 0.12:
                w = "|" * rng.randint(1, 2) + w          # glued stray bars
            if rng.random() < 0.12:
                w = w + "|" * rng.randint(1, 2)
            ws.append(w)
        s = ws[0]
        for w in ws[1:]:
            s += sp(rng) + w
        alts.append(s)
    q = alts[0]
    for a in alts[1:]:
        q += sp(rng) + "|" + sp(rng) + a
    exp = [list(a) for a in ast]
    r = rng.random()
    if r < 0.08:
        q = "|" + sp(rng) + q                            # bar at the very start: part of the first piece, trimmed
    elif r < 0.16:
        q = sp(rng) + "|" + sp(rng) + q                  # blank-bar-blank at the start: an empty first alternative
        exp = [[]] + exp
    elif r < 0.40:
        q = sp(rng, 0) + q
    r = rng.random()
    if r < 0.08:
        q = q + sp(rng) + "|"
    elif r < 0.16:
        q = q + sp(rng) + "|" + sp(rng)
        exp = exp + [[]]
    elif r < 0.40:
        q = q + sp(rng, 0)
    return q, exp


def body_of(t):
    return t.lstrip("'!^").rstrip("$") or t


def texts_for(rng, ast):
    out = []
    for _ in range(rng.randint(3, 7)):
        r = rng.random()
        alt = rng.choice(ast) if ast and any(ast) else []
        alt = alt or ["a"]
        bodies = [body_of(t) for t in alt]
        if r < 0.30:
            x = "".join(bodies)
        elif r < 0.50:
            b = bodies[:]
            rng.shuffle(b)
            x = rng.choice(["", "x", " "]).join(b)
        elif r < 0.70 and len(bodies) > 1:
            i = rng.randrange(len(bodies))
            x = "".join(bodies[:i] + bodies[i + 1:])
        elif r < 0.80:
            x = bodies[0]
        elif r < 0.85:
            x = ""
        else:
            x = "".join(rng.choice(LET + " |\\ab") for _ in range(rng.randint(0, 8)))
        if rng.random() < 0.2:
            x = x.swapcase() if x.isascii() else x
        out.append(x)
    return out


RAW = list("abA") + [" "] * 4 + ["|"] * 3 + ["\\", "'", "^", "$", "!", "中", "\t", "\0"]


def line(exact, cm, algo, q, texts, exp):
    if exp is None:
        e = "?"
    else:
        e = "/".join("+".join(enc(t) for t in a) if a else "=" for a in exp)
    return "%d;%s;%s;%s;%s;%s" % (int(exact), cm, algo, enc(q), ",".join(enc(t) for t in texts), e)


def gen(rng, tier, n):
    for i in range(n):
        exact = rng.random() < 0.3
        cm = rng.choice(CASES)
        algo = rng.choice(ALGOS)
        r = rng.random()
        if r < 0.70:
            ast = [[rterm(rng) for _ in range(rng.choice([1, 1, 2, 2, 3, 4]))] for _ in range(rng.choice([1, 2, 2, 3, 4]))]
            q, exp = render(rng, ast)
            if not q.strip():
                exp = None      # e.g. the single term TAB: a blank-only query is outside C04 (handed verbatim to the term engine)
            yield line(exact, cm, algo, q, texts_for(rng, ast), exp)
        elif r < 0.95:
            q = "".join(rng.choice(RAW) for _ in range(rng.choice([1, 2, 3, 5, 8, 12, 20])))
            toks = [[t for t in q.replace("|", " ").split(" ") if t]]
            yield line(exact, cm, algo, q, texts_for(rng, toks), None)
        else:
            q = "".join(rng.choice([" ", " ", "\t", "　"]) for _ in range(rng.randint(0, 4)))
            yield line(exact, cm, algo, q, ["", " ", "a b", "\t", "a\tb", "　"], None)


def fields(case):
    return case.split(";")


def nontrivial(case):
    f = fields(case)
    q = dec(f[3])
    return bool(q.strip()) and (" " in q or "|" in q) and any(t != "-" for t in f[4].split(","))


def histogram_keys(case):
    f = fields(case)
    q = dec(f[3])
    ks = ["exact=" + f[0], "case=" + f[1], "algo=" + f[2], "ast-known" if f[5] != "?" else "raw"]
    if f[5] != "?":
        alts = f[5].split("/")
        ks.append("alts=%d" % len(alts))
        ks.append("maxterms=%d" % max((0 if a == "=" else len(a.split("+"))) for a in alts))
        if "=" in alts:
            ks.append("empty-alternative")
    if "\\ " in q:
        ks.append("escaped-blank")
    if "  " in q:
        ks.append("blank-run")
    if "| |" in q or "||" in q:
        ks.append("adjacent-bars")
    if not q.strip():
        ks.append("blank-only")
    return ks


def shrink_candidates(case):
    f = fields(case)
    q, texts = f[3], f[4].split(",")
    out = []

    def mk(qq, tx):
        return ";".join(f[:3] + [qq, ",".join(tx), "?"])
    if len(texts) > 1:
        for t in texts:
            out.append(mk(q, [t]))
    ql = [] if q == "-" else q.split(".")
    n = len(ql)
    size = max(n // 2, 1)
    while size >= 1:
        for i in range(0, n, size):
            out.append(mk(".".join(ql[:i] + ql[i + size:]) or "-", texts))
        if size == 1:
            break
        size //= 2
    if len(texts) == 1:
        xl = [] if texts[0] == "-" else texts[0].split(".")
        for i in range(len(xl)):
            out.append(mk(q, [".".join(xl[:i] + xl[i + 1:]) or "-"]))
    if f[5] != "?":
        out.append(mk(q, texts))
    return out


def classify(r):
    return None


TECHNIQUE = ("Lean 4 proof about the parser model (mask / RE_OR scanner / trim / blank split / unmask): round trip parse(render ast) = ast for "
             "every well-formed AST and padding, verdict = exists alternative with all terms, permutation invariance + structure and verdict "
             "correspondence against the real AndOrEngineFactory")
LEVEL_TEXT = ("c04_parse_render proves that every well-formed AST rendered with arbitrary blank padding parses back to itself (escaped blanks stay "
              "inside their term); c04_verdict/c04_query_spec prove the verdict is 'some alternative has all its terms matching' with C03's term rule; "
              "c04_perm proves order independence; c04_piece_has_no_or_sep justifies leaving RE_AND's first alternative out of the model. The model "
              "is tied to the code by comparing, for generated queries, the engine tree printed by Display (canonicalised) and the verdicts.")
LEVEL_NOTE = ("RE_OR / RE_AND are modelled by a hand-written scanner; the regex crate is a parameter. Stray bars glued to terms and degenerate separators "
              "are covered by the correspondence stream and by c04_empty_alt_never_matches, not by the round-trip theorem.")


# ---- CLI level (thorough tier): sk --filter on a sample ----------------------------------------------------------
N_CLI = 250


def cli_item(case):
    f = fields(case)
    return (case, False, f[0] == "1", f[1], f[2], dec(f[3]), [dec(t) for t in f[4].split(",")])


def run(tier, seed, replay):
    import json, random, sys
    from vlib import core
    from vlib.props import _skcli
    mod = sys.modules[__name__]
    if replay and json.load(open(replay)).get("kind") == "cli-mismatch":
        bad, n = _skcli.check(ID, seed, [cli_item(json.load(open(replay))["case"])])
        return 1 if bad else 0
    rc = core.run_property(mod, tier, seed, replay)
    if not replay:
        rng = random.Random(seed + 1000003)
        cands = core.corpus_cases(ID) + list(gen(rng, "quick", 4 * N_CLI))
        if tier == "thorough":
            chosen = cands[:N_CLI * 3]
        else:
            # quick: 90 invocations — queries with a bar and no blank (stray bars glued to a term) first
            glued = [c for c in cands if "|" in dec(fields(c)[3]) and " " not in dec(fields(c)[3])]
            chosen = glued[:40] + cands[:50]
        items = [cli_item(c) for c in chosen]
        bad, n = _skcli.check(ID, seed, items)
        _skcli.annotate(ID, n, bad)
        print("%s cli-level: %d sk --filter invocations, %d mismatches" % (ID, n, bad))
        if bad:
            rc = 1
    return rc
TECHNIQUE += ' + translator tie: the control flow of AndEngine::match_item (a missing term ends the conjunction, no term is no match) and OrEngine::match_item (first matching alternative) translated from src/engine/andor.rs (and_verdict_is_model, or_verdict_is_model, Props/AndMergeTables.lean)'
