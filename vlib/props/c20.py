"""C20 — preview protocol: the pane ends up showing the latest request, never an older one.

case = <items>~<global>~<offset>~<rules>|<ops>      (see harness/src/c20.rs)
The real Previewer (worker thread + real child processes + waiter threads) is driven with request
bursts; its ordered trace of shared-memory steps is replayed through the Lean transition system
(trace acceptance) and judged by the executable spec in Driver/C20.lean.
Only benign commands are generated (the command text is built inside the harness from numbers:
sleep / echo / a counting loop / `kill -KILL $$` / `exit 3`)."""
ID = "C20"
EXTRA_PROPS = ["ScrollFnsTables", "DedupeFnsTables", "C20Translated"]   # act_scroll_down / act_scroll_right as TRANSLATED from src/previewer.rs = the model; content lock held over load..store
SUBMODULES = ["c20s"]          # session-level stream: the Model's wiring of the previewer, see c20s.py / session.py
N_QUICK, N_THOROUGH = 200, 5000
STRICT_MODEL = True
RULE = ("request scripts over 2-6 items (text / command exit 0 / command exit 3 / command killing itself / empty command / "
        "global command with placeholders), bursts with seeded gaps of 0-30 ms around the child run time, forced schedules "
        "through named schedule points (child exits just before / just after the next request's kill, drain windows), scroll and "
        "draw actions; 30% of the scripts call the previewer the way Model::draw_preview does (nothing selected => the selection "
        "closure hands out the current item, count 0); non-trivial = at least 2 requests of which one is a command request that is followed by another request "
        "before any settle; distinct by sha1 of the case line")
ASSUMPTIONS = [
    "std::sync::mpsc is FIFO and loses nothing; thread::join returns only after the thread's last store",
    "a child that exits by itself reports its exit status; SIGKILL ends a running shell (process trees / surviving grandchildren and pid reuse are outside the model: they delay the join, labelled partial)",
    "trace order = real order: schedule-point labels are taken under one mutex, labels of writes precede the write, content labels are read back under the content lock",
]
TRUSTED = ["verif::sched schedule points and trace buffer in /repo/src/verif.rs and the add-only point() lines in src/previewer.rs"]

KINDS = "TTCCCCFKEG"
DELAYS = [0, 3, 5, 10, 20, 30]
LINES = [0, 1, 1, 2, 3, 5, 8, 61, 70, 130]
RULES = [
    "at=pv.kill#%d;next=pv.reaped:ok;timeout=30",
    "at=pv.kill#%d;next=pv.stopping;timeout=30",
    "at=pv.kill#%d;next=pv.wexit;timeout=30",
    "at=pv.stopping#%d;next=pv.sig;timeout=30",
    "at=pv.stopping#%d;next=pv.kill;timeout=30",
    "at=pv.reaped:ok#%d;next=pv.kill;timeout=30",
    "at=pv.reaped:err#%d;next=pv.sig;timeout=30",
    "at=pv.dispatch#%d;sleep;timeout=6",
    "at=pv.recv#%d;sleep;timeout=12",
    "at=pv.send#%d;sleep;timeout=4",
    "at=pv.spawned#%d;sleep;timeout=15",
    "at=pv.scroll.store#%d;next=pv.wexit;timeout=30",
]


def gen_items(rng):
    n = rng.randint(2, 6)
    items = []
    for _ in range(n):
        k = rng.choice(KINDS)
        d = rng.choice(DELAYS)
        ln = rng.choice(LINES) if k != "K" else 1
        if rng.random() < 0.3:
            vs, vo = rng.choice([0, 1, 2, 3, 10, 64, 100, 500]), rng.choice([0, 0, 1, 2, 5, 70])
        else:
            vs, vo = 0, 0
        u = 1 if rng.random() < 0.3 else 0
        items.append("%s%dx%dx%dx%dx%d" % (k, d, ln, vs, vo, u))
    return items


def gen_sel(rng, n, cur, stale_stream):
    """next selection: identical, or a different SIZE (same size + different members only in the stale stream)"""
    r = rng.random()
    if r < 0.5:
        return cur
    if stale_stream and cur and r < 0.8:
        pool = [i for i in range(1, n + 1) if i not in cur]
        if pool:
            new = list(cur)
            new[rng.randrange(len(new))] = rng.choice(pool)
            return new
    k = rng.randint(0, min(n, 3))
    if k == len(cur):
        k = (k + 1) % (min(n, 3) + 1)
    new = rng.sample(range(1, n + 1), k)
    if len(new) == len(cur):
        return cur
    return new


def gen_directed(rng):
    """directed histories: A shown; B requested (slow command still running); the current item goes away (or changes)
    while B runs; B requested again — the pane must end on B.  Catches dedupe keys that remember what was SENT
    rather than what is SHOWN."""
    kinds = rng.choice(["GG", "GG", "CC", "GC", "CG", "GGG"])
    items = []
    for k in kinds:
        items.append("%s%dx%dx0x0x%d" % (k, rng.choice([10, 20, 30]), rng.choice([1, 2, 3]), 1 if rng.random() < 0.3 else 0))
    a, b = 1, 2
    mid = rng.choice([0, 0, 0, a, len(items)])
    q = rng.randint(0, 3)
    ops = ["r:%d:%d:-:_:0" % (a, q), "s", "r:%d:%d:-:_:0" % (b, q), "w%d" % rng.choice([1, 2, 4, 8]),
           "r:%d:%d:-:_:0" % (mid, q), "w%d" % rng.choice([1, 2, 4, 8, 40]), "r:%d:%d:-:_:0" % (b, q), "s"]
    g = "%dx%d" % (rng.choice([10, 20, 30]), rng.choice([1, 2]))
    return "%s~%s~-~-|%s" % (",".join(items), g, " ".join(ops))


def gen_endstate(rng):
    """end-state stream: indices are the items' own indices (as in Model::draw_preview), so re-selecting an item gives
    the same expanded command; only the final pane is judged"""
    d = rng.choice([5, 10, 20, 30])
    ops = []
    k = rng.randint(1, 3)
    for _ in range(rng.choice([2, 3, 4, 5, 7])):
        r = rng.random()
        if r < 0.25:
            k2 = 0
        elif r < 0.5:
            k2 = k if k else rng.randint(1, 3)
        else:
            k2 = rng.randint(1, 3)
        ops.append("r%d%s" % (k2, "f" if rng.random() < 0.08 else ""))
        if k2:
            k = k2
        g = rng.choice([0, 0, 1, 3, 8, 15, 40, 60])
        if g:
            ops.append("w%d" % g)
    if rng.random() < 0.6:
        # A shown, B running, current item goes away, B again
        a, b = rng.sample([1, 2, 3], 2)
        ops = ["r%d" % a, "w60", "r%d" % b, "w%d" % rng.choice([1, 3, 8]), "r0", "w%d" % rng.choice([1, 5, 50]), "r%d" % b]
    return "E~%d|%s" % (d, " ".join(ops))


def gen(rng, tier, n):
    for ci in range(n):
        r0 = rng.random()
        if r0 < 0.12:
            yield gen_directed(rng)
            continue
        if r0 < 0.22:
            yield gen_endstate(rng)
            continue
        items = gen_items(rng)
        ni = len(items)
        # "cursor" client (the way Model::draw_preview calls the previewer): with nothing selected the selection closure
        # hands out the CURRENT item (selection `c`); only items whose output does not read PreviewContext.selections
        cursor_client = rng.random() < 0.3
        if cursor_client:
            items = [it[:-1] + "0" for it in items]
            if not any(it[0] == "G" for it in items):
                items[rng.randrange(ni)] = "G" + items[0][1:]
        stale_stream = rng.random() < 0.04
        g = "%dx%d" % (rng.choice(DELAYS), rng.choice([1, 2, 5, 70]))
        off = rng.choice(["-", "-", "f0", "f2", "f5", "p2", "p3", "p0", "f100"])
        rules = "-"
        if rng.random() < 0.55:
            rules = "&".join(r % rng.randint(1, 3) for r in rng.sample(RULES, rng.randint(1, 3)))
        ops = []
        q, cq, sel = 0, None, []
        cur = rng.randint(0, ni)
        nb = rng.choice([1, 1, 2, 3])
        for b in range(nb):
            burst = rng.choice([1, 2, 3, 4, 6, 9])
            for _ in range(burst):
                r = rng.random()
                if r < 0.55:
                    cur = rng.randint(0, ni) if rng.random() < 0.9 else cur
                elif r < 0.7:
                    q = rng.randint(0, 3)
                elif r < 0.78:
                    cq = rng.choice([None, 0, 1])
                elif r < 0.9:
                    sel = gen_sel(rng, ni, sel, stale_stream)
                force = 1 if rng.random() < 0.12 else 0
                ops.append("r:%d:%s:%s:%s:%d" % (cur, q if q is not None else "-", cq if cq is not None else "-",
                                                 "+".join(map(str, sel)) or ("c" if cursor_client else "_"), force))
                gap = rng.choice([0, 0, 0, 0, 1, 2, 4, 8, 12, 22, 32])
                if gap:
                    ops.append("w%d" % gap)
            if rng.random() < 0.7:
                ops.append("s")
                for _ in range(rng.randint(0, 4)):
                    ops.append(rng.choice(["d1", "d3", "d70", "u1", "u2", "u500", "D1", "U1", "D2"]))
                if rng.random() < 0.3:
                    ops.append("p%dx%d" % (rng.choice([24, 40, 60]), rng.choice([3, 5, 12])))
                    for _ in range(rng.randint(0, 2)):
                        ops.append(rng.choice(["d1", "D1", "U1", "u3"]))
            elif rng.random() < 0.3:
                ops.append(rng.choice(["d1", "d5", "u1", "D1"]))   # scroll while the preview is still changing
        yield "%s~%s~%s~%s|%s" % (",".join(items), g, off, rules, " ".join(ops))


def _parts(case):
    hd, ops = case.rsplit("|", 1)
    items = hd.split("~")[0].split(",")
    return hd, items, ops.split()


def nontrivial(case):
    if case.startswith("E~"):
        return case.count("r") >= 2
    hd, items, ops = _parts(case)
    reqs = 0
    pending_cmd = False
    burst = False
    for o in ops:
        if o.startswith("r:"):
            reqs += 1
            if pending_cmd:
                burst = True
            it = int(o.split(":")[1])
            pending_cmd = it > 0 and it <= len(items) and items[it - 1][0] in "CFKG"
        elif o == "s":
            pending_cmd = False
    return reqs >= 2 and burst


def histogram_keys(case):
    if case.startswith("E~"):
        return ["end-state-stream"]
    hd, items, ops = _parts(case)
    reqs = [o for o in ops if o.startswith("r:")]
    ks = ["reqs<=%d" % b for b in (1, 3, 6, 12, 30) if len(reqs) <= b][:1] or ["reqs>30"]
    kinds = set()
    for o in reqs:
        it = int(o.split(":")[1])
        kinds.add("kind:" + (items[it - 1][0] if 0 < it <= len(items) else "none"))
    ks += sorted(kinds)
    rules = hd.split("~")[3]
    ks.append("rules:none" if rules == "-" else "rules:forced")
    if rules != "-":
        for r in rules.split("&"):
            ks.append("rule:" + r.split(";")[0][3:].split("#")[0] + ">" + r.split(";")[1])
    if any(o[0] in "duDU" for o in ops):
        ks.append("scroll")
    if any(o[0] == "p" for o in ops):
        ks.append("draw")
    if any(o.split(":")[5] == "1" for o in reqs):
        ks.append("forced-refresh")
    if nontrivial(case):
        ks.append("burst-over-running-command")
    return ks


def classify(r):
    if r["verdict"] == "bad:stale-selection-same-count":
        return "C20-selection-same-count-not-refreshed"
    return None


TECHNIQUE = ("Lean 4 invariant proofs over a labelled transition system of the preview protocol (all label sequences = all request "
             "histories x all interleavings) + trace acceptance of the real Previewer's schedule-point traces under seeded and forced timings")
LEVEL_TEXT = ("Theorems c20_monotone / c20_latest / c20_kill / c20_single_child / c20_scroll are invariants of the transition system "
              "Preview.step proved by induction over every reachable state; c20_dedupe and c20_scroll_act are about the pure client functions. "
              "The model is tied to src/previewer.rs by replaying the ordered trace of the real worker / waiter / client threads "
              "(real child processes) through Preview.step and by an executable spec judging the observations.")
LEVEL_NOTE = ("partial: OS process behaviour is a parameter (process trees: SIGKILL reaches only the shell, a surviving grandchild delays the join; "
              "pid reuse between exit and kill); PreviewEvent::Abort (Drop) ends the modelled history; horizontal scroll and wrap are not covered.")

TECHNIQUE += ' + translator tie: act_scroll_down / act_scroll_right arithmetic, the content-lock discipline and the dedupe condition of on_item_change translated from src/previewer.rs and proved equal to the model (Props/ScrollFnsTables.lean, DedupeFnsTables.lean, C20Translated.lean)'
