"""C14 — select-1 / exit-0 decide only on the complete result set (headless sessions, forced windows)."""
from . import session
from .c01 import histogram_keys, shrink_candidates, ASSUMPTIONS   # noqa
ID = "C14"
HARNESS_PROP = "C14"
N_QUICK, N_THOROUGH = 320, 12000
PARALLEL = 16
HARNESS_TIMEOUT = 600
STRICT_MODEL = False
SHRINK_BATCH = 48
SHRINK_ROUNDS = 8
postprocess = session.postprocess
RULE = ("headless sessions with --select-1 / --exit-0 / both: streams with 0, 1, 2, few matches for the initial query arriving in early or late chunks, "
        "25% under forced schedules (matcher finishing between the heart beat's read of `stopped` and the decision point; reader finishing late); every decision "
        "the real code logs is judged against the Lean model state at that point (source ended, everything harvested) and against the count of matching items; "
        "the whole trace must be accepted by the Session transition system. non-trivial = >= 1 item; distinct by sha1")


def gen(rng, tier, n):
    for i in range(n):
        yield session.gen_session(rng, "c14")


def nontrivial(case):
    opts, cmds, order, events, rules = session.parse_case(case)
    return sum(cmds.values()) >= 1


def classify(r):
    return None


TECHNIQUE = "Lean 4 invariant proof at the decision label of the Session transition system (all interleavings) + trace acceptance and decision oracle on real headless sessions with forced race windows"
EXTRA_PROPS = ["SessionFG", "HeartBeatTables", "Select1Tables", "C14Fair"]   # fg_decision_complete / fg_no_partial: the same statements at READ granularity
LEVEL_TEXT = ("c14_decision_complete: in every history, any step that takes the select-1/exit-0 decision does so in a state where the source has ended, every item was matched and "
              "every result harvested, and the outcome is accept iff select-1 and exactly one match, abort iff exit-0 and none, interactive otherwise; c14_no_partial states the three "
              "forbidden windows directly; c14_never_later: once interactive, never again; c14_prefix_counterexample exhibits the pre-fix race. fg_decision_complete / fg_no_partial: the same for the "
              "fine-grained system in which handle_select1_or_exit0's two reads and its action are separate steps with arbitrary steps of the other threads in between (the positive reads are "
              "still true when it acts: monotone flags). Tie: forced-schedule sessions on the real Model.")
LEVEL_NOTE = ("Same models and trusted base as C01 (safety at read granularity, Model/SessionFG.lean; heart beats replayed in trace order at read granularity; hooks; linearisation in vlib/props/session.py). `--sync` shares the code path and is exercised only through select-1/exit-0.")

TECHNIQUE += ' + weak-fairness liveness theorem (c14_fair_decision: the decision is eventually taken and is the prescribed one, Props/C14Fair.lean)'
