"""C02 — result list order: OrderedVec (src/orderedvec.rs) vs. "stable sort of everything that arrived"."""
import bisect

ID = "C02"
EXTRA_PROPS = ["OVecFnsTables", "C02Translated"]   # compare_item / sort_vector / get / append / merge_till as TRANSLATED from src/orderedvec.rs = the model
N_QUICK, N_THOROUGH = 1500, 150000
STRICT_MODEL = False   # the model also predicts the order of equal ranks (stable sort); the property does not fix it
RULE = ("histories over append/get/len/iter/clear on the real OrderedVec<T>, T = (i32 key, unique id) ordered by key or the real "
        "MatchedItem with a rank array that is a monotone image of the key, or the same through the list widget Selection (options.tac/"
        "nosort, append_sorted_items, row accessor), in the 4 tac x nosort configurations; batches of 0..700 items, keys with heavy ties or wide, batches with 0 / <100 / 100..299 / >=300 items "
        "ranking before an already materialised prefix, reads at 0, len-1, len, len+1, around 100 and 300; non-trivial = a read "
        "after at least two non-empty appends (no clear in between) with at least two distinct keys; distinct by sha1 of the case line")
ASSUMPTIONS = ["Vec::par_sort (rayon) is a stable sort by T::cmp; Ord on the item type is a total preorder that depends on the key only",
               "item counts stay below usize::MAX (the model counts in Nat)"]
TRUSTED = ["tools/extractors/orderedvec.py reads MAX_MOVEMENT / ORDERED_SIZE from src/orderedvec.rs and fails closed"]
I32MIN, I32MAX = -2147483648, 2147483647
THRESH = [1, 2, 50, 99, 100, 101, 150, 199, 200, 201, 299, 300, 301, 350, 450, 700]


def enc_batch(keys):
    """compress runs (k*n) and ascending ranges (lo~hi) so that case lines stay readable"""
    if not keys:
        return "_"
    out, i, n = [], 0, len(keys)
    while i < n:
        j = i
        while j + 1 < n and keys[j + 1] == keys[i]:
            j += 1
        if j - i >= 2:
            out.append("%d*%d" % (keys[i], j - i + 1))
            i = j + 1
            continue
        j = i
        while j + 1 < n and keys[j + 1] == keys[j] + 1:
            j += 1
        if j - i >= 3:
            out.append("%d~%d" % (keys[i], keys[j] + 1))
            i = j + 1
            continue
        out.append(str(keys[i]))
        i += 1
    return ",".join(out)


def dec_batch(t):
    if t in ("_", ""):
        return []
    out = []
    for p in t.split(","):
        if "~" in p:
            lo, hi = p.split("~")
            out.extend(range(int(lo), int(hi)))
        elif "*" in p:
            k, n = p.split("*")
            out.extend([int(k)] * int(n))
        else:
            out.append(int(p))
    return out


def keyfn(rng):
    """a key distribution: heavy ties, a few values, wide, or with i32 extremes"""
    m = rng.randint(0, 9)
    if m <= 2:
        vals = [rng.randint(-3, 3) for _ in range(rng.randint(1, 5))]
        return lambda: rng.choice(vals)
    if m <= 4:
        w = rng.choice([10, 50, 200])
        return lambda: rng.randint(0, w)
    if m <= 7:
        return lambda: rng.randint(-100000, 100000)
    if m == 8:
        ex = [I32MIN, I32MIN + 1, -1, 0, 1, I32MAX - 1, I32MAX]
        return lambda: rng.choice(ex) if rng.random() < 0.3 else rng.randint(-5, 5)
    return lambda: rng.randint(I32MIN, I32MAX)


def reads(rng, n, many=False):
    """read ops aimed at the boundaries of a list of n items"""
    pts = [0, 1, n - 1, n, n + 1, 99, 100, 101, 299, 300, 301, n // 2, rng.randint(0, max(n, 1) + 2), 10 ** 9]
    ops = []
    for _ in range(rng.randint(0, 6 if many else 3)):
        r = rng.random()
        if r < 0.62:
            ops.append("g:%d" % max(0, rng.choice(pts)))
        elif r < 0.80:
            ops.append("l")
        else:
            ops.append("i")
    return ops


def gen_small(rng):
    kf = keyfn(rng)
    ops, n = [], 0
    for _ in range(rng.randint(1, 14)):
        r = rng.random()
        if r < 0.5:
            b = [kf() for _ in range(rng.choice([0, 1, 1, 2, 3, 4, 6, 8]))]
            ops.append("a:" + enc_batch(b))
            n += len(b)
        elif r < 0.56:
            ops.append("c")
            n = 0
        else:
            ops.extend(reads(rng, n) or ["g:0"])
    return ops


def gen_below_prefix(rng, tac):
    """the class that stresses the movement limit: a prefix is materialised, then a batch arrives in which m items rank
    before the prefix's last item (m around MAX_MOVEMENT / ORDERED_SIZE), possibly several times"""
    sgn = -1 if tac else 1
    ops, n = [], 0
    base = rng.randint(-1000, 1000)
    first = rng.choice([1, 2, 3, 10, 99, 100, 101, 150, 300, 320])
    spread = rng.choice([1, 1, 3, 1000])
    hi = [sgn * (base + 5000 + rng.randint(0, first * spread)) for _ in range(first)]
    ops.append("a:" + enc_batch(hi))
    n += first
    ops.append(rng.choice(["g:0", "g:%d" % (first - 1), "g:%d" % (first // 2), "i", "g:%d" % first, "g:0 g:1"]))
    for _ in range(rng.randint(1, 3)):
        m = rng.choice(THRESH) + rng.choice([0, 0, 0, -1, 1])
        m = max(m, 0)
        ties = rng.random() < 0.3
        lo = [sgn * (base + (rng.randint(0, 3) if ties else rng.randint(0, 4000))) for _ in range(m)]
        extra = [sgn * (base + 5000 + rng.randint(-10, 6000)) for _ in range(rng.choice([0, 0, 1, 5, 120, 320]))]
        b = lo + extra
        rng.shuffle(b)
        ops.append("a:" + enc_batch(b))
        n += len(b)
        ops.extend(reads(rng, n, many=True) or ["i"])
        if rng.random() < 0.15:
            ops.append("c")
            n = 0
            ops.append("a:" + enc_batch([sgn * (base + 5000 + i) for i in range(rng.choice([1, 5, 120]))]))
            n += len(dec_batch(ops[-1][2:]))
            ops.append("g:%d" % rng.choice([0, 0, n - 1, n]))
    ops.append(rng.choice(["i", "i", "g:0 g:1 g:2 l", "l i"]))
    return ops


def gen_big(rng):
    kf = keyfn(rng)
    ops, n = [], 0
    for _ in range(rng.randint(1, 6)):
        r = rng.random()
        if r < 0.6:
            sz = rng.choice([0, 1, 5, 30, 99, 100, 101, 150, 299, 300, 301, 400, 700])
            if rng.random() < 0.4:
                sz = rng.randint(0, sz)
            b = [kf() for _ in range(sz)]
            ops.append("a:" + enc_batch(b))
            n += sz
            ops.extend(reads(rng, n))
        elif r < 0.67:
            ops.append("c")
            n = 0
        else:
            ops.extend(reads(rng, n, many=True) or ["l"])
    ops.extend(reads(rng, n) or ["i"])
    return ops


def gen_degenerate(rng):
    """the small 'malformed' stream: reads on an empty list, empty batches, clears in a row, huge indices"""
    ops = []
    for _ in range(rng.randint(1, 10)):
        ops.append(rng.choice(["g:0", "g:1", "l", "i", "c", "c", "a:_", "a:_", "g:4294967296", "g:18446744073709551615",
                               "a:0", "a:%d" % I32MIN, "a:%d" % I32MAX, "a:7*3"]))
    return ops


def gen(rng, tier, n):
    for i in range(n):
        cfg = rng.choice(["00", "00", "00", "10", "10", "10", "01", "11"])
        r = rng.random()
        if cfg[1] == "1":
            ops = gen_small(rng) if r < 0.6 else (gen_big(rng) if r < 0.9 else gen_degenerate(rng))
        elif r < 0.40:
            ops = gen_small(rng)
        elif r < 0.75:
            ops = gen_below_prefix(rng, cfg[0] == "1")
        elif r < 0.94:
            ops = gen_big(rng)
        else:
            ops = gen_degenerate(rng)
        # third flag: the harness uses real MatchedItems (rank array = monotone image of the key) instead of (key, id) pairs
        # and 2: the same history through the list widget Selection (options.tac / options.nosort, append_sorted_items, rows)
        yield cfg + rng.choice("0000011122") + "|" + " ".join(ops)


def _ops(case):
    return [o for o in case.rsplit("|", 1)[1].split(" ") if o]


def nontrivial(case):
    """a read after at least two non-empty appends (no clear in between) that brought at least two distinct keys"""
    k, keys = 0, set()
    for o in _ops(case):
        if o.startswith("a:") and o != "a:_":
            k += 1
            if len(keys) < 2:
                keys.update(dec_batch(o[2:])[:50])
        elif o == "c":
            k, keys = 0, set()
        elif (o.startswith("g:") or o == "i") and k >= 2 and len(keys) >= 2:
            return True
    return False


def _simulate(case):
    """bookkeeping for the histogram only: how many items of each batch rank strictly before the last item of the prefix
    that earlier reads must have materialised (lower bound; the fixed code demotes the prefix when > MAX_MOVEMENT do)"""
    cfg, ops = case.split("|", 1)[0], _ops(case)
    sgn = -1 if cfg[0] == "1" else 1
    arr, mat, classes, maxb = [], 0, set(), 0
    for o in ops:
        if o.startswith("a:"):
            b = [sgn * k for k in dec_batch(o[2:])]
            maxb = max(maxb, len(b))
            if cfg[1] == "0" and b:
                if mat > 0:
                    last = arr[mat - 1]
                    cnt = sum(1 for k in b if k < last)
                    classes.add("below-prefix:" + ("0" if cnt == 0 else "1-99" if cnt < 100 else "100" if cnt == 100 else
                                                   "101-299" if cnt < 300 else ">=300"))
                    mat = 0 if cnt > 100 else mat + cnt
                else:
                    classes.add("below-prefix:none-materialised")
            for k in b:
                bisect.insort(arr, k)
        elif o == "c":
            arr, mat = [], 0
        elif o == "i":
            mat = len(arr)
        elif o.startswith("g:"):
            i = int(o[2:])
            if i < len(arr):
                mat = max(mat, i + 1)
            else:
                mat = len(arr)
                classes.add("get>=len")
    return classes, maxb


def histogram_keys(case):
    cfg = case.split("|", 1)[0]
    classes, maxb = _simulate(case)
    ks = ["cfg:tac=%s,nosort=%s" % (cfg[0], cfg[1]), "via:" + {"1": "OrderedVec<MatchedItem>", "2": "Selection"}.get(cfg[2:3], "OrderedVec<key-id-pair>")]
    ks.append("maxbatch:" + ("0" if maxb == 0 else "<=8" if maxb <= 8 else "<=100" if maxb <= 100 else "<=300" if maxb <= 300 else ">300"))
    ks.extend(sorted(classes))
    ks.extend(sorted(set("op:" + o.split(":")[0] for o in _ops(case))))
    return ks


def shrink_candidates(case):
    """drop ops (default strategy), then shrink inside batches (halve piece lists, ranges and repeat counts) and indices"""
    from vlib import core
    out = core.default_shrink_candidates(case)
    hd, _ = case.rsplit("|", 1)
    ops = _ops(case)
    for j, o in enumerate(ops):
        alts = []
        if o.startswith("a:") and o != "a:_":
            ps = o[2:].split(",")
            if len(ps) > 1:
                h = len(ps) // 2
                alts += [",".join(ps[:h]), ",".join(ps[h:])]
                if len(ps) <= 12:
                    alts += [",".join(ps[:i] + ps[i + 1:]) for i in range(len(ps))]
            for i, p in enumerate(ps if len(ps) <= 12 else []):
                q = None
                if "~" in p:
                    lo, hi = (int(x) for x in p.split("~"))
                    if hi - lo > 1:
                        q = ["%d~%d" % (lo, lo + (hi - lo) // 2), "%d~%d" % (lo, hi - 1), "%d~%d" % (lo + 1, hi)]
                elif "*" in p:
                    k, n = p.split("*")
                    if int(n) > 1:
                        q = ["%s*%d" % (k, int(n) // 2), "%s*%d" % (k, int(n) - 1)]
                for x in q or []:
                    alts.append(",".join(ps[:i] + [x] + ps[i + 1:]))
            alts = ["a:" + a for a in alts]
        elif o.startswith("g:") and int(o[2:]) > 0:
            alts = ["g:%d" % (int(o[2:]) // 2), "g:%d" % (int(o[2:]) - 1)]
        for a in alts:
            out.append(hd + "|" + " ".join(ops[:j] + [a] + ops[j + 1:]))
    return out


def classify(r):
    return None


TECHNIQUE = ("Lean 4 invariant + refinement proof (lazy k-way merge with bounded movement = stable sort of the arrivals, all histories, "
             "all four configurations) + history correspondence against the real OrderedVec")
LEVEL_TEXT = ("Theorems c02_* prove for the Lean model of orderedvec.rs (parametric in MAX_MOVEMENT, instantiated from the source), for every "
              "history of append/get/len/iter/clear: the representation invariant, multiset preservation, that every read shows the keys of the "
              "stable sort of the arrivals position by position (arrival order / its reverse with --no-sort), that len is the number of arrivals, "
              "that reads at or beyond it yield nothing and that no index panic is reachable. The model is tied to the code by running the same "
              "histories through the real OrderedVec and checking every answer with the executable acceptance test the theorems are about.")
LEVEL_NOTE = ("Trusted: Lean kernel + propext/Classical.choice/Quot.sound; rayon's par_sort assumed to be a stable sort; the hand-written model of "
              "orderedvec.rs is tied to the code only by the differential correspondence (thresholds taken from the source by the extractor).")
TECHNIQUE += ' + translator tie: compare_item, sort_vector, the index arithmetic of get, append (as a parameterised statement sequence) and the loop of merge_till translated from src/orderedvec.rs and proved equal to the model for every state and batch (Props/OVecFnsTables.lean)'
