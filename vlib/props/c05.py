"""C05 — accept returns the cursor item or the selected set; abort says so (headless sessions ending in accept/abort)."""
from . import session
from .c01 import histogram_keys, shrink_candidates   # noqa
ID = "C05"
SUBMODULES = ["c05cli"]     # end-to-end stream: the real `sk` binary under a pty, see c05cli.py
HARNESS_PROP = "C05"
N_QUICK, N_THOROUGH = 320, 12000
PARALLEL = 16
HARNESS_TIMEOUT = 600
STRICT_MODEL = False
SHRINK_BATCH = 48
SHRINK_ROUNDS = 10
postprocess = session.postprocess
RULE = ("headless sessions of the real Model in single and multi mode: item streams, typing / backspace / mode rotation, cursor moves, toggles, select-all / toggle-all / "
        "deselect-all, ending in accept (plain, with an --expect style key and argument) or abort; the returned SkimOutput is judged by the Lean driver against the "
        "REAL model's last snapshot (item under the cursor in display order; selected keys in (run, index) order), against the C18 editor model driven by the same "
        "editing events (query / command query exactly as edited), against the ending event and key, and every returned Arc must be pointer-equal to the Arc supplied. "
        "non-trivial = >= 2 items and >= 2 events; distinct by sha1")
ASSUMPTIONS = ["same Session model / linearisation as C01", "main.rs output formatting is modelled (binOutput) and proved, tied to the binary only in the thorough tier (sk -1 / -0 runs)"]


def gen(rng, tier, n):
    for i in range(n):
        yield session.gen_session(rng, "c05")


def nontrivial(case):
    opts, cmds, order, events, rules = session.parse_case(case)
    return sum(cmds.values()) >= 2 and len(events) >= 2


def classify(r):
    return None


TECHNIQUE = "Lean 4 corollaries of the C09/C10/C18/C01 refinements about one composed accept model + judgement of real headless sessions' SkimOutput by the Lean driver"
LEVEL_TEXT = ("c05_single / c05_multi_selected / c05_multi_none: the returned items are the cursor item or the selected set in (run, index) order; c05_cursor_is_drawn: the cursor position is "
              "inside the list and is the row the pointer is painted on (every cursor history); c05_meta: query and command query are those of the reference editor for every editing history, "
              "key and event are passed through; c05_abort(_iff): abort is flagged and never reported as accept; c05_exit_code: what the binary prints and its exit code. "
              "Tie: sessions of the real Model ending in accept/abort, judged against the real model's last snapshot and the editor model; Arc::ptr_eq against the supplied items.")
LEVEL_NOTE = ("Composition of separately proved models (selection set, cursor, editor); that the real Model wires them as `finish` does is established by the correspondence only. "
              "Input-key translation (--expect) is C19's; here the key/event pair is injected on the model's channel.")
