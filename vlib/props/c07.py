"""C07 — placeholder expansion is shell-safe: inject_command vs. the Lean model, the opaque-literal spec and /bin/sh."""
import re

ID = "C07"
SUBMODULES = ["c07cli", "c07s"]     # end-to-end: execute-silent on the real `sk` binary under a pty; the command handed to $SHELL is recorded, see c05cli.py
N_QUICK, N_THOROUGH = 6000, 300000
STRICT_MODEL = True
RULE = ("command templates built from literal shell text, placeholders ({}, {n}, {q}, {cq}, field ranges, {+..}, junk, "
        "near-misses, escaped) and raw random strings, x contexts (current item, 0-4 selections, indices of equal and unequal "
        "length, query, cmd query, 8 delimiters incl. regex and multi-byte) whose values are drawn from the full shell "
        "metacharacter set (quotes, $, `, \\, ;, |, &, newline, NUL, globs, multi-byte) and benign payloads. Streams: 0 = "
        "inject_command vs model + opaque-literal spec; 1 = additionally the expansion is read back by the real /bin/sh "
        "(printf '%s\\0'); 3 = as 1 but through the real call site Previewer::on_item_change and $SHELL -c; 2 = the interactive "
        "command (Query::get_cmd). non-trivial = the template has at least one unescaped placeholder and some context value "
        "contains a shell metacharacter; distinct by sha1 of the case line")
ASSUMPTIONS = [
    "get_string_by_range (src/field.rs) is a parameter of the model: the harness reports the real lookup results and the model uses them (fields are property C12)",
    "the regex crate's replace_all visits leftmost non-overlapping matches in order; RE_FIELDS is deterministic at a given start (class disjoint from blank, '-', '}' — checked by the extractor and by c07_class)",
    "POSIX sh token recognition as modelled in Spec/Sh.lean; the lexer makes no claim (mode `unsupported`) after a back-quote, `<<`, `$((` or `$'`, inside the template's own quotes or comments; it is validated on every run against the installed /bin/sh (dash) on templates whose literal text is harmless (blanks, plain words, complete quoted strings, backslash escapes)",
    "the shell is byte based, the model character based: all special characters are ASCII and UTF-8 multi-byte sequences contain no ASCII byte",
    "act_execute_silent and the previewer run `$SHELL -c` (not necessarily a POSIX shell); the property is about POSIX sh",
    "call sites pass indices and selections of equal length (Selection::get_selected_indices_and_items); inject_command itself zips them (unequal lengths are generated and modelled)",
    "call site coverage: Previewer::on_item_change is exercised for real (stream 3); Model::act_execute_silent builds its InjectContext the same way but is private to a running Model and is not exercised",
]
TRUSTED = ["tools/extractors/inject.py (RE_FIELDS class, RE_ESCAPE class, escape arms, quote wrapper, join separator from src/util.rs; fails closed)",
           "Spec/Sh.lean: the POSIX sh lexer model (validated against /bin/sh by the harness on the sh-flagged cases)"]

RE_FIELDS = re.compile(r"\\?(\{ *-?[0-9.,cq+n]*? *})")     # only used to list the ranges the field table must cover

DELIMS = [(",", ","), (":", ":"), (" ", " "), ("\\t", "\t"), ("[ \\t]+", "  "), ("\\|", "|"), ("é", "é"), ("'", "'")]

PLAIN = ["X", "Y", "Z", "a", "b", "1", "22", ",", ":", ".", "..", "-", "=", "%", "é", "中", "😀", "/", "_", "+"]
META_SAFE = ["'", "'", '"', "\\", "$", "`", ";", "|", "&", "\n", "\0", "*", "?", "[", "]", "~", "#", "(", ")", "{", "}",
             "!", " ", " ", "\t", "\\0", "''", "'\\''", "\\'", "$(echo X)", "`echo X`", "; echo X", "&& echo X", "| echo X",
             "$HOME", "${X}", "$((1+1))", "\\\n", "{}", "{q}", "\"'\"", "\r", "\x7f", "\x01", "\u00a0", "\u2028"]
META_FULL = META_SAFE + ["<", ">", "<<E", "> X", "2>&1"]
METASET = set("'\"\\$`;|&\n\0*?[]~#(){}!<> \t")

INNER_OK = ["", "", "", "", "n", "n", "q", "q", "q", "cq", "cq", "cq", "+", "+", "+", "+n", "+n", "1", "2", "3", "4", "-1", "-2", "1..2",
            "2..", "..2", "..", "-2..", "1..", "+1", "+2", "+3", "+2..", "+..", "+1..2", "0", "00", "99", "4294967296",
            "-4294967296", "1..99"]
INNER_JUNK = ["c", "qq", "cqn", "nq", "1,2", "1.2", "1...2", "-", "-+", "-q", "-n", "+q", "+cq", "++", "+,", ",", ".", "n1",
              "1n", "+nn", "-cq", "q+", "1..2..3", "..1.", "+0"]
NEAR_MISS = ["{a}", "{1 2}", "{\t}", "{+-1}", "{--1}", "{- 1}", "{1..", "{", "}", "{{", "}}", "{Q}", "{1;}", "{ q", "${x}", "{1..-1}",
             "{\n}", "{é}"]

LIT_FULL = ["echo", "cat", "printf", " ", " ", " ", "  ", "\t", "\n", ";", "|", "&&", "||", "&", "(", ")", "<", ">", ">>", "<<", "2>&1",
            "$", "$x", "${x}", "$(", "$((", "$(( ", "$'", "$", "`", "'", '"', "\\", "\\\\", "\\ ", "\\'", '\\"', "\\\n", "#", " #", "-", "--", "=", "x", "a b",
            "'a b'", '"a b"', '"a\\"b"', "'\\''", "*", "?", "[", "~", "é", "中", "😀", "!", "%s", ",", ".", "c", "q", "n", "+", "0"]
LIT_SH = ["X", "Y", "a", "ab", " ", " ", " ", "  ", "\t", " \t ", "-", "--", "=", "a=b", "%s", ",", ".", "é", "中", "😀", "a#b", "\\ ", "\\'",
          '\\"', "\\\\", "\\a", "\\\n", "\\;", "\\$", "\\#", "'a b'", "''", "'\"'", "'a\\b'", "'$x;|&'", "'\n'", "'#'", '"a b"', '""',
          '"\'"', '"a\\"b"', '"a\\\\b"', '"a\\qb"', '"a\\\nb"', '"\n"', '"#"', '"\\$x"', "{", "}", "c", "q", "n", "+", "0", "@", "^", "/"]


def enc(s):
    return ".".join(str(ord(c)) for c in s) if s else "-"


def dec(t):
    return "" if t in ("-", "") else "".join(chr(int(x)) for x in t.split("."))


def enc_list(l):
    return ",".join(enc(x) for x in l) if l else "_"


def dec_list(t):
    return [] if t in ("_", "") else [dec(x) for x in t.split(",")]


def value(rng, meta, lo=0, hi=6):
    k = rng.choice([lo, 1, 2, 3, hi])
    return "".join(rng.choice(meta) if rng.random() < 0.55 else rng.choice(PLAIN) for _ in range(k))


def item(rng, meta, dlit):
    nf = rng.choice([1, 1, 2, 3, 4])
    return dlit.join(value(rng, meta, 0, 3) for _ in range(nf))


def placeholder(rng):
    r = rng.random()
    inner = rng.choice(INNER_OK) if r < 0.8 else rng.choice(INNER_JUNK)
    lb = rng.choice(["", "", "", " ", "  "])
    rb = rng.choice(["", "", "", " ", "   "])
    return "{" + lb + inner + rb + "}"


def template(rng, sh):
    lits = LIT_SH if sh else LIT_FULL
    out = []
    n = rng.choice([1, 2, 3, 5, 8, 12])
    for _ in range(n):
        r = rng.random()
        if r < 0.40:
            out.append(placeholder(rng))
        elif r < 0.48:
            out.append("\\" + placeholder(rng))
        elif r < 0.52:
            out.append("\\\\" + placeholder(rng))
        elif r < 0.60:
            out.append(rng.choice(NEAR_MISS if not sh else ["{a}", "{1 2}", "{+-1}", "{--1}", "{- 1}", "{1..", "{", "}", "{{", "}}", "{Q}"]))
        elif r < 0.66 and not sh:
            out.append("".join(rng.choice("{{}}\\ -019.,cq+nx$'\";|&") for _ in range(rng.randint(1, 10))))
        else:
            out.append(rng.choice(lits))
        if sh and rng.random() < 0.5:
            out.append(" ")
    return "".join(out)


def ranges_of(tmpl):
    rs = []
    for m in RE_FIELDS.finditer(tmpl):
        if m.group(0).startswith("\\"):
            continue
        inner = m.group(1)[1:-1].strip(" ")
        if inner.startswith("+"):
            inner = inner[1:]
        if inner and inner not in rs:
            rs.append(inner)
    return rs


def make_case(sh, dre, curidx, cur, idxs, sels, query, cmdq, tmpl, inter=False, pv=False):
    """stream: 0 inject_command, 1 inject_command + read back by /bin/sh, 2 interactive command (Query::get_cmd),
    3 as 1 but the words come from the real call site Previewer::on_item_change + $SHELL -c"""
    if inter:
        return "2;%s;0;-;_;_;-;%s;_|%s" % (enc(","), enc(cmdq), enc(tmpl))
    return "%d;%s;%d;%s;%s;%s;%s;%s;%s|%s" % (3 if (pv and sh) else int(sh), enc(dre), curidx, enc(cur), ",".join(str(i) for i in idxs) or "_",
                                              enc_list(sels), enc(query), enc(cmdq), enc_list(ranges_of(tmpl)), enc(tmpl))


def parse_case(case):
    hd, t = case.rsplit("|", 1)
    sh, dre, curidx, cur, idxs, sels, query, cmdq, _ = hd.split(";")
    return dict(sh=sh in ("1", "3"), pv=sh == "3", inter=sh == "2", dre=dec(dre), curidx=int(curidx), cur=dec(cur),
                idxs=[] if idxs in ("_", "") else [int(x) for x in idxs.split(",")],
                sels=dec_list(sels), query=dec(query), cmdq=dec(cmdq), tmpl=dec(t))


def unparse(c):
    return make_case(c["sh"], c["dre"], c["curidx"], c["cur"], c["idxs"], c["sels"], c["query"], c["cmdq"], c["tmpl"],
                     c.get("inter", False), c.get("pv", False))


def gen(rng, tier, n):
    sh_share = 0.25 if tier == "quick" else 0.10
    late = []      # interactive-command cases go LAST: they reproduce a known finding and must not use up the
                   # runner's shrink budget before a different violation is seen
    for i in range(n):
        if rng.random() < 0.03:
            # interactive command: base command with `{}` (replstr), command query typed by the user
            base = rng.choice([" ", " ", ""]).join(rng.choice(["{}", "{}", " ", " ", "echo", "rg", "\"{}\"", "'{}'", "-e", "x", ";", "|", "{q}", "\\{}", "{ }", "é"])
                           for _ in range(rng.choice([1, 2, 3, 5])))
            arg = rng.choice(["", "X", "ab", "foo1", "é中"]) if rng.random() < 0.4 else value(rng, META_FULL)
            late.append(make_case(False, ",", 0, "", [], [], "", arg, base, inter=True))
            continue
        sh = rng.random() < sh_share
        pv = sh and rng.random() < 0.12      # a share of the sh cases goes through the Previewer call site
        meta = META_SAFE if sh else META_FULL
        dre, dlit = rng.choice(DELIMS)
        cur = item(rng, meta, dlit)
        k = rng.choice([0, 0, 1, 2, 3, 4])
        sels = [item(rng, meta, dlit) for _ in range(k)]
        if sels and rng.random() < 0.3:
            sels[rng.randrange(len(sels))] = cur
        idxs = [rng.choice([0, 1, 7, 10, 123, 4294967295, 18446744073709551615]) if rng.random() < 0.3 else j for j in range(k)]
        r = rng.random()
        if r < 0.06:          # the two slices are independent arguments of inject_command: unequal lengths, one empty
            idxs = idxs[:rng.randint(0, len(idxs))]
        elif r < 0.12:
            idxs = idxs + [5] * rng.randint(1, 2)
        curidx = rng.choice([0, 1, 2, 9, 10, 99, 4294967295])
        query = value(rng, meta)
        cmdq = value(rng, meta)
        tmpl = template(rng, sh)
        if sh and not sh_template_ok(tmpl):     # defensive: never hand sh a template outside the harmless fragment
            sh = False
        yield make_case(sh, dre, curidx, cur, idxs, sels, query, cmdq, tmpl, pv=pv)
    for c in late:
        yield c


def nontrivial(case):
    c = parse_case(case)
    if c["inter"]:
        return "{}" in c["tmpl"] and any(ch in METASET for ch in c["cmdq"])
    has_ph = any(not m.group(0).startswith("\\") for m in RE_FIELDS.finditer(c["tmpl"]))
    vals = [c["cur"], c["query"], c["cmdq"]] + c["sels"]
    return has_ph and any(ch in METASET for v in vals for ch in v)


def kind_of(inner):
    if inner == "":
        return "ph:{}"
    if inner in ("n", "q", "cq", "+", "+n"):
        return "ph:{%s}" % inner
    body = inner[1:] if inner.startswith("+") else inner
    ok = re.fullmatch(r"(-?\d+)?(\.\.)?(-?\d+)?", body) is not None
    return ("ph:{+R}" if inner.startswith("+") else "ph:{R}") if ok else "ph:junk"


def histogram_keys(case):
    c = parse_case(case)
    ks = set()
    if c["inter"]:
        return ["interactive-cmd", "interactive-cmd:" + ("plain-word-query" if c["cmdq"] and not any(ch in METASET for ch in c["cmdq"]) else "query-with-metachar-or-empty")]
    ks.add(("sh:previewer-call-site" if c["pv"] else "sh") if c["sh"] else "nosh")
    ks.add("sels=%d" % len(c["sels"]))
    if len(c["sels"]) != len(c["idxs"]):
        ks.add("idxs!=sels")
    n = 0
    for m in RE_FIELDS.finditer(c["tmpl"]):
        if m.group(0).startswith("\\"):
            ks.add("escaped")
            continue
        n += 1
        ks.add(kind_of(m.group(1)[1:-1].strip(" ")))
        if m.group(1)[1:-1] != m.group(1)[1:-1].strip(" "):
            ks.add("ph:blanks-inside")
    ks.add("placeholders=%s" % (n if n < 3 else "3+"))
    vals = "".join([c["cur"], c["query"], c["cmdq"]] + c["sels"])
    for name, chs in (("v:'", "'"), ("v:nul", "\0"), ("v:newline", "\n"), ("v:backslash", "\\"), ("v:$`", "$`"),
                      ("v:;|&", ";|&"), ("v:glob", "*?[~"), ("v:dquote", '"')):
        if any(ch in vals for ch in chs):
            ks.add(name)
    if any(ord(ch) > 127 for ch in vals):
        ks.add("v:multibyte")
    if '"' in c["tmpl"] or "'" in c["tmpl"]:
        ks.add("t:quotes")
    if "`" in c["tmpl"] or "<<" in c["tmpl"]:
        ks.add("t:unsupported-construct")
    return sorted(ks)


def sh_template_ok(tmpl):
    """may this template be handed to the real sh?  (only for shrinking: generated sh templates are built from
    self-contained harmless atoms; a shrunk one must still be one the lexer model predicts and sh accepts:
    quotes closed, no operator / expansion / comment character outside quotes, no trailing backslash)"""
    t = RE_FIELDS.sub(lambda m: "X" if not m.group(0).startswith("\\") else m.group(0), tmpl)
    mode, i, start = "u", 0, True
    while i < len(t):
        ch = t[i]
        if mode == "u":
            if ch == "\\":
                if i + 1 >= len(t):
                    return False
                i += 1
                start = False
            elif ch == "'":
                mode, start = "s", False
            elif ch == '"':
                mode, start = "d", False
            elif ch in " \t":
                start = True
            elif ch in "$`;|&<>()\n*?[~!" or (ch == "#" and start):
                return False
            else:
                start = False
        elif mode == "s":
            if ch == "'":
                mode = "u"
        else:
            if ch == "\\":
                if i + 1 >= len(t):
                    return False
                i += 1
            elif ch == '"':
                mode = "u"
            elif ch in "$`":
                return False
        i += 1
    return mode == "u"


def shrink_candidates(case):
    c = parse_case(case)
    out = []

    def push(**kw):
        d = dict(c)
        d.update(kw)
        if d["sh"] and not sh_template_ok(d["tmpl"]):
            return
        out.append(unparse(d))

    if c["inter"]:
        t, v = c["tmpl"], c["cmdq"]
        for i in range(len(t)):
            push(tmpl=t[:i] + t[i + 1:])
        for i in range(len(v)):
            push(cmdq=v[:i] + v[i + 1:])
        return out
    if c["sh"]:
        push(sh=False)
        if c["pv"]:
            push(pv=False)

    t = c["tmpl"]
    size = max(len(t) // 2, 1)
    while size >= 1 and t:
        for i in range(0, len(t), size):
            push(tmpl=t[:i] + t[i + size:])
        if size == 1:
            break
        size //= 2
    for j in range(len(c["sels"])):
        push(sels=c["sels"][:j] + c["sels"][j + 1:], idxs=c["idxs"][:j] + c["idxs"][j + 1:])
    if c["idxs"]:
        push(idxs=c["idxs"][:-1])
    for key in ("cur", "query", "cmdq"):
        v = c[key]
        if v:
            push(**{key: ""})
            push(**{key: v[:len(v) // 2]})
            push(**{key: v[len(v) // 2:]})
            for i in range(len(v)):
                push(**{key: v[:i] + v[i + 1:]})
    for j, v in enumerate(c["sels"]):
        if v:
            for nv in ("", v[:len(v) // 2], v[len(v) // 2:]):
                push(sels=c["sels"][:j] + [nv] + c["sels"][j + 1:])
    if c["curidx"]:
        push(curidx=0)
    if c["dre"] != ",":
        push(dre=",")
    return out[:160]


def classify(r):
    """known finding: the interactive command substitutes the raw command query (exactly str::replace of `{}`)"""
    try:
        c = parse_case(r["case"])
        if c["inter"] and r["impl"].split(";")[0] == enc(c["tmpl"].replace("{}", c["cmdq"])) and r["impl"] == r["model"]:
            return "C07-interactive-cmd-raw-substitution"
    except Exception:
        pass
    return None


TECHNIQUE = ("Lean 4 proof that single-quote wrapping with the escape table extracted from src/util.rs is read back by a POSIX sh "
             "lexer model as exactly the value (induction over all strings), lifted to whole templates (expansion commutes with "
             "lexing; no-injection corollary); differential correspondence of the Lean inject model against the real inject_command, "
             "of the lexer model against the installed /bin/sh, and of the Previewer call site against both")
LEVEL_TEXT = ("Theorems c07_quote (for every string v and every unquoted lexer state, lexing quote(v) appends exactly v — NUL as \\0 — to the "
              "current word and returns to the unquoted state), c07_template / c07_inject_lexes (expansion commutes with lexing: for every "
              "template whose placeholders stand at unquoted positions the shell reads the template's own text plus each designated value as "
              "an opaque literal), c07_structure_independent (no value can add, remove or split a word, introduce an operator, open a quote "
              "or trigger an expansion), c07_one_word / c07_plus / c07_words_at_end (one word per value at word boundaries, k words for k "
              "selections), c07_literal_untouched, c07_no_placeholder_identity, c07_escaped, c07_matchBrace_iff (the hand scanner accepts "
              "exactly the language of RE_FIELDS), c07_scan_placeholder / c07_scan_literal, c07_class and the c07_designate_* table are "
              "proved in Lean 4 for all inputs, against the escape table, character class, wrapper and separator extracted from "
              "src/util.rs. The model is tied to the code by running generated (template, context) pairs through the real inject_command "
              "and diffing the output; the lexer model is diffed against /bin/sh; the Previewer call site is run for real.")
LEVEL_NOTE = ("Trusted: Lean kernel + propext/Classical.choice/Quot.sound; the hand scanner for RE_FIELDS and the POSIX sh lexer model are "
              "hand-written and tied to regex/dash only by the differential checks; field lookup (get_string_by_range) is a parameter; "
              "back-quote bodies, here-documents, $((…)) and $'…' are outside the lexer model (no claim there); $SHELL may be a non-POSIX "
              "shell; act_execute_silent is not exercised. Known finding: the interactive command (Query::get_cmd) substitutes the raw "
              "command query, unquoted (C07-interactive-cmd-raw-substitution).")
