"""CLI-level sample for C03 / C04 (thorough tier only): `sk --filter=QUERY [--exact] [--regex] --case=.. --algo=..`
on the texts as stdin lines must print exactly the texts the in-process engines (already compared with the Lean
model and judged by the spec in the main stream) accept, in input order.  This ties the option plumbing of
src/bin/main.rs (`filter`) to the factories.  Release profile only: a debug `sk` panics at start-up (clap debug_assert)."""
import json, os, subprocess
from vlib import core

CASE = {"s": "smart", "r": "respect", "i": "ignore"}
ALGO = {"1": "skim_v1", "2": "skim_v2", "c": "clangd"}
SK = core.SK_BIN


def dec(s):
    return "" if s in ("-", "") else "".join(chr(int(t)) for t in s.split("."))


def usable(query, texts):
    """what can travel through argv / stdin lines unambiguously"""
    if "\0" in query or query.startswith("-"):
        return False
    for t in texts:
        if t == "" or any(c in t for c in "\n\r\0\x1b"):
            return False
    return True


def build():
    core.build_sk()


def check(prop, seed, items):
    """items: list of (case_line, regex: bool, exact: bool, case, algo, query, texts).  Returns number of mismatches."""
    items = [it for it in items if usable(it[5], it[6])]
    if not items:
        return 0, 0
    try:
        build()
    except core.BuildError as e:
        path = core.write_replay(prop, seed, "cli-build", dict(kind="harness-build-broken", theorem_or_stream="cargo build --release of sk",
                                                               detail=e.detail))
        print("VIOLATION property=%s replay=%s no-failing-input-found" % (prop, path))
        return 1, 0
    impl = core.run_lines(core.HBIN, ["%s\t%s" % (prop, it[0]) for it in items])
    bad = 0
    for it, out in zip(items, impl):
        case_line, regex, exact, cm, algo, query, texts = it
        bits = out.split(";")[1] if ";" in out else ""
        if len(bits) != len(texts):
            continue
        want = [t for t, b in zip(texts, bits) if b == "1"]
        argv = [SK, "--filter=" + query, "--case=" + CASE[cm], "--algo=" + ALGO[algo]]
        if exact:
            argv.append("--exact")
        if regex:
            argv.append("--regex")
        p = subprocess.run(argv, input=("\n".join(texts) + "\n").encode(), stdout=subprocess.PIPE, stderr=subprocess.PIPE, timeout=60)
        got = p.stdout.decode(errors="replace").split("\n")
        if got and got[-1] == "":
            got.pop()
        if got != want or p.returncode != (0 if want else 1):
            bad += 1
            if bad <= 3:
                path = core.write_replay(prop, seed, "cli-%d" % bad, dict(
                    kind="cli-mismatch", case=case_line, argv=argv[1:], stdin_lines=texts, sk_stdout=got, sk_exit=p.returncode,
                    in_process_accepts=want,
                    theorem_or_stream="CLI sample: sk --filter output differs from the in-process engines on the same query/options"))
                print("VIOLATION property=%s replay=%s" % (prop, path))
    return bad, len(items)


def annotate(prop, n, bad):
    p = os.path.join(core.ROOT, "evidence", prop + ".json")
    try:
        ev = json.load(open(p))
    except Exception:
        return
    ev["coverage"]["cli_level"] = dict(sk_filter_invocations=n, mismatches=bad,
                                       what="sk --filter=QUERY [--exact|--regex] --case --algo on the texts as stdin lines == in-process engine verdicts")
    if bad:
        ev["violations"] = ev.get("violations", 0) + bad
    json.dump(ev, open(p, "w"), indent=1, ensure_ascii=False)
