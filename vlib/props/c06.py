"""C06 — lines in, lines out: the reader loop / item output / filter mode vs. the Lean model and the split spec.

Case line (see lean/SkimModel/Driver/C06.lean):
  <lvl>;<term>;<print0>;<ansi>;<with-nth>;<nth>;<delim>;<query>;<reads>;<close>|<hex tok> <hex tok> ...
"""
import re

ID = "C06"
EXTRA_PROPS = ["ItemFnsTables"]   # the glue of DefaultSkimItem::new / output as TRANSLATED from src/helper/item.rs = the model; --nth ranges on the stripped item text
NEEDS_SK = True     # the cli-level cases run the real `sk -f` (built by core.build_sk, path in VERIF_SK_BIN)
N_QUICK, N_THOROUGH = 2600, 60000
STRICT_MODEL = False   # the model fixes the outcome also where the property leaves it open (its two exclusions);
                       # the driver's verdict (split spec run on the implementation's observation) decides
RULE = ("byte streams built from line tokens over {ASCII, blank, tab, é, 中, 😀, U+FFFD, 14 kinds of invalid UTF-8, CR, LF, NUL, "
        "SGR/CSI escape sequences, lines ending inside an escape sequence} with own-kind / CRLF / other-kind terminators, unterminated last lines, lines longer than "
        "1 KiB / 8 KiB, more lines than the channel bound, plus a raw random-byte stream; x {lib: of_bufread through a BufRead "
        "handing out the stream in chosen slice sizes (1 byte ... 8 KiB), line_ending LF or NUL; cli: sk -f with --read0/--print0} x "
        "{ansi, with-nth, nth, delimiter, query, early-closing consumer}; non-trivial = at least 2 terminator bytes of the "
        "configured kind and at least 4 bytes; distinct by sha1 of the case line")
ASSUMPTIONS = [
    "String::from_utf8_lossy = one U+FFFD per maximal invalid prefix (Lean lossyImpl; cross-checked on every case, no theorem depends on it)",
    "under --ansi only `ESC [ params final` sequences, unterminated `ESC`, `ESC [`, `ESC [ params` at the very end of a line, and the C0 bytes NUL/TAB/LF/CR are generated; stripAnsiImpl models the ANSI parser for that grammar only (full tokenizer: C16)",
    "queries are empty or 1-2 lower-case ASCII letters (verdict = ASCII-case-folded in-order subsequence; matching rules: C03); with --with-nth only the empty query; with --nth a query only for the literal delimiter `,` (field ranges on the ITEM text — the stripped text under --ansi — by the C12 field model)",
    "crossbeam bounded channel is FIFO and lossless; the OS pipe delivers bytes in order",
]
TRUSTED = [
    "the release build of the real `sk` binary (cargo build --release --offline in the repo working tree) spawned per cli case",
]

LETTERS = ["61", "62", "78", "41", "5a", "20", "09", "2c", "3a", "3b"]
MULTI = ["c3a9", "e4b8ad", "f09f9880", "efbfbd"]
INVALID = ["c328", "80", "bf", "ff", "c3", "e4b8", "f09f98", "eda080", "c0af", "f4908080", "e08080", "fe", "e4b8e4b8ad", "f0"]
ESCS = ["1b5b33316d", "1b5b6d", "1b5b303b316d", "1b5b324b", "1b5b33383b353b3230306d", "1b5b34383b323b313b323b336d", "1b5b306d"]
ESC_TAILS = ["1b", "1b5b", "1b5b33", "1b5b33313b", "1b5b33383b35"]   # unterminated sequences, only ever placed at the end of a line
TERMS_OTHER = {10: ["00", "0d", "0d0d", "000d", "0d00"], 0: ["0a", "0d", "0d0a", "0a0d", "0d0d0a"]}
READS = [1, 1, 2, 3, 5, 8, 13, 64, 1023, 1024, 1025, 4096, 8192]
FIELDS = ["1", "2", "2..", "..2", "-1", "1,3", "3..", "-2..", "1..", "..", "2,1", "2,2", "1,1", "3,1,2", "2,1,3", "-1,1"]
PERMS = ["2,1", "2,2", "1,1", "3,1,2", "2,1,3", "-1,1"]
DELIMS = ["2c", "5b3a2c5d", "09", "782b", "3a3a", "5c7c"]
QUERIES = ["61", "62", "78", "7a", "6162", "6261", "7861"]


def word(rng, ansi_tokens):
    atoms = []
    for _ in range(rng.choice([0, 1, 1, 2, 3, 6])):
        r = rng.random()
        if r < 0.55:
            atoms.append(rng.choice(LETTERS))
        elif r < 0.70:
            atoms.append(rng.choice(MULTI))
        elif r < 0.85:
            atoms.append(rng.choice(INVALID))
        elif ansi_tokens:
            atoms.append(rng.choice(ESCS))
        else:
            atoms.append(rng.choice(LETTERS))
    return "".join(atoms)


def gen_stream(rng, term, tier, esc_ok):
    """list of hex tokens"""
    toks = []
    own = "%02x" % term
    r = rng.random()
    if r < 0.12:   # raw random bytes (malformed stream)
        alpha = ["00", "0a", "0d", own, own, "61", "ff", "c3", "a9", "e4", "80", "20"]
        return [rng.choice(alpha) for _ in range(rng.choice([0, 1, 2, 3, 5, 9, 30]))]
    big = 1300 if tier == "quick" else 11000
    n = rng.choice([0, 1, 1, 2, 2, 3, 3, 5, 8, 13, 40]) if rng.random() < 0.985 else rng.choice([1030, big])
    others = TERMS_OTHER.get(term, ["0a", "00", "0d", "0d0a"])
    for i in range(n):
        if n < 100 and rng.random() < 0.04:
            # a long line: longer than the channel/read constants
            ln = rng.choice([1023, 1024, 1025, 2500, 8191, 8192, 8193, 20000 if tier != "quick" else 9000])
            if rng.random() < 0.5:
                # the long run follows a byte that is the other mode's terminator (a record with an embedded newline
                # followed by more than a stdout buffer of bytes, under --read0)
                if rng.random() < 0.5:
                    toks.append(word(rng, False) or "61")
                toks.append(rng.choice(others))
            toks.append((rng.choice(LETTERS) * ln)[: 2 * ln])
        else:
            w = word(rng, esc_ok)
            if w:
                toks.append(w)
        if rng.random() < 0.18:
            toks.append(rng.choice(others))           # a byte that is the OTHER mode's terminator, inside the line
            if rng.random() < 0.5:
                w = word(rng, esc_ok)
                if w:
                    toks.append(w)
        if esc_ok and rng.random() < 0.1:
            toks.append(rng.choice(ESC_TAILS))        # the line ends inside an escape sequence
        last = i == n - 1
        if last and rng.random() < 0.45:
            if rng.random() < 0.5:
                toks.append(rng.choice(others))       # unterminated last line ending in a look-alike
            break
        if term == 10 and rng.random() < 0.25:
            toks.append("0d0a")
        else:
            toks.append(own)
    return toks


def gen(rng, tier, n):
    for i in range(2 if tier == "quick" else 12):
        # contention runs of the real Reader (src/reader.rs): trials, last lines per trial; 24 pollers of is_done() per trial
        yield "rdr;10;0;0;_;_;_;-;%d,%d;_|" % (rng.choice([120, 160]), rng.choice([1, 3, 5]))
    for i in range(n):
        cli = rng.random() < (0.22 if tier == "quick" else 0.3)
        if cli:
            term = rng.choice([10, 10, 0])
        else:
            term = rng.choice([10, 10, 10, 0, 0])
        ansi = rng.random() < 0.25
        wn = rng.choice(FIELDS) if rng.random() < 0.18 else "_"
        nth = rng.choice(FIELDS) if rng.random() < 0.18 else "_"
        delim = rng.choice(DELIMS) if rng.random() < 0.2 else "_"
        query = "-"
        if cli and wn == "_" and nth == "_" and rng.random() < 0.55:
            query = rng.choice(QUERIES)
        p0 = int(cli and rng.random() < 0.5)
        reads = [rng.choice(READS) for _ in range(rng.randint(1, 4))]
        if not cli and rng.random() < 0.25:
            reads.insert(rng.randint(0, len(reads)), 0)      # 0 = ONE transient read error (EAGAIN) between two lines, then reading goes on
        close = "_"
        if rng.random() < 0.07:
            close = str(rng.choice([0, 1, 2, 3, 7]))
        # escape sequences appear with and without --ansi (without, they are ordinary bytes); under --ansi the
        # terminator must not be able to cut a sequence, so exotic terminators get no sequences
        esc_ok = rng.random() < 0.5 and (not ansi or term in (10, 0))
        toks = gen_stream(rng, term, tier, esc_ok)
        if wn in PERMS and rng.random() < 0.7:
            # directed: lines of 1..4 short fields separated by single delimiters, so that a re-ordering /
            # repetition of fields has the same length as the line but different content
            d = "20" if delim == "_" else {"2c": "2c", "09": "09", "3a3a": "3a3a"}.get(delim, None)
            if d is None:
                delim, d = "_", "20"
            toks = []
            for _ in range(rng.randint(1, 4)):
                fs = ["".join(rng.choice(["61", "62", "63", "78", "c3a9"]) for _ in range(rng.randint(1, 2))) for _ in range(rng.randint(1, 4))]
                toks.append(d.join(fs))
                toks.append("%02x" % term)
            if rng.random() < 0.3:
                toks.pop()
        if cli and rng.random() < 0.3:
            # directed: --nth with a query (literal delimiter `,`, no --with-nth), with and without --ansi: lines of 1..4 short
            # fields; escape sequences in front of / inside fields, so that field ranges taken on the unstripped line differ
            wn, nth, delim, close = "_", rng.choice(FIELDS), "2c", "_"
            ansi = rng.random() < 0.6
            query = rng.choice(["61", "62", "78", "6162", "-"])
            toks = []
            for _ in range(rng.randint(1, 6)):
                fs = []
                for _ in range(rng.randint(1, 4)):
                    f = "".join(rng.choice(["61", "62", "78", "41", "7a", "c3a9", "20"]) for _ in range(rng.randint(0, 3)))
                    if rng.random() < 0.4:
                        e = rng.choice(ESCS)
                        f = rng.choice([e + f, f + e, e + f + "1b5b306d"])
                    fs.append(f)
                toks.append("2c".join(fs) or "61")
                toks.append("%02x" % term)
            if rng.random() < 0.3:
                toks.pop()
        if ansi and term not in (10, 0):
            ansi = False
        yield "%s;%d;%d;%d;%s;%s;%s;%s;%s;%s|%s" % ("cli" if cli else "lib", term, p0, int(ansi), wn, nth, delim, query,
                                                     ",".join(map(str, reads)), close, " ".join(toks))


def _parts(case):
    hd, toks = case.rsplit("|", 1)
    f = hd.split(";")
    data = bytes.fromhex("".join(t for t in toks.split() if t != "-"))
    return f, data


def nontrivial(case):
    if case.startswith("rdr;"):
        return True
    f, data = _parts(case)
    return len(data) >= 4 and data.count(bytes([int(f[1])])) >= 2


def histogram_keys(case):
    if case.startswith("rdr;"):
        return ["lvl=rdr"]
    f, data = _parts(case)
    term = int(f[1])
    ks = ["lvl=" + f[0], "term=" + {10: "LF", 0: "NUL"}.get(term, "other")]
    for name, v in (("print0", f[2] == "1"), ("ansi", f[3] == "1"), ("with-nth", f[4] != "_"), ("nth", f[5] != "_"),
                    ("delimiter", f[6] != "_"), ("query", f[7] != "-"), ("close-early", f[9] != "_")):
        if v:
            ks.append(name)
    if "1" in f[8].split(","):
        ks.append("reads-of-1-byte")
    tb = bytes([term])
    lines = data.split(tb)
    nl = len(lines) - (1 if lines[-1] == b"" else 0)
    ks.append("lines<=%s" % next((str(b) for b in (0, 1, 3, 10, 100, 1024, 10240) if nl <= b), "more"))
    if data and not data.endswith(tb):
        ks.append("unterminated-last")
        if data[-1:] in (b"\n", b"\0", b"\r") :
            ks.append("unterminated-last-ends-in-lookalike")
    if term == 10 and b"\r\n" in data:
        ks.append("crlf")
    if (term == 10 and b"\0" in data) or (term == 0 and (b"\n" in data or b"\r" in data)):
        ks.append("other-kind-byte")
    if (term == 10 and b"\0\n" in data) or (term == 0 and b"\r\0" in data):
        ks.append("excluded-shape")
    try:
        data.decode("utf-8")
        if any(b >= 0x80 for b in data):
            ks.append("multibyte-valid")
    except UnicodeDecodeError:
        ks.append("invalid-utf8")
    if b"\x1b[" in data:
        ks.append("esc-seq")
    m = max((len(l) for l in lines), default=0)
    if m > 8192:
        ks.append("line>8192")
    elif m > 1024:
        ks.append("line>1024")
    if not data:
        ks.append("empty-stream")
    return ks


KNOWN_ANSI_WITHNTH = "C06-ansi-withnth-uncoloured-sequences-printed-raw"
# complete CSI sequences, and an unterminated `ESC` / `ESC [ params` at the very end of the line / record (it sets no attribute either)
_CSI = re.compile(rb"\x1b\[[0-?]*[ -/]*[@-~]|\x1b(\[[0-?]*[ -/]*)?(?=[\x00\n\r\t]|$)")


def _unhex(x):
    return b"" if x in ("-", "_", "") else bytes.fromhex(x)


def classify(r):
    """Known finding: --ansi with a --with-nth that shows the WHOLE line (`..`, `1..`): a line whose escape sequences
    set no colour attribute (reset only, non-SGR CSI) is printed raw.  Signature: that configuration, and the
    implementation's output differs from the required one ONLY by escape sequences that were left in."""
    try:
        f, _ = _parts(r["case"])
        if not (f[3] == "1" and f[4] in ("..", "1..")):
            return None
        if f[0] == "lib":
            if r["impl"] == "_" or r["model"] == "_":
                return None
            impl = [_unhex(x.split(":")[1]) for x in r["impl"].split()]
            model = [_unhex(x.split(":")[1]) for x in r["model"].split()]
        else:
            (rci, oi), (rcm, om) = r["impl"].split(";"), r["model"].split(";")
            if rci != rcm:
                return None
            impl, model = [_unhex(oi)], [_unhex(om)]
            if f[9] != "_":
                # early-closing consumer: both outputs are cut after `close` bytes (possibly inside a sequence that was left in)
                st = _CSI.sub(b"", impl[0])
                return KNOWN_ANSI_WITHNTH if impl != model and model[0].startswith(st) else None
        if len(impl) == len(model) and impl != model and all(_CSI.sub(b"", i) == m for i, m in zip(impl, model)):
            return KNOWN_ANSI_WITHNTH
    except Exception:
        return None
    return None


def shrink_candidates(case):
    """default token-dropping shrinker, except for the configuration class of the known finding (its minimal form is in
    corpus/C06/known.txt; shrinking each of the ~0.3 % of generated cases that reproduce it would dominate the thorough tier)"""
    from vlib import core
    f, _ = _parts(case)
    if f[3] == "1" and f[4] in ("..", "1.."):
        return []
    return core.default_shrink_candidates(case)


TECHNIQUE = ("Lean 4 proof (reader loop over any cut of the stream into reads = split spec; lossless rejoin; item/output/filter-mode "
             "composition) + differential correspondence at two levels: SkimItemReader::of_bufread in-process and the real `sk -f` binary")
LEVEL_TEXT = ("Theorems c06_* prove for every byte stream, every terminator byte and every way the stream is cut into reads that the "
              "reader loop (read_until + terminator stripping, as fixed) yields exactly the lines of the declarative split spec, one item per "
              "line in order; that lines + terminators rejoin to the stream (nothing lost); that a source ending early yields the completed "
              "lines plus at most one truncated line; that output() is the original line (ANSI-stripped under --ansi) independent of "
              "with-nth/nth; and that filter mode prints exactly the matching lines in order (all of them for an always-true matcher). "
              "The model is tied to the code by running generated streams through the real of_bufread (chosen read sizes) and the real `sk -f`.")
LEVEL_NOTE = ("Trusted: Lean kernel + propext/Classical.choice/Quot.sound; from_utf8_lossy, the ANSI parser, field transformation and the match "
              "engine are parameters of the theorems (executable stand-ins are cross-checked, not verified); the hand-written model of "
              "item_reader.rs/item.rs/main.rs::filter is tied to the code only by the differential correspondence; read errors other than "
              "end-of-input are outside the model.")

TECHNIQUE += ' + translator tie: the glue of DefaultSkimItem::new / output translated from src/helper/item.rs and proved equal to the model (Props/ItemFnsTables.lean)'
