"""C05 (and C19's expect / bind / conditional parts), end-to-end: the REAL `sk` binary under a pty.
Items go to stdin, keystrokes to the terminal; stdout and exit code are judged by lean/SkimModel/Driver/C05Cli.lean,
which composes the C19 keymap, C18 editor, C03/C04 engine, C09 cursor and C05 accept models.

Timing: keystrokes are ordered by the tty, but an accept typed before the matcher has caught up would legitimately
return what was displayed at that moment; the driver therefore pauses before the keys that end the session, and a
case whose verdict is not `ok` is re-run with all pauses multiplied by 4 (twice) before it is reported."""
import fcntl, os, pty, select, struct, subprocess, termios, time
from . import session   # noqa  (enc/dec helpers)
from vlib import core

ID = "C05"
HARNESS_PROP = "C05CLI"
NEEDS_SK = True
N_QUICK, N_THOROUGH = 48, 1500
STRICT_MODEL = False
SHRINK_ROUNDS = 6
SHRINK_BATCH = 16
PY_PARALLEL = 8
RULE = ("the real `sk` binary under a pty with --no-sort: 1..8 lower-case items, keystrokes over {letters, backspace, ctrl-p/ctrl-n, "
        "tab/btab (multi), ctrl-u, enter, ctrl-c, expect keys, one bound key whose chain may contain toggle/up/down/accept/abort and the "
        "conditionals if-query-empty / if-query-not-empty / if-non-matched}, options {--multi, --print-query, --print-cmd, --expect, --bind, -q}; "
        "stdout and exit code vs. the composed Lean models; non-trivial = at least 2 items and 2 keys")

enc = session.enc
dec = session.dec
WORDS = ["a", "b", "ab", "ba", "abc", "bc", "ca", "cab", "bb", "ac"]
KEYBYTES = {"enter": b"\r", "tab": b"\t", "btab": b"\x1b[Z", "bspace": b"\x7f", "f1": b"\x1bOP", "f2": b"\x1bOQ"}


def key_bytes(name):
    if name in KEYBYTES:
        return KEYBYTES[name]
    if name.startswith("ctrl-") and len(name) == 6:
        return bytes([ord(name[5]) - 96])
    if name.startswith("alt-") and len(name) == 5:
        return b"\x1b" + name[4].encode()
    return name.encode()


ENDERS = ("enter", "ctrl-c", "ctrl-x", "alt-a", "f1", "f2", "ctrl-t")
# no chain lets a list-dependent action (accept, toggle, up, down) FOLLOW a query edit inside the same chain: the real
# code then acts on the list as displayed at that moment, i.e. in the middle of the re-filtering (legitimately timing
# dependent; the in-process session streams cover that window with the trace) — an edit may only come last
CHAINS = ["toggle+up", "up+toggle", "toggle+down+toggle", "if-query-empty(toggle)+up", "if-query-empty(abort)+accept",
          "if-query-not-empty(abort)+accept", "if-non-matched(abort)+accept", "if-query-empty(up)+up+accept",
          "if-query-not-empty(toggle)+down", "select-all+accept", "up:2", "up+if-non-matched(unix-line-discard)",
          "toggle+if-query-not-empty(unix-line-discard)", "toggle-all", "accept(xx)", "append-and-select", "append-and-select",
          # execute-silent: the command the Model hands to $SHELL (recorded by the stand-in shell, not run) is the C07 expansion of the
          # template in the context of the live list, selection and query
          "execute-silent(echo {n} {})", "execute-silent(echo {+n} -- {+})+down", "execute-silent(echo {q} \\{} {n})",
          "up+execute-silent(echo {+n})", "toggle+execute-silent(echo {+n} {+})", "execute-silent(echo {+n})",
          "execute-silent(printf '%s' {q}{n})+toggle+up+execute-silent(echo {+})"]


def gen(rng, tier, n):
    for _ in range(n):
        if rng.random() < 0.08:
            # directed: append-and-select with a non-empty query, in single and multi mode, then accept
            opts = (["multi"] if rng.random() < 0.5 else []) + (["pq"] if rng.random() < 0.5 else []) + ["bind=" + enc("ctrl-t:append-and-select")]
            items = [rng.choice(WORDS) for _ in range(rng.choice([1, 2, 3]))]
            keys = [rng.choice("abc") for _ in range(rng.choice([1, 2]))] + ["ctrl-t"]
            if rng.random() < 0.4:
                keys.append(rng.choice(["ctrl-p", "tab", "ctrl-u"]))
            keys += ["enter", "enter", "ctrl-c"]
            yield "K|%s|%s|%s" % (",".join(opts), ",".join(enc(i) for i in items), " ".join(enc(k) for k in keys))
            continue
        if rng.random() < 0.06:
            # directed: if-non-matched right behind an edit IN THE SAME CHAIN, in the one direction that does not depend on timing:
            # the new query (yanked back, `zz`) matches nothing, so the count for the current query is 0 from the moment of the
            # edit on — while the list on screen still shows the previous query's matches until the next heart beat
            opts = (["multi"] if rng.random() < 0.5 else []) + ["bind=" + enc("ctrl-t:" + rng.choice(
                ["yank+if-non-matched(abort)+accept", "yank+if-non-matched(abort)", "yank+if-non-matched(accept(nm))+abort"]))]
            items = [rng.choice(WORDS) for _ in range(rng.choice([1, 2, 3, 5]))]
            keys = ["z", "z", "ctrl-u"] + (["ctrl-p"] if rng.random() < 0.3 else []) + ["ctrl-t", "enter", "ctrl-c"]
            yield "K|%s|%s|%s" % (",".join(opts), ",".join(enc(i) for i in items), " ".join(enc(k) for k in keys))
            continue
        if rng.random() < 0.06:
            # directed: execute-silent with a selection that does not contain the cursor item, templates whose only reference to
            # items is {+n} / {+} / {n}; filtered lists (index of the line != row)
            tmpl = rng.choice(["echo {+n}", "echo {q} {+n}", "echo {+}", "echo {n} {+n} {}", "echo {+n} {+}", "echo \\{+n} {+n}"])
            opts = ["multi", "bind=" + enc("f2:execute-silent(%s)" % tmpl)] + (["q=" + enc(rng.choice(["b", "a", "c"]))] if rng.random() < 0.5 else [])
            items = [rng.choice(WORDS) for _ in range(rng.choice([3, 5, 8]))]
            # (btab = toggle+up selects and moves on; tab = toggle+down stays on the bottom row and would toggle the same item again)
            keys = [rng.choice(["btab", "btab", "btab", "ctrl-p", "tab"]) for _ in range(rng.choice([1, 2, 3]))] + ["f2"]
            if rng.random() < 0.4:
                keys += [rng.choice(["ctrl-p", "tab", "b"]), "f2"]
            keys += ["enter", "ctrl-c"]
            yield "K|%s|%s|%s" % (",".join(opts), ",".join(enc(i) for i in items), " ".join(enc(x) for x in keys))
            continue
        if rng.random() < 0.08:
            # directed: if-query-empty / if-query-not-empty evaluated while the cursor is NOT at the end of a non-empty query
            # (the condition is about the whole query, not about the text on one side of the cursor)
            chain = rng.choice(["if-query-empty(abort)+accept", "if-query-not-empty(abort)+accept", "if-query-empty(accept(e))+abort",
                                "if-query-not-empty(accept(ne))+abort"])
            opts = (["multi"] if rng.random() < 0.5 else []) + (["pq"] if rng.random() < 0.5 else []) + ["bind=" + enc("ctrl-t:" + chain)]
            items = [rng.choice(WORDS) for _ in range(rng.choice([2, 3, 5]))]
            keys = [rng.choice("abc") for _ in range(rng.choice([1, 2]))] + [rng.choice(["ctrl-a", "ctrl-a", "ctrl-b"])] + ["ctrl-t", "enter", "ctrl-c"]
            yield "K|%s|%s|%s" % (",".join(opts), ",".join(enc(i) for i in items), " ".join(enc(x) for x in keys))
            continue
        if rng.random() < 0.10:
            # directed: field placeholders under a non-default --delimiter, with and without --with-nth, in an execute binding AND
            # in the preview command (both are expanded by the Model: the same placeholder must name the same field of the
            # ORIGINAL line in both); no query is typed, so the list is the input in input order
            lines = []
            for _ in range(rng.choice([2, 3, 4])):
                lines.append(",".join("".join(rng.choice(["a", "b", "c", "x", " ", "'", ";", "1"]) for _ in range(rng.randint(1, 3))).strip() or "z"
                                      for _ in range(rng.choice([2, 3, 3]))))
            opts = ["d=" + enc(","), "pv=" + enc(rng.choice(["echo PV {2} {}", "echo PV {1} {n} {-1}", "echo PV {2..} {q}"])),
                    "bind=" + enc("f2:execute-silent(%s)" % rng.choice(["echo EX {2} {}", "echo EX {1} {} {-1}", "echo EX {} {n} {2..}"]))]
            if rng.random() < 0.5:
                opts.append("wn=" + enc(rng.choice(["2..", "2", "1,3"])))
            if rng.random() < 0.3:
                opts.append("multi")
            keys = ["ctrl-p"] * rng.choice([0, 1, 2]) + ["f2"] + (["ctrl-p", "f2"] if rng.random() < 0.4 else []) + ["enter", "ctrl-c"]
            yield "K|%s|%s|%s" % (",".join(opts), ",".join(enc(i) for i in lines), " ".join(enc(x) for x in keys))
            continue
        if rng.random() < 0.06:
            # directed: --history (which binds ctrl-p / ctrl-n to the history actions by default) together with a user --bind of
            # ctrl-p or ctrl-n: the user's chain replaces that default as it replaces any other
            k = rng.choice(["ctrl-p", "ctrl-n"])
            opts = ["hist=" + "+".join(enc(rng.choice(WORDS)) for _ in range(rng.randint(1, 3))), "pq"] + \
                   ([] if rng.random() < 0.3 else ["bind=" + enc("%s:%s" % (k, rng.choice(["accept", "accept(h)", "toggle+accept", "abort"])))])
            items = [rng.choice(WORDS) for _ in range(rng.choice([2, 3]))]
            keys = [rng.choice(["ctrl-p", "ctrl-n", k, k]), "enter", "ctrl-c"]
            yield "K|%s|%s|%s" % (",".join(opts), ",".join(enc(i) for i in items), " ".join(enc(x) for x in keys))
            continue
        if rng.random() < 0.06:
            # directed: duplicate lines, several of them selected, accept: every selected ITEM is returned (items are identified by
            # their position in the input, not by their text)
            w = rng.choice(WORDS)
            items = [w, rng.choice(WORDS), w] + ([w] if rng.random() < 0.5 else [])
            opts = ["multi", "bind=" + enc("ctrl-t:" + rng.choice(["select-all+accept", "toggle-all+accept", "select-all"]))]
            keys = ["ctrl-t", "enter", "ctrl-c"]
            yield "K|%s|%s|%s" % (",".join(opts), ",".join(enc(i) for i in items), " ".join(enc(x) for x in keys))
            continue
        if rng.random() < 0.05:
            # directed: one key both bound (--bind) and expected (--expect): pressing it ends the session with an accept naming it
            k = rng.choice(["ctrl-x", "alt-a", "f1"])
            opts = (["multi"] if rng.random() < 0.5 else []) + ["expect=" + enc(rng.choice([k, k + ",f2", "ctrl-t," + k])),
                                                             "bind=" + enc("%s:%s" % (k, rng.choice(["up", "toggle+up", "abort", "down"])))]
            items = [rng.choice(WORDS) for _ in range(rng.choice([2, 3, 5]))]
            keys = (["ctrl-p"] if rng.random() < 0.5 else []) + [k, "enter", "ctrl-c"]
            yield "K|%s|%s|%s" % (",".join(opts), ",".join(enc(i) for i in items), " ".join(enc(x) for x in keys))
            continue
        opts = ["multi"] if rng.random() < 0.6 else []
        if rng.random() < 0.4:
            opts.append("pq")
        if rng.random() < 0.2:
            opts.append("pc")
        expect = None
        if rng.random() < 0.45:
            expect = rng.choice(["ctrl-x", "ctrl-x,alt-a", "alt-a,f1", "f1"])
            opts.append("expect=" + enc(expect))
        bound = None
        if rng.random() < 0.5:
            bound = rng.choice(["ctrl-t", "f2"])
            if expect and rng.random() < 0.3:
                bound = rng.choice(expect.split(","))     # the same key in --bind and in --expect: the expect meaning wins
            opts.append("bind=" + enc("%s:%s" % (bound, rng.choice(CHAINS))))
        if rng.random() < 0.2:
            opts.append("q=" + enc(rng.choice(["a", "b", "ab"])))
        items = [rng.choice(WORDS) + ("" if rng.random() < 0.7 else rng.choice("xyz")) for _ in range(rng.choice([1, 2, 3, 5, 8]))]
        keys = []
        for _ in range(rng.choice([0, 1, 2, 4, 7])):
            r = rng.random()
            if r < 0.3:
                keys.append(rng.choice("abc"))
            elif r < 0.4:
                keys.append("bspace")
            elif r < 0.6:
                keys.append(rng.choice(["ctrl-p", "ctrl-p", "ctrl-n"]))
            elif r < 0.8:
                keys.append(rng.choice(["tab", "btab"]))
            elif r < 0.9 and bound:
                keys.append(bound)
            else:
                keys.append(rng.choice(["ctrl-u", "ctrl-a", "ctrl-e"]))
        enders = ["enter", "enter", "ctrl-c"]
        if expect:
            enders += expect.split(",") * 2
        if bound:
            enders.append(bound)
        keys.append(rng.choice(enders))
        keys.append("enter")        # in case the chosen ender does not end the session (a bound chain without accept)
        keys.append("ctrl-c")
        yield "K|%s|%s|%s" % (",".join(opts), ",".join(enc(i) for i in items), " ".join(enc(k) for k in keys))


def nontrivial(case):
    p = case.split("|")
    return len(p[2].split(",")) >= 2 and len(p[3].split()) >= 4


def histogram_keys(case):
    p = case.split("|")
    ks = ["opt:" + o.split("=")[0] for o in p[1].split(",") if o]
    ks.append("items<=%d" % next(b for b in (1, 2, 3, 5, 8, 99) if len(p[2].split(",")) <= b))
    return ks


def shrink_candidates(case):
    p = case.split("|")
    keys = p[3].split()
    out = []
    for i in range(len(keys) - 3):
        out.append("|".join(p[:3] + [" ".join(keys[:i] + keys[i + 1:])]))
    items = p[2].split(",")
    for i in range(len(items)):
        if len(items) > 1:
            out.append("|".join(p[:2] + [",".join(items[:i] + items[i + 1:]), p[3]]))
    return out


def classify(r):
    return None


def run_one(case, slow=1.0):
    p = case.split("|")
    opts = [o for o in p[1].split(",") if o]
    args = [core.SK_BIN, "--no-sort"]
    histfiles = []
    for o in opts:
        if o == "multi":
            args.append("--multi")
        elif o == "pq":
            args.append("--print-query")
        elif o == "pc":
            args.append("--print-cmd")
        elif o.startswith("expect="):
            args += ["--expect=" + dec(o[7:])]
        elif o.startswith("bind="):
            args += ["--bind=" + dec(o[5:])]
        elif o.startswith("q="):
            args += ["--query=" + dec(o[2:])]
        elif o.startswith("tb="):
            args += ["--tiebreak=" + dec(o[3:])]      # one word: a list that starts with `-length` must not be read as a flag
        elif o == "sort":
            args.remove("--no-sort")
        elif o.startswith("d="):
            args += ["--delimiter=" + dec(o[2:])]
        elif o.startswith("hist="):
            import tempfile as _tf
            hf = _tf.NamedTemporaryFile(prefix="verif-hist-", suffix=".txt", delete=False, mode="w")
            hf.write("".join(dec(e) + "\n" for e in o[5:].split("+") if e))
            hf.close()
            histfiles.append(hf.name)
            args += ["--history", hf.name]
        elif o.startswith("wn="):
            args += ["--with-nth=" + dec(o[3:])]
        elif o.startswith("pv="):
            args += ["--preview", dec(o[3:])]
    items = [dec(t) for t in p[2].split(",") if t]
    keys = [dec(t) for t in p[3].split() if t]
    master, slave = pty.openpty()
    try:
        fcntl.ioctl(slave, termios.TIOCSWINSZ, struct.pack("HHHH", 24, 80, 0, 0))
        r, w = os.pipe()
        # $SHELL is a stand-in that logs the command it is given instead of running it (execute-silent, see tools/logshell.sh)
        import tempfile
        logf = tempfile.NamedTemporaryFile(prefix="verif-exec-", suffix=".log", delete=False)
        logf.close()
        env = dict(os.environ, TERM="xterm-256color", SHELL=os.path.join(core.ROOT, "tools", "logshell.sh"), VERIF_EXEC_LOG=logf.name)
        env.pop("SKIM_DEFAULT_OPTIONS", None)
        proc = subprocess.Popen(args, stdin=r, stdout=subprocess.PIPE, stderr=subprocess.DEVNULL, env=env,
                                preexec_fn=lambda: (os.setsid(), fcntl.ioctl(slave, termios.TIOCSCTTY, 0)), close_fds=False)
        os.close(r)
        try:
            os.write(w, ("\n".join(items) + "\n").encode())
        except OSError:
            pass        # sk closed its input before reading everything (e.g. --select-1 decided, or it refused its arguments): not an error of the harness
        os.close(w)

        def settle(quiet, limit, need_output=False):
            """read the terminal until nothing has been drawn for `quiet` seconds (every event redraws, heart beats
            redraw while reading / matching is in progress, an idle skim draws nothing)"""
            t_end = time.time() + limit
            last = time.time()
            seen = not need_output
            while time.time() < t_end:
                rl, _, _ = select.select([master], [], [], 0.02)
                if rl:
                    try:
                        data = os.read(master, 65536)
                        if data:
                            last = time.time()
                            if b"\x1b[6n" in data:
                                # the terminal layer asks for the cursor position at start-up and swallows whatever is typed
                                # while it waits (300 ms) for the report: answer like a terminal does
                                os.write(master, b"\x1b[1;1R")
                                seen = True
                    except OSError:
                        return
                elif seen and time.time() - last >= quiet:
                    return
        # nothing may be typed before skim has asked for (and received) the cursor position report: keys typed earlier are
        # flushed by the switch to raw mode or swallowed by the wait for the report
        settle(0.25 * slow, 6.0 * slow, need_output=True)
        for k in keys:
            if proc.poll() is not None:
                break
            try:
                os.write(master, key_bytes(k))
            except OSError:
                break
            if k in ("btab", "f1", "f2") or k.startswith("alt-"):
                time.sleep(0.08 * slow)      # multi-byte key sequences: let the terminal layer time out its escape parsing
            settle(0.15 * slow, 3.0 * slow)
        try:
            out, _ = proc.communicate(timeout=10)
            rc = proc.returncode
        except subprocess.TimeoutExpired:
            proc.kill()
            out, rc = b"", "timeout"
        try:
            execs = [l.strip() or "-" for l in open(logf.name).read().split("\n")[:-1]]
        except OSError:
            execs = ["error"]
        # commands of the preview pane (their template starts with `echo PV`) are kept apart: only the LAST one is judged (earlier
        # requests may legitimately have been overtaken)
        pvs = [e for e in execs if e.startswith(b"echo PV".hex())]
        execs = [e for e in execs if not e.startswith(b"echo PV".hex())]
        return "rc=%s out=%s exec=%s pv=%s" % (rc, out.hex(), ",".join(execs) or "_", pvs[-1] if pvs else "_")
    finally:
        for hfn in histfiles:
            try:
                os.unlink(hfn)
            except OSError:
                pass
        try:
            os.unlink(logf.name)
        except (OSError, NameError):
            pass
        for fd in (master, slave):
            try:
                os.close(fd)
            except OSError:
                pass


def python_harness(cases, attempt=0):
    """runs the cases on the real binary (in parallel); attempt > 0 = slower timing"""
    from concurrent.futures import ThreadPoolExecutor
    if not os.path.exists(core.SK_BIN):
        try:
            core.build_sk()
        except core.BuildError:
            return ["error:sk-build-failed"] * len(cases)
    slow = [1.0, 4.0, 8.0][min(attempt, 2)]
    with ThreadPoolExecutor(max_workers=PY_PARALLEL if attempt == 0 else 4) as ex:
        return list(ex.map(lambda c: run_one(c, slow), cases))
