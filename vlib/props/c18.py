"""C18 — query editor vs. reference editor."""
ID = "C18"
EXTRA_PROPS = ["QueryOpsTables"]   # fourteen editing methods + the dispatch of Query::handle as TRANSLATED from src/query.rs = the model (Props/QueryOpsTables.lean)
N_QUICK, N_THOROUGH = 4000, 200000
RULE = ("random initial queries/histories + action sequences (<= 80 actions) over the 20 actions and the alphabet "
        "{a-z 0-9 _-./ blank tab é 中 U+3000}; non-trivial = at least 3 actions of which one kill/yank/history/word action "
        "on a non-empty line; distinct by sha1 of the case line")
ASSUMPTIONS = ["char::is_alphanumeric / is_whitespace agree with the shared classification table on the generated alphabet"]
ALPHA = [ord(c) for c in "abcxyzAB019_-./"] + [32, 32, 32, 9, 0xE9, 0x4E2D, 0x3000]
ACTS = ["del", "bch", "bdel", "bkw", "bw", "bol", "eol", "fch", "fw", "kl", "kw", "ph", "nh", "uld", "uwr", "yank",
        "ti", "ps", "pe"]
HEAVY = {"bkw", "kl", "kw", "ph", "nh", "uld", "uwr", "yank", "bw", "fw"}


def enc(s):
    return ".".join(str(c) for c in s) if s else "-"


def rstr(rng, lo=0, hi=12):
    return [rng.choice(ALPHA) for _ in range(rng.randint(lo, hi))]


def gen(rng, tier, n):
    for i in range(n):
        fz, cmd = rstr(rng), rstr(rng, 0, 6)
        fh = [rstr(rng, 0, 8) for _ in range(rng.randint(0, 3))]
        ch = [rstr(rng, 0, 8) for _ in range(rng.randint(0, 2))]
        inter = rng.randint(0, 3) == 0
        k = rng.choice([3, 8, 20, 40, 80])
        ops = []
        for _ in range(rng.randint(1, k)):
            if rng.random() < 0.35:
                ops.append("add:%d" % rng.choice(ALPHA))
            else:
                ops.append(rng.choice(ACTS))
        yield "%s;%s;%s;%s;%d|%s" % (enc(fz), enc(cmd), ",".join(enc(h) for h in fh) or "_",
                                     ",".join(enc(h) for h in ch) or "_", int(inter), " ".join(ops))


def nontrivial(case):
    ops = case.rsplit("|", 1)[1].split()
    return len(ops) >= 3 and any(o in HEAVY for o in ops)


def histogram_keys(case):
    ops = case.rsplit("|", 1)[1].split()
    ks = ["len<=%d" % b for b in (3, 8, 20, 40, 80) if len(ops) <= b][:1]
    return ks + sorted(set(o.split(":")[0] for o in ops))


def classify(r):
    ops = r["case"].rsplit("|", 1)[1].split()
    if "kl" in ops and "yank" in ops and not ("ph" in ops or "nh" in ops):
        return "C18-killline-yank-reversed"
    if ("ph" in ops or "nh" in ops) and "yank" not in ops:
        return "C18-history-keeps-text-after-cursor"
    return None

TECHNIQUE = "Lean 4 refinement proof (two-stack editor = (line, cursor) reference editor, all 20 actions, all sequences) + action-sequence correspondence against the real Query"
LEVEL_TEXT = ("Theorems c18_refines/c18_run prove, for every action sequence, that the two-stack editor model of query.rs equals a plain "
              "(line, cursor) reference editor; kill/yank, history, paste, independence and motion laws are proved on the reference editor. "
              "The model is tied to the code by running the same action sequences through the real Query (EventHandler::handle) and diffing "
              "text, cursor and mode after every action.")
LEVEL_NOTE = ("Trusted: Lean kernel + propext/Classical.choice/Quot.sound; the hand-written model of query.rs is tied to the code only by the "
              "differential correspondence (generated alphabet with a shared char classification table); char::is_alphanumeric/is_whitespace are parameters.")

TECHNIQUE += " + translator tie: fourteen editing methods and the dispatch of Query::handle translated from src/query.rs into stack programs whose interpretation is proved equal to the model's actions (Props/QueryOpsTables.lean)"
