"""Session-level part of C07 (the Model's wiring of the preview context): real headless Model sessions in interactive mode whose command
template has no replace string, with a preview pane; at the end of every event-loop iteration the command query the Model hands to the
previewer (what `{cq}` expands to) must be the command query as edited (Lean editor model) — used by c07.py's combined run."""
from . import session
from .c01 import histogram_keys, shrink_candidates   # noqa
ID = "C07"
HARNESS_PROP = "C07S"
N_QUICK, N_THOROUGH = 60, 2000
PARALLEL = 16
HARNESS_TIMEOUT = 600
STRICT_MODEL = False
SHRINK_BATCH = 48
SHRINK_ROUNDS = 10
postprocess = session.postprocess
RULE = ("session-level: headless Model sessions, interactive mode with a command template WITHOUT `{}`, a preview pane, command-query edits, "
        "history recall, cursor moves; judged: the command query in the preview context = the command query on the query line")


def gen(rng, tier, n):
    for i in range(n):
        yield session.gen_session(rng, "c07")


def nontrivial(case):
    opts, cmds, order, events, rules = session.parse_case(case)
    return any(e.split(":")[0] in ("add", "bs", "prevh", "nexth") for e in events)


def classify(r):
    return None
